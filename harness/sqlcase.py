"""A correspondence case for the SQL engine: tables + statement (+ params) on both sides."""
import gen_sql
import impl
import proto


import re

_NEG_ZERO = re.compile(r'S"-(0(?:\.0*)?(?:E[+-]?[0-9]+)?)"')


def canon_signed_zero(line):
    """The model's decimals have no signed zero (CPython's `Decimal` has: -1 * 0.000 = -0.000).  The sign of a zero is
    visible only through str(): such strings are compared modulo that sign."""
    return _NEG_ZERO.sub(lambda m: 'S"%s"' % m.group(1), line)


class SqlCase:
    def __init__(self, tables, stmt, params=None, execute=True, name='sql'):
        self.tables = tables          # list of impl.HTable
        self.stmt = stmt              # beanquery AST node or text
        self.params = params
        self.execute = execute
        self.name = name

    def parsed(self):
        if isinstance(self.stmt, str):
            from beanquery import parser
            return parser.parse(self.stmt)
        return self.stmt

    def lines(self, ctx):
        key = tuple(id(t) for t in self.tables)
        setup = []
        if getattr(ctx, '_tables_key', None) != key:
            # every connection has the null table '' (one row, no column): `FROM #`
            setup = ['(cleartables)', proto.enc_table('', [], [()], updatable=False)] + [t.encode() for t in self.tables]
            ctx._tables_key = key
            ctx._tables_keep = self.tables   # keep ids alive
        op = 'select' if self.execute else 'compile'
        return setup + ['(%s %s %s)' % (op, proto.enc_params(self.params), proto.enc_select(self.parsed()))]

    def run_impl(self):
        conn = impl.connection(self.tables)
        return impl.run_select(conn, self.stmt, self.params, self.execute)

    def payload(self):
        return {'tables': [(t.name, [(n, proto.tyname(ty)) for n, ty in t.coldefs], t.rows, t._wildcard) for t in self.tables],
                'stmt': self.stmt, 'params': self.params, 'execute': self.execute}

    @staticmethod
    def from_payload(p):
        tables = [impl.HTable(n, [(c, gen_sql.PYTYPES.get(ty, object)) for c, ty in cols], rows, wc)
                  for n, cols, rows, wc in p['tables']]
        return SqlCase(tables, p['stmt'], p['params'], p.get('execute', True))

    def check(self, ctx, nontrivial=True, meta=None, canon=None):
        try:
            lines = self.lines(ctx)
        except proto.Unencodable:
            ctx.count('unencodable')
            return True
        ctx._tables_key_pending = None
        m = dict(meta or {})
        m.setdefault('stmt', self.stmt if isinstance(self.stmt, str) else lines[-1][:2000])
        if canon is None:
            canon = canon_signed_zero
        else:
            inner = canon
            canon = lambda line: inner(canon_signed_zero(line))  # noqa: E731
        return ctx.check(self.name, lines, self.run_impl, nontrivial=nontrivial, meta=m,
                         payload=self.payload(), canon=canon)


def std_table(rng, name='t', nrows=None, schema=None, null_pct=20, small=False):
    schema = schema or gen_sql.STD_SCHEMA
    if nrows is None:
        nrows = rng.range(0, 8)
    rows = gen_sql.gen_rows(rng, schema, nrows, null_pct, small)
    return impl.HTable(name, [(n, gen_sql.PYTYPES[ty]) for n, ty in schema], rows)


def replay_sql(ctx, body):
    import base64
    import pickle
    p = pickle.loads(base64.b64decode(body['payload_pickle_b64']))
    case = SqlCase.from_payload(p)
    ctx._tables_key = None
    ok = case.check(ctx)
    print('replay: model and implementation %s' % ('agree' if ok else 'DISAGREE'))
    if not ok:
        mm = ctx.mismatches[-1]
        print(' model:', mm.model[:500])
        print(' impl :', mm.impl[:500])
