"""Generated Beancount ledgers (text) loaded through the real Beancount loader."""
import datetime
from decimal import Decimal

from beancount import loader

ACCOUNTS = ['Assets:Bank:Checking', 'Assets:Broker:Cash', 'Assets:Broker:ACME', 'Liabilities:Card', 'Income:Salary',
            'Income:Gains', 'Expenses:Food', 'Expenses:Rent', 'Equity:Opening-Balances', 'Assets:Cash:EUR']
CURRENCIES = ['USD', 'EUR', 'ACME']
PAYEES = ['Grocer', 'Landlord', 'ACME Corp', None, 'Cafe']
NARRATIONS = ['lunch', 'rent', 'salary', 'buy shares', 'sell shares', 'fx', '']
TAGS = ['trip', 'work', 'x-1']
LINKS = ['inv-1', 'inv-2']


def d(y, m, dd):
    return datetime.date(y, m, dd)


def fmt_amount(n, cur):
    return '%s %s' % (format(n, 'f'), cur)


def gen_ledger_text(rng, ntxn=None, with_errors=False, conversions=True):
    """returns beancount source text"""
    ntxn = rng.range(3, 14) if ntxn is None else ntxn
    lines = ['option "title" "Generated"', 'option "operating_currency" "USD"', '']
    start = d(2019, rng.range(1, 12), rng.range(1, 28))
    for cur in CURRENCIES:
        lines.append('%s commodity %s' % (start.isoformat(), cur))
        if rng.chance(1, 2):
            lines.append('  name: "%s name"' % cur)
        if rng.chance(1, 3):
            lines.append('  rank: %d' % rng.range(1, 9))
    for acc in ACCOUNTS:
        extra = ''
        if acc.endswith('EUR'):
            extra = ' EUR'
        lines.append('%s open %s%s' % (start.isoformat(), acc, extra))
        if rng.chance(1, 3):
            lines.append('  owner: "me"')
            lines.append('  limit: %s' % format(Decimal(rng.range(1, 50)) * 100, 'f'))
    lines.append('')
    date = start
    lots = []   # (units, cost, date) held in Assets:Broker:ACME
    prices = {'ACME': Decimal('10'), 'EUR': Decimal('1.10')}
    for k in range(ntxn):
        date = date + datetime.timedelta(days=rng.range(0, 40))
        kind = rng.weighted([('expense', 5), ('salary', 2), ('buy', 2), ('sell', 1), ('fx', 1), ('price', 2),
                             ('note', 1), ('event', 1), ('document', 1), ('padbal', 1), ('three', 2), ('same', 2)])
        if kind == 'fx' and not conversions:
            kind = 'expense'
        if kind == 'price':
            cur = rng.choice(['ACME', 'EUR'])
            prices[cur] = prices[cur] + Decimal(rng.range(-20, 30)) / 10
            if prices[cur] <= 0:
                prices[cur] = Decimal('0.5')
            # every other quoted price carries a third decimal (market values with more digits than the display precision)
            quoted = prices[cur] + (Decimal('0.003') if k % 2 == 0 else 0)
            lines.append('%s price %s %s' % (date.isoformat(), cur, fmt_amount(quoted, 'USD')))
            if k % 3 == 0:
                # a second quotation of the same pair on the same day (opening and closing quotes)
                lines.append('%s price %s %s' % (date.isoformat(), cur, fmt_amount(quoted + Decimal('0.25'), 'USD')))
            continue
        if kind == 'note':
            lines.append('%s note %s "a note %d"' % (date.isoformat(), rng.choice(ACCOUNTS), k))
            continue
        if kind == 'event':
            lines.append('%s event "location" "place %d"' % (date.isoformat(), rng.range(1, 3)))
            continue
        if kind == 'document':
            lines.append('%s document %s "/tmp/doc%d.pdf"' % (date.isoformat(), rng.choice(ACCOUNTS), k))
            continue
        if kind == 'padbal':
            lines.append('%s pad Assets:Cash:EUR Equity:Opening-Balances' % date.isoformat())
            date = date + datetime.timedelta(days=1)
            lines.append('%s balance Assets:Cash:EUR %s' % (date.isoformat(), fmt_amount(Decimal(rng.range(10, 500)), 'EUR')))
            continue
        flag = rng.choice(['*', '*', '!'])
        payee = rng.choice(PAYEES)
        narr = rng.choice(NARRATIONS)
        head = '%s %s ' % (date.isoformat(), flag)
        if payee is not None:
            head += '"%s" ' % payee
        head += '"%s"' % narr
        for t in TAGS:
            if rng.chance(1, 5):
                head += ' #' + t
        for l in LINKS:
            if rng.chance(1, 6):
                head += ' ^' + l
        lines.append(head)
        if rng.chance(1, 3):
            lines.append('  category: "%s"' % rng.choice(['a', 'b']))
        if rng.chance(1, 5):
            lines.append('  ref: %d' % rng.range(1, 99))
        if rng.chance(1, 6):
            lines.append('  when: %s' % d(2020, rng.range(1, 12), rng.range(1, 28)).isoformat())
        if rng.chance(1, 8):
            lines.append('  flagged: TRUE')

        def posting(acc, amount=None, extra='', meta=None, flag=flag):
            # some postings carry a flag of their own, different from the transaction's (chosen without drawing random numbers)
            pf = ''
            if (len(lines) * 7 + k) % 11 == 0:
                pf = '! ' if flag == '*' else '* '
            s = '  %s%s' % (pf, acc)
            if amount is not None:
                s += '  ' + amount
            s += extra
            lines.append(s)
            for mk, mv in (meta or {}).items():
                lines.append('    %s: %s' % (mk, mv))

        pmeta = {'note': '"p%d"' % k} if rng.chance(1, 4) else None
        if kind == 'expense':
            amt = Decimal(rng.range(100, 9999)) / 100
            posting(rng.choice(['Expenses:Food', 'Expenses:Rent']), fmt_amount(amt, 'USD'), meta=pmeta)
            posting(rng.choice(['Assets:Bank:Checking', 'Liabilities:Card']))
        elif kind == 'three':
            a1 = Decimal(rng.range(100, 5000)) / 100
            a2 = Decimal(rng.range(100, 5000)) / 100
            posting('Expenses:Food', fmt_amount(a1, 'USD'), meta=pmeta)
            posting('Expenses:Rent', fmt_amount(a2, 'USD'))
            posting('Assets:Bank:Checking', fmt_amount(-(a1 + a2), 'USD'))
        elif kind == 'same':
            # two postings on one account (siblings sharing the account) and two lots bought in one transaction
            a1 = Decimal(rng.range(100, 5000)) / 100
            a2 = Decimal(rng.range(100, 5000)) / 100
            posting('Expenses:Food', fmt_amount(a1, 'USD'), meta=pmeta)
            posting('Expenses:Food', fmt_amount(a2, 'USD'))
            if rng.chance(1, 2):
                n = Decimal(rng.range(1, 9))
                cost = prices['ACME']
                lots.append([n, cost, date])
                posting('Assets:Broker:ACME', fmt_amount(n, 'ACME'), ' {%s}' % fmt_amount(cost, 'USD'))
                posting('Assets:Bank:Checking', fmt_amount(-(n * cost), 'USD'))
            posting('Assets:Bank:Checking', fmt_amount(-(a1 + a2), 'USD'))
        elif kind == 'salary':
            amt = Decimal(rng.range(1000, 5000))
            posting('Assets:Bank:Checking', fmt_amount(amt, 'USD'), meta=pmeta)
            posting('Income:Salary', fmt_amount(-amt, 'USD'))
        elif kind == 'buy':
            n = Decimal(rng.range(1, 20))
            cost = prices['ACME']
            lots.append([n, cost, date])
            posting('Assets:Broker:ACME', fmt_amount(n, 'ACME'), ' {%s}' % fmt_amount(cost, 'USD'), meta=pmeta)
            posting('Assets:Bank:Checking', fmt_amount(-(n * cost), 'USD'))
        elif kind == 'sell':
            if not lots:
                amt = Decimal(rng.range(100, 999)) / 100
                posting('Expenses:Food', fmt_amount(amt, 'USD'))
                posting('Assets:Bank:Checking')
            else:
                lot = rng.choice(lots)
                n = Decimal(rng.range(1, int(lot[0])))
                lot[0] -= n
                if lot[0] == 0:
                    lots.remove(lot)
                price = prices['ACME']
                posting('Assets:Broker:ACME', fmt_amount(-n, 'ACME'),
                        (' {%s, %s} @ %s' % (fmt_amount(lot[1], 'USD'), lot[2].isoformat(), fmt_amount(price, 'USD')))
                        if conversions else (' {%s, %s}' % (fmt_amount(lot[1], 'USD'), lot[2].isoformat())))
                posting('Assets:Bank:Checking', fmt_amount(n * price, 'USD'))
                posting('Income:Gains')
        elif kind == 'fx':
            n = Decimal(rng.range(10, 300))
            rate = prices['EUR']
            posting('Assets:Cash:EUR', fmt_amount(n, 'EUR'), ' @ %s' % fmt_amount(rate, 'USD'))
            posting('Assets:Bank:Checking', fmt_amount(-(n * rate), 'USD'))
        lines.append('')
    if rng.chance(1, 3):
        date = date + datetime.timedelta(days=3)
        lines.append('%s close Liabilities:Card' % date.isoformat())
    lines.append('%s query "bal" "SELECT account, sum(position) GROUP BY 1 ORDER BY 1"' % date.isoformat())
    lines.append('%s query "food" "SELECT date, position FROM year >= 2019 WHERE account ~ \'Food\'"' % date.isoformat())
    closed = start + datetime.timedelta(days=rng.range(20, 200))
    lines.append('%s query "closed" "SELECT date, account, position FROM year >= 2019 CLOSE ON %s WHERE number > 0"' % (
        date.isoformat(), closed.isoformat()))
    lines.append('%s query "closedbare" "SELECT count(*) AS n FROM OPEN ON %s CLOSE"' % (date.isoformat(), closed.isoformat()))
    if with_errors:
        lines.append('%s * "unbalanced"' % date.isoformat())
        lines.append('  Expenses:Food  10 USD')
        lines.append('  Assets:Bank:Checking  -9 USD')
    return '\n'.join(lines) + '\n'


_CACHE = {}


def load(text):
    if text not in _CACHE:
        if len(_CACHE) > 200:
            _CACHE.clear()
        _CACHE[text] = loader.load_string(text)
    return _CACHE[text]


def gen_ledger(rng, **kw):
    """returns (text, entries, errors, options)"""
    text = gen_ledger_text(rng, **kw)
    entries, errors, options = load(text)
    return text, entries, errors, options


def connect(entries, errors, options):
    import beanquery
    return beanquery.connect('beancount:', entries=entries, errors=errors, options=options)


def entries_snapshot(entries):
    """a deep, comparison-friendly image of the directives including entry and posting metadata"""
    from beancount.core import data
    out = []
    for e in entries:
        fields = []
        for f in e._fields:
            v = getattr(e, f)
            if f == 'meta':
                v = sorted((k, repr(x)) for k, x in (v or {}).items())
            elif f == 'postings':
                v = [(p.account, repr(p.units), repr(p.cost), repr(p.price), p.flag,
                      None if p.meta is None else sorted((k, repr(x)) for k, x in p.meta.items())) for p in v]
            else:
                v = repr(v)
            fields.append((f, v))
        out.append((type(e).__name__, fields))
    return out
