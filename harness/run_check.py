#!/venv/bin/python
"""Decision procedure of every check (DESIGN.md §2.3).

  run_check.py <ID> --tier quick|thorough [--replay PATH]

1. regenerate Generated/*.lean from /repo's working tree     (translator G)
2. re-check the proofs:  lake build BqlVerif.Properties.<ID> bqldriver
3. audit: forbidden tokens, `#print axioms` of every property theorem
4. correspondence: model driver vs implementation on generated inputs (B)
5. verdict, known findings, replay files
6. evidence/<ID>.json
"""
import argparse
import base64
import hashlib
import importlib
import json
import os
import pickle
import re
import subprocess
import sys
import time
import traceback

HERE = os.path.dirname(os.path.abspath(__file__))
VERIF = os.path.dirname(HERE)
LEAN = os.path.join(VERIF, 'lean')
sys.path.insert(0, HERE)
REPO = os.environ.get('VERIF_REPO', '/repo')
if REPO not in sys.path:
    sys.path.insert(0, REPO)

ALLOWED_AXIOMS = {'propext', 'Classical.choice', 'Quot.sound'}
FORBIDDEN = re.compile(r'\b(sorry|admit|native_decide|bv_decide|implemented_by)\b|^\s*axiom\s|\bunsafe\s|maxHeartbeats\s+0')

TRUSTED_BASE = [
    'Lean 4.33.0 kernel; axioms allowed: propext, Classical.choice, Quot.sound (audited by #print axioms each run)',
    'translator harness/gen_tables.py (live registries -> Generated/*.lean)',
    'correspondence harness (generators bound what is seen) and the compiled model driver',
    'CPython/stdlib/dateutil/Beancount semantics are modelled, validated by correspondence only',
]


class Infra(Exception):
    """Harness / build infrastructure failure: exit 2, never a violation."""


def sh(cmd, cwd=None, timeout=1800):
    p = subprocess.run(cmd, cwd=cwd, stdout=subprocess.PIPE, stderr=subprocess.STDOUT, text=True, timeout=timeout)
    return p.returncode, p.stdout


def strip_comments(src):
    # remove /- ... -/ (nested) and -- comments
    out = []
    i, depth, n = 0, 0, len(src)
    while i < n:
        if src.startswith('/-', i):
            depth += 1
            i += 2
        elif depth and src.startswith('-/', i):
            depth -= 1
            i += 2
        elif depth:
            if src[i] == '\n':
                out.append('\n')
            i += 1
        elif src.startswith('--', i):
            while i < n and src[i] != '\n':
                i += 1
        else:
            out.append(src[i])
            i += 1
    return ''.join(out)


def lean_sources():
    for root, _, files in os.walk(os.path.join(LEAN, 'BqlVerif')):
        for f in files:
            if f.endswith('.lean'):
                yield os.path.join(root, f)
    for root, _, files in os.walk(os.path.join(LEAN, 'Driver')):
        for f in files:
            if f.endswith('.lean'):
                yield os.path.join(root, f)


def audit_tokens():
    hits = []
    for path in lean_sources():
        src = strip_comments(open(path, encoding='utf-8').read())
        for ln, line in enumerate(src.split('\n'), 1):
            if FORBIDDEN.search(line):
                hits.append('%s:%d: %s' % (os.path.relpath(path, VERIF), ln, line.strip()[:120]))
    return hits


def property_theorems(pid):
    path = os.path.join(LEAN, 'BqlVerif', 'Properties', pid + '.lean')
    src = strip_comments(open(path, encoding='utf-8').read())
    ns = re.findall(r'^namespace\s+(\S+)', src, re.M)
    names = re.findall(r'^theorem\s+([^\s(:{\[]+)', src, re.M)
    prefix = (ns[0] + '.') if ns else ''
    return [prefix + n for n in names]


def audit_axioms(pid, theorems):
    """Run `#print axioms` for every property theorem; return (ok, report, bad)."""
    d = os.path.join(LEAN, '.lake', 'audit')
    os.makedirs(d, exist_ok=True)
    path = os.path.join(d, 'Audit_%s.lean' % pid)
    with open(path, 'w') as f:
        f.write('import BqlVerif.Properties.%s\n' % pid)
        for t in theorems:
            f.write('#print axioms %s\n' % t)
    rc, out = sh(['lake', 'env', 'lean', path], cwd=LEAN, timeout=900)
    report = {}
    bad = []
    cur = None
    text = out.replace('\n', ' ')
    for m in re.finditer(r"'([^']+)' (does not depend on any axioms|depends on axioms: \[([^\]]*)\])", text):
        name = m.group(1)
        axs = [a.strip() for a in (m.group(3) or '').split(',') if a.strip()]
        report[name] = axs
        for a in axs:
            if a not in ALLOWED_AXIOMS:
                bad.append('%s uses axiom %s' % (name, a))
    missing = [t for t in theorems if t not in report]
    if rc != 0 or missing:
        bad.append('axiom audit incomplete (rc=%d): missing %s; output: %s' % (rc, missing[:5], out[-600:]))
    return report, bad


class Mismatch:
    def __init__(self, name, lines, model, impl, meta, payload):
        self.name = name
        self.lines = lines
        self.model = model
        self.impl = impl
        self.meta = meta
        self.payload = payload


class Ctx:
    def __init__(self, pid, tier, seed, facts, drv):
        from prng import Rng
        self.pid = pid
        self.tier = tier
        self.seed = seed
        self.facts = facts
        self.drv = drv
        self.rng = Rng(seed * 1000003 + int(pid[1:]))
        self.evaluations = 0
        self.skipped = 0
        self.nontrivial_hashes = set()
        self.samples = []
        self.mismatches = []
        self.histogram = {}
        self.t0 = time.time()
        self.max_mismatches = 25
        # time budget of the generating layers (the concurrency check needs longer for its fixed pairs x schedules)
        quick_budget = {'C20': '130'}.get(pid, '75')
        self.budget_s = float(os.environ.get('VERIF_BUDGET_S', '600' if tier == 'thorough' else quick_budget))
        self.notes = []

    def thorough(self):
        return self.tier == 'thorough'

    def count(self, key, n=1):
        self.histogram[key] = self.histogram.get(key, 0) + n

    def elapsed(self):
        return time.time() - self.t0

    def out_of_time(self):
        return self.elapsed() > self.budget_s

    def stop(self):
        """stop generating: enough mismatches collected, or the time budget of the tier is used up"""
        return len(self.mismatches) >= self.max_mismatches or self.out_of_time()

    def model(self, lines):
        """Send setup lines (expect ok) then return the answer to the last line."""
        for ln in lines[:-1]:
            r = self.drv.ask(ln)
            if r != 'ok':
                raise Infra('model driver rejected setup line: %s -> %s' % (ln[:200], r))
        return self.drv.ask(lines[-1])

    def check(self, name, lines, impl_fn, nontrivial=True, meta=None, payload=None, canon=None):
        """One correspondence case.  Returns True when model and implementation agree."""
        m = self.model(lines)
        if m in ('bad-op', 'bad-sexp', 'bad-table'):
            raise Infra('protocol error on %s: %s' % (lines[-1][:300], m))
        if 'unmodelled' in m or m == 'ERR fuel':
            self.skipped += 1
            self.count('outside-model')
            return True
        r = impl_fn()
        if canon is not None:
            m, r = canon(m), canon(r)
        self.evaluations += 1
        h = hashlib.sha1(('\n'.join(lines)).encode()).hexdigest()
        if nontrivial:
            self.nontrivial_hashes.add(h)
        if len(self.samples) < 6 and (self.evaluations % 97 == 1):
            self.samples.append({'case': name, 'input': lines[-1][:400], 'result': r[:200]})
        if m == r:
            return True
        self.mismatches.append(Mismatch(name, lines, m, r, meta or {}, payload))
        return False

    def record_violation(self, name, detail, payload=None, meta=None):
        """A property-level oracle failure found directly on the implementation."""
        self.mismatches.append(Mismatch(name, [], 'oracle', detail, meta or {}, payload))


def load_known(pid):
    path = os.path.join(VERIF, 'known_findings.json')
    try:
        data = json.load(open(path))
    except FileNotFoundError:
        return []
    return [k for k in data.get('findings', []) if k.get('property') == pid]


def write_replay(pid, idx, body):
    d = os.path.join(VERIF, 'replays', pid)
    os.makedirs(d, exist_ok=True)
    path = os.path.join(d, 'violation_%d.json' % idx)
    with open(path, 'w') as f:
        json.dump(body, f, indent=1, default=str)
    return path


def main():
    ap = argparse.ArgumentParser()
    ap.add_argument('pid')
    ap.add_argument('--tier', default=os.environ.get('VERIF_TIER', 'quick'))
    ap.add_argument('--replay')
    args = ap.parse_args()
    pid = args.pid
    tier = args.tier if args.tier in ('quick', 'thorough') else 'quick'
    seed = int(os.environ.get('VERIF_SEED', '0') or 0)
    t0 = time.time()
    # development runs against a copy (VERIF_REPO) never touch the committed evidence
    evidence_path = os.path.join(VERIF, 'evidence-dev' if 'VERIF_REPO' in os.environ else 'evidence', pid + '.json')
    os.makedirs(os.path.dirname(evidence_path), exist_ok=True)

    try:
        rc = run(pid, tier, seed, args.replay, t0, evidence_path)
    except Infra as exc:
        print('INFRA-FAILURE property=%s %s' % (pid, exc))
        sys.exit(2)
    except subprocess.TimeoutExpired as exc:
        print('INFRA-FAILURE property=%s timeout %s' % (pid, exc))
        sys.exit(2)
    except Exception:  # noqa: BLE001
        traceback.print_exc()
        print('INFRA-FAILURE property=%s unexpected harness exception' % pid)
        sys.exit(2)
    sys.exit(rc)


def run(pid, tier, seed, replay, t0, evidence_path):
    # ---- 1. translator -----------------------------------------------------
    try:
        import gen_tables
        facts, changed = gen_tables.generate()
    except Exception as exc:  # noqa: BLE001
        raise Infra('translator failed (does /repo import?): %r' % (exc,))
    golden_diffs = gen_tables.diff_against_golden(facts)

    prop = importlib.import_module('props.' + pid.lower())

    # ---- 2. proofs -----------------------------------------------------------
    targets = ['BqlVerif.Properties.%s' % pid, 'bqldriver']
    rc, out = sh(['lake', 'build'] + targets, cwd=LEAN, timeout=3000)
    proof_errors = []
    if rc != 0:
        for m in re.finditer(r'error: ([^\n]*\.lean):(\d+):(\d+): ([^\n]*)', out):
            proof_errors.append({'file': m.group(1), 'line': int(m.group(2)), 'msg': m.group(4)[:300]})
        if not proof_errors:
            raise Infra('lake build failed without a Lean error:\n' + out[-1500:])
        # the driver must still exist for the failing-input search
        rc2, out2 = sh(['lake', 'build', 'bqldriver'], cwd=LEAN, timeout=3000)
        if rc2 != 0:
            raise Infra('model driver does not build:\n' + out2[-1500:])
    theorems = property_theorems(pid)

    # ---- 3. audit -------------------------------------------------------------
    token_hits = audit_tokens()
    ax_report, ax_bad = ({}, [])
    if not proof_errors:
        ax_report, ax_bad = audit_axioms(pid, theorems)
    if token_hits or ax_bad:
        raise Infra('audit failed: %s %s' % (token_hits[:5], ax_bad[:5]))
    # thorough tier: independent re-check of the compiled property module by leanchecker
    leanchecker = None
    if tier == 'thorough' and not proof_errors and not replay and os.environ.get('VERIF_LEANCHECKER', '1') != '0':
        t1 = time.time()
        rc3, out3 = sh(['lake', 'env', 'leanchecker', 'BqlVerif.Properties.%s' % pid], cwd=LEAN, timeout=1500)
        leanchecker = {'module': 'BqlVerif.Properties.%s' % pid, 'exit': rc3, 'wall_s': round(time.time() - t1, 1),
                       'output_tail': out3[-300:]}
        if rc3 != 0:
            raise Infra('leanchecker rejected the compiled property module:\n' + out3[-1500:])

    # ---- 4. correspondence ----------------------------------------------------
    import driver as drvmod
    drv = drvmod.Driver()
    search_tier = 'thorough' if proof_errors else tier
    ctx = Ctx(pid, search_tier, seed, facts, drv)
    ctx.golden_diffs = golden_diffs
    harness_exc = None
    try:
        if replay:
            body = json.load(open(replay))
            prop.replay(ctx, body)
        else:
            try:
                prop.run(ctx)
            except (Infra, subprocess.TimeoutExpired, BrokenPipeError, KeyboardInterrupt):
                raise
            except Exception:  # noqa: BLE001
                # the implementation behaved in a way the correspondence harness cannot digest (a result without a
                # description, a value of an unknown kind, ...): the correspondence is broken, which is reported below -
                # with the concrete inputs recorded so far, or as no-failing-input-found
                harness_exc = traceback.format_exc()
                if 'model driver died' in harness_exc:
                    raise       # infrastructure (the driver process)
    finally:
        drv.close()

    # ---- 5. verdict -----------------------------------------------------------
    rdir = os.path.join(VERIF, 'replays', pid)
    if os.path.isdir(rdir) and not replay:
        for f in os.listdir(rdir):
            if f.startswith('violation_'):
                os.remove(os.path.join(rdir, f))
    known = load_known(pid)
    violations = []
    known_hit = {}
    for mm in ctx.mismatches:
        sig = prop.signature(mm) if hasattr(prop, 'signature') else mm.name
        k = next((k for k in known if sig == k.get('signature') or sig in k.get('signatures', [])), None)
        if k is not None:
            known_hit.setdefault(k['id'], k)
            continue
        violations.append((sig, mm))

    for k in known:
        # a listed finding is reported on every run (it is re-exhibited by the corpus case of the check)
        print('KNOWN-FINDING: property=%s %s [%s]%s' % (pid, k['description'], k['id'],
                                                       '' if k['id'] in known_hit else ' (not re-exhibited in this run)'))

    exit_code = 0
    nviol = 0
    seen_sigs = set()
    for sig, mm in violations:
        if sig in seen_sigs:
            continue
        seen_sigs.add(sig)
        nviol += 1
        body = {'property': pid, 'signature': sig, 'case': mm.name, 'protocol_lines': mm.lines,
                'model_output': mm.model, 'implementation_output': mm.impl, 'meta': mm.meta,
                'seed': seed, 'tier': tier,
                'payload_pickle_b64': base64.b64encode(pickle.dumps(mm.payload)).decode() if mm.payload is not None else None,
                'replay_cmd': './check %s --replay <this file>' % pid}
        path = write_replay(pid, nviol, body)
        print('VIOLATION property=%s replay=%s' % (pid, path))
        exit_code = 1
        if nviol >= 5:
            break

    if harness_exc and exit_code == 0:
        body = {'property': pid, 'kind': 'correspondence-no-longer-checks', 'harness_exception': harness_exc[-4000:],
                'searched': {'tier': search_tier, 'evaluations': ctx.evaluations, 'seed': seed},
                'note': 'the correspondence harness could not process what the implementation returned; no concrete failing input '
                        'was recorded before that'}
        path = write_replay(pid, 0, body)
        print('VIOLATION property=%s replay=%s no-failing-input-found' % (pid, path))
        exit_code = 1
        nviol += 1

    if proof_errors and exit_code == 0:
        body = {'property': pid, 'kind': 'proof-obligation-no-longer-checks', 'errors': proof_errors,
                'generated_facts_diff_vs_golden': golden_diffs[:50],
                'searched': {'tier': search_tier, 'evaluations': ctx.evaluations, 'seed': seed},
                'note': 'no concrete failing input was found by the correspondence search'}
        path = write_replay(pid, 0, body)
        print('VIOLATION property=%s replay=%s no-failing-input-found' % (pid, path))
        exit_code = 1
        nviol += 1

    # ---- 6. evidence -----------------------------------------------------------
    obligations = len(theorems) + (getattr(prop, 'EXTRA_OBLIGATIONS', 0))
    discharged = 0 if proof_errors else obligations
    samples = ctx.samples[:6] or [{'note': 'no sample recorded'}]
    ev = {
        'property_id': pid, 'tier': tier, 'seed': seed, 'level': 'proof',
        'coverage': {
            'obligations': max(obligations, 1), 'discharged': max(discharged, 0 if proof_errors else 1),
            'checker_cmd': 'cd lean && lake build BqlVerif.Properties.%s && lake env lean .lake/audit/Audit_%s.lean' % (pid, pid),
            'trusted_base': TRUSTED_BASE + list(getattr(prop, 'TRUSTED', [])),
            'theorems': theorems, 'axioms': ax_report,
            'evaluations': ctx.evaluations, 'distinct_nontrivial': len(ctx.nontrivial_hashes),
            'rule': getattr(prop, 'RULE', 'distinct protocol inputs; non-trivial per the property module'),
            'samples': samples, 'outside_model_skipped': ctx.skipped, 'histogram': ctx.histogram,
            'generated_facts_changed_vs_golden': golden_diffs[:20],
            'proof_errors': proof_errors, 'harness_exception': (harness_exc or '')[-1500:] or None, 'known_findings_reexhibited': sorted(known_hit),
            'notes': ctx.notes, 'leanchecker': leanchecker,
        },
        'assumptions': list(getattr(prop, 'ASSUMPTIONS', [])),
        'wall_s': round(time.time() - t0, 2), 'violations': nviol,
    }
    with open(evidence_path, 'w') as f:
        json.dump(ev, f, indent=1, default=str)
    print('property=%s tier=%s seed=%d theorems=%d evaluations=%d distinct_nontrivial=%d skipped=%d wall=%.1fs exit=%d'
          % (pid, tier, seed, len(theorems), ctx.evaluations, len(ctx.nontrivial_hashes), ctx.skipped,
             time.time() - t0, exit_code))
    return exit_code


if __name__ == '__main__':
    main()
