"""Model driver process: feed protocol lines, read one result line per input line."""
import os
import subprocess

HERE = os.path.dirname(os.path.abspath(__file__))
VERIF = os.path.dirname(HERE)
LEAN_DIR = os.path.join(VERIF, 'lean')
DRIVER = os.path.join(LEAN_DIR, '.lake', 'build', 'bin', 'bqldriver')


class Driver:
    def __init__(self):
        self.proc = subprocess.Popen([DRIVER], stdin=subprocess.PIPE, stdout=subprocess.PIPE,
                                     text=True, bufsize=1 << 20, encoding='utf-8')

    def ask(self, line):
        assert '\n' not in line
        self.proc.stdin.write(line + '\n')
        self.proc.stdin.flush()
        out = self.proc.stdout.readline()
        if not out:
            raise RuntimeError('model driver died on: ' + line[:200])
        return out.rstrip('\n')

    def ask_many(self, lines):
        """Batch: a reader thread collects one result line per input line while we write."""
        import threading
        res = []
        err = []

        def reader():
            try:
                for _ in lines:
                    out = self.proc.stdout.readline()
                    if not out:
                        err.append('model driver died')
                        return
                    res.append(out.rstrip('\n'))
            except Exception as exc:  # pragma: no cover
                err.append(repr(exc))
        th = threading.Thread(target=reader)
        th.start()
        try:
            for line in lines:
                assert '\n' not in line
                self.proc.stdin.write(line + '\n')
            self.proc.stdin.flush()
        except BrokenPipeError:
            err.append('broken pipe')
        th.join()
        if err:
            raise RuntimeError(err[0])
        return res

    def close(self):
        try:
            self.proc.stdin.close()
            self.proc.wait(timeout=10)
        except Exception:
            self.proc.kill()
