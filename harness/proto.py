"""Line protocol: S-expression encoding of values / statements, canonical result strings."""
import datetime
import decimal

from dateutil.relativedelta import relativedelta


def q(s):
    out = ['"']
    for ch in s:
        if ch == '"':
            out.append('\\"')
        elif ch == '\\':
            out.append('\\\\')
        elif ch == '\n':
            out.append('\\n')
        elif ord(ch) < 32 or ord(ch) > 126:
            if ord(ch) > 0xFFFF:
                raise ValueError('non-BMP character in protocol string')
            out.append('\\u%04x' % ord(ch))
        else:
            out.append(ch)
    out.append('"')
    return ''.join(out)


class Opaque:
    """Registry giving opaque objects per-case ids by first occurrence."""
    def __init__(self):
        self.ids = {}

    def id_of(self, obj):
        k = id(obj)
        if k not in self.ids:
            self.ids[k] = len(self.ids)
        return self.ids[k]


class Content(Opaque):
    """Renders Beancount values (inventories, positions, amounts, costs, metadata dicts) by content, not identity:
    for comparing implementation results with implementation results."""
    def text_of(self, v):
        try:
            from beancount.core import amount, inventory, position
        except Exception:  # noqa: BLE001
            return None
        if isinstance(v, inventory.Inventory):
            return 'Inv<' + '; '.join(sorted(str(p) for p in v)) + '>'
        if isinstance(v, (position.Position, amount.Amount, position.Cost)):
            return type(v).__name__ + '<' + str(v) + '>'
        if isinstance(v, dict):
            return 'Dict<' + repr(sorted((str(k), str(x)) for k, x in v.items())) + '>'
        return None


def dec_parts(d):
    sign, digits, exp = d.as_tuple()
    if not isinstance(exp, int):
        raise ValueError('non-finite decimal')
    coef = int(''.join(map(str, digits))) if digits else 0
    if sign and coef:
        coef = -coef
    return coef, exp


def enc_value(v, opaque=None):
    if v is None:
        return 'null'
    if v is True:
        return '(b 1)'
    if v is False:
        return '(b 0)'
    if isinstance(v, int):
        return '(i %d)' % v
    if isinstance(v, decimal.Decimal):
        return '(d %d %d)' % dec_parts(v)
    if isinstance(v, str):
        return '(s %s)' % q(v)
    if isinstance(v, datetime.date) and not isinstance(v, datetime.datetime):
        return '(t %d %d %d)' % (v.year, v.month, v.day)
    if isinstance(v, (list, tuple)):
        return '(l' + ''.join(' ' + enc_value(x, opaque) for x in v) + ')'
    if isinstance(v, (set, frozenset)):
        items = sorted((enc_value(x, opaque) for x in v))
        return '(z' + ''.join(' ' + x for x in items) + ')'
    if isinstance(v, relativedelta):
        return '(r %d %d %d)' % (v.years, v.months, v.days)
    if opaque is None:
        raise ValueError('cannot encode %r' % (v,))
    return '(o %s %d)' % (q(type(v).__name__), opaque.id_of(v))


def show_value(v, opaque=None):
    """Canonical result rendering; must agree with Lean `Value.show`."""
    if v is None:
        return 'N'
    if v is True:
        return 'B1'
    if v is False:
        return 'B0'
    if isinstance(v, int):
        return 'I%d' % v
    if isinstance(v, decimal.Decimal):
        return 'D%de%d' % dec_parts(v)
    if isinstance(v, str):
        return 'S' + q_show(v)
    if isinstance(v, datetime.date) and not isinstance(v, datetime.datetime):
        return 'T%04d-%02d-%02d' % (v.year, v.month, v.day)
    if isinstance(v, (list, tuple)):
        return 'L[' + ' '.join(show_value(x, opaque) for x in v) + ']'
    if isinstance(v, (set, frozenset)):
        return 'Z[' + ' '.join(sorted(show_value(x, opaque) for x in v)) + ']'
    if isinstance(v, relativedelta):
        return 'R%d,%d,%d' % (v.years, v.months, v.days)
    if opaque is None:
        return 'O%s#?' % type(v).__name__
    if hasattr(opaque, 'text_of'):
        t = opaque.text_of(v)
        if t is not None:
            return t
    return 'O%s#%d' % (type(v).__name__, opaque.id_of(v))


def q_show(s):
    out = ['"']
    for ch in s:
        if ch == '"':
            out.append('\\"')
        elif ch == '\\':
            out.append('\\\\')
        elif ch == '\n':
            out.append('\\n')
        else:
            out.append(ch)
    out.append('"')
    return ''.join(out)


def show_row(row, opaque=None):
    return '(' + ' '.join(show_value(v, opaque) for v in row) + ')'


def tyname(t):
    from beanquery import types
    if t is types.Any:
        return 'any'
    if t is types.Asterisk:
        return '*'
    return getattr(t, '__name__', repr(t))


def show_desc(desc):
    if desc is None:
        return 'None'
    return '[' + ' '.join('%s:%s' % (q_show(c.name), tyname(c.datatype)) for c in desc) + ']'


def show_result(desc, rows, opaque=None):
    return 'OK desc=' + show_desc(desc) + ' rows=[' + ''.join(show_row(r, opaque) for r in rows) + ']'


# ---------------------------------------------------------------------------
# beanquery AST -> protocol S-expression

_UN = {'Not': 'not', 'Neg': 'neg', 'IsNull': 'isnull', 'IsNotNull': 'isnotnull'}
_BIN = {'Equal': 'eq', 'NotEqual': 'ne', 'Greater': 'gt', 'GreaterEq': 'ge', 'Less': 'lt', 'LessEq': 'le',
        'Match': 'match', 'NotMatch': 'notmatch', 'In': 'in', 'NotIn': 'notin', 'Add': 'add', 'Sub': 'sub',
        'Mul': 'mul', 'Div': 'div', 'Mod': 'mod'}


class Unencodable(Exception):
    pass


def enc_expr(node):
    from beanquery.parser import ast
    if isinstance(node, ast.Column):
        return '(col %s)' % q(node.name)
    if isinstance(node, ast.Constant):
        return '(const %s)' % enc_value(node.value)
    if isinstance(node, ast.Placeholder):
        pos = node.parseinfo.pos if node.parseinfo is not None else 0
        name = node.name
        if isinstance(name, int) and not isinstance(name, bool):
            # already numbered by a previous compilation: the model sees what the code sees
            raise Unencodable('numbered placeholder')
        return '(ph %s %d)' % ('nil' if not name else q(name), pos)
    if isinstance(node, ast.Asterisk):
        return 'star'
    if isinstance(node, ast.Function):
        return '(func %s%s)' % (q(node.fname), ''.join(' ' + enc_expr(a) for a in node.operands))
    if isinstance(node, ast.Attribute):
        return '(attr %s %s)' % (enc_expr(node.operand), q(node.name))
    if isinstance(node, ast.Subscript):
        return '(subscript %s %s)' % (enc_expr(node.operand), q(node.key))
    if isinstance(node, ast.Between):
        return '(between %s %s %s)' % (enc_expr(node.operand), enc_expr(node.lower), enc_expr(node.upper))
    if isinstance(node, ast.And):
        return '(and%s)' % ''.join(' ' + enc_expr(a) for a in node.args)
    if isinstance(node, ast.Or):
        return '(or%s)' % ''.join(' ' + enc_expr(a) for a in node.args)
    if isinstance(node, ast.UnaryOp):
        return '(un %s %s)' % (_UN[type(node).__name__], enc_expr(node.operand))
    if isinstance(node, ast.BinaryOp):
        return '(bin %s %s %s)' % (_BIN[type(node).__name__], enc_expr(node.left), enc_expr(node.right))
    if isinstance(node, ast.Select):
        return '(sub %s)' % enc_select(node)
    raise Unencodable(type(node).__name__)


def enc_key(k):
    if isinstance(k, int) and not isinstance(k, bool):
        return '(idx %d)' % k
    return '(expr %s)' % enc_expr(k)


def enc_from(f):
    from beanquery.parser import ast
    if f is None:
        return 'none'
    if isinstance(f, ast.Table):
        return '(table %s)' % q(f.name)
    if isinstance(f, ast.Select):
        return '(sub %s)' % enc_select(f)
    if isinstance(f, ast.From):
        e = 'nil' if f.expression is None else enc_expr(f.expression)
        o = 'nil' if f.open is None else enc_value(f.open)
        if f.close is None:
            c = 'absent'
        elif f.close is True:
            c = 'flag'
        else:
            c = enc_value(f.close)
        return '(from %s %s %s %d)' % (e, o, c, 1 if f.clear else 0)
    raise Unencodable(type(f).__name__)


def enc_target(t):
    text = ''
    if t.expression.parseinfo is not None:
        text = (t.expression.text or '').strip()
    return '(t %s %s %s)' % (enc_expr(t.expression), 'nil' if t.name is None else q(t.name), q(text))


def enc_select(s):
    from beanquery.parser import ast
    if isinstance(s.targets, ast.Asterisk):
        targets = '*'
    else:
        targets = '(' + ' '.join(enc_target(t) for t in s.targets) + ')'
    group = '()'
    having = 'nil'
    if s.group_by is not None:
        group = '(' + ' '.join(enc_key(k) for k in s.group_by.columns) + ')'
        if s.group_by.having is not None:
            having = enc_expr(s.group_by.having)
    order = '()'
    if s.order_by:
        order = '(' + ' '.join('(%s %d)' % (enc_key(o.column), 1 if o.ordering else 0) for o in s.order_by) + ')'
    pivot = '()'
    if s.pivot_by is not None:
        pivot = '(' + ' '.join(enc_key(k) for k in s.pivot_by.columns) + ')'
    return ('(select (targets %s) (from %s) (where %s) (group %s) (having %s) (order %s) (pivot %s) (limit %s) (distinct %d))'
            % (targets, enc_from(s.from_clause), 'nil' if s.where_clause is None else enc_expr(s.where_clause),
               group, having, order, pivot, 'nil' if s.limit is None else str(s.limit), 1 if s.distinct else 0))


def enc_params(params):
    if params is None:
        return 'none'
    if isinstance(params, dict):
        return '(map' + ''.join(' (%s %s)' % (q(k), enc_value(v)) for k, v in params.items()) + ')'
    return '(seq' + ''.join(' ' + enc_value(v) for v in params) + ')'


def enc_table(name, coldefs, rows, wildcard=None, updatable=True):
    cols = ' '.join('(%s %s)' % (q(n), q(tyname(t))) for n, t in coldefs)
    wc = ' '.join(q(n) for n in (wildcard if wildcard is not None else [n for n, _ in coldefs]))
    rs = ' '.join('(' + ' '.join(enc_value(v) for v in row) + ')' for row in rows)
    return '(deftable %s (cols %s) (wildcard %s) (updatable %d) (rows %s))' % (q(name), cols, wc, 1 if updatable else 0, rs)
