"""Printer from beanquery ASTs to BQL text.

Precedence levels (low to high): OR < AND < NOT < comparison < + - < * / % < unary minus < postfix/atom.
With an `rng`, spacing, comments, letter case of keywords and redundant parentheses are randomised.
"""
import datetime
import decimal

from beanquery.parser import ast

P_OR, P_AND, P_NOT, P_CMP, P_SUM, P_TERM, P_UNARY, P_ATOM = range(8)

CMP = {ast.Equal: '=', ast.NotEqual: '!=', ast.Greater: '>', ast.GreaterEq: '>=', ast.Less: '<', ast.LessEq: '<=',
       ast.Match: '~', ast.NotMatch: '!~', ast.In: 'IN', ast.NotIn: 'NOT IN'}
SUM = {ast.Add: '+', ast.Sub: '-'}
TERM = {ast.Mul: '*', ast.Div: '/', ast.Mod: '%'}


class Printer:
    def __init__(self, rng=None, redundant=0, noise=False):
        self.rng = rng
        self.redundant = redundant    # percent chance of a redundant pair of parentheses
        self.noise = noise            # random spacing / comments / case

    # -- lexical noise ------------------------------------------------------
    def sp(self):
        if not self.noise or self.rng is None:
            return ' '
        return self.rng.weighted([(' ', 10), ('  ', 2), ('\n', 1), (' /* c */ ', 1), ('\t', 1), (' \n  ', 1)])

    def kw(self, word):
        if not self.noise or self.rng is None:
            return word
        k = self.rng.below(4)
        if k == 0:
            return word.lower()
        if k == 1:
            return word.capitalize()
        return word

    def ident(self, name):
        if not self.noise or self.rng is None or not self.rng.chance(1, 4):
            return name
        return name.upper()

    def join(self, *parts):
        out = ''
        for p in parts:
            if p is None or p == '':
                continue
            if out:
                out += self.sp()
            out += p
        return out

    # -- literals -------------------------------------------------------------
    def literal(self, v):
        if v is None:
            return self.kw('NULL')
        if v is True:
            return self.kw('TRUE')
        if v is False:
            return self.kw('FALSE')
        if isinstance(v, int):
            return str(v)
        if isinstance(v, decimal.Decimal):
            s = format(v, 'f')
            return s if '.' in s else s + '.'
        if isinstance(v, datetime.date):
            return v.isoformat()
        if isinstance(v, str):
            return "'%s'" % v if "'" not in v else '"%s"' % v
        if isinstance(v, list):
            items = ', '.join(self.literal(x) for x in v)
            return '(' + items + (',' if len(v) == 1 else '') + ')'
        raise ValueError('unprintable literal %r' % (v,))

    # -- expressions ------------------------------------------------------------
    def prec(self, node):
        if isinstance(node, ast.Or):
            return P_OR
        if isinstance(node, ast.And):
            return P_AND
        if isinstance(node, ast.Not):
            return P_NOT
        if type(node) in CMP or isinstance(node, (ast.IsNull, ast.IsNotNull, ast.Between)):
            return P_CMP
        if type(node) in SUM:
            return P_SUM
        if type(node) in TERM:
            return P_TERM
        if isinstance(node, ast.Neg):
            return P_UNARY
        return P_ATOM

    def wrap(self, node, minprec):
        """print `node` for a position that requires precedence >= minprec"""
        text = self.expr(node)
        if self.prec(node) < minprec:
            return '(' + text + ')'
        if self.rng is not None and self.redundant and self.rng.below(100) < self.redundant \
                and not (isinstance(node, ast.Constant) and isinstance(node.value, list)):
            return '(' + text + ')'
        return text

    def expr(self, node):
        if isinstance(node, ast.Or):
            return (self.sp() + self.kw('OR') + self.sp()).join(self.wrap(a, P_AND) for a in node.args)
        if isinstance(node, ast.And):
            return (self.sp() + self.kw('AND') + self.sp()).join(self.wrap(a, P_NOT) for a in node.args)
        if isinstance(node, ast.Not):
            return self.join(self.kw('NOT'), self.wrap(node.operand, P_NOT))
        if isinstance(node, ast.IsNull):
            return self.join(self.wrap(node.operand, P_SUM), self.kw('IS'), self.kw('NULL'))
        if isinstance(node, ast.IsNotNull):
            return self.join(self.wrap(node.operand, P_SUM), self.kw('IS'), self.kw('NOT'), self.kw('NULL'))
        if isinstance(node, ast.Between):
            return self.join(self.wrap(node.operand, P_SUM), self.kw('BETWEEN'), self.wrap(node.lower, P_SUM),
                             self.kw('AND'), self.wrap(node.upper, P_SUM))
        if type(node) in CMP:
            op = CMP[type(node)]
            if op == 'NOT IN':
                op = self.join(self.kw('NOT'), self.kw('IN'))
            elif op == 'IN':
                op = self.kw('IN')
            return self.join(self.wrap(node.left, P_SUM), op, self.wrap(node.right, P_SUM))
        if type(node) in SUM:
            return self.join(self.wrap(node.left, P_SUM), SUM[type(node)], self.wrap(node.right, P_TERM))
        if type(node) in TERM:
            return self.join(self.wrap(node.left, P_TERM), TERM[type(node)], self.wrap(node.right, P_UNARY))
        if isinstance(node, ast.Neg):
            inner = self.wrap(node.operand, P_UNARY)
            return '-' + (' ' if inner.startswith('-') else '') + inner
        if isinstance(node, ast.Attribute):
            return self.wrap(node.operand, P_ATOM) + '.' + self.ident(node.name)
        if isinstance(node, ast.Subscript):
            return self.wrap(node.operand, P_ATOM) + "['%s']" % node.key
        if isinstance(node, ast.Function):
            if len(node.operands) == 1 and isinstance(node.operands[0], ast.Asterisk):
                return self.ident(node.fname) + '(*)'
            return self.ident(node.fname) + '(' + (',' + self.sp()).join(self.expr(a) for a in node.operands) + ')'
        if isinstance(node, ast.Column):
            return self.ident(node.name)
        if isinstance(node, ast.Constant):
            return self.literal(node.value)
        if isinstance(node, ast.Placeholder):
            return '%s' if not node.name else '%%(%s)s' % node.name
        if isinstance(node, ast.Asterisk):
            return '*'
        if isinstance(node, ast.Select):
            return '(' + self.select(node) + ')'
        raise ValueError('unprintable node %r' % (node,))

    def key(self, k):
        if isinstance(k, int) and not isinstance(k, bool):
            return str(k)
        text = self.expr(k)
        # a key that starts with a numeral would be read as a position
        if text[:1].isdigit():
            return '(' + text + ')'
        return text

    def from_(self, f):
        if isinstance(f, ast.Table):
            return '#' + f.name
        if isinstance(f, ast.Select):
            return '(' + self.select(f) + ')'
        parts = []
        if f.expression is not None:
            parts.append(self.expr(f.expression))
        if f.open is not None:
            parts.append(self.join(self.kw('OPEN'), self.kw('ON'), f.open.isoformat()))
        if f.close is not None:
            parts.append(self.kw('CLOSE') if f.close is True else
                         self.join(self.kw('CLOSE'), self.kw('ON'), f.close.isoformat()))
        if f.clear:
            parts.append(self.kw('CLEAR'))
        return self.join(*parts)

    def select(self, s):
        parts = [self.kw('SELECT')]
        if s.distinct:
            parts.append(self.kw('DISTINCT'))
        if isinstance(s.targets, ast.Asterisk):
            parts.append('*')
        else:
            ts = []
            for t in s.targets:
                text = self.expr(t.expression)
                if t.name is not None:
                    text = self.join(text, self.kw('AS'), t.name)
                ts.append(text)
            parts.append((',' + self.sp()).join(ts))
        if s.from_clause is not None:
            parts += [self.kw('FROM'), self.from_(s.from_clause)]
        if s.where_clause is not None:
            parts += [self.kw('WHERE'), self.expr(s.where_clause)]
        if s.group_by is not None:
            parts += [self.kw('GROUP'), self.kw('BY'), (',' + self.sp()).join(self.key(k) for k in s.group_by.columns)]
            if s.group_by.having is not None:
                parts += [self.kw('HAVING'), self.expr(s.group_by.having)]
        if s.order_by:
            items = []
            for o in s.order_by:
                items.append(self.join(self.key(o.column), self.kw('DESC') if o.ordering else
                                       (self.kw('ASC') if (self.rng is not None and self.rng.chance(1, 2)) else None)))
            parts += [self.kw('ORDER'), self.kw('BY'), (',' + self.sp()).join(items)]
        if s.pivot_by is not None:
            parts += [self.kw('PIVOT'), self.kw('BY'), (',' + self.sp()).join(self.key(k) for k in s.pivot_by.columns)]
        if s.limit is not None:
            parts += [self.kw('LIMIT'), str(s.limit)]
        return self.join(*parts)


def to_text(stmt, rng=None, redundant=0, noise=False):
    return Printer(rng, redundant, noise).select(stmt)
