#!/venv/bin/python
"""Translator G: read beanquery's live registries and write them as Lean data.

Run with PYTHONPATH=/repo.  Writes lean/BqlVerif/Generated/*.lean (only when the
content changed) and returns the same facts as a JSON-able dict.
"""
import dataclasses
import datetime
import decimal
import json
import os
import sys

HERE = os.path.dirname(os.path.abspath(__file__))
VERIF = os.path.dirname(HERE)
GEN_DIR = os.path.join(VERIF, 'lean', 'BqlVerif', 'Generated')

TY_CTOR = {
    'int': '.int', 'Decimal': '.dec', 'str': '.str', 'date': '.date', 'bool': '.bool',
    'object': '.obj', 'NoneType': '.none', 'list': '.list', 'set': '.set', 'dict': '.dict',
    'relativedelta': '.interval', 'Amount': '.amount', 'Position': '.position',
    'Inventory': '.inventory', '*': '.asterisk', 'any': '.any',
}


def tyname(t):
    from beanquery import types
    if t is types.Any:
        return 'any'
    if t is types.Asterisk:
        return '*'
    return getattr(t, '__name__', repr(t))


def lean_ty(name):
    return TY_CTOR.get(name) or '(.other %s)' % lean_str(name)


def lean_str(s):
    out = ['"']
    for ch in s:
        if ch == '"':
            out.append('\\"')
        elif ch == '\\':
            out.append('\\\\')
        elif ch == '\n':
            out.append('\\n')
        elif ord(ch) < 32 or ord(ch) > 126:
            out.append('\\u{%x}' % ord(ch))
        else:
            out.append(ch)
    out.append('"')
    return ''.join(out)


def lean_list(items):
    return '[' + ', '.join(items) + ']'


class _Probe:
    """Stand-in operand with a given dtype."""
    def __init__(self, dtype):
        self.dtype = dtype

    def __call__(self, row):
        return None


class _ProbeType:
    pass


def collect():
    import beanquery
    from beanquery import query_compile as qc, query_env, types, compiler  # noqa: F401
    from beanquery.parser import ast
    import beanquery.sources.beancount as src
    import beanquery.shell  # noqa: F401

    facts = {}

    # ---- operators -------------------------------------------------------
    ops = []
    for node, impls in qc.OPERATORS.items():
        for impl in impls:
            intypes = [tyname(t) for t in impl.__intypes__]
            if issubclass(impl, qc.EvalBetween):
                ops.append(dict(name=node.__name__, intypes=intypes, out='bool', kind='between'))
                continue
            probes = [_Probe(_ProbeType if t is types.Any else t) for t in impl.__intypes__]
            inst = impl(*probes)
            out = tyname(inst.dtype)
            if issubclass(impl, qc.EvalBinaryOp):
                kind = 'binop'
            elif issubclass(impl, qc.EvalUnaryOpSafe):
                kind = 'unopSafe'
            elif issubclass(impl, qc.EvalUnaryOp):
                kind = 'unopRaw'
            else:
                kind = 'unknown:' + impl.__mro__[1].__name__
            ops.append(dict(name=node.__name__, intypes=intypes, out=out, kind=kind))
    facts['operators'] = ops

    # ---- functions -------------------------------------------------------
    fns = []
    for name, impls in qc.FUNCTIONS.items():
        for impl in impls:
            intypes = [tyname(t) for t in impl.__intypes__]
            probes = [_Probe(_ProbeType if t is types.Any else t) for t in impl.__intypes__]
            try:
                inst = impl(None, probes)
                out = 'arg0' if inst.dtype is _ProbeType else tyname(inst.dtype)
                if out != 'arg0' and probes and not (impl.__intypes__[0] is types.Any):
                    # detect "dtype of first operand" on concretely typed aggregates (SumInt)
                    class _Sub(impl.__intypes__[0] if isinstance(impl.__intypes__[0], type) and impl.__intypes__[0] not in (bool,) else object):
                        pass
                    try:
                        inst2 = impl(None, [_Probe(_Sub)] + probes[1:])
                        if inst2.dtype is _Sub:
                            out = 'arg0'
                    except Exception:
                        pass
            except Exception as exc:  # pragma: no cover
                out = 'error:' + type(exc).__name__
            if issubclass(impl, qc.EvalAggregator):
                kind = 'aggregate'
            else:
                kind = 'func:pure' if getattr(impl, 'pure', False) else 'func:impure'
            fns.append(dict(name=name, intypes=intypes, out=out, kind=kind))
    facts['functions'] = fns

    # ---- MRO (types._bases) ----------------------------------------------
    seen = {}
    def add_type(t):
        n = tyname(t)
        if n in seen or t is types.Any:
            return
        try:
            seen[n] = [tyname(b) for b in types._bases(t)]
        except Exception as exc:
            seen[n] = ['error:' + type(exc).__name__]
    for impls in list(qc.OPERATORS.values()) + list(qc.FUNCTIONS.values()):
        for impl in impls:
            for t in impl.__intypes__:
                add_type(t)
    for t in (int, decimal.Decimal, str, datetime.date, bool, object, type(None), list, set, dict, types.Asterisk):
        add_type(t)
    for o in ops + fns:
        pass
    facts['mro'] = seen

    # ---- cast map --------------------------------------------------------
    facts['castmap'] = {tyname(k): v for k, v in types.MAP.items()}

    # ---- tables and columns ----------------------------------------------
    tables = {}
    for tcls in src.TABLES:
        cols = []
        for cname, col in tcls.columns.items():
            cols.append(dict(name=cname, dtype=tyname(col.dtype), cls=type(col).__name__))
        # equality matrix between column objects
        names = list(tcls.columns)
        eq = [[a, b] for i, a in enumerate(names) for b in names[i + 1:]
              if tcls.columns[a] == tcls.columns[b]]
        try:
            wc = list(tcls.wildcard_columns) if not isinstance(tcls.wildcard_columns, property) else None
        except Exception:
            wc = None
        if wc is None:
            # property on the class: evaluate on a bare instance
            inst = tcls.__new__(tcls)
            wc = list(inst.wildcard_columns)
        tables[tcls.name] = dict(columns=cols, eq_collisions=eq, wildcard=wc)
    facts['tables'] = tables

    # ---- structured types ------------------------------------------------
    structs = {}
    for sname, scls in types.TYPES.items():
        structs[sname] = [dict(name=c, dtype=tyname(col.dtype)) for c, col in scls.columns.items()]
    facts['structures'] = structs
    facts['aliases'] = {tyname(k): v.name for k, v in types.ALIASES.items()}

    # ---- module constants ------------------------------------------------
    facts['dbapi'] = dict(apilevel=beanquery.apilevel, threadsafety=beanquery.threadsafety,
                          paramstyle=beanquery.paramstyle)

    # ---- grammar keywords ------------------------------------------------
    from beanquery.parser import parser as genparser
    facts['keywords'] = sorted(genparser.KEYWORDS)

    # ---- shell settings --------------------------------------------------
    import dataclasses
    from beanquery import shell
    st = shell.Settings()
    facts['settings'] = [dict(name=f.name, type=getattr(f.type, '__name__', str(f.type)),
                              default=repr(getattr(st, f.name)))
                         for f in dataclasses.fields(shell.Settings)]
    facts['formats'] = sorted(shell.FORMATS) if hasattr(shell, 'FORMATS') else []

    # ---- BALANCES / JOURNAL templates -----------------------------------
    tmpl = _Templates()
    for sf in (None, 'units', 'cost'):
        tmpl.add('balances:%s' % sf, compiler.transform_balances(ast.Balances(sf, None, None)))
        for acc in (None, 'Assets'):
            tmpl.add('journal:%s:%s' % (acc, sf), compiler.transform_journal(ast.Journal(acc, sf, None)))
    # the FROM and WHERE clauses of the statement are carried over as they are: sentinel clauses
    frm = ast.From(ast.Column('vp_from'), None, True, True)
    whr = ast.Column('vp_where')
    for sf in (None, 'units', 'cost'):
        tmpl.add('balances:%s:from:where' % sf, compiler.transform_balances(ast.Balances(sf, frm, whr)))
        tmpl.add('balances:%s:from' % sf, compiler.transform_balances(ast.Balances(sf, frm, None)))
        tmpl.add('balances:%s:where' % sf, compiler.transform_balances(ast.Balances(sf, None, whr)))
        for acc in (None, 'Assets'):
            tmpl.add('journal:%s:%s:from' % (acc, sf), compiler.transform_journal(ast.Journal(acc, sf, frm)))
    facts['templates'] = tmpl
    return facts


def to_doc(value):
    """the structure `ast.tosexp` prints: ('node', name, [(field, doc)]) | ('list', [doc]) | ('atom', text)"""
    import enum
    from beanquery.parser import ast as bqlast
    if isinstance(value, bqlast.Node):
        fields = [(f.name.replace('_', '-'), to_doc(getattr(value, f.name))) for f in dataclasses.fields(value)
                  if f.repr and getattr(value, f.name) is not None]
        return ('node', value.__class__.__name__.lower(), fields)
    if isinstance(value, list):
        return ('list', [to_doc(i) for i in value])
    if isinstance(value, enum.Enum):
        return ('atom', value.name.lower())
    return ('atom', repr(value))


def doc_lines(doc):
    """`Doc.lines` of lean/BqlVerif/Model/Templates.lean, line by line"""
    def indent(ls):
        return [l if l == '' else '  ' + l for l in ls]

    def close_last(ls):
        return ls[:-1] + [ls[-1] + ')'] if ls else [')']
    kind = doc[0]
    if kind == 'atom':
        return [doc[1]]
    if kind == 'node':
        body = []
        for name, d in doc[2]:
            ls = doc_lines(d)
            body += [name + ': ' + ls[0]] + ls[1:] if ls else [name + ': ']
        return ['(' + doc[1]] + close_last(indent(body)) if body else ['(' + doc[1], ')']
    body = []
    for d in doc[1]:
        body += doc_lines(d)
    return ['('] + close_last(indent(body))


class _Templates(dict):
    """key -> `tosexp` text (the fact that is compared with the golden copy); `.docs` keeps the tree each text was
    printed from, after checking that the tree, printed by the model's algorithm, IS the text `tosexp` produced"""

    def __init__(self):
        super().__init__()
        self.docs = {}
        self.mismatch = []

    def add(self, key, node):
        text = node.tosexp()
        doc = to_doc(node)
        if '\n'.join(doc_lines(doc)) != text:
            self.mismatch.append(key)
        self[key] = text
        self.docs[key] = doc


def lean_doc(doc):
    if doc[0] == 'atom':
        return '(.atom %s)' % lean_str(doc[1])
    if doc[0] == 'list':
        return '(.list [%s])' % ', '.join(lean_doc(d) for d in doc[1])
    return '(.node %s [%s])' % (lean_str(doc[1]), ', '.join('(%s, %s)' % (lean_str(n), lean_doc(d)) for n, d in doc[2]))


def render_templates(facts):
    lines = ['-- GENERATED by harness/gen_tables.py from the live transform_balances / transform_journal. Do not edit.',
             'import BqlVerif.Model.Templates', 'namespace Bql.Gen', '',
             '/-- (configuration, the SELECT the live transform returns, as the tree `ast.tosexp` prints) -/',
             'def templates : List (String × Doc) := [']
    lines.append(',\n'.join('  (%s, %s)' % (lean_str(k), lean_doc(d)) for k, d in facts['templates'].docs.items()))
    lines.append(']')
    lines.append('')
    lines.append('/-- every tree above, printed by the algorithm of `Doc.lines`, is the text the live `tosexp` returned -/')
    lines.append('def templateTreesPrint : Bool := %s' % ('true' if not facts['templates'].mismatch else 'false'))
    lines.append('')
    lines.append('end Bql.Gen')
    return '\n'.join(lines) + '\n'


def render_registry(facts):
    def decl(d):
        out = '.arg0' if d['out'] == 'arg0' else '(.fixed %s)' % lean_ty(d['out'])
        k = d['kind']
        kind = {'binop': '.binop', 'between': '.between', 'unopSafe': '.unopSafe', 'unopRaw': '.unopRaw',
                'aggregate': '.aggregate', 'func:pure': '(.func true)', 'func:impure': '(.func false)'}.get(k)
        if kind is None:
            kind = '(.func false)'
        return '  ⟨%s, %s, %s, %s⟩' % (lean_str(d['name']), lean_list(lean_ty(t) for t in d['intypes']), out, kind)
    lines = ['-- GENERATED by harness/gen_tables.py from the live beanquery registries. Do not edit.',
             'import BqlVerif.Model.Registry', 'namespace Bql.Gen', '',
             'def operators : List Decl := [']
    lines.append(',\n'.join(decl(d) for d in facts['operators']))
    lines.append(']')
    lines.append('')
    lines.append('def functions : List Decl := [')
    lines.append(',\n'.join(decl(d) for d in facts['functions']))
    lines.append(']')
    lines.append('')
    lines.append('def mroTable : List (Ty × List Ty) := [')
    lines.append(',\n'.join('  (%s, %s)' % (lean_ty(k), lean_list(lean_ty(b) for b in v))
                            for k, v in facts['mro'].items()))
    lines.append(']')
    lines.append('')
    lines.append('def castMap : List (Ty × String) := [')
    lines.append(',\n'.join('  (%s, %s)' % (lean_ty(k), lean_str(v)) for k, v in facts['castmap'].items()))
    lines.append(']')
    lines.append('')
    lines.append('def threadsafety : Nat := %d' % facts['dbapi']['threadsafety'])
    lines.append('def apilevel : String := %s' % lean_str(facts['dbapi']['apilevel']))
    lines.append('def paramstyle : String := %s' % lean_str(facts['dbapi']['paramstyle']))
    lines.append('')
    lines.append('def keywords : List String := %s' % lean_list(lean_str(k) for k in facts['keywords']))
    lines.append('')
    lines.append('end Bql.Gen')
    return '\n'.join(lines) + '\n'


def render_columns(facts):
    lines = ['-- GENERATED by harness/gen_tables.py. Do not edit.',
             'import BqlVerif.Model.Value', 'namespace Bql.Gen', '',
             '/-- (table, [(column, dtype, accessor class)]) -/',
             'def tableColumns : List (String × List (String × Ty × String)) := [']
    lines.append(',\n'.join(
        '  (%s, %s)' % (lean_str(t), lean_list('(%s, %s, %s)' % (lean_str(c['name']), lean_ty(c['dtype']), lean_str(c['cls']))
                                                for c in v['columns']))
        for t, v in facts['tables'].items()))
    lines.append(']')
    lines.append('')
    lines.append('/-- pairs of *distinct* columns of one table whose accessor objects compare equal -/')
    lines.append('def columnCollisions : List (String × String × String) := [')
    lines.append(',\n'.join('  (%s, %s, %s)' % (lean_str(t), lean_str(a), lean_str(b))
                            for t, v in facts['tables'].items() for a, b in v['eq_collisions']))
    lines.append(']')
    lines.append('')
    lines.append('def wildcards : List (String × List String) := [')
    lines.append(',\n'.join('  (%s, %s)' % (lean_str(t), lean_list(lean_str(c) for c in v['wildcard']))
                            for t, v in facts['tables'].items()))
    lines.append(']')
    lines.append('')
    lines.append('def structures : List (String × List (String × Ty)) := [')
    lines.append(',\n'.join('  (%s, %s)' % (lean_str(s), lean_list('(%s, %s)' % (lean_str(c['name']), lean_ty(c['dtype'])) for c in cols))
                            for s, cols in facts['structures'].items()))
    lines.append(']')
    lines.append('')
    lines.append('def settings : List (String × String × String) := [')
    lines.append(',\n'.join('  (%s, %s, %s)' % (lean_str(s['name']), lean_str(s['type']), lean_str(s['default']))
                            for s in facts['settings']))
    lines.append(']')
    lines.append('')
    lines.append('end Bql.Gen')
    return '\n'.join(lines) + '\n'


def write_if_changed(path, content):
    try:
        with open(path) as f:
            if f.read() == content:
                return False
    except FileNotFoundError:
        pass
    os.makedirs(os.path.dirname(path), exist_ok=True)
    with open(path, 'w') as f:
        f.write(content)
    return True


def generate():
    facts = collect()
    changed = []
    if write_if_changed(os.path.join(GEN_DIR, 'Registry.lean'), render_registry(facts)):
        changed.append('Registry.lean')
    if write_if_changed(os.path.join(GEN_DIR, 'Columns.lean'), render_columns(facts)):
        changed.append('Columns.lean')
    if write_if_changed(os.path.join(GEN_DIR, 'Templates.lean'), render_templates(facts)):
        changed.append('Templates.lean')
    return facts, changed


def golden_path():
    return os.path.join(VERIF, 'lean', 'golden', 'facts.json')


def diff_against_golden(facts):
    """Return a list of human-readable differences between facts and the golden copy."""
    try:
        with open(golden_path()) as f:
            gold = json.load(f)
    except FileNotFoundError:
        return ['golden file missing']
    diffs = []
    def walk(a, b, path):
        if type(a) != type(b):
            diffs.append('%s: %r -> %r' % (path, a, b))
        elif isinstance(a, dict):
            for k in sorted(set(a) | set(b)):
                if k not in a:
                    diffs.append('%s.%s: added %r' % (path, k, b[k]))
                elif k not in b:
                    diffs.append('%s.%s: removed %r' % (path, k, a[k]))
                else:
                    walk(a[k], b[k], path + '.' + str(k))
        elif isinstance(a, list):
            if a != b:
                sa = [json.dumps(x, sort_keys=True) for x in a]
                sb = [json.dumps(x, sort_keys=True) for x in b]
                for x in sa:
                    if x not in sb:
                        diffs.append('%s: removed %s' % (path, x))
                for x in sb:
                    if x not in sa:
                        diffs.append('%s: added %s' % (path, x))
                if not [x for x in sa if x not in sb] and not [x for x in sb if x not in sa]:
                    diffs.append('%s: reordered' % path)
        elif a != b:
            diffs.append('%s: %r -> %r' % (path, a, b))
    walk(gold, json.loads(json.dumps(facts)), '')
    return diffs


if __name__ == '__main__':
    facts, changed = generate()
    if '--golden' in sys.argv:
        os.makedirs(os.path.dirname(golden_path()), exist_ok=True)
        with open(golden_path(), 'w') as f:
            json.dump(facts, f, indent=1, sort_keys=True)
        print('golden written')
    print('changed:', changed)
    for d in diff_against_golden(facts):
        print('DIFF', d)
