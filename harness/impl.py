"""Adapters calling the real beanquery in-process (PYTHONPATH must point at /repo)."""
import operator

import beanquery
from beanquery import query_compile, query_env, tables, compiler, parser  # noqa: F401
from beanquery.parser import ast

import proto


def make_column(i, dtype, name):
    class Col(query_compile.EvalColumn):
        __slots__ = ()

        def __init__(self):
            super().__init__(dtype)
        __call__ = staticmethod(operator.itemgetter(i))
    Col.__name__ = name
    return Col()


class HTable(tables.Table):
    """A user table over a list of row tuples with typed, positional column accessors."""

    def __init__(self, name, coldefs, rows, wildcard=None):
        self.name = name
        self.coldefs = list(coldefs)
        self.columns = {cname: make_column(i, dtype, cname) for i, (cname, dtype) in enumerate(coldefs)}
        self.rows = [tuple(r) for r in rows]
        self._wildcard = list(wildcard) if wildcard is not None else [n for n, _ in coldefs]

    @property
    def wildcard_columns(self):
        return self._wildcard

    def __iter__(self):
        return iter(self.rows)

    def update(self, open=None, close=None, clear=None):
        if open is None and close is None and clear is None:
            return self
        raise NotImplementedError('OPEN/CLOSE/CLEAR on a harness table')

    def encode(self):
        return proto.enc_table(self.name, self.coldefs, self.rows, self._wildcard, True)


def connection(htables):
    conn = beanquery.Connection()
    for t in htables:
        conn.tables[t.name] = t
    return conn


def classify_exc(exc):
    if isinstance(exc, beanquery.ParseError):
        return 'ERR parse'
    if isinstance(exc, beanquery.CompilationError):
        return 'ERR compile'
    if isinstance(exc, beanquery.ProgrammingError):
        return 'ERR programming'
    return 'ERR py:' + type(exc).__name__


def run_select(conn, stmt, params=None, execute=True):
    """Execute a statement (text or AST) and return the canonical result line."""
    try:
        if isinstance(stmt, str):
            stmt = parser.parse(stmt)
        if not execute:
            q = compiler.compile(conn, stmt, params)
            if isinstance(q, query_compile.EvalPivot):
                return 'OK pivot'
            desc = tuple(beanquery.Column(t.name, t.c_expr.dtype) for t in q.c_targets if t.name is not None)
            return 'OK desc=' + proto.show_desc(desc)
        cur = conn.execute(stmt, params)
        desc = cur.description
        rows = cur.fetchall()
        return proto.show_result(desc, rows, proto.Opaque())
    except Exception as exc:  # noqa: BLE001
        return classify_exc(exc)
