"""Type-directed generators of tables, expressions and SELECT statements (as beanquery ASTs).

Everything is built *from the generated registry* (facts['operators'], facts['functions']) so that
every overload is reachable and new overloads are picked up automatically.
"""
import datetime
from decimal import Decimal

from beanquery.parser import ast

D = Decimal

PYTYPES = {'int': int, 'Decimal': Decimal, 'str': str, 'date': datetime.date, 'bool': bool, 'object': object}

INT_VALUES = [0, 1, -1, 2, 3, -2, 5, 7, 10, -7, 12, 100, 1000]
DEC_VALUES = [D('0'), D('1'), D('-1'), D('1.5'), D('2.50'), D('-0.25'), D('10'), D('3.333'), D('100.0'), D('0.1'),
              D('7'), D('-12.5'), D('2E+1')]
STR_VALUES = ['', 'a', 'B', 'abc', 'Abc', 'b', '12', '1.5', '2020-01-02', 'x y', 'zz', 'Assets:Cash']
PATTERNS = ['a', 'b', 'abc', '12', 'x', 'Z', 'Cash', 'q']
DATE_VALUES = [datetime.date(2020, 1, 1), datetime.date(2020, 2, 29), datetime.date(2019, 12, 31),
               datetime.date(2021, 3, 15), datetime.date(2000, 1, 31), datetime.date(2024, 12, 30),
               datetime.date(1999, 7, 4), datetime.date(2020, 1, 2)]
BOOL_VALUES = [True, False]
OBJ_VALUES = [D('1'), D('2.5'), 'abc', '12', '1.5', '2020-01-02', 3, True, datetime.date(2020, 1, 1), D('0'), '']

VALUES = {'int': INT_VALUES, 'Decimal': DEC_VALUES, 'str': STR_VALUES, 'date': DATE_VALUES, 'bool': BOOL_VALUES,
          'object': OBJ_VALUES}

# functions the Lean model evaluates (cross-checked against the driver at start-up)
MODELLED_FUNCTIONS = ['bool', 'int', 'decimal', 'str', 'date', 'neg', 'abs', 'safediv', 'round', 'length', 'substr',
                      'upper', 'lower', 'year', 'month', 'day', 'yearmonth', 'quarter', 'weekday', 'date_diff',
                      'date_add']

BASIC = ['int', 'Decimal', 'str', 'date', 'bool']

STD_SCHEMA = [('i', 'int'), ('j', 'int'), ('d', 'Decimal'), ('e', 'Decimal'), ('s', 'str'), ('t', 'str'),
              ('dt', 'date'), ('du', 'date'), ('b', 'bool'), ('c', 'bool'), ('o', 'object')]


def gen_value(rng, ty, null_pct=20, small=False):
    if rng.below(100) < null_pct:
        return None
    vals = VALUES[ty]
    if small:
        vals = vals[:4]
    return rng.choice(vals)


def gen_rows(rng, schema, nrows, null_pct=20, small=False):
    return [tuple(gen_value(rng, ty, null_pct, small) for _, ty in schema) for _ in range(nrows)]


class ExprGen:
    def __init__(self, facts, rng, schema, functions=None, max_depth=3, allow_obj=True):
        self.rng = rng
        self.schema = schema
        self.max_depth = max_depth
        self.allow_obj = allow_obj
        self.cols = {}
        for n, t in schema:
            self.cols.setdefault(t, []).append(n)
        fns = set(functions if functions is not None else MODELLED_FUNCTIONS)
        # overloads by output type
        self.binops = {}
        self.unops = {}
        self.between = []
        for op in facts['operators']:
            if op['kind'] == 'binop' and op['name'] not in ('In', 'NotIn'):
                if all(t in BASIC or t == 'relativedelta' for t in op['intypes']) and op['out'] in BASIC:
                    if 'relativedelta' in op['intypes']:
                        continue
                    self.binops.setdefault(op['out'], []).append(op)
            elif op['kind'] in ('unopSafe', 'unopRaw'):
                self.unops.setdefault(op['out'], []).append(op)
            elif op['kind'] == 'between':
                self.between.append(op)
        self.funcs = {}
        for fn in facts['functions']:
            if fn['name'] in fns and fn['kind'].startswith('func') and fn['name'] != 'today':
                if all(t in BASIC or t in ('any', 'object') for t in fn['intypes']) and fn['out'] in BASIC:
                    self.funcs.setdefault(fn['out'], []).append(fn)
        self.stats = {'ops': {}, 'overloads': set()}

    def _note(self, kind, name, sig=None):
        self.stats['ops'][name] = self.stats['ops'].get(name, 0) + 1
        if sig is not None:
            self.stats['overloads'].add('%s[%s]' % (name, ','.join(sig)))

    def const(self, ty):
        v = self.rng.choice(VALUES[ty])
        if ty == 'int' and v < 0:
            return ast.Neg(ast.Constant(-v))  # negative numbers are not literals
        if ty == 'Decimal' and v < 0:
            return ast.Neg(ast.Constant(-v))
        return ast.Constant(v)

    def leaf(self, ty):
        cols = self.cols.get(ty, [])
        if cols and self.rng.chance(7, 10):
            return ast.Column(self.rng.choice(cols))
        if self.rng.chance(1, 12):
            return ast.Constant(None) if False else self.const(ty)
        return self.const(ty)

    def arg_for(self, t, depth):
        if t == 'any':
            t = self.rng.choice(BASIC)
        if t == 'object':
            if self.cols.get('object') and self.allow_obj:
                return ast.Column(self.rng.choice(self.cols['object']))
            t = self.rng.choice(BASIC)
        return self.expr(t, depth)

    def expr(self, ty, depth=None):
        rng = self.rng
        if depth is None:
            depth = self.max_depth
        if depth <= 0:
            return self.leaf(ty)
        choices = [('leaf', 3)]
        if self.binops.get(ty):
            choices.append(('binop', 6))
        if self.unops.get(ty) and ty != 'bool':
            choices.append(('unop', 1))
        if self.funcs.get(ty):
            choices.append(('func', 3))
        choices.append(('coalesce', 1))
        if ty == 'bool':
            choices += [('and', 3), ('or', 3), ('not', 2), ('isnull', 2), ('in', 2), ('between', 2)]
        if self.allow_obj and self.cols.get('object') and ty in ('bool', 'Decimal', 'str', 'date'):
            choices.append(('objop', 2))
        kind = rng.weighted(choices)
        if kind == 'leaf':
            return self.leaf(ty)
        if kind == 'binop':
            op = rng.choice(self.binops[ty])
            self._note('binop', op['name'], op['intypes'])
            cls = getattr(ast, op['name'])
            return cls(self.expr(op['intypes'][0], depth - 1), self.expr(op['intypes'][1], depth - 1))
        if kind == 'unop':
            op = rng.choice([o for o in self.unops[ty] if o['name'] == 'Neg'] or self.unops[ty])
            self._note('unop', op['name'], op['intypes'])
            return getattr(ast, op['name'])(self.arg_for(op['intypes'][0], depth - 1))
        if kind == 'func':
            fn = rng.choice(self.funcs[ty])
            self._note('func', fn['name'], fn['intypes'])
            args = [self.arg_for(t, depth - 1) for t in fn['intypes']]
            if fn['name'] == 'str':
                # str() shows the sign of a zero; signed zeros (-1 * 0.000) are outside the model: no arithmetic below str()
                t0 = fn['intypes'][0]
                args = [self.leaf(t0 if t0 in BASIC else rng.choice(BASIC))]
            if fn['name'] in ('round',) and len(args) == 2:
                args[1] = ast.Constant(rng.choice([0, 1, 2, 3]))
            if fn['name'] == 'date' and len(args) == 3:
                pass
            return ast.Function(fn['name'], args)
        if kind == 'coalesce':
            self._note('coalesce', 'coalesce')
            n = rng.range(1, 3)
            return ast.Function('coalesce', [self.expr(ty, depth - 1) for _ in range(n)])
        if kind == 'and':
            self._note('bool', 'And')
            return ast.And([self.expr('bool', depth - 1) for _ in range(rng.range(2, 3))])
        if kind == 'or':
            self._note('bool', 'Or')
            return ast.Or([self.expr('bool', depth - 1) for _ in range(rng.range(2, 3))])
        if kind == 'not':
            self._note('bool', 'Not')
            return ast.Not(self.arg_for('any', depth - 1))
        if kind == 'isnull':
            cls = rng.choice([ast.IsNull, ast.IsNotNull])
            self._note('bool', cls.__name__)
            return cls(self.arg_for('any', depth - 1))
        if kind == 'in':
            t = rng.choice(['int', 'Decimal', 'str', 'date'])
            cls = rng.choice([ast.In, ast.NotIn])
            self._note('bool', cls.__name__)
            items = [rng.choice([v for v in VALUES[t] if not (t in ('int', 'Decimal') and v < 0)])
                     for _ in range(rng.range(2, 4))]
            return cls(self.expr(t, depth - 1), ast.Constant(items))
        if kind == 'between':
            op = rng.choice(self.between)
            self._note('between', 'Between', op['intypes'])
            a, b, c = (self.expr(t, depth - 1) for t in op['intypes'])
            return ast.Between(a, b, c)
        if kind == 'objop':
            # an untyped operand next to a typed one: the compiler inserts a cast
            o = ast.Column(rng.choice(self.cols['object']))
            if ty == 'bool':
                t = rng.choice(['Decimal', 'str', 'date', 'int'])
                cls = rng.choice([ast.Equal, ast.NotEqual, ast.Less, ast.GreaterEq])
                other = self.expr(t, depth - 1)
            elif ty == 'Decimal':
                t = rng.choice(['Decimal', 'int'])
                cls = rng.choice([ast.Add, ast.Sub, ast.Mul, ast.Div])
                other = self.expr(t, depth - 1)
            elif ty == 'str':
                return ast.Function('str', [o])
            else:
                return ast.Function('date', [o])
            self._note('objop', cls.__name__ + '[object]')
            return cls(o, other) if rng.chance(1, 2) else cls(other, o)
        return self.leaf(ty)


AGG_BY_TYPE = {
    'int': ['count', 'sum', 'min', 'max', 'first', 'last'],
    'Decimal': ['count', 'sum', 'min', 'max', 'first', 'last'],
    'str': ['count', 'min', 'max', 'first', 'last'],
    'date': ['count', 'min', 'max', 'first', 'last'],
    'bool': ['count', 'first', 'last', 'min', 'max'],
}


def agg_out_type(fn, ty):
    return 'int' if fn == 'count' else ty


def gen_aggregate(rng, eg, depth=1):
    """An aggregate call over a row-level expression; returns (node, out_type)."""
    if rng.chance(1, 6):
        return ast.Function('count', [ast.Asterisk()]), 'int'
    ty = rng.choice(BASIC)
    fn = rng.choice(AGG_BY_TYPE[ty])
    arg = eg.expr(ty, depth)
    return ast.Function(fn, [arg]), agg_out_type(fn, ty)


def gen_agg_expr(rng, eg, depth=1):
    """Arithmetic / comparison over aggregates (no bare columns)."""
    node, ty = gen_aggregate(rng, eg, depth)
    if ty in ('int', 'Decimal') and rng.chance(1, 3):
        other, oty = gen_aggregate(rng, eg, depth)
        if oty in ('int', 'Decimal'):
            cls = rng.choice([ast.Add, ast.Sub, ast.Mul])
            return cls(node, other), ('int' if ty == oty == 'int' else 'Decimal')
        return ast.Add(node, ast.Constant(1)), ty
    return node, ty


def perturb_constant(node, rng):
    """deep copy of `node` in which one literal has another value of the same type; None when it holds no such literal.
    (Used for keys that look like a target but are not: they must not be merged with it.)"""
    import copy
    import datetime
    from decimal import Decimal
    from beanquery.parser import ast
    new = copy.deepcopy(node)
    consts = [n for n in new.walk() if isinstance(n, ast.Constant) and n.value is not None and not isinstance(n.value, (bool, list))]
    if not consts:
        return None
    c = rng.choice(consts)
    v = c.value
    if isinstance(v, int):
        c.value = v + rng.choice([1, 2, 7])
    elif isinstance(v, Decimal):
        c.value = v + Decimal(rng.choice(['1', '0.5', '2.25']))
    elif isinstance(v, str):
        c.value = v + rng.choice(['z', 'q'])
    elif isinstance(v, datetime.date):
        c.value = v + datetime.timedelta(days=rng.choice([1, 30]))
    else:
        return None
    return new
