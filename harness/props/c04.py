"""C04 — type soundness: announced datatypes are truthful; accepted queries run type-safe."""
import io

import beanquery
from beanquery import query_compile as qc, query_render, numberify, types
from beanquery.parser import ast
import beanquery.sources.beancount as src

import gen_sql
import impl
import ledgers
import proto
from sqlcase import SqlCase, std_table, replay_sql

RULE = ('(a) user tables: seeded random accepted queries (row-level, aggregate, ordered, DISTINCT) - model correspondence plus, on '
        'the implementation, every fetched cell checked against description[i].datatype (collections by kind, object admits '
        'anything) and TypeError at execution counted as a violation; (b) Beancount tables: every column of every table, every '
        'structured attribute, and EVERY function / aggregate overload of the generated registry driven through SQL with arguments '
        'of the declared types, results type-checked, rendered (text, csv) and numberified.  Non-trivial = query accepted and returned '
        'at least one non-NULL cell; distinct = distinct statement.')
ASSUMPTIONS = ['opaque overloads (price/convert/value/metadata lookups into Beancount) are checked by sampling only',
               'conformance is by kind for collections (set/frozenset/list), dict subclasses count as dict']


def signature(mm):
    if mm.model == 'oracle':
        return 'C04:' + mm.name
    return 'C04:' + mm.name + ':' + mm.model.split(' ')[0] + '/' + ' '.join(mm.impl.split(' ')[:2])


def conforms(v, dtype):
    if v is None or dtype is object:
        return True
    if dtype in (set, frozenset, list, tuple):
        return isinstance(v, (set, frozenset, list, tuple))
    if isinstance(dtype, type) and issubclass(dtype, dict):
        return isinstance(v, dict)
    if isinstance(dtype, type) and issubclass(dtype, types.Structure):
        if dtype in types.ALIASES.values():
            # the descriptor class of a value type that has a class of its own (amount, position, cost, transaction): the
            # truthful announcement is that class (functions, renderers and numberify dispatch on it), never the descriptor
            return False
        return type(v).__name__.lower() == dtype.name
    if dtype is types.Asterisk:
        return True
    try:
        return isinstance(v, dtype)
    except TypeError:
        return True


def type_oracle(ctx, conn, stmt, label, payload=None, known=None):
    """execute on the implementation; check cell types, rendering and numberify"""
    try:
        cur = conn.execute(stmt)
    except beanquery.ProgrammingError:
        ctx.count('rejected')
        return None
    except Exception as exc:  # noqa: BLE001
        if not isinstance(exc, (TypeError, AttributeError)):
            # value-domain errors (InvalidOperation, ValueError, OverflowError ...) are not type errors: C18's subject
            ctx.count('value-domain-error:%s' % type(exc).__name__)
            return None
        name = 'accepted-query-raises-%s' % type(exc).__name__
        ctx.record_violation(name + (':' + known if known else ''), '%s: %s (%s)' % (label, exc, stmt if isinstance(stmt, str) else ''),
                             payload=payload)
        return None
    desc = cur.description
    rows = cur.fetchall()
    ctx.count('accepted')
    nonnull = 0
    for r in rows:
        for c, v in zip(desc, r):
            if v is not None:
                nonnull += 1
            if not conforms(v, c.datatype):
                ctx.record_violation('cell-type:%s' % label,
                                     'column %r announced %s holds %r (%s) in %s' % (c.name, proto.tyname(c.datatype), v, type(v).__name__, stmt if isinstance(stmt, str) else label),
                                     payload=payload)
                return rows
    # consumers that dispatch on the datatype
    dcontext = conn.options.get('dcontext') if hasattr(conn, 'options') else None
    if dcontext is not None:
        try:
            query_render.render_text(desc, rows, dcontext, io.StringIO())
            query_render.render_csv(desc, rows, dcontext, io.StringIO())
            numberify.numberify_results(desc, rows, dcontext.build())
        except Exception as exc:  # noqa: BLE001
            ctx.record_violation('consumer-raises-%s:%s' % (type(exc).__name__, label), '%s on %s' % (exc, stmt if isinstance(stmt, str) else label),
                                 payload=payload)
    if nonnull:
        ctx.nontrivial_hashes.add(hash(('oracle', label, stmt if isinstance(stmt, str) else id(stmt))))
    ctx.evaluations += 1
    return rows


ARG = {
    'int': ['lineno', 'year', '2'], 'Decimal': ['number', '1.5'], 'str': ['account', 'currency', "'Assets'"],
    'date': ['date', '2020-02-29'], 'bool': ['(number > 0)', 'TRUE'], 'object': ["meta('category')", "entry_meta('ref')"],
    'set': ['tags', 'links'], 'dict': ['meta'], 'Amount': ['units(position)', 'price', 'weight'],
    'Position': ['position'], 'Inventory': ['balance', 'sum(position)'], 'relativedelta': ["interval('1 month')", "interval('3 days')"],
    'any': ['account', 'number', 'date'], '*': ['*'], 'list': ['other_accounts'],
}
SPECIAL = {
    ('date', ('int', 'int', 'int')): [['2020', '2', '30'], ['year', 'month', 'day']],
    ('grep', ('str', 'str')): [["'Ass'", 'account']],
    ('grepn', ('str', 'str', 'int')): [["'(A)ss'", 'account', '1'], ["'(A)ss'", 'account', '0']],
    ('subst', ('str', 'str', 'str')): [["'A'", "'b'", 'account']],
    ('findfirst', ('str', 'set')): [["'tr'", 'tags']],
    ('date_trunc', ('str', 'date')): [["'%s'" % u, 'date'] for u in ('week', 'month', 'quarter', 'year', 'decade', 'century', 'millennium', 'bogus')],
    ('date_part', ('str', 'date')): [["'%s'" % u, 'date'] for u in ('weekday', 'dow', 'isoweekday', 'week', 'month', 'quarter', 'year', 'isoyear', 'decade', 'century', 'millennium', 'epoch', 'bogus')],
    ('interval', ('str',)): [["'2 days'"], ["'1 month'"], ["'bogus'"]],
    ('date_bin', ('str', 'date', 'date')): [["'7 days'", 'date', '2019-01-01'], ["'1 month'", 'date', '2019-01-15']],
    ('date_bin', ('relativedelta', 'date', 'date')): [["interval('7 days')", 'date', '2019-01-01']],
    ('parse_date', ('str', 'str')): [["'2020-01-05'", "'%Y-%m-%d'"]],
    ('parse_date', ('str',)): [["'2020-01-05'"]],
    ('convert', None): None,
    ('maxwidth', ('str', 'int')): [['narration', '20'], ['account', '10']],
    ('splitcomp', ('str', 'str', 'int')): [['account', "':'", '0']],
    ('substr', ('str', 'int', 'int')): [['account', '0', '3'], ['account', '-4', '99']],
    ('root', ('str', 'int')): [['account', '2']],
    ('getprice', ('str', 'str')): [["'ACME'", "'USD'"]],
    ('getprice', ('str', 'str', 'date')): [["'ACME'", "'USD'", 'date']],
    ('only', ('str', 'Inventory')): [["'USD'", 'balance']],
    ('filter_currency', ('Position', 'str')): [['position', "'USD'"]],
    ('filter_currency', ('Inventory', 'str')): [['balance', "'USD'"]],
    ('possign', None): None,
    ('open_meta', ('str', 'str')): [['account', "'owner'"]],
    ('commodity_meta', ('str', 'str')): [['currency', "'name'"]],
    ('currency_meta', ('str', 'str')): [['currency', "'name'"]],
    ('commodity_meta', ('str',)): [['currency']],
    ('currency_meta', ('str',)): [['currency']],
    ('has_account', ('str',)): [["'Food'"]],
    ('today', ()): [[]],
}
AGG_NAMES = {'count', 'sum', 'first', 'last', 'min', 'max'}


def overload_queries(facts):
    """(label, text) for every function / aggregate overload of the generated registry"""
    out = []
    for fn in facts['functions']:
        name, tys = fn['name'], tuple(fn['intypes'])
        combos = SPECIAL.get((name, tys))
        if combos is None:
            lists = []
            ok = True
            for t in tys:
                if t not in ARG:
                    ok = False
                    break
                lists.append(ARG[t])
            if not ok:
                out.append(('%s(%s)' % (name, ','.join(tys)), None))
                continue
            n = max((len(l) for l in lists), default=1)
            combos = [[l[k % len(l)] for l in lists] for k in range(n)]
            if name in AGG_NAMES:
                combos = [c for c in combos if not any('sum(' in a for a in c)] or combos
        for args in combos:
            label = '%s(%s)' % (name, ','.join(tys))
            call = '%s(%s)' % (name, ', '.join(args))
            if any('sum(' in a for a in args) and name not in AGG_NAMES:
                text = 'SELECT %s AS v FROM #postings' % call
            else:
                text = 'SELECT %s AS v FROM #postings' % call
            out.append((label, text))
    return out


def operator_queries(facts):
    out = []
    OPS = {'Add': '+', 'Sub': '-', 'Mul': '*', 'Div': '/', 'Mod': '%', 'Equal': '=', 'NotEqual': '!=', 'Greater': '>',
           'GreaterEq': '>=', 'Less': '<', 'LessEq': '<=', 'Match': '~', 'NotMatch': '!~', 'In': 'IN', 'NotIn': 'NOT IN'}
    for op in facts['operators']:
        tys = op['intypes']
        if op['kind'] == 'binop' and op['name'] in OPS and all(t in ARG for t in tys):
            a, b = ARG[tys[0]][0], ARG[tys[1]][0]
            if tys[1] == 'dict':
                a = "'category'"
            out.append(('%s[%s]' % (op['name'], ','.join(tys)), 'SELECT %s %s %s AS v FROM #postings' % (a, OPS[op['name']], b)))
        elif op['kind'] == 'between' and all(t in ARG for t in tys):
            a, b, c = (ARG[t][0] for t in tys)
            out.append(('Between[%s]' % ','.join(tys), 'SELECT %s BETWEEN %s AND %s AS v FROM #postings' % (a, b, c)))
        elif op['kind'] in ('unopSafe', 'unopRaw'):
            t = tys[0]
            a = ARG.get(t, ['number'])[0]
            text = {'Not': 'SELECT NOT %s AS v FROM #postings', 'Neg': 'SELECT -%s AS v FROM #postings',
                    'IsNull': 'SELECT %s IS NULL AS v FROM #postings', 'IsNotNull': 'SELECT %s IS NOT NULL AS v FROM #postings'}[op['name']] % a
            out.append(('%s[%s]' % (op['name'], t), text))
    return out


NULLABLE = {'int': 'lineno % 0', 'Decimal': 'cost_number', 'str': 'cost_label', 'date': 'cost_date', 'bool': '(cost_number > 0)',
            'relativedelta': "interval(cost_label)", 'Amount': 'price', 'Position': "filter_currency(position, 'NOSUCH')"}
MIX_TYPES = ['int', 'Decimal', 'str', 'date', 'bool', 'relativedelta', 'Amount', 'Position', 'Inventory', 'set']
BINOPS = ['+', '-', '*', '/', '%', '=', '!=', '<', '<=', '>', '>=', '~', 'IN', 'AND', 'OR']


def mixed_queries(facts):
    """every ordered pair of operand types under coalesce() and under every binary operator, evaluated on rows where the
    first operand may be NULL; most are rejected by the checker, which is fine"""
    out = []
    for ta in MIX_TYPES:
        for tb in MIX_TYPES:
            a = NULLABLE.get(ta) or ARG[ta][0]
            for b in ARG[tb][:2]:
                out.append(('coalesce(%s,%s)' % (ta, tb), 'SELECT coalesce(%s, %s) AS v FROM #postings' % (a, b)))
            a2 = ARG[ta][0]
            b2 = ARG[tb][0]
            for op in BINOPS:
                out.append(('%s %s %s' % (ta, op, tb), 'SELECT %s %s %s AS v FROM #postings' % (a2, op, b2)))
                out.append(('%s %s %s in where' % (ta, op, tb), 'SELECT account FROM #postings WHERE %s %s %s' % (a2, op, b2)))
    for ta in MIX_TYPES:
        a = ARG[ta][0]
        out.append(('NOT %s' % ta, 'SELECT NOT %s AS v FROM #postings' % a))
        out.append(('%s AND TRUE' % ta, 'SELECT %s AND TRUE AS v, TRUE AND %s AS w, %s OR FALSE AS x FROM #postings' % (a, a, a)))
    # pivoted results: the announced datatypes follow the moved columns
    for by in ('1, 2', '2, 1', 'account, year', 'year, account', '3, 4', '4, 3'):
        out.append(('pivot by %s' % by, 'SELECT account, year, sum(number) AS total, last(date) AS d GROUP BY account, year PIVOT BY %s' % by))
        out.append(('pivot permuted by %s' % by, 'SELECT sum(number) AS total, last(date) AS d, account, year GROUP BY account, year PIVOT BY %s' % by))
    return out


def bean_layer(ctx):
    rng = ctx.rng
    nledgers = 3 if not ctx.thorough() else 10
    facts = ctx.facts
    fq = overload_queries(facts)
    oq = operator_queries(facts)
    undriven = [label for label, text in fq if text is None]
    if undriven:
        ctx.notes.append('overloads without a driver: %s' % undriven)
    for k in range(nledgers):
        text, entries, errors, options = ledgers.gen_ledger(rng, ntxn=rng.range(6, 16))
        conn = ledgers.connect(entries, errors, options)
        # every column of every table
        for tname, t in facts['tables'].items():
            for col in t['columns']:
                type_oracle(ctx, conn, 'SELECT %s FROM #%s' % (col['name'], tname), 'column:%s.%s' % (tname, col['name']))
            type_oracle(ctx, conn, 'SELECT * FROM #%s' % tname, 'wildcard:%s' % tname)
        # every postings column again on the rows that OPEN / CLOSE / CLEAR synthesise (summarisation and transfer entries
        # carry no metadata), and on the right of IN through a subquery (any datatype, hashable or not)
        dates = sorted({e.date for e in entries})
        mid = dates[len(dates) // 2].isoformat() if dates else '2020-01-01'
        for col in facts['tables']['postings']['columns']:
            for frm in ('OPEN ON %s' % mid, 'CLOSE ON %s' % mid, 'CLEAR', 'OPEN ON %s CLOSE CLEAR' % mid):
                type_oracle(ctx, conn, 'SELECT %s FROM %s' % (col['name'], frm), 'column-summarised:%s' % col['name'])
            type_oracle(ctx, conn, 'SELECT count(*) AS n FROM #postings WHERE %s IN (SELECT %s FROM #postings WHERE number > 0)'
                        % (col['name'], col['name']), 'in-subquery:%s' % col['name'])
            type_oracle(ctx, conn, 'SELECT %s NOT IN (SELECT %s FROM #postings) AS x FROM #postings' % (col['name'], col['name']),
                        'in-subquery:%s' % col['name'])
        # FROM-subqueries that expose, one after the other, columns of every datatype under ONE name at ONE position
        for col in facts['tables']['postings']['columns']:
            type_oracle(ctx, conn, 'SELECT x FROM (SELECT %s AS x FROM #postings)' % col['name'], 'subquery-column:%s' % col['name'])
        for expr in ('count(*)', 'sum(number)', 'sum(position)', 'first(date)', 'max(account)'):
            type_oracle(ctx, conn, 'SELECT x FROM (SELECT %s AS x FROM #postings)' % expr, 'subquery-column:%s' % expr)
        # aggregates over groups whose argument is NULL on every row (most accounts hold nothing at cost): what the
        # aggregate starts from is what comes out, and it is of the announced datatype too
        for expr in ('sum(cost_number)', 'min(cost_number)', 'max(cost_number)', 'first(cost_number)', 'last(cost_number)',
                     'count(cost_number)', 'sum(int(cost_number))', 'sum(price)', 'sum(cost_number) + 1', 'max(cost_date)',
                     'min(cost_currency)', 'first(cost_label)', 'sum(number * cost_number)', 'abs(sum(cost_number))'):
            type_oracle(ctx, conn, 'SELECT account, %s AS x FROM #postings GROUP BY account' % expr, 'aggregate-of-nulls:%s' % expr)
            type_oracle(ctx, conn, 'SELECT %s AS x FROM #postings WHERE cost_number IS NULL GROUP BY account' % expr,
                        'aggregate-of-nulls:%s' % expr)
        # a grouping key referred to twice (alias and expression, name and position): every column keeps its own values
        for q in ('SELECT year(date) AS y, account, sum(number) AS s FROM #postings GROUP BY y, year(date), account',
                  'SELECT account, number, count(*) AS n FROM #postings GROUP BY 1, 1, 2',
                  'SELECT account, date, count(*) AS n FROM #postings GROUP BY account, 1, date, 2',
                  'SELECT date, account, currency, count(*) AS n FROM #postings GROUP BY 2, account, 1, 3'):
            type_oracle(ctx, conn, q, 'repeated-grouping-key')
        # BETWEEN whose bounds are NULL on part of the rows (postings held without cost)
        for q in ('SELECT number BETWEEN 0 AND cost_number AS x FROM #postings', 'SELECT date BETWEEN 1900-01-01 AND cost_date AS x FROM #postings',
                  'SELECT number BETWEEN cost_number AND 100000 AS x FROM #postings', 'SELECT cost_number BETWEEN 0 AND 100000 AS x FROM #postings',
                  'SELECT account FROM #postings WHERE number BETWEEN -100000 AND cost_number',
                  'SELECT count(*) AS n FROM #postings WHERE date BETWEEN cost_date AND 2100-01-01'):
            type_oracle(ctx, conn, q, 'between-null-bounds')
        # structured attributes
        for sname, attrs in facts['structures'].items():
            base = {'position': ('position', 'postings'), 'cost': ('position.cost', 'postings'), 'amount': ('price', 'postings'),
                    'transaction': ('entry', 'postings'), 'open': ('open', 'accounts'), 'close': ('close', 'accounts')}.get(sname)
            if base is None:
                continue
            for a in attrs:
                type_oracle(ctx, conn, 'SELECT %s.%s AS v FROM #%s' % (base[0], a['name'], base[1]), 'attr:%s.%s' % (sname, a['name']))
        # every overload
        for label, q in fq + oq:
            if q is None:
                continue
            type_oracle(ctx, conn, q, 'overload:' + label)
            ctx.count('overload-driven')
        # statements the checker is expected to reject (mixed operand / argument types): whatever it accepts must
        # still be truthful about its types and must not fail with a type error
        for label, q in (mixed_queries(facts) if k == 0 or ctx.thorough() else []):
            type_oracle(ctx, conn, q, 'mixed:' + label)
            ctx.count('mixed-driven')
        # known finding probes
        for q, known in (('SELECT DISTINCT other_accounts FROM #postings', 'F-5'),
                         ('SELECT other_accounts, count(*) FROM #postings', 'F-5')):
            type_oracle(ctx, conn, q, 'probe', known=known)
        if ctx.stop():
            return


def user_layer(ctx, ncases):
    rng = ctx.rng
    table = None
    for n in range(ncases):
        if ctx.stop():
            return
        if table is None or n % 5 == 0:
            table = std_table(rng, nrows=rng.choice([1, 3, 7]))
        eg = gen_sql.ExprGen(ctx.facts, rng, gen_sql.STD_SCHEMA, max_depth=3)
        if rng.chance(1, 3):
            targets = [ast.Target(ast.Column(rng.choice(['s', 'b', 'i'])), None)]
            for j in range(2):
                node, _ = gen_sql.gen_agg_expr(rng, eg, 1)
                targets.append(ast.Target(node, 'a%d' % j))
        else:
            targets = [ast.Target(eg.expr(rng.choice(gen_sql.BASIC)), 'c%d' % j) for j in range(rng.range(1, 3))]
        where = eg.expr('bool', 2) if rng.chance(1, 2) else None
        sel = ast.Select(targets, ast.Table('t'), where, None, None, None, None, True if rng.chance(1, 5) else None)
        case = SqlCase([table], sel, name='user')
        case.check(ctx)
        conn = impl.connection([table])
        type_oracle(ctx, conn, sel, 'user', payload=case.payload())


def run(ctx):
    bean_layer(ctx)
    user_layer(ctx, 1500 if ctx.thorough() else 300)


def replay(ctx, body):
    replay_sql(ctx, body)
