"""C06 — parsing inverts printing; the shipped parser is the TatSu translation of the grammar."""
import datetime
import os
import subprocess
import sys
from decimal import Decimal

from beanquery import parser
from beanquery.parser import ast

import proto

RULE = ('(a) generated statement ASTs (SELECT with every clause combination, BALANCES, JOURNAL, PRINT; every node kind; the full '
        'parent-operator x child-operator x operand-position matrix; every literal form and boundary value) written as text '
        'with minimal or redundant parentheses, random letter case of keywords and identifiers, random whitespace, block and '
        'end-of-line comments, optional unary plus, alternative spellings of literals: (S) the shipped parser must return the '
        'generated AST, (B) the Lean lexer + parser model must return the same AST as the shipped parser;  (b) malformed texts '
        '(token deletions, duplications, swaps, replacements, insertions on valid texts): accept / reject and AST of the model '
        'vs the shipped parser;  (V) `python -m tatsu bql.ebnf` is regenerated and compared with the shipped parser.py; when they '
        'differ, the parser compiled from the grammar and the shipped parser are run on streams (a) and (b).  Non-trivial = the '
        'text has at least 6 tokens; distinct = distinct text.')
ASSUMPTIONS = ['input alphabet: printable ASCII plus the whitespace characters the generator uses (other Unicode whitespace and '
               'case-folding corner cases of the regex engine are outside the domain)',
               'identifiers avoid the reserved words, NULL, and the clause words OPEN / CLOSE / CLEAR / BETWEEN (which the grammar '
               'does not reserve but reads as clause words in some positions); strings do not contain both quote characters',
               'the character-level (scannerless) behaviour of TatSu is abstracted by a scanner with maximal munch; the abstraction '
               'is validated by this correspondence only']

KEYWORDS = ['AND', 'AS', 'ASC', 'BY', 'DESC', 'DISTINCT', 'FALSE', 'FROM', 'GROUP', 'HAVING', 'IN', 'IS', 'LIMIT', 'NOT', 'OR', 'ORDER',
            'PIVOT', 'SELECT', 'TRUE', 'WHERE', 'BALANCES', 'JOURNAL', 'PRINT']
IDENTS = ['a', 'b', 'c', 'x', 'y', 'account', 'date', 'number', '_t', 'f1', 'sum', 'count', 'on', 'at', 'nullx', 'selectx', 'is_', 'z9_q']
STRINGS = ['', 'a', 'x y', "it's", 'say "hi"', 'semi ; colon', '/* not a comment */', 'multi\nline', '%s', 'k']

P_OR, P_AND, P_NOT, P_CMP, P_SUM, P_TERM, P_UNARY, P_ATOM = range(8)
CMP = {ast.Equal: ['='], ast.NotEqual: ['!='], ast.Greater: ['>'], ast.GreaterEq: ['>='], ast.Less: ['<'], ast.LessEq: ['<='],
       ast.Match: ['~'], ast.NotMatch: ['!~'], ast.In: ['IN'], ast.NotIn: ['NOT', 'IN']}
SUM = {ast.Add: '+', ast.Sub: '-'}
TERM = {ast.Mul: '*', ast.Div: '/', ast.Mod: '%'}
BINARY = list(CMP) + list(SUM) + list(TERM)


def signature(mm):
    return 'C06:' + mm.name


# ---------------------------------------------------------------------------------------------
# canonical rendering of parsed statements (must agree with Lean `showStmt`)

_UN = {'Not': 'Not', 'Neg': 'Neg', 'IsNull': 'IsNull', 'IsNotNull': 'IsNotNull'}


def qs(s):
    return proto.q_show(s)


def show_expr(n):
    if isinstance(n, ast.Column):
        return '(col %s)' % qs(n.name)
    if isinstance(n, ast.Constant):
        return '(const %s)' % proto.show_value(n.value)
    if isinstance(n, ast.Placeholder):
        return '(ph %s)' % ('nil' if not n.name else qs(n.name))
    if isinstance(n, ast.Asterisk):
        return 'star'
    if isinstance(n, ast.Function):
        return '(func %s%s)' % (qs(n.fname), ''.join(' ' + show_expr(a) for a in n.operands))
    if isinstance(n, ast.Attribute):
        return '(attr %s %s)' % (show_expr(n.operand), qs(n.name))
    if isinstance(n, ast.Subscript):
        return '(subscript %s %s)' % (show_expr(n.operand), qs(n.key))
    if isinstance(n, ast.Between):
        return '(between %s %s %s)' % (show_expr(n.operand), show_expr(n.lower), show_expr(n.upper))
    if isinstance(n, ast.And):
        return '(and%s)' % ''.join(' ' + show_expr(a) for a in n.args)
    if isinstance(n, ast.Or):
        return '(or%s)' % ''.join(' ' + show_expr(a) for a in n.args)
    if isinstance(n, ast.UnaryOp):
        return '(un %s %s)' % (type(n).__name__, show_expr(n.operand))
    if isinstance(n, ast.BinaryOp):
        return '(bin %s %s %s)' % (type(n).__name__, show_expr(n.left), show_expr(n.right))
    if isinstance(n, ast.Select):
        return '(sub %s)' % show_select(n)
    raise ValueError('unshowable %r' % (n,))


def show_key(k):
    if isinstance(k, int) and not isinstance(k, bool):
        return '(idx %d)' % k
    return '(expr %s)' % show_expr(k)


def show_date(d):
    return '%04d-%02d-%02d' % (d.year, d.month, d.day)


def show_from(f):
    if f is None:
        return 'none'
    if isinstance(f, ast.Table):
        return '(table %s)' % qs(f.name)
    if isinstance(f, ast.Select):
        return '(sub %s)' % show_select(f)
    e = 'nil' if f.expression is None else show_expr(f.expression)
    o = 'nil' if f.open is None else show_date(f.open)
    c = 'absent' if f.close is None else 'flag' if f.close is True else show_date(f.close)
    return '(from %s %s %s %d)' % (e, o, c, 1 if f.clear else 0)


def show_select(s):
    if isinstance(s.targets, ast.Asterisk):
        targets = '*'
    else:
        targets = '(' + ' '.join('(t %s %s)' % (show_expr(t.expression), 'nil' if t.name is None else qs(t.name)) for t in s.targets) + ')'
    group, having = '()', 'nil'
    if s.group_by is not None:
        group = '(' + ' '.join(show_key(k) for k in s.group_by.columns) + ')'
        if s.group_by.having is not None:
            having = show_expr(s.group_by.having)
    order = '()'
    if s.order_by:
        order = '(' + ' '.join('(%s %d)' % (show_key(o.column), 1 if o.ordering else 0) for o in s.order_by) + ')'
    pivot = '()'
    if s.pivot_by is not None:
        pivot = '(' + ' '.join(show_key(k) for k in s.pivot_by.columns) + ')'
    return ('(select (targets %s) (from %s) (where %s) (group %s) (having %s) (order %s) (pivot %s) (limit %s) (distinct %d))'
            % (targets, show_from(s.from_clause), 'nil' if s.where_clause is None else show_expr(s.where_clause),
               group, having, order, pivot, 'nil' if s.limit is None else str(s.limit), 1 if s.distinct else 0))


def show_opt(s):
    return 'nil' if s is None else qs(s)


def show_stmt(s):
    if isinstance(s, ast.Select):
        return show_select(s)
    if isinstance(s, ast.Balances):
        return '(balances %s %s %s)' % (show_opt(s.summary_func), show_from(s.from_clause),
                                        'nil' if s.where_clause is None else show_expr(s.where_clause))
    if isinstance(s, ast.Journal):
        return '(journal %s %s %s)' % (show_opt(s.account), show_opt(s.summary_func), show_from(s.from_clause))
    if isinstance(s, ast.Print):
        return '(print %s)' % show_from(s.from_clause)
    raise ValueError('unshowable statement %r' % (s,))


def impl_parse(text, parse=parser.parse):
    try:
        st = parse(text)
    except parser.ParseError:
        return 'REJECT'
    except Exception as exc:  # noqa: BLE001
        return 'EXC:%s' % type(exc).__name__
    return 'OK ' + show_stmt(st)


def canon(line):
    return 'REJECT' if line.startswith('REJECT') else line


# ---------------------------------------------------------------------------------------------
# generation of ASTs

PRIMARY = (ast.Column, ast.Function, ast.Placeholder, ast.Attribute, ast.Subscript)


class Gen:
    def __init__(self, rng):
        self.rng = rng

    def ident(self):
        return self.rng.choice(IDENTS)

    def scalar(self):
        r = self.rng
        k = r.below(7)
        if k == 0:
            return None
        if k == 1:
            return r.chance(1, 2)
        if k == 2:
            return r.choice([0, 1, 7, 42, 1234, 99999999999999999999, 2020])
        if k == 3:
            return r.choice([Decimal('0'), Decimal('1'), Decimal('0.5'), Decimal('0.50'), Decimal('12.345'), Decimal('100.0'), Decimal('0.001')])
        if k == 4:
            return r.choice([datetime.date(2020, 1, 1), datetime.date(1999, 12, 31), datetime.date(2024, 2, 29), datetime.date(1, 1, 1),
                             datetime.date(9999, 12, 31)])
        return r.choice(STRINGS)

    def constant(self):
        r = self.rng
        if r.chance(1, 5):
            n = r.range(1, 4)
            items = [self.scalar() for _ in range(n)]
            # NULL items after the first are dropped by the parser: not expressible
            items = [items[0]] + [x for x in items[1:] if x is not None]
            return ast.Constant(items)
        return ast.Constant(self.scalar())

    def atom(self, depth):
        r = self.rng
        k = r.weighted([('col', 6), ('const', 5), ('func', 3), ('ph', 1), ('phn', 1), ('star', 1)])
        if k == 'col':
            return ast.Column(self.ident())
        if k == 'const':
            return self.constant()
        if k == 'ph':
            return ast.Placeholder('')
        if k == 'phn':
            return ast.Placeholder(self.ident())
        if k == 'star':
            return ast.Function(self.ident(), [ast.Asterisk()])
        return ast.Function(self.ident(), [self.expr(depth - 1) for _ in range(r.below(4))])

    def primary(self, depth):
        r = self.rng
        node = self.atom(depth)
        if isinstance(node, ast.Constant) and not isinstance(node.value, str):
            return node
        for _ in range(r.below(3)):
            if r.chance(1, 2):
                node = ast.Attribute(node, self.ident())
            else:
                node = ast.Subscript(node, r.choice([s for s in STRINGS if '\n' not in s]))
        return node

    def expr(self, depth):
        r = self.rng
        if depth <= 0:
            return self.primary(0)
        k = r.weighted([('prim', 5), ('or', 2), ('and', 2), ('not', 2), ('cmp', 4), ('isnull', 1), ('isnotnull', 1), ('between', 1),
                        ('sum', 3), ('term', 3), ('neg', 2), ('select', 1)])
        d = depth - 1
        if k == 'prim':
            return self.primary(d)
        if k == 'or':
            return ast.Or([self.expr(d) for _ in range(r.range(2, 3))])
        if k == 'and':
            return ast.And([self.expr(d) for _ in range(r.range(2, 3))])
        if k == 'not':
            return ast.Not(self.expr(d))
        if k == 'cmp':
            return r.choice(list(CMP))(self.expr(d), self.expr(d))
        if k == 'isnull':
            return ast.IsNull(self.expr(d))
        if k == 'isnotnull':
            return ast.IsNotNull(self.expr(d))
        if k == 'between':
            return ast.Between(self.expr(d), self.expr(d), self.expr(d))
        if k == 'sum':
            return r.choice(list(SUM))(self.expr(d), self.expr(d))
        if k == 'term':
            return r.choice(list(TERM))(self.expr(d), self.expr(d))
        if k == 'neg':
            return ast.Neg(self.expr(d))
        return self.select(min(d, 1))

    def key(self, depth):
        return self.rng.range(0, 12) if self.rng.chance(1, 3) else self.expr(depth)

    def from_(self, depth, tables=True):
        r = self.rng
        k = r.weighted([('table', 2 if tables else 0), ('sub', 1 if tables else 0), ('expr', 4), ('clauses', 3)])
        if k == 'table':
            return ast.Table(r.choice(['', 'postings', 'T_1', 'entries']))
        if k == 'sub':
            return self.select(min(depth, 1))
        e = self.expr(depth) if k == 'expr' else None
        o = datetime.date(2020, r.range(1, 12), r.range(1, 28)) if r.chance(1, 2) else None
        c = r.choice([None, True, datetime.date(2021, r.range(1, 12), r.range(1, 28))])
        cl = True if r.chance(1, 2) else None
        if e is None and o is None and c is None and cl is None:
            cl = True
        return ast.From(e, o, c, cl)

    def select(self, depth):
        r = self.rng
        if r.chance(1, 6):
            targets = ast.Asterisk()
        else:
            targets = [ast.Target(self.expr(depth), self.ident() if r.chance(1, 3) else None) for _ in range(r.range(1, 3))]
        frm = self.from_(depth) if r.chance(1, 2) else None
        where = self.expr(depth) if r.chance(1, 2) else None
        group = None
        if r.chance(1, 3):
            group = ast.GroupBy([self.key(depth) for _ in range(r.range(1, 3))], self.expr(depth) if r.chance(1, 2) else None)
        order = None
        if r.chance(1, 3):
            order = [ast.OrderBy(self.key(depth), r.choice([ast.Ordering.ASC, ast.Ordering.DESC])) for _ in range(r.range(1, 3))]
        pivot = None
        if r.chance(1, 5):
            pivot = ast.PivotBy([r.range(0, 9) if r.chance(1, 2) else ast.Column(self.ident()) for _ in range(2)])
        limit = r.choice([0, 1, 10, 123456789]) if r.chance(1, 4) else None
        return ast.Select(targets, frm, where, group, order, pivot, limit, True if r.chance(1, 5) else None)

    def statement(self, depth):
        r = self.rng
        k = r.weighted([('select', 8), ('balances', 1), ('journal', 1), ('print', 1)])
        if k == 'select':
            return self.select(depth)
        frm = self.from_(depth, tables=False) if r.chance(2, 3) else None
        sf = r.choice(['units', 'cost', self.ident()]) if r.chance(1, 2) else None
        if k == 'balances':
            return ast.Balances(sf, frm, self.expr(depth) if r.chance(1, 2) else None)
        if k == 'journal':
            return ast.Journal(r.choice([s for s in STRINGS]) if r.chance(1, 2) else None, sf, frm)
        return ast.Print(frm)


# ---------------------------------------------------------------------------------------------
# printing: AST -> token texts -> characters

class Printer:
    """emits a list of token texts; `exotic` enables redundant parentheses, unary plus and alternative literal spellings"""
    def __init__(self, rng, redundant=0, exotic=False, case_noise=False):
        self.rng = rng
        self.redundant = redundant
        self.exotic = exotic
        self.case_noise = case_noise

    def kw(self, word):
        if not self.case_noise:
            return word
        k = self.rng.below(4)
        if k == 0:
            return word.lower()
        if k == 1:
            return ''.join(c.lower() if self.rng.chance(1, 2) else c for c in word)
        return word

    def ident(self, name):
        if self.case_noise and self.rng.chance(1, 3):
            return ''.join(c.upper() if self.rng.chance(1, 2) else c for c in name)
        return name

    def string(self, s):
        if "'" in s and '"' in s:
            raise ValueError('inexpressible string')
        if "'" in s:
            return '"%s"' % s
        if '"' in s:
            return "'%s'" % s
        return ("'%s'" if self.rng.chance(1, 2) else '"%s"') % s

    def scalar(self, v):
        r = self.rng
        if v is None:
            return self.kw('NULL')
        if v is True:
            return self.kw('TRUE')
        if v is False:
            return self.kw('FALSE')
        if isinstance(v, int):
            return ('0' * r.below(3) if self.exotic and r.chance(1, 4) else '') + str(v)
        if isinstance(v, Decimal):
            s = format(v, 'f')
            if '.' not in s:
                s += '.'
            if self.exotic and s.startswith('0.') and len(s) > 2 and r.chance(1, 2):
                s = s[1:]
            elif self.exotic and r.chance(1, 4):
                s = '0' * r.range(1, 2) + s
            return s
        if isinstance(v, datetime.date):
            return '%04d-%02d-%02d' % (v.year, v.month, v.day)
        if isinstance(v, str):
            return self.string(v)
        raise ValueError('unprintable literal %r' % (v,))

    def constant(self, v):
        if not isinstance(v, list):
            return [self.scalar(v)]
        out = ['(']
        for i, x in enumerate(v):
            out.append(self.scalar(x))
            out.append(',')
            # dropped items: empty, or NULL (after the first position)
            while self.exotic and self.rng.chance(1, 6):
                if self.rng.chance(1, 2):
                    out.append(self.kw('NULL'))
                out.append(',')
        if len(v) > 1 and not (self.exotic and self.rng.chance(1, 4)):
            out.pop()    # no trailing comma
        out.append(')')
        return out

    def prec(self, node):
        if isinstance(node, ast.Or):
            return P_OR
        if isinstance(node, ast.And):
            return P_AND
        if isinstance(node, ast.Not):
            return P_NOT
        if type(node) in CMP or isinstance(node, (ast.IsNull, ast.IsNotNull, ast.Between)):
            return P_CMP
        if type(node) in SUM:
            return P_SUM
        if type(node) in TERM:
            return P_TERM
        if isinstance(node, ast.Neg):
            return P_UNARY
        if isinstance(node, ast.Select):
            return -1       # always parenthesised inside expressions
        return P_ATOM

    def wrap(self, node, minprec):
        toks = self.expr(node)
        if self.prec(node) < minprec:
            return ['('] + toks + [')']
        is_list = isinstance(node, ast.Constant) and isinstance(node.value, list)
        if self.redundant and minprec <= P_UNARY and not is_list and self.rng.below(100) < self.redundant:
            toks = ['('] + toks + [')']
            if self.rng.chance(1, 4):
                toks = ['('] + toks + [')']
            return toks
        if (self.exotic and minprec <= P_UNARY and self.rng.chance(1, 8) and
                isinstance(node, (ast.Column, ast.Function, ast.Constant, ast.Placeholder))):
            return ['+'] + toks        # `+atom` is the atom
        return toks

    def expr(self, n):
        if isinstance(n, ast.Or):
            out = []
            for i, a in enumerate(n.args):
                out += ([self.kw('OR')] if i else []) + self.wrap(a, P_AND)
            return out
        if isinstance(n, ast.And):
            out = []
            for i, a in enumerate(n.args):
                out += ([self.kw('AND')] if i else []) + self.wrap(a, P_NOT)
            return out
        if isinstance(n, ast.Not):
            return [self.kw('NOT')] + self.wrap(n.operand, P_NOT)
        if isinstance(n, ast.IsNull):
            return self.wrap(n.operand, P_SUM) + [self.kw('IS'), self.kw('NULL')]
        if isinstance(n, ast.IsNotNull):
            return self.wrap(n.operand, P_SUM) + [self.kw('IS'), self.kw('NOT'), self.kw('NULL')]
        if isinstance(n, ast.Between):
            return (self.wrap(n.operand, P_SUM) + [self.kw('BETWEEN')] + self.wrap(n.lower, P_SUM) + [self.kw('AND')] +
                    self.wrap(n.upper, P_SUM))
        if type(n) in CMP:
            return self.wrap(n.left, P_SUM) + [self.kw(w) for w in CMP[type(n)]] + self.wrap(n.right, P_SUM)
        if type(n) in SUM:
            return self.wrap(n.left, P_SUM) + [SUM[type(n)]] + self.wrap(n.right, P_TERM)
        if type(n) in TERM:
            return self.wrap(n.left, P_TERM) + [TERM[type(n)]] + self.wrap(n.right, P_UNARY)
        if isinstance(n, ast.Neg):
            return ['-'] + self.wrap(n.operand, P_UNARY)
        if isinstance(n, ast.Attribute):
            return self.primary_operand(n.operand) + ['.', self.ident(n.name)]
        if isinstance(n, ast.Subscript):
            return self.primary_operand(n.operand) + ['[', self.string(n.key), ']']
        if isinstance(n, ast.Function):
            if len(n.operands) == 1 and isinstance(n.operands[0], ast.Asterisk):
                return [self.ident(n.fname), '(', '*', ')']
            out = [self.ident(n.fname), '(']
            for i, a in enumerate(n.operands):
                out += ([','] if i else []) + self.expr_top(a)
            return out + [')']
        if isinstance(n, ast.Column):
            return [self.ident(n.name)]
        if isinstance(n, ast.Constant):
            return self.constant(n.value)
        if isinstance(n, ast.Placeholder):
            return ['%s' if self.rng.chance(1, 2) else '%S'] if not n.name else ['%(', self.ident(n.name), ')s' if self.rng.chance(2, 3) else ')S']
        if isinstance(n, ast.Select):
            return self.select(n)
        raise ValueError('unprintable node %r' % (n,))

    def primary_operand(self, n):
        if not isinstance(n, PRIMARY) and not (isinstance(n, ast.Constant) and isinstance(n.value, (str, list))):
            raise ValueError('attribute / subscript operand is not a primary')
        return self.expr(n)

    def expr_top(self, n):
        return self.wrap(n, P_OR)

    def key(self, k):
        if isinstance(k, int) and not isinstance(k, bool):
            return [str(k)]
        toks = self.expr_top(k)
        # a key that starts with a numeral is read as a position (dates and decimals with a leading digit fail)
        if toks[0][:1].isdigit():
            return ['('] + toks + [')']
        return toks

    def from_body(self, f):
        out = []
        if f.expression is not None:
            toks = self.expr_top(f.expression)
            if toks[0].lower() in ('open', 'close', 'clear'):
                raise ValueError('FROM expression starting with a clause word')
            out += toks
        if f.open is not None:
            out += [self.kw('OPEN'), self.kw('ON'), self.scalar(f.open)]
        if f.close is not None:
            out += [self.kw('CLOSE')] if f.close is True else [self.kw('CLOSE'), self.kw('ON'), self.scalar(f.close)]
        if f.clear:
            out += [self.kw('CLEAR')]
        return out

    def from_(self, f):
        if isinstance(f, ast.Table):
            return ['#' + f.name]
        if isinstance(f, ast.Select):
            return ['('] + self.select(f) + [')']
        toks = self.from_body(f)
        if toks[:1] == ['('] and toks[1:2] and toks[1].lower() == 'select':
            # `FROM (SELECT ...) ...` is read as a subquery table: a FROM *expression* needs another pair of parentheses
            raise ValueError('FROM expression starting with a parenthesised SELECT')
        return toks

    def select(self, s):
        out = [self.kw('SELECT')]
        if s.distinct:
            out.append(self.kw('DISTINCT'))
        if isinstance(s.targets, ast.Asterisk):
            out.append('*')
        else:
            for i, t in enumerate(s.targets):
                out += ([','] if i else []) + self.expr_top(t.expression)
                if t.name is not None:
                    out += [self.kw('AS'), self.ident(t.name)]
        if s.from_clause is not None:
            out += [self.kw('FROM')] + self.from_(s.from_clause)
        if s.where_clause is not None:
            out += [self.kw('WHERE')] + self.expr_top(s.where_clause)
        if s.group_by is not None:
            out += [self.kw('GROUP'), self.kw('BY')]
            for i, k in enumerate(s.group_by.columns):
                out += ([','] if i else []) + self.key(k)
            if s.group_by.having is not None:
                out += [self.kw('HAVING')] + self.expr_top(s.group_by.having)
        if s.order_by:
            out += [self.kw('ORDER'), self.kw('BY')]
            for i, o in enumerate(s.order_by):
                out += ([','] if i else []) + self.key(o.column)
                if o.ordering:
                    out.append(self.kw('DESC'))
                elif self.rng.chance(1, 2):
                    out.append(self.kw('ASC'))
        if s.pivot_by is not None:
            out += [self.kw('PIVOT'), self.kw('BY')]
            for i, k in enumerate(s.pivot_by.columns):
                out += ([','] if i else []) + ([str(k)] if isinstance(k, int) else [self.ident(k.name)])
        if s.limit is not None:
            out += [self.kw('LIMIT'), str(s.limit)]
        return out

    def statement(self, s):
        if isinstance(s, ast.Select):
            return self.select(s)
        out = []
        if isinstance(s, ast.Balances):
            out = [self.kw('BALANCES')]
        elif isinstance(s, ast.Journal):
            out = [self.kw('JOURNAL')] + ([self.string(s.account)] if s.account is not None else [])
        else:
            out = [self.kw('PRINT')]
        if getattr(s, 'summary_func', None) is not None:
            out += [self.kw('AT'), self.ident(s.summary_func)]
        if s.from_clause is not None:
            out += [self.kw('FROM')] + self.from_body(s.from_clause)
        if isinstance(s, ast.Balances) and s.where_clause is not None:
            out += [self.kw('WHERE')] + self.expr_top(s.where_clause)
        return out


def needs_sep(a, b):
    """must the token texts a, b be separated to be read as two tokens (by both parsers)?"""
    wa = a[-1].isalnum() or a[-1] == '_'
    wb = b[0].isalnum() or b[0] == '_'
    if wa and wb:
        return True
    if (a[-1].isdigit() and b[0] == '.') or (a[-1] == '.' and b[0].isdigit()):
        return True
    if a in ('%', '%(') or b in (')s', ')S') and False:
        return True
    if a == '%' and b[0] in 'sS(':
        return True
    if a == ')' and b[0] in 'sS':
        return True
    if a + b[0] in ('<=', '>=', '!=', '!~', '/*', '*/') or (a[-1] + b[0]) in ('/*',):
        return True
    if a[0] == '#' and wb:
        return True
    return False


SEPS = [(' ', 12), ('  ', 2), ('\t', 1), ('\n', 2), ('\r\n', 1), (' \x0c ', 1), (' /* c */ ', 1), ('/**/', 1), ('/* * / ** */', 1),
        (' ; eol ) comment \' (\n', 1), ('\n;;\n', 1)]


def render(rng, toks, noise):
    out = []
    for i, t in enumerate(toks):
        if i:
            if not noise:
                out.append(' ')
            elif needs_sep(toks[i - 1], t) or not rng.chance(1, 3):
                out.append(rng.weighted(SEPS))
        out.append(t)
    text = ''.join(out)
    if noise:
        text = rng.weighted([('', 3), (' ', 1), ('\n', 1), ('/* lead */', 1)]) + text + rng.weighted([('', 4), (';', 2), (' ;', 1), ('; trailing words (', 1), ('\n', 1), (' /* t */', 1)])
    return text


# ---------------------------------------------------------------------------------------------
# layers

def check_text(ctx, name, text, expect=None, parse=parser.parse, meta=None):
    """B: model vs shipped parser on one text; S: the shipped parser returns the generated AST"""
    line = '(parse %s)' % proto.q(text)
    got = {}

    def impl():
        got['r'] = impl_parse(text, parse)
        return got['r']
    ctx.check(name, [line], impl, nontrivial=text.count(' ') >= 5, meta=dict(meta or {}, text=text), canon=canon)
    if expect is not None and got.get('r') is not None and got['r'] != 'OK ' + expect:
        ctx.record_violation(name + ':round-trip', 'text %r parses to %s, generated from %s' % (text, got['r'][:400], expect[:400]),
                             payload={'text': text})


def roundtrip_layer(ctx, n, depth):
    rng = ctx.rng
    g = Gen(rng)
    for k in range(n):
        st = g.statement(rng.weighted([(1, 3), (2, 4), (depth, 2)]))
        mode = k % 4
        pr = Printer(rng, redundant=(0, 0, 25, 40)[mode], exotic=mode >= 2, case_noise=mode >= 1)
        try:
            toks = pr.statement(st)
        except ValueError:
            ctx.count('inexpressible')
            continue
        text = render(rng, toks, noise=mode >= 1)
        ctx.count('stmt:' + type(st).__name__)
        ctx.count('tokens:%d' % min(60, 10 * (len(toks) // 10)))
        check_text(ctx, 'roundtrip', text, show_stmt(st))
        if ctx.stop():
            return


def leaf(i):
    return ast.Column('abc'[i % 3])


def node_of(kind, kids):
    if kind in ('or', 'and'):
        return (ast.Or if kind == 'or' else ast.And)(list(kids))
    if kind == 'not':
        return ast.Not(kids[0])
    if kind == 'neg':
        return ast.Neg(kids[0])
    if kind == 'isnull':
        return ast.IsNull(kids[0])
    if kind == 'isnotnull':
        return ast.IsNotNull(kids[0])
    if kind == 'between':
        return ast.Between(*kids)
    return kind(*kids)


ARITY = {'or': 2, 'and': 2, 'not': 1, 'neg': 1, 'isnull': 1, 'isnotnull': 1, 'between': 3}
KINDS = ['or', 'and', 'not', 'neg', 'isnull', 'isnotnull', 'between'] + BINARY


def matrix_layer(ctx):
    """every parent x child x operand position, minimal and redundant parentheses; plus grandchildren for associativity"""
    rng = ctx.rng
    idx = 0
    for parent in KINDS:
        pa = ARITY.get(parent, 2)
        for child in KINDS:
            ca = ARITY.get(child, 2)
            for pos in range(pa):
                idx += 1
                if not ctx.thorough() and idx % 10 != ctx.seed % 10:
                    continue        # the quick tier walks a tenth of the matrix, chosen by the seed
                kid = node_of(child, [leaf(i) for i in range(ca)])
                kids = [leaf(i + 1) for i in range(pa)]
                kids[pos] = kid
                st = ast.Select([ast.Target(node_of(parent, kids), None)], None, None, None, None, None, None, None)
                for redundant in (0, 60):
                    pr = Printer(rng, redundant=redundant)
                    text = render(rng, pr.statement(st), noise=False)
                    ctx.count('matrix')
                    check_text(ctx, 'matrix', text, show_stmt(st))
                if ctx.stop():
                    return


def literal_layer(ctx):
    rng = ctx.rng
    texts = ['SELECT %s' % t for t in
             ['0', '007', '1.', '.5', '0.50', '00.50', '1.5', '99999999999999999999999999', '0.12345678901234567890123456789',
              '1.0000000000000000000000000001', '123456789012345678901234567890.12345', '1.0000000000000000000000000001 = 1.0', '2020-01-01', '0001-01-01', '9999-12-31',
              '2020-02-29', '2021-02-29', '2020-13-01', '2020-00-10', '0000-01-01', '2020-1-1', '12345-01-01', '2020-01-015', '1.5.2', '1 .5',
              "''", '""', "'a''b'", '"x\'y"', "'multi\nline'", "'a\\'", "'unterminated", 'TRUE', 'true', 'False', 'NULL', 'null', 'Null',
              '(1, 2)', '(1,)', '(1,,2)', '(1, NULL)', '(NULL, 1)', '(NULL, NULL)', '(NULL,)', '(1,2,)', '(,1)', '()', '(1)', '((1, 2))',
              '(1, -2)', '(1, x)', '(1, (2, 3))', '(TRUE, false)', "('a', 2020-01-01, 1.5, TRUE)", '(2020-13-01, 1)', '(1, 2020-13-01)',
              '(1, 2).x', "(1, 2)['k']", '+(1, 2)', '+1', '+ a', '+f(x)', '+(a)', '+-a', '+a.b', '-a.b', '-(a).b', '- -a', '++a', 'a ++ b', 'a +- b',
              '%s', '%S', '%(x)s', '%(X)S', '%( x )s', '%(x) s', '%(x)sAS y', '%sAS y', 'a %s', '5 %s', 'a %(b)', 'a % (b)', 'a %  s',
              'x BETWEEN %s AND %s', 'x IN %s', 'f(%s)', '%s + %s', '%s.b', '(a) %s', "'x' %s", 'a[\'k\'] %s',
              'null(1)', 'nullx', 'between', 'open', 'close, clear', 'on', 'at', 'a AS null', 'a AS open', 'a AS select',
              'a.b.c', "a['x']['y'].z", 'a . b', "a [ 'k' ]", '(a).b', 'a.5', 'a.b(c)', 'a[1]', "'x'.b", '1 .b', 'f(a).b', 'f (a)', 'f()', 'f(a,)', 'f(*)', 'f(*, a)',
              'a < b < c', '(a < b) < c', 'a < =b', 'a<=b', 'a<>b', 'a ! = b', 'a !~b', 'a IS NULL = b', 'a IS NOTNULL', 'a ISNULL', 'a NOT  IN b',
              'NOT a = NOT b', 'a = NOT b', '- NOT a', 'NOT -a', 'a BETWEEN b AND c AND d', 'a BETWEEN b AND c BETWEEN d AND e', 'a BETWEEN 1 OR 2 AND 3',
              'SELECT a', 'SELECT a, b', '(SELECT a), b', '(SELECT a).b', 'x IN SELECT c', 'x IN (SELECT c FROM #t)', '1AS x', 'a ANDb', 'aAND b', 'a AND(b)']]
    texts += ['SELECT a ' + t for t in
              ['GROUP BY 1', 'GROUP BY 01', 'GROUP BY 1 + 2', 'GROUP BY (1) + 2', 'GROUP BY 2020-01-01', 'GROUP BY 1.5', 'GROUP BY .5', 'GROUP BY (1)',
               'GROUP BY b HAVING c', 'HAVING c', 'ORDER BY 1 DESC, b ASC, c, 2 asc', 'ORDER BY 1+2', 'ORDER BY b DESC ASC', 'ORDER BY (2) DESC',
               'PIVOT BY 1, b', 'PIVOT BY a, b, c', 'PIVOT BY a.b, c', 'PIVOT BY 1', 'PIVOT BY (a), b', 'PIVOT BY null, at', 'LIMIT 5', 'LIMIT 5.0', 'LIMIT -1', 'LIMIT 05',
               'FROM open = 1', 'FROM x = open', 'FROM clear', 'FROM close', 'FROM x CLOSE ON 5', 'FROM x OPEN ON 2020-13-01', 'FROM OPEN', 'FROM #', 'FROM #t',
               'FROM # t', 'FROM #1', 'FROM #T_x WHERE b', 'FROM (SELECT b)', 'FROM ((SELECT b))', 'FROM (SELECT b) = 1', 'FROM (SELECT b) x', 'FROM (b)',
               'FROM b CLEAR CLOSE', 'FROM CLOSE ON 2020-01-01 CLEAR', 'FROM OPEN ON 2020-01-01 CLOSE', 'FROM x open on 2020-01-01 close on 2020-01-02 clear',
               'WHERE', 'WHERE b WHERE c', 'LIMIT 1 LIMIT 2', 'LIMIT 1 ORDER BY b', 'ORDER BY b LIMIT 1', ', FROM b',
               '/* unterminated', '/* x */ /* y */', '/**/', '/***/', '/* * / */', '/*/ x */', "; 'x", ';\n\n', '; ; ;', ';x\n;y', ';x\nFROM b']]
    texts += ['', '  ', ';', 'SELECT', 'SELECTx', 'SELECT *', 'SELECT *, a', 'SELECT a, *', 'SELECT DISTINCT *', 'SELECT distinct', 'SELECT DISTINCT DISTINCT a',
              'SELECT FROM b', '/* c */ SELECT a', '; c\nSELECT a', 'SELECT\xa0a', 'SELECT\x0ba', 'SELECT\x1ca',
              'BALANCES', 'balances at Cost', 'BALANCES AT', 'BALANCES AT at', 'BALANCES AT from', 'BALANCES WHERE a FROM b', 'BALANCES FROM #t',
              'BALANCES FROM (SELECT a)', 'BALANCES AT cost FROM year = 2020 WHERE a', 'JOURNAL', 'JOURNAL "x"', "JOURNAL 'x' 'y'", 'JOURNAL x', 'JOURNAL AT',
              "JOURNAL 'x' AT units FROM CLOSE", 'JOURNAL AT units', 'PRINT', 'PRINT FROM a', 'PRINT WHERE a', 'PRINT FROM #t', 'PRINT FROM CLEAR',
              'SELECT 1; SELECT 2', 'SELECT 1 ; a\n+ 2']
    for t in texts:
        ctx.count('literal-forms')
        check_text(ctx, 'forms', t)


VOCAB = KEYWORDS + ['NULL', 'OPEN', 'CLOSE', 'CLEAR', 'ON', 'AT', 'BETWEEN', 'a', 'b', 'f', '1', '2.5', '2020-01-01', "'s'", '(', ')', ',', '.', '[', ']',
                    '*', '/', '+', '-', '%', '<', '<=', '>', '>=', '=', '!=', '~', '!~', '%s', '#t', ';']


def malformed_layer(ctx, n):
    rng = ctx.rng
    g = Gen(rng)
    for k in range(n):
        st = g.statement(rng.range(1, 2))
        try:
            toks = Printer(rng).statement(st)
        except ValueError:
            continue
        toks = list(toks)
        for _ in range(rng.range(1, 2)):
            op = rng.below(5)
            i = rng.below(len(toks))
            if op == 0 and len(toks) > 1:
                del toks[i]
            elif op == 1:
                toks.insert(i, toks[i])
            elif op == 2 and i + 1 < len(toks):
                toks[i], toks[i + 1] = toks[i + 1], toks[i]
            elif op == 3:
                toks[i] = rng.choice(VOCAB)
            else:
                toks.insert(i, rng.choice(VOCAB))
        text = ' '.join(toks)
        ctx.count('malformed')
        check_text(ctx, 'malformed', text)
        if ctx.stop():
            return


def grammar_layer(ctx):
    """V: the shipped parser.py is the TatSu translation of bql.ebnf"""
    import beanquery.parser as pkg
    d = os.path.dirname(pkg.__file__)
    ebnf = os.path.join(d, 'bql.ebnf')
    shipped = open(os.path.join(d, 'parser.py')).read()
    r = subprocess.run([sys.executable, '-m', 'tatsu', ebnf], capture_output=True, text=True, timeout=300)
    ctx.count('grammar-regenerated')
    ctx.evaluations += 1
    if r.returncode != 0:
        ctx.record_violation('grammar-does-not-compile', r.stderr[-400:])
        return None

    def norm(s):
        return '\n'.join(l.rstrip() for l in s.strip().splitlines() if not l.startswith('# CAVEAT') and 'generated' not in l.lower())
    if norm(r.stdout) == norm(shipped):
        ctx.notes.append('parser.py is identical to the TatSu translation of bql.ebnf')
        return None
    # they differ as text: compare behaviour of the parser compiled from the grammar with the shipped one
    import tatsu
    from beanquery.parser import BQLSemantics
    model = tatsu.compile(open(ebnf).read())

    def grammar_parse(text):
        try:
            return model.parse(text, semantics=BQLSemantics())
        except ValueError as exc:
            raise parser.ParseError(None) from exc
        except tatsu.exceptions.ParseError as exc:
            raise parser.ParseError(None) from exc
    ctx.notes.append('parser.py differs textually from the TatSu translation of bql.ebnf: comparing behaviour')
    return grammar_parse


def grammar_diff_layer(ctx, grammar_parse, n):
    rng = ctx.rng.fork('grammar')
    g = Gen(rng)
    found = 0
    for k in range(n):
        st = g.statement(2)
        try:
            toks = Printer(rng, redundant=20, exotic=True, case_noise=True).statement(st)
        except ValueError:
            continue
        text = render(rng, toks, noise=True)
        a, b = impl_parse(text), impl_parse(text, grammar_parse)
        ctx.evaluations += 1
        ctx.count('grammar-differential')
        if a != b:
            ctx.record_violation('shipped-parser-differs-from-grammar', '%r: shipped %s, grammar %s' % (text, a[:300], b[:300]), payload={'text': text})
            found += 1
            if found >= 3:
                return
    if not found:
        ctx.record_violation('shipped-parser-differs-from-grammar-text', 'parser.py is not the TatSu translation of bql.ebnf; '
                             'no text on which they behave differently was found in %d generated statements' % n,
                             meta={'no_failing_input': True})


# separators where TatSu's gathers accept or reject them (a corpus of minimised past disagreements runs first)
SEPARATOR_CORPUS = ['SELECT f(, 1)', 'SELECT f(,)', 'SELECT f(, 1, 2)', 'SELECT f(1, , 2)', 'SELECT f(1,)', 'SELECT (, 1, 2)',
                    'SELECT 1 IN (, 1, 2)', 'SELECT a FROM #t GROUP BY , a', 'SELECT , a', 'SELECT a ORDER BY , a', 'SELECT f()',
                    'SELECT f( , )', 'SELECT a PIVOT BY , a, b', 'SELECT coalesce(, a)', 'SELECT (1, NULL, 2)', 'SELECT (1, , 2)',
                    'SELECT (1, 2,)', 'SELECT f(g(, 1), h(,))', 'SELECT NULL(, FALSE, 1)', 'SELECT count(, *)', 'SELECT f(, *)']


# statements that differ only in white space that matters (inside a string, at the end of a comment), one after the
# other; aliases and identifiers in upper case
SEQUENCE_CORPUS = ["SELECT 'Cafe  Mogador'", "SELECT 'Cafe Mogador'", "SELECT 'Cafe   Mogador'", 'SELECT a ; pick a\n, b', 'SELECT a ; pick a , b',
                   "SELECT 'a\tb', 'a b'", "SELECT 'a b', 'a\tb'", 'SELECT a AS Total, B AS xY FROM #T ORDER BY Total', 'SELECT a AS total FROM #t',
                   'SELECT A AS TOTAL FROM #T', 'SELECT f(X) AS F_x, Sum(y) AS S GROUP BY F_x']


def run(ctx):
    for text in SEQUENCE_CORPUS:
        ctx.count('sequence-corpus')
        check_text(ctx, 'sequence', text)
    for text in SEPARATOR_CORPUS:
        ctx.count('separator-corpus')
        check_text(ctx, 'separators', text)
    grammar_parse = grammar_layer(ctx)
    if grammar_parse is not None:
        grammar_diff_layer(ctx, grammar_parse, 600 if ctx.thorough() else 150)
    literal_layer(ctx)
    matrix_layer(ctx)
    if ctx.stop():
        return
    roundtrip_layer(ctx, 3000 if ctx.thorough() else 200, 3)
    if ctx.stop():
        return
    malformed_layer(ctx, 4000 if ctx.thorough() else 300)


def replay(ctx, body):
    meta = body.get('meta') or {}
    text = meta.get('text')
    print('replay: text = %r' % (text,))
    if text is not None:
        print('  shipped parser:', impl_parse(text)[:500])
