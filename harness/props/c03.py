"""C03 — ORDER BY / DISTINCT / LIMIT: correspondence of the sort/dedup/cut pipeline."""
import datetime
import itertools
from decimal import Decimal

from beanquery.parser import ast

import gen_sql
import impl
from sqlcase import SqlCase, std_table, replay_sql

RULE = ('layer 2: for k = 1..4 keys, tables holding every combination of {NULL, a, b} per key column twice (a witness '
        'column makes stability visible), shuffled, x every ASC/DESC pattern x keys given by position / name / expression '
        '/ hidden; layer 3: seeded random queries (aggregate and not) with ORDER BY on visible, hidden and aggregate keys, '
        'DISTINCT and LIMIT in {0, <n, =n, >n}.  Non-trivial = result has at least two rows; distinct = distinct protocol line.')
ASSUMPTIONS = ['list.sort is a stable sort and reverse=True is the stable sort by the converse order (modelled)',
               'keys of partially ordered / unhashable types (set, dict, Inventory) are outside the domain']

DOMAINS = {
    'int': [None, 1, 2], 'Decimal': [None, Decimal('1.0'), Decimal('2.50')], 'str': [None, 'a', 'b'],
    'date': [None, datetime.date(2020, 1, 1), datetime.date(2020, 2, 1)], 'bool': [None, False, True],
}


def signature(mm):
    return 'C03:' + mm.name + ':' + mm.model.split(' ')[0] + '/' + ' '.join(mm.impl.split(' ')[:2])


def combo_table(rng, k, types):
    cols = [('k%d' % j, types[j]) for j in range(k)] + [('w', 'int')]
    rows = []
    w = 0
    for rep in range(2):
        for combo in itertools.product(*[DOMAINS[t] for t in types]):
            rows.append(tuple(combo) + (w,))
            w += 1
    rows = rng.shuffle(rows)
    # renumber the witness in table order so that ties are visibly ordered
    rows = [r[:-1] + (n,) for n, r in enumerate(rows)]
    return impl.HTable('t', [(c, gen_sql.PYTYPES[t]) for c, t in cols], rows), cols


def pattern_layer(ctx):
    rng = ctx.rng
    kmax = 4
    for k in range(1, kmax + 1):
        reps = 2 if not ctx.thorough() else 5
        for rep in range(reps):
            types = [rng.choice(list(DOMAINS)) for _ in range(k)]
            table, cols = combo_table(rng, k, types)
            for dirs in itertools.product([0, 1], repeat=k):
                for mode in ('name', 'position', 'expr', 'hidden'):
                    if mode == 'hidden':
                        targets = [ast.Target(ast.Column('w'), None)]
                        keys = [ast.Column('k%d' % j) for j in range(k)]
                    else:
                        targets = [ast.Target(ast.Column('k%d' % j), None) for j in range(k)] + [ast.Target(ast.Column('w'), None)]
                        if mode == 'name':
                            keys = [ast.Column('k%d' % j) for j in range(k)]
                        elif mode == 'position':
                            keys = [j + 1 for j in range(k)]
                        else:
                            keys = [ast.Function('coalesce', [ast.Column('k%d' % j)]) for j in range(k)]
                    order = [ast.OrderBy(key, ast.Ordering(d)) for key, d in zip(keys, dirs)]
                    sel = ast.Select(targets, ast.Table('t'), None, None, order, None, None, None)
                    SqlCase([table], sel, name='pattern-' + mode).check(ctx, meta={'dirs': dirs, 'types': types})
                    ctx.count('dirs:%s' % ''.join(map(str, dirs)))
                if ctx.stop():
                    return
            # permuted key order and DISTINCT / LIMIT on projections
            perm = rng.shuffle(list(range(k)))
            order = [ast.OrderBy(ast.Column('k%d' % j), ast.Ordering(rng.below(2))) for j in perm]
            # ... and ordered on only some of the visible columns: equal visible rows are then not next to each other
            for order_ in ([order, order[:1]] if k >= 2 else [order]):
                for distinct in (None, True):
                    for limit in (None, 0, 1, 5, len(table.rows), len(table.rows) + 3):
                        targets = [ast.Target(ast.Column('k%d' % j), None) for j in range(k)]
                        sel = ast.Select(targets, ast.Table('t'), None, None, order_, None, limit, distinct)
                        SqlCase([table], sel, name='distinct-limit').check(ctx)
                        ctx.count('limit:%s' % limit)


def random_layer(ctx, ncases):
    rng = ctx.rng
    table = None
    for n in range(ncases):
        if ctx.stop():
            return
        if table is None or n % 4 == 0:
            table = std_table(rng, nrows=rng.choice([0, 1, 3, 6, 10, 14]), null_pct=25, small=rng.chance(1, 2))
        eg = gen_sql.ExprGen(ctx.facts, rng, gen_sql.STD_SCHEMA, max_depth=2, allow_obj=False)
        aggregate = rng.chance(1, 3)
        if aggregate:
            gcols = rng.shuffle(['i', 's', 'b', 'dt', 'd'])[:rng.range(1, 2)]
            targets = [ast.Target(ast.Column(c), None) for c in gcols]
            aggs = []
            for j in range(rng.range(1, 2)):
                node, ty = gen_sql.gen_aggregate(rng, eg, 1)
                aggs.append(node)
                targets.append(ast.Target(node, 'a%d' % j))
            keys = []
            for _ in range(rng.range(1, 3)):
                kind = rng.choice(['group', 'agg', 'pos', 'newagg'])
                if kind == 'group':
                    keys.append(ast.Column(rng.choice(gcols)))
                elif kind == 'agg':
                    keys.append(ast.Column('a%d' % rng.below(len(aggs))))
                elif kind == 'pos':
                    keys.append(rng.range(1, len(targets)))
                else:
                    keys.append(gen_sql.gen_aggregate(rng, eg, 1)[0])
            group = None  # implicit GROUP BY
        else:
            names = rng.shuffle([n_ for n_, t in gen_sql.STD_SCHEMA if t != 'object'])[:rng.range(1, 4)]
            targets = [ast.Target(ast.Column(c), None) for c in names]
            if rng.chance(1, 2):
                targets.append(ast.Target(eg.expr(rng.choice(gen_sql.BASIC)), 'x'))
            keys = []
            for _ in range(rng.range(1, 4)):
                kind = rng.choice(['visible', 'hidden', 'pos', 'expr'])
                if kind == 'visible':
                    keys.append(ast.Column(rng.choice(names)))
                elif kind == 'hidden':
                    keys.append(ast.Column(rng.choice([n_ for n_, t in gen_sql.STD_SCHEMA if t != 'object'])))
                elif kind == 'pos':
                    keys.append(rng.range(1, len(targets)))
                else:
                    keys.append(eg.expr(rng.choice(['int', 'Decimal', 'str', 'date', 'bool']), 2))
            # a key that looks like the expression target but differs in a literal: it is another key (hidden), not that target
            if isinstance(targets[-1].expression, ast.Node) and not isinstance(targets[-1].expression, ast.Column) and rng.chance(4, 5):
                near = gen_sql.perturb_constant(targets[-1].expression, rng)
                if near is not None:
                    keys.insert(rng.below(len(keys) + 1), near)
                    ctx.count('near-copy-key')
            group = None
        order = [ast.OrderBy(k, ast.Ordering(rng.below(2))) for k in keys]
        distinct = True if rng.chance(1, 3) else None
        limit = rng.choice([None, None, 0, 1, 2, 5, 50])
        where = eg.expr('bool', 1) if rng.chance(1, 3) else None
        frm = ast.Table('t')
        if rng.chance(1, 3):
            # the same statement over a FROM subquery delivering the table: subquery columns are columns of their own
            frm = ast.Select([ast.Target(ast.Column(n_), None) for n_, t in gen_sql.STD_SCHEMA], ast.Table('t'), None, None, None, None, None, None)
            ctx.count('from-subquery')
        sel = ast.Select(targets, frm, where, group, order, None, limit, distinct)
        SqlCase([table], sel, name='random-agg' if aggregate else 'random').check(ctx, nontrivial=len(table.rows) >= 2)
        ctx.count('agg' if aggregate else 'nonagg')
        ctx.count('distinct' if distinct else 'all')


CORPUS = [
    # minimised from seeded changes: keys that resemble a target but are keys of their own
    'SELECT i, (i - 5) * (i - 5) AS d FROM #t ORDER BY (i - 3) * (i - 3), i',
    'SELECT i, i % 3 AS d FROM #t ORDER BY i % 2, i DESC',
    'SELECT i, i % 3 AS d FROM #t ORDER BY i % 3, i DESC',
    "SELECT s, i + 1 AS x FROM #t ORDER BY i + 2 DESC, s",
    'SELECT s, j FROM #t ORDER BY length(s), i DESC',
    # an alias that is also a column name: the key is the selected column of that name
    'SELECT s, 10 - i AS i FROM #t ORDER BY i, s',
    'SELECT s, (i - 4) * (i - 4) AS j FROM #t ORDER BY j DESC, s LIMIT 3',
    'SELECT DISTINCT s FROM #t ORDER BY i',
    'SELECT DISTINCT s FROM #t ORDER BY i DESC LIMIT 1',
    'SELECT DISTINCT t, s FROM #t ORDER BY j DESC',
    'SELECT s FROM (SELECT s, t, i FROM #t) ORDER BY t DESC, i',
    'SELECT s, i FROM #t ORDER BY s DESC, i DESC',
    'SELECT s, i FROM #t ORDER BY s DESC LIMIT 2',
    # DISTINCT on aggregate queries whose groups can give equal visible rows (a grouping key that is not selected)
    'SELECT DISTINCT count(*) AS n FROM #t GROUP BY s ORDER BY n',
    'SELECT DISTINCT t, count(*) AS n FROM #t GROUP BY t, s ORDER BY t, n DESC LIMIT 3',
    'SELECT DISTINCT length(s) AS l, count(*) AS n FROM #t GROUP BY l, s',
    'SELECT DISTINCT max(i) > 4 AS big FROM #t GROUP BY s',
    # LIMIT 0, LIMIT beyond the result, with and without the other clauses
    'SELECT s, i FROM #t LIMIT 0',
    'SELECT DISTINCT s FROM #t ORDER BY s LIMIT 0',
    'SELECT s, count(*) AS n FROM #t GROUP BY s ORDER BY n LIMIT 0',
    'SELECT s FROM (SELECT s, i FROM #t LIMIT 0)',
    'SELECT s, i FROM #t ORDER BY i LIMIT 100',
    # the order a subquery gives its rows is the order the enclosing statement reads them in
    'SELECT s FROM (SELECT s, i FROM #t ORDER BY i DESC)',
    'SELECT s, t FROM (SELECT s, t, i FROM #t ORDER BY s DESC, i) ORDER BY t',
    'SELECT DISTINCT t FROM (SELECT t, i FROM #t ORDER BY i DESC)',
    'SELECT s FROM (SELECT s, i FROM #t ORDER BY i DESC) LIMIT 2',
    'SELECT s, i FROM (SELECT s, i FROM #t ORDER BY j DESC) WHERE i > 3',
    # ordered on one of two visible columns: equal rows are not neighbours
    'SELECT DISTINCT t, s FROM #t ORDER BY t',
    'SELECT DISTINCT t, s FROM #t ORDER BY t DESC LIMIT 3',
]


def corpus_layer(ctx):
    import impl
    rows = [(5, 1, 'b', 'x'), (3, 2, 'a', 'z'), (8, 3, 'b', 'y'), (1, 4, 'aa', 'z'), (4, 5, 'a', 'x'), (6, 6, 'b', 'x'), (3, 7, 'aa', 'y')]
    table = impl.HTable('t', [('i', int), ('j', int), ('s', str), ('t', str)], rows)
    for text in CORPUS:
        case = SqlCase([table], text, name='corpus')
        case.check(ctx)
        if not case.run_impl().startswith('OK'):
            raise RuntimeError('corpus statement is not accepted: %s' % text)
        ctx.count('corpus')
    # equal numbers of different spellings are one value to DISTINCT; a negated key keeps NULL first (ascending) / last
    from decimal import Decimal as D
    rows2 = [(D('5.0'), 3, 'a'), (D('5.00'), None, 'b'), (D('5'), 1, 'a'), (D('7'), None, 'c'), (D('7.0'), 2, 'b'), (None, 5, 'a'), (D('-2'), 4, 'c')]
    table2 = impl.HTable('u', [('d', D), ('j', int), ('s', str)], rows2)
    for text in ('SELECT DISTINCT d FROM #u', 'SELECT DISTINCT d, s FROM #u ORDER BY s', 'SELECT DISTINCT d FROM #u LIMIT 2',
                 'SELECT DISTINCT sum(d) AS t FROM #u GROUP BY s', 'SELECT s, j FROM #u ORDER BY -j', 'SELECT s, j FROM #u ORDER BY -j DESC',
                 'SELECT s, d FROM #u ORDER BY -d, s LIMIT 3', 'SELECT s, max(j) AS m FROM #u GROUP BY s ORDER BY -max(j)',
                 'SELECT s FROM #u ORDER BY -j, s DESC'):
        case = SqlCase([table2], text, name='corpus')
        case.check(ctx)
        if not case.run_impl().startswith('OK'):
            raise RuntimeError('corpus statement is not accepted: %s' % text)
        ctx.count('corpus')


def run(ctx):
    corpus_layer(ctx)
    pattern_layer(ctx)
    random_layer(ctx, 60000 if ctx.thorough() else 500)


def replay(ctx, body):
    replay_sql(ctx, body)
