"""C15 — PIVOT BY: correspondence of the pivot reshaping, plus an un-pivot oracle on the implementation."""
import datetime
import itertools
from decimal import Decimal

from beanquery.parser import ast

import gen_sql
import impl
import proto
from sqlcase import SqlCase, replay_sql

RULE = ('layer 2: every table of <= 5 rows over a 3 x 3 key grid (sparse combinations, duplicates pre-aggregated by the query) x '
        'pivot columns in every pair of target positions x 1..3 remaining aggregate columns, PIVOT BY given by name and by '
        'position; layer 3: seeded random key types (str, int, decimal, date, bool) and grids up to 4 x 4.  The pivoted result '
        'is also un-pivoted in Python and compared with the same query without PIVOT BY.  Non-trivial = at least two source '
        'rows; distinct = distinct protocol line.')
ASSUMPTIONS = ['pivot keys are non-NULL values of one comparable class (NULL keys raise TypeError: known finding)']

KEYDOM = {
    'str': ['a', 'b', 'c', 'd'], 'int': [1, 2, 3, 10], 'Decimal': [Decimal('1.5'), Decimal('2'), Decimal('10.25'), Decimal('0')],
    'date': [datetime.date(2020, 1, 1), datetime.date(2020, 2, 1), datetime.date(2021, 1, 1), datetime.date(2019, 5, 5)],
    'bool': [False, True],
}


def signature(mm):
    if mm.model == 'oracle':
        return 'C15:' + mm.name
    return 'C15:' + mm.name + ':' + mm.model.split(' ')[0] + '/' + ' '.join(mm.impl.split(' ')[:2])


def build(ty1, ty2, rows, nother, order, by, order_by=None, having=None, limit=None):
    """SELECT with targets arranged by `order` (a permutation placing k1, k2 and the aggregates)."""
    table = impl.HTable('t', [('p', gen_sql.PYTYPES[ty1]), ('q', gen_sql.PYTYPES[ty2]), ('v', int), ('w', Decimal)], rows)
    aggs = [ast.Target(ast.Function('sum', [ast.Column('v')]), 's'),
            ast.Target(ast.Function('count', [ast.Asterisk()]), 'n'),
            ast.Target(ast.Function('max', [ast.Column('w')]), 'm')][:nother]
    items = [('k1', ast.Target(ast.Column('p'), None)), ('k2', ast.Target(ast.Column('q'), None))] + [('a', a) for a in aggs]
    items = [items[i] for i in order]
    targets = [t for _, t in items]
    pos1 = [i for i, (k, _) in enumerate(items) if k == 'k1'][0] + 1
    pos2 = [i for i, (k, _) in enumerate(items) if k == 'k2'][0] + 1
    if by == 'name':
        pv = ast.PivotBy([ast.Column('p'), ast.Column('q')])
    elif by == 'name-pos':
        pv = ast.PivotBy([ast.Column('p'), pos2])
    elif by == 'pos-name':
        pv = ast.PivotBy([pos1, ast.Column('q')])
    else:
        pv = ast.PivotBy([pos1, pos2])
    group = ast.GroupBy([ast.Column('p'), ast.Column('q')], having)
    # LIMIT cuts the rows that are pivoted (the un-pivoted result), not the pivoted table
    sel = ast.Select(targets, ast.Table('t'), None, group, order_by, pv, limit, None)
    plain = ast.Select(targets, ast.Table('t'), None, group, order_by if limit is not None else None, None, limit, None)
    return table, sel, plain, pos1 - 1, pos2 - 1


def unpivot_oracle(ctx, table, sel, plain, c1, c2):
    """un-pivot the implementation's pivoted result and compare with the un-pivoted query"""
    conn = impl.connection([table])
    try:
        cur = conn.execute(sel)
        pdesc, prows = cur.description, cur.fetchall()
        cur = conn.execute(plain)
        udesc, urows = cur.description, cur.fetchall()
    except Exception:  # noqa: BLE001
        return
    ncols = len(udesc)
    others = [i for i in range(ncols) if i not in (c1, c2)]
    nother = len(others)
    if any(r[c1] is None or r[c2] is None for r in urows):
        return      # NULL keys: the recorded finding F-20 (compared with the model only)
    keys = sorted({r[c2] for r in urows})
    problems = []
    if len(pdesc) != 1 + len(keys) * nother:
        problems.append('description width %d != 1 + %d*%d' % (len(pdesc), len(keys), nother))
    firsts = [r[0] for r in prows]
    if firsts != sorted(set(r[c1] for r in urows)):
        problems.append('first column is not the ascending distinct first-key values: %r' % (firsts,))
    rebuilt = []
    for r in prows:
        if len(r) != len(pdesc):
            problems.append('row width %d != description width %d' % (len(r), len(pdesc)))
            continue
        for k, key in enumerate(keys):
            blockv = r[1 + k * nother: 1 + (k + 1) * nother]
            if any(v is not None for v in blockv):
                row = [None] * ncols
                row[c1] = r[0]
                row[c2] = key
                for i, v in zip(others, blockv):
                    row[i] = v
                rebuilt.append(tuple(row))
    expect = sorted((u for u in urows if any(u[i] is not None for i in others)), key=lambda u: (u[c1], u[c2]))
    if sorted(rebuilt, key=lambda u: (u[c1], u[c2])) != expect:
        problems.append('un-pivoting does not reproduce the un-pivoted result')
    # naming and typing
    want = ['%s/%s' % (udesc[c1].name, udesc[c2].name)]
    for key in keys:
        for i in others:
            want.append('%s/%s' % (key, udesc[i].name) if nother > 1 else '%s' % (key,))
    if [c.name for c in pdesc] != want:
        problems.append('column names %r != %r' % ([c.name for c in pdesc], want))
    wtypes = [udesc[c1].datatype] + [udesc[i].datatype for i in others] * len(keys)
    if [c.datatype for c in pdesc] != wtypes:
        problems.append('column types differ')
    ctx.count('unpivot-oracle')
    if problems:
        ctx.record_violation('unpivot-oracle', '; '.join(problems),
                             payload=SqlCase([table], sel).payload(), meta={'problems': problems})


def grid_layer(ctx):
    rng = ctx.rng
    dom1, dom2 = KEYDOM['str'][:3], KEYDOM['int'][:3]
    cells = list(itertools.product(dom1, dom2))
    n = 0
    maxrows = 5 if ctx.thorough() else 4
    for nrows in range(0, maxrows + 1):
        for combo in itertools.combinations_with_replacement(range(len(cells)), nrows):
            n += 1
            if not ctx.thorough() and n % 3 != 0:
                continue
            rows = [(cells[c][0], cells[c][1], 3 + j, Decimal(j) / 4) for j, c in enumerate(combo)]
            rows = rng.shuffle(rows)
            nother = 1 + (n % 3)
            base = list(range(2 + nother))
            order = rng.shuffle(base)
            by = ['name', 'pos', 'name-pos', 'pos-name'][n % 4]     # the two references, each by name or by position
            table, sel, plain, c1, c2 = build('str', 'int', rows, nother, order, by)
            SqlCase([table], sel, name='grid').check(ctx, nontrivial=nrows >= 2, meta={'order': order, 'by': by})
            if n % 7 == 0:
                unpivot_oracle(ctx, table, sel, plain, c1, c2)
            if ctx.stop():
                return


def random_layer(ctx, ncases):
    rng = ctx.rng
    for case in range(ncases):
        ty1 = rng.choice(list(KEYDOM))
        ty2 = rng.choice(list(KEYDOM))
        d1 = KEYDOM[ty1][:rng.range(1, 4)]
        d2 = KEYDOM[ty2][:rng.range(1, 4)]
        rows = [(rng.choice(d1), rng.choice(d2), rng.range(-3, 9), rng.choice(gen_sql.DEC_VALUES)) for _ in range(rng.range(0, 12))]
        if rng.chance(1, 10) and rows:
            # a NULL key: the known TypeError finding must be reproduced identically by the model
            rows.append((None, rng.choice(d2), 1, Decimal(1)))
        nother = rng.range(1, 3)
        order = rng.shuffle(list(range(2 + nother)))
        order_by = None
        if rng.chance(1, 3):
            # an ORDER BY that does not keep equal first-key values together: the pivot must still give one row per value
            keycols = rng.shuffle([ast.Column('q'), ast.Column('p'), 1 + rng.below(2 + nother)])[:rng.range(1, 2)]
            order_by = [ast.OrderBy(k, ast.Ordering(rng.below(2))) for k in keycols]
            ctx.count('with-order-by')
        having = None
        if rng.chance(1, 4):
            # clauses that make the compiler append invisible targets: HAVING, ORDER BY an aggregate that is not selected
            having = rng.choice([ast.Greater(ast.Function('count', [ast.Asterisk()]), ast.Constant(0)),
                                 ast.Greater(ast.Function('sum', [ast.Column('v')]), ast.Constant(2)),
                                 ast.GreaterEq(ast.Function('min', [ast.Column('v')]), ast.Constant(-1))])
            ctx.count('with-having')
        if rng.chance(1, 5):
            order_by = (order_by or []) + [ast.OrderBy(ast.Function('count', [ast.Column('w')]), ast.Ordering(rng.below(2)))]
            ctx.count('with-order-by-aggregate')
        limit = rng.range(0, 6) if rng.chance(1, 4) else None
        if limit is not None:
            ctx.count('with-limit')
        table, sel, plain, c1, c2 = build(ty1, ty2, rows, nother, order, rng.choice(['name', 'pos', 'name-pos', 'pos-name']), order_by, having, limit)
        SqlCase([table], sel, name='random').check(ctx, nontrivial=len(rows) >= 2)
        unpivot_oracle(ctx, table, sel, plain, c1, c2)
        if ctx.stop():
            return


def invalid_layer(ctx):
    """invalid PIVOT BY references must be compile errors (never another exception)"""
    rows = [('a', 1, 3, Decimal(1)), ('b', 2, 4, Decimal(2)), ('a', 2, 5, Decimal(3))]
    table = impl.HTable('t', [('p', str), ('q', int), ('v', int), ('w', Decimal)], rows)
    P, Q = ast.Column('p'), ast.Column('q')
    agg = ast.Target(ast.Function('sum', [ast.Column('v')]), 's')
    tp, tq = ast.Target(P, None), ast.Target(Q, None)
    grp = ast.GroupBy([P, Q], None)
    cases = {
        'same-column': ast.Select([tp, tq, agg], ast.Table('t'), None, grp, None, ast.PivotBy([1, 1]), None, None),
        'same-column-name': ast.Select([tp, tq, agg], ast.Table('t'), None, grp, None, ast.PivotBy([P, P]), None, None),
        'same-column-name-and-position': ast.Select([tp, tq, agg], ast.Table('t'), None, grp, None, ast.PivotBy([P, 1]), None, None),
        'same-column-position-and-name': ast.Select([tp, tq, agg], ast.Table('t'), None, grp, None, ast.PivotBy([2, Q]), None, None),
        'index-zero': ast.Select([tp, tq, agg], ast.Table('t'), None, grp, None, ast.PivotBy([0, 2]), None, None),
        'index-too-large': ast.Select([tp, tq, agg], ast.Table('t'), None, grp, None, ast.PivotBy([1, 4]), None, None),
        'index-hidden-target': ast.Select([tp, agg], ast.Table('t'), None, grp, None, ast.PivotBy([1, 3]), None, None),
        'unknown-name': ast.Select([tp, tq, agg], ast.Table('t'), None, grp, None, ast.PivotBy([P, ast.Column('zz')]), None, None),
        'second-not-grouped': ast.Select([tp, agg, ast.Target(ast.Function('count', [ast.Asterisk()]), 'n')], ast.Table('t'),
                                         None, ast.GroupBy([P], None), None, ast.PivotBy([1, 2]), None, None),
        'non-aggregate-query': ast.Select([tp, tq], ast.Table('t'), None, None, None, ast.PivotBy([1, 2]), None, None),
        'hidden-second-by-name': ast.Select([tp, agg], ast.Table('t'), None, grp, None, ast.PivotBy([P, Q]), None, None),
    }
    for name, sel in cases.items():
        case = SqlCase([table], sel, name='invalid-' + name)
        case.check(ctx)
        out = case.run_impl()
        ctx.count('invalid:' + out)
        if not out.startswith('ERR compile'):
            ctx.record_violation('invalid-pivot-not-rejected:' + name, out, payload=case.payload())


def null_key_probe(ctx):
    """PIVOT BY over a NULL key value (two or more distinct keys): recorded known finding"""
    rows = [('a', 1, 3, Decimal(1)), (None, 2, 4, Decimal(2)), ('b', None, 5, Decimal(3))]
    table, sel, plain, c1, c2 = build('str', 'int', rows, 1, [0, 1, 2], 'name')
    case = SqlCase([table], sel, name='null-key')
    case.check(ctx)
    out = case.run_impl()
    if out.startswith('ERR'):
        ctx.record_violation('null-key-' + out.replace(' ', '-'), out, payload=case.payload())


def run(ctx):
    invalid_layer(ctx)
    null_key_probe(ctx)
    grid_layer(ctx)
    random_layer(ctx, 30000 if ctx.thorough() else 300)


def replay(ctx, body):
    replay_sql(ctx, body)
