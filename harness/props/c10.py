"""C10 — cursor fetch protocol and description: op-sequence correspondence (+ sqlite3 cross-check)."""
import itertools
import sqlite3

import beanquery

import impl
import proto

RULE = ('exhaustive: every call sequence of length <= 3 (quick) / 4 (thorough) after an execute over {fetchone, fetchmany(), fetchmany(0|1|2), '
        'fetchall, iter x1, iter xall, arraysize=2, re-execute} on results of size 0..3; seeded random sequences of length '
        '<= 30 with several cursors per connection; every sequence of <= 4 (5 thorough) calls over {next() on a kept iterator, iter(), fetchone, fetchmany(2), fetchall, re-execute, an execute that fails}; description indexing/slicing for every index in [-9, 9] and every slice '
        'bound pair in [-8, 8] u {None}.  After every call the return value, rowcount, rownumber and description are compared. '
        'Non-trivial = sequence contains an execute and at least one fetch; distinct = distinct protocol line.')
ASSUMPTIONS = ['fetchmany sizes are non-negative (explicit sizes of the property)',
               'sqlite3 is used as a second opinion only for the calls both support (fetch return values)']

OPS = ['fetchone', 'fetchmany', 'fetchmany0', 'fetchmany1', 'fetchmany2', 'fetchall', 'iter1', 'iterall', 'arraysize2', 'execute']


def signature(mm):
    return 'C10:' + mm.name


def enc_op(op, k=0):
    return {'fetchone': '(fetchone)', 'fetchmany': '(fetchmany nil)', 'fetchmany0': '(fetchmany 0)',
            'fetchmany1': '(fetchmany 1)', 'fetchmany2': '(fetchmany 2)', 'fetchall': '(fetchall)',
            'iter1': '(iter 1)', 'iterall': '(iter 99)', 'arraysize2': '(arraysize 2)',
            'execute': '(execute %d)' % k}[op]


def show_out(v):
    if v is None:
        return 'None'
    if isinstance(v, tuple):
        return proto.show_row(v)
    return '[' + ''.join(proto.show_row(r) for r in v) + ']'


def state(cur):
    d = cur.description
    ds = 'None' if d is None else '[' + ' '.join('%s:%s' % (c.name, proto.tyname(c.datatype)) for c in d) + ']'
    return '|rc=%d|rn=%d|d=%s' % (cur.rowcount, cur.rownumber, ds)


_STMTS = {}
_CONNS = {}


def stmt_for(k):
    if k not in _STMTS:
        from beanquery import parser
        _STMTS[k] = parser.parse('SELECT x, y FROM #r%d' % k)
    return _STMTS[k]


def conn_for(results):
    key = repr(results)
    if key not in _CONNS:
        if len(_CONNS) > 64:
            _CONNS.clear()
        tables = [impl.HTable('r%d' % k, [('x', int), ('y', str)], rows) for k, rows in enumerate(results)]
        _CONNS[key] = impl.connection(tables)
    return _CONNS[key]


def run_impl(results, ops, flags=None):
    """results: list of (name, rows); ops: list of (op, arg).  `hnext` is next() on an iterator that is kept across the
    other calls (opened by `hopen` or by the first `hnext`); flags collects, per hnext, whether that iterator had
    already signalled its end (it then stays ended, like any iter(callable, sentinel))"""
    conn = conn_for(results)
    cur = conn.cursor()
    outs = []
    held, ended = None, False
    for op, arg in ops:
        try:
            if op == 'hopen' or (op == 'hnext' and held is None):
                held, ended = iter(cur), False
            if op == 'hopen':
                outs.append(show_out([]) + state(cur))
            elif op == 'hnext':
                if flags is not None:
                    flags.append(ended)
                try:
                    got = [next(held)]
                except StopIteration:
                    got, ended = [], True
                outs.append(show_out(got) + state(cur))
            elif op == 'execbad':
                # a statement the compiler rejects (a parse error for odd arguments): execute raises, the cursor is as it was
                try:
                    cur.execute('SELECT nosuchcolumn FROM #r0' if not arg else 'SELECT FROM WHERE')
                    outs.append('accepted' + state(cur))
                except (beanquery.ProgrammingError, beanquery.Error):
                    outs.append('EXC' + state(cur))
            elif op == 'execute':
                cur.execute(stmt_for(arg))
                outs.append('exec' + state(cur))
            elif op == 'fetchone':
                outs.append(show_out(cur.fetchone()) + state(cur))
            elif op == 'fetchmany':
                outs.append(show_out(cur.fetchmany()) + state(cur))
            elif op in ('fetchmany0', 'fetchmany1', 'fetchmany2'):
                outs.append(show_out(cur.fetchmany(int(op[-1]))) + state(cur))
            elif op == 'fetchall':
                outs.append(show_out(cur.fetchall()) + state(cur))
            elif op == 'iter1':
                it = iter(cur)
                got = []
                for _ in range(1):
                    try:
                        got.append(next(it))
                    except StopIteration:
                        break
                outs.append(show_out(got) + state(cur))
            elif op == 'iterall':
                outs.append(show_out(list(cur)) + state(cur))
            elif op == 'arraysize2':
                cur.arraysize = 2
                outs.append('ok' + state(cur))
            elif op == 'colindex':
                j, i = arg
                if cur.description is None:
                    outs.append('NoDescription')
                else:
                    try:
                        outs.append(show_item(cur.description[j], i, cur.description[j][i]))
                    except IndexError:
                        outs.append('IndexError')
            elif op == 'colslice':
                j, a, b = arg
                if cur.description is None:
                    outs.append('NoDescription')
                else:
                    col = cur.description[j]
                    sl = list(col[a:b])
                    outs.append('(' + ' '.join(show_item(col, None, v) for v in sl) + ')')
        except Exception as exc:  # noqa: BLE001
            outs.append('EXC:' + type(exc).__name__)
    return ' ; '.join(outs)


def show_item(col, i, v):
    """rendering by value (the position is not trusted: a wrong slice must show)"""
    if isinstance(v, str):
        return 'S' + proto.q_show(v)
    if v is None:
        return 'None'
    # the type code is a hash of the datatype: compare it with the hash of the announced type
    return 'T:' + proto.tyname(col.datatype) if v == hash(col.datatype) else 'T:?%r' % (v,)


def line_for(results, ops, flags=()):
    rs = ' '.join('((desc ("x" "int") ("y" "str")) (rows %s))' %
                  ' '.join('(' + ' '.join(proto.enc_value(v) for v in row) + ')' for row in rows) for rows in results)
    body = []
    for op, arg in ops:
        if op == 'colindex':
            body.append('(colindex %d %d)' % arg)
        elif op == 'colslice':
            j, a, b = arg
            body.append('(colslice %d %s %s)' % (j, 'nil' if a is None else a, 'nil' if b is None else b))
        elif op == 'execbad':
            body.append('(execbad)')
        elif op == 'hopen':
            body.append('(hopen)')
        elif op == 'hnext':
            # the model keeps the iterator's state itself (Cursor.heldNext)
            body.append('(hnext)')
        else:
            body.append(enc_op(op, arg or 0))
    return '(cursor (results %s) (ops %s))' % (rs, ' '.join(body))


def sqlite_opinion(results, ops):
    """fetch return values on sqlite3 for the same script (only ops sqlite3 supports identically)."""
    conn = sqlite3.connect(':memory:')
    for k, rows in enumerate(results):
        conn.execute('CREATE TABLE r%d (x int, y text)' % k)
        conn.executemany('INSERT INTO r%d VALUES (?, ?)' % k, rows)
    cur = conn.cursor()
    outs = []
    for op, arg in ops:
        if op == 'execute':
            cur.execute('SELECT x, y FROM r%d' % arg)
            outs.append('exec')
        elif op == 'fetchone':
            outs.append(show_out(cur.fetchone()))
        elif op == 'fetchmany':
            outs.append(show_out(cur.fetchmany()))
        elif op in ('fetchmany1', 'fetchmany2'):
            outs.append(show_out(cur.fetchmany(int(op[-1]))))
        elif op == 'fetchall':
            outs.append(show_out(cur.fetchall()))
        elif op == 'iterall':
            outs.append(show_out(list(cur)))
        elif op == 'arraysize2':
            cur.arraysize = 2
            outs.append('ok')
        else:
            return None
    return outs


def mkresults(sizes):
    return [[(10 * k + n, 'v%d' % n) for n in range(sz)] for k, sz in enumerate(sizes)]


def check_script(ctx, results, ops, name):
    line = line_for(results, ops)
    nontrivial = any(o == 'execute' for o, _ in ops) and any(o.startswith('fetch') or o.startswith('iter') for o, _ in ops)
    ok = ctx.check(name, [line], lambda: run_impl(results, ops), nontrivial=nontrivial,
                   payload={'results': results, 'ops': ops}, meta={'ops': ops})
    if ok and ops and ops[0][0] == 'execute':
        sq = sqlite_opinion(results, ops)
        if sq is not None:
            ours = [o.split('|')[0] for o in run_impl(results, ops).split(' ; ')]
            if ours != sq:
                ctx.record_violation('sqlite-disagrees', 'beanquery %r vs sqlite3 %r' % (ours, sq),
                                     payload={'results': results, 'ops': ops}, meta={'ops': ops})
            ctx.count('sqlite-compared')
    return ok


def apply_op(cur, op, arg):
    if op == 'execute':
        cur.execute(stmt_for(arg))
        return 'exec' + state(cur)
    if op == 'fetchone':
        return show_out(cur.fetchone()) + state(cur)
    if op == 'fetchmany':
        return show_out(cur.fetchmany()) + state(cur)
    if op in ('fetchmany0', 'fetchmany1', 'fetchmany2'):
        return show_out(cur.fetchmany(int(op[-1]))) + state(cur)
    if op == 'fetchall':
        return show_out(cur.fetchall()) + state(cur)
    if op == 'iter1':
        got = []
        for row in cur:
            got.append(row)
            break
        return show_out(got) + state(cur)
    if op == 'iterall':
        return show_out(list(cur)) + state(cur)
    if op == 'arraysize2':
        cur.arraysize = 2
        return 'ok' + state(cur)
    raise KeyError(op)


def multi_cursor_layer(ctx, ncases):
    """several cursors of one connection, obtained from conn.cursor() and from conn.execute(), used interleaved:
    by the frame theorem every cursor must behave as its own calls alone dictate"""
    rng = ctx.rng
    for case in range(ncases):
        sizes = [rng.range(0, 5), rng.range(0, 5)]
        results = mkresults(sizes)
        conn = impl.connection([impl.HTable('r%d' % k, [('x', int), ('y', str)], rows) for k, rows in enumerate(results)])
        ncur = rng.range(2, 4)
        cursors = [None] * ncur
        scripts = [[] for _ in range(ncur)]
        outs = [[] for _ in range(ncur)]
        history = []
        for step in range(rng.range(4, 24)):
            i = rng.below(ncur)
            try:
                if cursors[i] is None:
                    if rng.chance(1, 2):
                        arg = rng.below(2)
                        cursors[i] = conn.execute(stmt_for(arg))       # a new cursor with a result
                        scripts[i].append(('execute', arg))
                        outs[i].append('exec' + state(cursors[i]))
                        history.append((i, 'conn.execute', arg))
                    else:
                        cursors[i] = conn.cursor()
                        history.append((i, 'conn.cursor', None))
                    continue
                op = rng.choice(OPS)
                arg = rng.below(2) if op == 'execute' else None
                history.append((i, op, arg))
                scripts[i].append((op, arg))
                outs[i].append(apply_op(cursors[i], op, arg))
            except Exception as exc:  # noqa: BLE001
                outs[i].append('EXC:' + type(exc).__name__)
        for i in range(ncur):
            if not scripts[i]:
                continue
            line = line_for(results, scripts[i])
            nontrivial = any(o == 'execute' for o, _ in scripts[i]) and len(scripts[i]) >= 2
            ctx.count('multi-cursor')
            ctx.check('multi-cursor', [line], lambda i=i: ' ; '.join(outs[i]), nontrivial=nontrivial,
                      payload={'results': results, 'history': history, 'cursor': i}, meta={'history': history, 'cursor': i})
        if ctx.stop():
            return


def executemany_layer(ctx):
    """executemany(statement, parameter sets) is execute for each set in turn: afterwards the cursor is in the state the
    last execute leaves (rowcount, rownumber, description, the rows still to fetch); with no parameter set nothing changes"""
    table = impl.HTable('r', [('x', int), ('y', str)], [(k, 'v%d' % k) for k in range(6)])
    conn = impl.connection([table])
    text = 'SELECT x, y FROM #r WHERE x < %s'
    for plist in ([(3,), (2,), (1,)], [(0,), (5,)], [(4,)], [(2,), (0,)], [], [(6,), (6,), (6,)]):
        for before in ((), ((3,),)):
            a, b = conn.cursor(), conn.cursor()
            for p in before:
                a.execute(text, p)
                b.execute(text, p)
                a.fetchone()
                b.fetchone()
            def observe(cur):
                out = ['ok' + state(cur)]
                for f in (lambda: cur.fetchmany(2), cur.fetchall):
                    try:
                        out.append(show_out(f()) + state(cur))
                    except Exception as exc:  # noqa: BLE001
                        out.append('EXC:' + type(exc).__name__)
                return '|'.join(out)
            try:
                a.executemany(text, plist)
                got = observe(a)
            except Exception as exc:  # noqa: BLE001
                got = 'EXC:' + type(exc).__name__
            for p in plist:
                b.execute(text, p)
            want = observe(b)
            ctx.evaluations += 1
            ctx.count('executemany')
            ctx.nontrivial_hashes.add(hash(('executemany', repr(plist), before)))
            if got != want:
                ctx.record_violation('executemany-differs-from-repeated-execute', 'after %r, executemany(%r): %s, repeated execute: %s' % (
                    before, plist, got[:300], want[:300]))


def run(ctx):
    rng = ctx.rng
    executemany_layer(ctx)
    multi_cursor_layer(ctx, 400 if ctx.thorough() else 80)
    maxlen = 4 if ctx.thorough() else 3
    # exhaustive short sequences: first op is execute or not
    for size in range(0, 4):
        results = mkresults([size, 2])
        for n in range(0, maxlen + 1):
            for seq in itertools.product(OPS, repeat=n):
                ops = [(o, (1 if (o == 'execute' and k > 0) else 0) if o == 'execute' else None) for k, o in enumerate(seq)]
                for prefix in ([('execute', 0)], []):
                    if not prefix and n > 2:
                        continue
                    check_script(ctx, results, prefix + ops, 'exhaustive')
                if ctx.stop():
                    return
    # an iterator kept open across the other calls reads the cursor as it is when next() is called
    hops = ['hnext', 'hopen', 'fetchone', 'fetchmany2', 'fetchall', 'execute', 'execbad']
    for size in (0, 1, 3, 4):
        results = mkresults([size, 2])
        for n in range(1, (5 if ctx.thorough() else 4) + 1):
            for seq in itertools.product(hops, repeat=n):
                if 'hnext' not in seq and 'execbad' not in seq:
                    continue
                if 'execbad' in seq and n >= 4 and not ctx.thorough():
                    continue        # (a failing execute is slow: the longest sequences with one are left to the thorough tier)
                ops = [('execute', 0)] + [(o, 1 if o == 'execute' else (k % 2 if o == 'execbad' else None)) for k, o in enumerate(seq)]
                check_script(ctx, results, ops, 'held-iterator')
            if ctx.stop():
                return
    # description protocol
    results = mkresults([2])
    for j in (0, 1):
        ops = [('execute', 0)] + [('colindex', (j, i)) for i in range(-9, 10)]
        check_script(ctx, results, ops, 'description-index')
        bounds = [None] + list(range(-8, 9))
        ops = [('execute', 0)] + [('colslice', (j, a, b)) for a in bounds for b in bounds]
        check_script(ctx, results, ops, 'description-slice')
    check_script(ctx, results, [('colindex', (0, 0)), ('fetchone', None), ('fetchall', None)], 'before-execute')
    # equality / len / iteration of Column objects, checked directly
    conn = impl.connection([impl.HTable('r0', [('x', int), ('y', str)], [(1, 'a')])])
    cur = conn.cursor()
    cur.execute('SELECT x, y FROM #r0')
    for col in cur.description:
        items = list(col)
        if len(col) != 7 or items != [col[i] for i in range(7)] or tuple(items) != col[:] or not (col == col) \
                or items[2:] != [None] * 5 or col != beanquery.Column(col.name, col.datatype):
            ctx.record_violation('column-sequence-laws', 'len/iter/slice/eq disagree for %r' % (col,))
        # extended slices: a description entry slices like the tuple of its items
        items = tuple(col)
        for a in [None] + list(range(-8, 9)):
            for b in [None] + list(range(-8, 9)):
                for c in (None, 1, 2, 3, -1, -2, -3):
                    ctx.count('extended-slice')
                    try:
                        got = tuple(col[a:b:c])
                    except Exception as exc:  # noqa: BLE001
                        got = 'EXC:' + type(exc).__name__
                    if got != items[a:b:c]:
                        ctx.record_violation('column-extended-slice', 'description entry [%r:%r:%r] gives %r, its items give %r'
                                             % (a, b, c, got, items[a:b:c]))
                        break
    # entries are equal exactly when name and type agree
    cur2 = conn.cursor()
    cur2.execute('SELECT x AS a, y AS b, x AS c FROM #r0')
    cur3 = conn.cursor()
    cur3.execute('SELECT y AS a, y AS d, x AS c FROM #r0')
    d2, d3 = cur2.description, cur3.description
    eqs = [(d2[0] == d3[0], False, 'same name, other type'), (d2[0] != d3[0], True, 'same name, other type (!=)'),
           (d2[1] == d3[1], False, 'other name, same type'), (d2[2] == d3[2], True, 'same name, same type'),
           (d2[2] != d3[2], False, 'same name, same type (!=)'), (tuple(d2) == tuple(d3), False, 'descriptions'),
           (d2[0] == ('a', int), True, 'entry and (name, type) pair'), (d2[0] == ('a', str), False, 'entry and (name, other type) pair')]
    for got, want, what in eqs:
        ctx.count('column-equality')
        if got is not want:
            ctx.record_violation('column-equality', 'comparison of description entries: %s gives %r' % (what, got))
    ctx.evaluations += 1
    # random long sequences
    for case in range(20000 if ctx.thorough() else 150):
        sizes = [rng.range(0, 6), rng.range(0, 6)]
        results = mkresults(sizes)
        n = rng.range(1, 30)
        ops = [('execute', 0)]
        for _ in range(n):
            o = rng.choice(OPS)
            ops.append((o, rng.below(2) if o == 'execute' else None))
        check_script(ctx, results, ops, 'random')
        if ctx.stop():
            return


def replay(ctx, body):
    import base64
    import pickle
    p = pickle.loads(base64.b64decode(body['payload_pickle_b64']))
    ok = check_script(ctx, p['results'], p['ops'], 'replay')
    print('replay: model and implementation %s' % ('agree' if ok else 'DISAGREE'))
    print(' impl :', run_impl(p['results'], p['ops']))
