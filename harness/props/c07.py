"""C07 — result shape and naming."""
from beanquery import parser
from beanquery.parser import ast

import bqlprint
import gen_sql
import impl
from sqlcase import SqlCase, std_table, replay_sql

RULE = ('seeded random SELECT statements printed to text (random spacing, comments, keyword case, redundant parentheses) and '
        'parsed by the shipped parser: aliased / bare-column / expression targets, duplicate names, wildcard, 0..3 hidden '
        'GROUP BY / ORDER BY / HAVING helpers placed before and after resolution, on plain tables and FROM (subquery).  Model and '
        'implementation are compared on description and rows; on the implementation every row width is compared with the '
        'description and every un-aliased expression name is re-parsed.  Non-trivial = statement has a hidden helper or an '
        'expression-named target; distinct = distinct protocol line.')
ASSUMPTIONS = ['target names are slices of the statement text (the parser provides parseinfo)']


def signature(mm):
    if mm.model == 'oracle':
        return 'C07:' + mm.name
    return 'C07:' + mm.name + ':' + mm.model.split(' ')[0] + '/' + ' '.join(mm.impl.split(' ')[:2])


def gen_statement(ctx, eg, rng):
    keyable = [n for n, t in gen_sql.STD_SCHEMA if t != 'object']
    aggregate = rng.chance(1, 3)
    targets = []
    hidden = 0
    if rng.chance(1, 8) and not aggregate:
        targets = ast.Asterisk()
    else:
        for j in range(rng.range(1, 4)):
            kind = rng.choice(['col', 'col', 'expr', 'alias', 'dup'])
            if aggregate and j > 0 and rng.chance(1, 2):
                node, _ = gen_sql.gen_aggregate(rng, eg, 1)
                targets.append(ast.Target(node, None if rng.chance(1, 2) else 'a%d' % j))
            elif kind == 'col':
                targets.append(ast.Target(ast.Column(rng.choice(keyable)), None))
            elif kind == 'expr':
                e = eg.expr(rng.choice(gen_sql.BASIC), 2)
                targets.append(ast.Target(e, None))
            elif kind == 'alias':
                targets.append(ast.Target(eg.expr(rng.choice(gen_sql.BASIC), 1), rng.choice(['x', 'y', 'total', 'i'])))
            else:
                targets.append(ast.Target(ast.Column(rng.choice(keyable)), 'x'))
    group = None
    order = None
    if aggregate and not isinstance(targets, ast.Asterisk):
        if rng.chance(1, 2):
            keys = []
            for t in targets:
                if not _has_agg(t.expression):
                    keys.append(t.expression)
            extra = rng.range(0, 2)
            for _ in range(extra):
                keys.append(ast.Column(rng.choice(keyable)))
                hidden += 1
            having = None
            if rng.chance(1, 3):
                having = ast.Greater(ast.Function('count', [ast.Asterisk()]), ast.Constant(0))
                hidden += 1
            if keys:
                group = ast.GroupBy(keys, having)
    if rng.chance(1, 2):
        okeys = []
        for _ in range(rng.range(1, 2)):
            if aggregate:
                okeys.append(ast.Function('count', [ast.Asterisk()]) if rng.chance(1, 2) else 1)
            else:
                okeys.append(eg.expr(rng.choice(['int', 'str', 'date', 'Decimal']), 1) if rng.chance(1, 2)
                             else ast.Column(rng.choice(keyable)))
            hidden += 1
        order = [ast.OrderBy(k, ast.Ordering(rng.below(2))) for k in okeys]
    where = eg.expr('bool', 1) if rng.chance(1, 3) else None
    return ast.Select(targets, ast.Table('t'), where, group, order, None, rng.choice([None, None, 3]), None), hidden


def _has_agg(node):
    if isinstance(node, ast.Function) and node.fname in ('count', 'sum', 'min', 'max', 'first', 'last'):
        return True
    for f in getattr(node, '__dataclass_fields__', {}):
        v = getattr(node, f)
        if isinstance(v, ast.Node) and _has_agg(v):
            return True
        if isinstance(v, list) and any(isinstance(x, ast.Node) and _has_agg(x) for x in v):
            return True
    return False


def oracle(ctx, table, text, stmt, conn=None):
    """`conn`: a connection that has executed other statements before (names must not depend on that); the TEXT is executed"""
    try:
        if conn is None:
            cur = impl.connection([table]).execute(stmt)
        else:
            cur = conn.execute(text)
    except Exception:  # noqa: BLE001
        return
    desc = cur.description
    rows = cur.fetchall()
    if desc is None:
        ctx.record_violation('description-missing', 'no description after executing %s (%d rows)' % (text, len(rows)),
                             payload=SqlCase([table], text).payload())
        return
    bad = [r for r in rows if len(r) != len(desc)]
    if bad:
        ctx.record_violation('row-width', 'row of width %d under a description of width %d for %s' % (len(bad[0]), len(desc), text),
                             payload=SqlCase([table], text).payload())
    targets = stmt.targets
    if isinstance(targets, ast.Asterisk):
        want = list(table.wildcard_columns)
        if [c.name for c in desc] != want:
            ctx.record_violation('wildcard', 'description %r != wildcard columns %r' % ([c.name for c in desc], want))
        return
    if len(desc) != len(targets):
        ctx.record_violation('description-length', '%d described columns for %d targets in %s' % (len(desc), len(targets), text),
                             payload=SqlCase([table], text).payload())
        return
    for col, t in zip(desc, targets):
        if t.name is not None:
            ok = col.name == t.name
        elif isinstance(t.expression, ast.Column):
            ok = col.name == t.expression.name
        else:
            # exact source slice, which parses back to the same expression
            ok = col.name in text and col.name == col.name.strip()
            try:
                again = parser.parse('SELECT ' + col.name)
                ok = ok and again.targets[0].expression == t.expression
            except Exception:  # noqa: BLE001
                ok = False
        if not ok:
            ctx.record_violation('naming-rule', 'column named %r for target %r in %s' % (col.name, t, text),
                                 payload=SqlCase([table], text).payload())
    ctx.count('oracle')


CORPUS = [
    'SELECT * FROM (SELECT i AS date, s AS meta, j AS account FROM #t)',
    'SELECT * FROM (SELECT s AS meta, i, s AS entry FROM #t)',
    'SELECT I, S, Dt FROM #t',
    'SELECT i, j FROM (SELECT I, J FROM #t)',
    'SELECT s, i FROM #t GROUP BY s, i, j ORDER BY 2',
]


def corpus_layer(ctx):
    rng = ctx.rng
    table = std_table(rng, nrows=4, small=True)
    for text in CORPUS:
        SqlCase([table], text, name='corpus').check(ctx)
        if text.startswith('SELECT I,'):
            oracle(ctx, table, text, parser.parse(text))
        ctx.count('corpus')


def ledger_wildcard_layer(ctx):
    """`SELECT *` over every ledger table describes the columns the pinned tree declares for `*`, in that order, and its
    rows are as wide; the same through a subquery"""
    import json
    import os
    import ledgers
    golden = json.load(open(os.path.join(os.path.dirname(os.path.dirname(os.path.dirname(os.path.abspath(__file__)))), 'lean', 'golden', 'facts.json')))
    text, entries, errors, options = ledgers.gen_ledger(ctx.rng, ntxn=6)
    conn = ledgers.connect(entries, errors, options)
    # other statement kinds have been compiled on the connection before (they must leave no trace)
    for other in ('PRINT', 'BALANCES', "JOURNAL 'Assets'", 'PRINT FROM year >= 2020'):
        try:
            conn.compile(conn.parse(other))
        except Exception as exc:  # noqa: BLE001
            ctx.record_violation('statement-kind-raises', '%s: %r' % (other, exc))
    for tname, t in sorted(golden['tables'].items()):
        if not tname or tname not in conn.tables:
            continue
        queries = ['SELECT * FROM #%s' % tname, 'SELECT * FROM (SELECT * FROM #%s)' % tname]
        if tname == 'postings':
            # the table a statement without FROM selects from
            queries += ['SELECT *', 'SELECT * WHERE number > 0', 'SELECT * FROM year >= 1900', 'SELECT * FROM (SELECT *)']
        for q in queries:
            ctx.count('ledger-wildcard')
            ctx.evaluations += 1
            try:
                cur = conn.execute(q)
                names = [c.name for c in (cur.description or [])]
                rows = cur.fetchall()
            except Exception as exc:  # noqa: BLE001
                ctx.record_violation('wildcard-raises-%s' % type(exc).__name__, '%s: %r' % (q, exc), payload={'query': q})
                continue
            want = list(t.get('wildcard') or [c['name'] for c in t['columns']])
            if names != want:
                ctx.record_violation('wildcard-columns', '%s describes %r, the table declares %r for *' % (q, names, want), payload={'query': q})
            if any(len(r) != len(names) for r in rows):
                ctx.record_violation('wildcard-row-width', '%s: rows are not as wide as the description' % q, payload={'query': q})


LEDGER_TARGETS = [
    # one visible target whose values are themselves tuples (positions, amounts, costs, directives), next to helper targets
    'SELECT position ORDER BY date', 'SELECT position ORDER BY date, lineno DESC', 'SELECT first(position) GROUP BY account',
    'SELECT amount FROM #prices ORDER BY date', 'SELECT position.cost ORDER BY date', 'SELECT price ORDER BY lineno',
    'SELECT entry ORDER BY date', 'SELECT last(price) GROUP BY account HAVING count(*) > 0', 'SELECT position', 'SELECT DISTINCT position.units ORDER BY date',
    'SELECT position, price ORDER BY date', 'SELECT sum(position) GROUP BY account ORDER BY account',
    # attribute access: named by the whole expression as written
    'SELECT account, position.units', 'SELECT entry.date, position.units.number', 'SELECT amount.number, amount.currency FROM #prices',
    'SELECT position.units.currency, units(position).currency', 'SELECT * FROM (SELECT account, position.units)',
    'SELECT entry.narration, entry.meta ORDER BY date', 'SELECT position.cost.number AS n, position.cost.date',
]


def ledger_targets_layer(ctx):
    """targets over the ledger tables whose values are structured: rows are plain tuples as wide as the description,
    whatever the values are, and attribute targets are named by their source text"""
    import ledgers
    text, entries, errors, options = ledgers.gen_ledger(ctx.rng, ntxn=8)
    conn = ledgers.connect(entries, errors, options)
    for q in LEDGER_TARGETS:
        ctx.evaluations += 1
        ctx.count('ledger-targets')
        ctx.nontrivial_hashes.add(hash(('ledger-targets', q)))
        try:
            stmt = parser.parse(q)
            cur = conn.execute(q)
            desc, rows = cur.description, cur.fetchall()
        except Exception as exc:  # noqa: BLE001
            ctx.record_violation('ledger-target-raises-%s' % type(exc).__name__, '%s: %r' % (q, exc), payload={'query': q, 'ledger': text})
            continue
        bad = [r for r in rows if type(r) is not tuple or len(r) != len(desc)]
        if bad:
            ctx.record_violation('row-width', '%s: a row is %r (%s of width %d) under a description of width %d' % (
                q, bad[0], type(bad[0]).__name__, len(bad[0]), len(desc)), payload={'query': q, 'ledger': text})
            continue
        if isinstance(stmt.targets, ast.Asterisk):
            inner = stmt.from_clause.targets if hasattr(stmt.from_clause, 'targets') else None
            targets = inner
        else:
            targets = stmt.targets
        if targets is None or len(desc) != len(targets):
            ctx.record_violation('description-length', '%s: %d described columns' % (q, len(desc)), payload={'query': q})
            continue
        for col, t in zip(desc, targets):
            if t.name is not None:
                ok = col.name == t.name
            elif isinstance(t.expression, ast.Column):
                ok = col.name == t.expression.name
            else:
                ok = col.name in q
                try:
                    ok = ok and parser.parse('SELECT ' + col.name).targets[0].expression == t.expression
                except Exception:  # noqa: BLE001
                    ok = False
            if not ok:
                ctx.record_violation('naming-rule', '%s: column named %r for target %r' % (q, col.name, t.expression), payload={'query': q})


def statement_kind_layer(ctx):
    """BALANCES and JOURNAL are SELECT statements in disguise: their columns are named by the same rule (the name of an
    expression column parses back to the expression that computes it)"""
    import ledgers
    from beanquery import compiler
    text, entries, errors, options = ledgers.gen_ledger(ctx.rng, ntxn=6)
    conn = ledgers.connect(entries, errors, options)
    for stmt_text in ('BALANCES', 'BALANCES AT cost', 'BALANCES AT units FROM year >= 2019', "JOURNAL", "JOURNAL 'Assets'",
                      "JOURNAL AT cost", "JOURNAL 'Assets' AT units", "JOURNAL 'Expenses' AT cost FROM year >= 2019"):
        stmt = parser.parse(stmt_text)
        select = compiler.transform_balances(stmt) if isinstance(stmt, ast.Balances) else compiler.transform_journal(stmt)
        ctx.evaluations += 1
        ctx.count('statement-kinds')
        try:
            cur = conn.execute(stmt_text)
            desc = cur.description
            rows = cur.fetchall()
        except Exception as exc:  # noqa: BLE001
            ctx.record_violation('statement-kind-raises', '%s: %r' % (stmt_text, exc))
            continue
        if desc is None or len(desc) != len(select.targets) or any(len(r) != len(desc) for r in rows):
            ctx.record_violation('description-length', '%s: %r described for %d targets' % (stmt_text, desc, len(select.targets)))
            continue
        for col, t in zip(desc, select.targets):
            if isinstance(t.expression, ast.Column):
                ok = col.name == t.expression.name
            else:
                try:
                    ok = parser.parse('SELECT ' + col.name).targets[0].expression == t.expression
                except Exception:  # noqa: BLE001
                    ok = False
            if not ok:
                ctx.record_violation('naming-rule', '%s: column named %r for target %r' % (stmt_text, col.name, t.expression))


def run(ctx):
    corpus_layer(ctx)
    statement_kind_layer(ctx)
    ledger_wildcard_layer(ctx)
    ledger_targets_layer(ctx)
    rng = ctx.rng
    table = None
    shared = None
    n = 0
    ncases = 30000 if ctx.thorough() else 250
    for case in range(ncases):
        if ctx.stop():
            return
        if table is None or case % 6 == 0:
            table = std_table(rng, nrows=rng.choice([0, 2, 5, 9]), small=True)
        eg = gen_sql.ExprGen(ctx.facts, rng, gen_sql.STD_SCHEMA, max_depth=2, allow_obj=False)
        stmt, hidden = gen_statement(ctx, eg, rng)
        text = bqlprint.to_text(stmt, rng, redundant=15, noise=True)
        try:
            parsed = parser.parse(text)
        except Exception as exc:  # noqa: BLE001
            ctx.record_violation('printed-statement-does-not-parse', '%s: %s' % (type(exc).__name__, text))
            continue
        SqlCase([table], text, name='text').check(ctx, nontrivial=hidden > 0 or 'c' in text, meta={'hidden': hidden})
        oracle(ctx, table, text, parsed)
        # the same statement spelled differently (spacing, case, parentheses, comments), one after the other on ONE
        # connection: each description is named after its own text
        if shared is None or shared[0] is not table:
            shared = (table, impl.connection([table]))
        for _ in range(2):
            text2 = bqlprint.to_text(stmt, rng, redundant=15, noise=True)
            try:
                parsed2 = parser.parse(text2)
            except Exception:  # noqa: BLE001
                continue
            oracle(ctx, table, text2, parsed2, conn=shared[1])
            ctx.count('respelled')
        ctx.count('hidden:%d' % hidden)
        if rng.chance(1, 5):
            # the same statement as a subquery: SELECT * FROM (q) must describe q's visible targets
            outer = ast.Select(ast.Asterisk(), parsed, None, None, None, None, None, None)
            SqlCase([table], outer, name='from-subquery').check(ctx)


def replay(ctx, body):
    replay_sql(ctx, body)
