"""C18 — scalar function library: exhaustive correspondence over the property's own domains."""
import datetime
import itertools
from decimal import Decimal

from dateutil.relativedelta import relativedelta

from beanquery import query_compile as qc, query_env, types  # noqa: F401
from beancount import loader

import beanquery
import proto

RULE = ('the whole domain the property names: every date from 1900-01-01 to 2100-12-31 (73 415) x every date_trunc unit, every '
        'date_part field, year/month/day/quarter/weekday/yearmonth; date +/- n, date_add, date_diff for offsets in a lexicon; '
        'date_bin for strides {1,2,3,7,30 days; 1,2,3,12 months; 1 year} x origins, on every k-th date (k=1 thorough); interval '
        'parsing; all 605 account names of 1..5 components over the five roots and a 3-letter alphabet (+ invalid roots) x '
        'root/parent/leaf/account_sortkey/possign; all 341 strings of length <= 4 over {a, B, space, colon} x substr with both '
        'indexes in [-6, 6], upper/lower/length/splitcomp/joinstr/findfirst/grep; subst / grepn (literal patterns) over the strings of length <= 5 over {a, b, colon}; all decimals with <= 3 digits and exponent in '
        '[-3, 1] x abs/neg/round/safediv; cast inputs of every type from a lexicon.  Functions are called through the registry '
        'objects (NULL-strict wrapper included) and, sampled, through SQL.  Non-trivial = result is not NULL; distinct = distinct call.')
ASSUMPTIONS = ['regex patterns are literal (grep/grepn/subst/findfirst); parse_date (dateutil) is not modelled; maxwidth (textwrap.shorten) is modelled for texts without hyphens (no break_on_hyphens)',
               'value-domain exceptions (OverflowError on dates outside 1..9999, IndexError of splitcomp) are compared as classes']

LO = datetime.date(1900, 1, 1).toordinal()
HI = datetime.date(2100, 12, 31).toordinal()

_ENTRIES = loader.load_string('2000-01-01 open Assets:Cash\n')
_CONN = beanquery.connect('beancount:', entries=_ENTRIES[0], errors=[], options=_ENTRIES[2])


def signature(mm):
    return 'C18:' + mm.name


def call(name, *args):
    """call the registered BQL function on constants (through the NULL-strict wrapper)"""
    ops = [qc.EvalConstant(a) for a in args]
    impl = types.function_lookup(qc.FUNCTIONS, name, ops)
    if impl is None:
        return 'NOFUNC'
    try:
        v = impl(_CONN, ops)(None)
    except Exception as exc:  # noqa: BLE001
        return 'ERR:' + type(exc).__name__
    try:
        return proto.show_value(v)
    except ValueError:
        return 'NONFINITE:%s' % v


def vals(xs):
    return ' '.join(proto.enc_value(x) for x in xs)


def fnmap(ctx, name, pre, post, values, label=None, nontrivial=True):
    # values for which no overload applies are compile errors, not function results: not part of this layer
    outs = [call(name, *(list(pre) + [v] + list(post))) for v in values]
    keep = [k for k, o in enumerate(outs) if o != 'NOFUNC']
    if not keep:
        ctx.count('no-overload:' + name)
        return
    values = [values[k] for k in keep]
    outs = [outs[k] for k in keep]
    line = '(fnmap %s (%s) (%s) %s)' % (proto.q(name), vals(pre), vals(post), vals(values))
    ctx.check(label or name, [line], lambda: ' '.join(outs),
              nontrivial=nontrivial, meta={'fn': name, 'pre': repr(pre), 'post': repr(post)},
              payload={'fn': name, 'pre': pre, 'post': post, 'values': values}, canon=canon)
    ctx.count('fn:' + name, len(values))


def canon(line):
    # the model reports functions it does not model; those positions are not compared
    return line


def fndates(ctx, name, pre, post, lo, n, step=1):
    dates = [datetime.date.fromordinal(lo + k) for k in range(0, n)]
    line = '(fndates %s (%s) (%s) %d %d)' % (proto.q(name), vals(pre), vals(post), lo, n)
    ctx.check(name, [line], lambda: ' '.join(call(name, *(list(pre) + [d] + list(post))) for d in dates),
              meta={'fn': name, 'pre': repr(pre), 'post': repr(post), 'from': dates[0].isoformat(), 'n': n},
              payload={'fn': name, 'pre': pre, 'post': post, 'lo': lo, 'n': n})
    ctx.count('fn:' + name, n)


TRUNC_UNITS = ['week', 'month', 'quarter', 'year', 'decade', 'century', 'millennium', 'fortnight']
PART_FIELDS = ['weekday', 'dow', 'isoweekday', 'isodow', 'week', 'month', 'quarter', 'year', 'isoyear', 'decade', 'century',
               'millennium', 'epoch', 'fortnight']


def date_layer(ctx):
    thorough = ctx.thorough()
    # year by year over the whole range
    year_step = 1 if thorough else 1
    for y in range(1900, 2101, year_step):
        lo = datetime.date(y, 1, 1).toordinal()
        n = datetime.date(y, 12, 31).toordinal() - lo + 1
        for u in TRUNC_UNITS:
            fndates(ctx, 'date_trunc', [u], [], lo, n)
        fields = PART_FIELDS if (thorough or y % 4 == 0) else ['week', 'isoyear', 'weekday', 'quarter', 'epoch']
        for f in fields:
            fndates(ctx, 'date_part', [f], [], lo, n)
        for fn in ('year', 'month', 'day', 'quarter', 'weekday', 'yearmonth'):
            if thorough or y % 3 == 0 or fn in ('weekday', 'quarter'):
                fndates(ctx, fn, [], [], lo, n)
        for k in ([0, 1, -1, 7, 30, 365, -366, 1000, -40000] if thorough else [1, -1, 365, -366]):
            fndates(ctx, 'date_add', [], [k], lo, n)
        for other in (datetime.date(2000, 2, 29), datetime.date(1900, 1, 1), datetime.date(2100, 12, 31)):
            if thorough or y % 5 == 0:
                fndates(ctx, 'date_diff', [], [other], lo, n)
                fndates(ctx, 'date_diff', [other], [], lo, n)
        if ctx.stop():
            return
    # date_bin: strides x origins
    rng = ctx.rng
    day_strides = ['1 day', '2 days', '3 days', '7 days', '30 days', '0 days', '-1 days']
    month_strides = ['1 month', '2 months', '3 months', '12 months', '1 year', '-1 month']
    for y in range(1900, 2101, 1 if thorough else 7):
        lo = datetime.date(y, 1, 1).toordinal()
        n = datetime.date(y, 12, 31).toordinal() - lo + 1
        for s in day_strides:
            for origin in (datetime.date(2000, 1, 1), datetime.date(y, 6, 15), datetime.date(1899, 12, 31)):
                fndates(ctx, 'date_bin', [s], [origin], lo, n)
        for s in month_strides:
            for origin in (datetime.date(y, 1, 31), datetime.date(max(y - 1, 1900), 7, 15), datetime.date(min(y + 1, 2100), 2, 28)):
                fndates(ctx, 'date_bin', [s], [origin], lo, n)
                fndates(ctx, 'date_bin', [relativedelta(months=2) if 'month' in s else relativedelta(years=1)], [origin], lo, n)
        if ctx.stop():
            return
    # interval parsing
    texts = ['1 day', '2 days', '-3 days', '+4 days', '1 month', '14 months', '-25 months', '2 years', '1  year', '1\tday',
             '1day', '1 week', 'x days', '', ' 1 day', '1 day ', '1 days s', '01 day', '1.5 days', '1 Day', '12 month', '0 days']
    fnmap(ctx, 'interval', [], [], texts)


def account_layer(ctx):
    roots = ['Assets', 'Liabilities', 'Equity', 'Income', 'Expenses']
    comps = ['A', 'Bb', 'C1']
    names = []
    for r in roots:
        for k in range(0, 5):
            for tail in itertools.product(comps, repeat=k):
                names.append(':'.join((r,) + tail))
    names += ['Foo', 'Foo:Bar', '', 'assets:cash', 'Assets:', ':Assets', 'Assets::X']
    for n in range(-1, 7):
        fnmap(ctx, 'root', [], [n], names, label='root')
    fnmap(ctx, 'root', [], [], names)
    fnmap(ctx, 'parent', [], [], names)
    fnmap(ctx, 'leaf', [], [], names)
    fnmap(ctx, 'account_sortkey', [], [], names)
    for x in (Decimal('1.50'), Decimal('-2'), Decimal('0')):
        fnmap(ctx, 'possign', [x], [], names)
    # parent(a):leaf(a) = a, checked on the implementation
    bad = [a for a in names if a and ':' in a and call('parent', a) != 'N'
           and proto.show_value('%s:%s' % (eval_str(call('parent', a)), eval_str(call('leaf', a)))) != proto.show_value(a)]
    if bad:
        ctx.record_violation('parent-leaf-law', 'parent(a):leaf(a) != a for %r' % bad[:3])
    # account_sortkey orders by type then name
    valid = [a for a in names if a.split(':')[0] in roots]
    keys = sorted(valid, key=lambda a: eval_str(call('account_sortkey', a)))
    want = sorted(valid, key=lambda a: (roots.index(a.split(':')[0]), a))
    if keys != want:
        ctx.record_violation('sortkey-order', 'ordering by account_sortkey differs from (type index, name)')


def eval_str(shown):
    # S"..." -> python string
    assert shown.startswith('S"'), shown
    return shown[2:-1].replace('\\"', '"').replace('\\\\', '\\')


def string_layer(ctx):
    alphabet = ['a', 'B', ' ', ':']
    strings = ['']
    for k in range(1, 5):
        strings += [''.join(t) for t in itertools.product(alphabet, repeat=k)]
    idx = range(-6, 7)
    for a in idx:
        for b in idx:
            if not ctx.thorough() and (a + b) % 2:
                continue
            fnmap(ctx, 'substr', [], [a, b], strings, label='substr')
    for fn in ('upper', 'lower', 'length'):
        fnmap(ctx, fn, [], [], strings)
    for delim in (':', ' ', 'a'):
        for i in range(-5, 6):
            fnmap(ctx, 'splitcomp', [], [delim, i], strings, label='splitcomp')
    # maxwidth(x, n) = textwrap.shorten(x, n): every string of length <= 4 over the alphabet and longer texts (long words,
    # runs of white space of every kind) x every width from -1 to 14
    texts = strings + ['lunch with the team at the usual place', 'a  b\tc\nd', '  leading and trailing  ', 'supercalifragilistic',
                       'ab supercalifragilistic cd', 'x' * 11 + ' y', 'aaaa bbbb cccc', 'aaaaa bbbbb', 'a b c d e f g h i j',
                       'word [...] word', '[...]', 'abcde', 'abcdef', 'abcd efgh', '\x0b\x0c a \r b', 'Rent, March (2nd half)']
    for n in range(-1, 15):
        fnmap(ctx, 'maxwidth', [], [n], texts if ctx.thorough() or n % 2 == 0 or n < 8 else texts[300:], label='maxwidth')
    for n in (20, 48, 80):
        fnmap(ctx, 'maxwidth', [], [n], texts[300:], label='maxwidth')
    sets = [set(), set(['a']), set(['b', 'a', 'Ba']), set(['trip', 'work', 'x'])]
    fnmap(ctx, 'joinstr', [], [], [s for s in sets if len(s) <= 1], label='joinstr')
    for pat in ('a', 'B', 'tr', 'x', 'zz'):
        fnmap(ctx, 'findfirst', [pat], [], sets, label='findfirst')
        fnmap(ctx, 'grep', [pat], [], strings[:120], label='grep')


def subst_layer(ctx):
    """subst(pattern, repl, string) = re.sub and grepn(pattern, string, n) = re.search(...).group(n), literal patterns:
    every occurrence is replaced, however many there are"""
    alphabet = ['a', 'b', ':']
    strings = ['']
    for k in range(1, 7 if ctx.thorough() else 6):
        strings += [''.join(t) for t in itertools.product(alphabet, repeat=k)]
    strings += ['lala land la', 'Assets:A:B:C:D', 'aaaaaaa', 'abababab', 'x' * 40, 'a' * 9 + 'b', 'Aa aA AA aa']
    for pat in ('a', ':', 'ab', 'aa', 'aba', 'zz', 'A', 'la'):
        for repl in ('', 'X', 'ab', pat + pat, '/'):
            fnmap(ctx, 'subst', [pat, repl], [], strings, label='subst')
        for n in (0, 1):
            fnmap(ctx, 'grepn', [pat], [n], strings[:200], label='grepn')


def column_layer(ctx):
    """the functions applied down a column by ONE compiled statement: every row gets the value of the function at its
    own argument, also when arguments of different rows compare equal (5.0, 5.00 and 5; 1 and TRUE)"""
    import impl
    D = Decimal
    cols = [('d', Decimal, [D('5.0'), D('5.00'), D('5'), D('1E+2'), D('100'), D('100.0'), D('1.50'), D('1.5'), D('0'), D('0.00'), None, D('-2.5'), D('-2.50')]),
            ('i', int, [1, 0, 1, -5, 12, None, 0]),
            ('b', bool, [True, False, True, None]),
            ('o', object, [1, True, D('1.0'), D('1'), D('1.00'), 0, False, D('0.0'), D('0'), 'a', 'a', None, 2, D('2.0')]),
            ('s', str, ['12', '12', ' 12', '1.50', '1.5', 'abc', '', None, '2020-1-2', '2020-01-02'])]
    exprs = ['str({c})', 'int({c})', 'decimal({c})', 'bool({c})', 'neg({c})', 'abs({c})', 'round({c})', 'round({c}, 1)', 'round({c}, 3)',
             'safediv({c}, 3)', 'safediv(1, {c})', 'length(str({c}))', 'str(neg({c}))', 'upper({c})', 'date({c})', 'maxwidth(str({c}), 5)',
             "subst('0', 'o', str({c}))"]
    for cname, ctype, values in cols:
        table = impl.HTable('c', [(cname, ctype)], [(v,) for v in values])
        conn = impl.connection([table])
        for e in exprs:
            text = 'SELECT %s AS y FROM #c' % e.format(c=cname)
            try:
                rows = conn.execute(text).fetchall()
            except beanquery.CompilationError:
                ctx.count('column:no-overload')
                continue
            except Exception as exc:  # noqa: BLE001
                rows = None
                got = ['ERR:' + type(exc).__name__]
            if rows is not None:
                got = [proto.show_value(r[0]) for r in rows]
            # the same statement over one-row tables, one per value
            want = []
            for v in values:
                c1 = impl.connection([impl.HTable('c', [(cname, ctype)], [(v,)])])
                try:
                    want.append(proto.show_value(c1.execute(text).fetchall()[0][0]))
                except Exception as exc:  # noqa: BLE001
                    want.append('ERR:' + type(exc).__name__)
            ctx.evaluations += 1
            ctx.count('column')
            ctx.nontrivial_hashes.add(hash(('column', text)))
            if got != want:
                ctx.record_violation('column-differs-from-rows', '%s over %r: %r, row by row %r' % (text, values, got, want),
                                     payload={'statement': text, 'values': values})


def numeric_layer(ctx):
    decs = []
    for e in range(-3, 2):
        for c in range(-999, 1000, 1 if ctx.thorough() else 7):
            decs.append(Decimal((0 if c >= 0 else 1, tuple(int(ch) for ch in str(abs(c))), e)))
    fnmap(ctx, 'abs', [], [], decs)
    fnmap(ctx, 'neg', [], [], decs)
    fnmap(ctx, 'round', [], [], decs)
    for n in range(-2, 5):
        fnmap(ctx, 'round', [], [n], decs, label='round')
    ys = [Decimal('0'), Decimal('1'), Decimal('-3'), Decimal('0.7'), Decimal('12.5'), Decimal('0.003'), Decimal('9E+1')]
    for y in ys:
        fnmap(ctx, 'safediv', [], [y], decs, label='safediv')
    for y in (0, 1, -7, 3):
        fnmap(ctx, 'safediv', [], [y], decs, label='safediv-int')
    ints = list(range(-30, 31)) + [10 ** 6 + 5, -(10 ** 6) - 5]
    fnmap(ctx, 'round', [], [], ints, label='round-int')
    for n in (-3, -1, 0, 2):
        fnmap(ctx, 'round', [], [n], ints, label='round-int')


def cast_layer(ctx):
    lex = [0, 1, -5, True, False, Decimal('1.5'), Decimal('-2.50'), Decimal('1E+2'), Decimal('0.000'), '12', '-7', '+3', '1.5', '.5', '5.',
           'abc', '', ' 1', '2E+1', '1e5', '1.5E-3', '1E', 'E5', '2020-01-02', '2020-02-30', '2020-1-2', '20200102', datetime.date(2020, 1, 2), datetime.date(1900, 1, 1)]
    for fn in ('int', 'decimal', 'str', 'date', 'bool'):
        fnmap(ctx, fn, [], [], lex, label='cast-' + fn)
    ymd = [(2020, 2, 29), (2021, 2, 29), (2020, 13, 1), (2020, 0, 1), (0, 1, 1), (9999, 12, 31), (10000, 1, 1), (2020, 1, 0), (-1, 1, 1),
           (2147483648, 1, 1), (2020, 2 ** 40, 1), (2020, 1, -2 ** 40), (10 ** 30, 1, 1), (2147483647, 12, 31), (-2147483649, 1, 1)]
    line_vals = []
    for y, m, d in ymd:
        ctx.check('cast-date-ymd', ['(fn "date" (i %d) (i %d) (i %d))' % (y, m, d)], lambda y=y, m=m, d=d: call('date', y, m, d))
    # casts never raise: checked on the implementation for exotic inputs the model does not represent
    exotic = [Decimal('Infinity'), Decimal('-Infinity'), Decimal('NaN'), '1e5', '1_000', 'inf', 'nan', '٣', '１２', 10 ** 400]
    for fn in ('int', 'decimal', 'str', 'date', 'bool'):
        for v in exotic:
            out = call(fn, v)
            ctx.evaluations += 1
            if out.startswith('ERR:'):
                ctx.record_violation('cast-raises:%s:%s' % (fn, out), '%s(%r) -> %s' % (fn, v, out))


def sql_sample(ctx):
    """the same functions through SELECT on a one-row table: NULL strictness and registration"""
    rng = ctx.rng
    conn = beanquery.Connection()
    for text, args in [("SELECT date_trunc('week', 2024-11-10), date_part('week', 2021-01-03), date_add(2020-02-28, 2) FROM #", None),
                       ("SELECT date_bin('1 month', 2000-02-01, 2000-01-01), date_bin('7 days', 2000-01-10, 2000-01-01) FROM #", None),
                       ("SELECT parent('Assets:A:B'), leaf('Assets:A:B'), root('Assets:A:B', 2), splitcomp('a:b', ':', 1) FROM #", None),
                       ("SELECT int('12'), int('x'), decimal('1.5'), date('2020-01-02'), date('x'), bool(''), str(TRUE) FROM #", None)]:
        try:
            rows = conn.execute(text).fetchall()
            got = proto.show_row(rows[0])
        except Exception as exc:  # noqa: BLE001
            got = 'ERR:' + type(exc).__name__
        ctx.evaluations += 1
        ctx.count('sql-sample')
        if len(ctx.samples) < 6:
            ctx.samples.append({'case': 'sql', 'input': text, 'result': got})
        if got.startswith('ERR:'):
            ctx.record_violation('sql-sample-raises', '%s -> %s' % (text, got))
    expect = {"SELECT date_trunc('week', 2024-11-10) FROM #": datetime.date(2024, 11, 4),
              "SELECT date_bin('1 month', 2000-02-01, 2000-01-01) FROM #": datetime.date(2000, 2, 1),
              "SELECT date_part('week', 2021-01-03) FROM #": 53}
    for text, want in expect.items():
        got = conn.execute(text).fetchall()[0][0]
        if got != want:
            ctx.record_violation('sql-sample-value', '%s = %r, expected %r' % (text, got, want))


RENAMED = """option "name_assets" "Aktiva"
option "name_liabilities" "Passiva"
option "name_equity" "Eigenkapital"
option "name_income" "Ertrag"
option "name_expenses" "Aufwand"
2020-01-01 open Aktiva:Bank
2020-01-01 open Passiva:Karte
2020-01-01 open Eigenkapital:Start
2020-01-01 open Ertrag:Lohn
2020-01-01 open Aufwand:Essen
2020-01-02 * "start"
  Aktiva:Bank  100.00 EUR
  Eigenkapital:Start  -100.00 EUR
2020-01-03 * "lohn"
  Aktiva:Bank  50.00 EUR
  Ertrag:Lohn  -50.00 EUR
2020-01-04 * "essen"
  Aufwand:Essen  7.50 EUR
  Passiva:Karte  -7.50 EUR
"""


def renamed_roots_layer(ctx):
    """the account functions follow the ledger's own root account names"""
    from beancount import loader
    entries, errors, options = loader.load_string(RENAMED)
    conn = beanquery.connect('beancount:', entries=entries, errors=errors, options=options)
    sign = {'Aktiva': 1, 'Aufwand': 1, 'Passiva': -1, 'Eigenkapital': -1, 'Ertrag': -1}
    order = ['Aktiva', 'Passiva', 'Eigenkapital', 'Ertrag', 'Aufwand']
    rows = conn.execute('SELECT account, number, possign(number, account), account_sortkey(account) FROM #postings').fetchall()
    ctx.evaluations += 1
    ctx.count('renamed-roots')
    for account, number, signed, key in rows:
        root = account.split(':')[0]
        if signed != number * sign[root]:
            ctx.record_violation('possign-renamed-roots', 'possign(%s, %r) = %s in a ledger whose roots are renamed' % (number, account, signed))
            break
    keys = sorted({(r[3], r[0]) for r in rows})
    want = sorted({r[0] for r in rows}, key=lambda a: (order.index(a.split(':')[0]), a))
    if [a for _, a in keys] != want:
        ctx.record_violation('sortkey-renamed-roots', 'account_sortkey orders %r, expected %r' % ([a for _, a in keys], want))
    # a ledger with the default names, through the same path
    entries, errors, options = loader.load_string(RENAMED.split('2020-01-01 open', 1)[0].replace('option', ';option') +
                                                  '2020-01-01 open Assets:Bank\n2020-01-01 open Income:Job\n2020-01-02 * "x"\n  Assets:Bank  5 EUR\n  Income:Job  -5 EUR\n')
    conn = beanquery.connect('beancount:', entries=entries, errors=errors, options=options)
    rows = conn.execute('SELECT account, number, possign(number, account) FROM #postings').fetchall()
    for account, number, signed in rows:
        if signed != number * (1 if account.startswith('Assets') else -1):
            ctx.record_violation('possign-default-roots', 'possign(%s, %r) = %s' % (number, account, signed))


def run(ctx):
    subst_layer(ctx)
    column_layer(ctx)
    renamed_roots_layer(ctx)
    cast_layer(ctx)
    sql_sample(ctx)
    account_layer(ctx)
    numeric_layer(ctx)
    string_layer(ctx)
    date_layer(ctx)


def replay(ctx, body):
    import base64
    import pickle
    p = pickle.loads(base64.b64decode(body['payload_pickle_b64']))
    print('replay payload:', {k: (v if k != 'values' else '%d values' % len(v)) for k, v in p.items()})
