"""C20 — thread isolation: scheduler-driven interleavings at yield-point granularity."""
import itertools
import threading

import beanquery
from beanquery import query_env, query_compile as qc

import ledgers
import proto

RULE = ('pairs (and sampled triples) of queries - running balance referenced 0..2 times per row with a yield point between the '
        'references, aggregates, IN-subqueries, parameters - executed by threads on ONE shared connection and on separate '
        'connections; a scheduler parks every thread at `vp_yield` (a pass-through BQL function registered by the harness) and '
        'releases them following an explicit schedule: ALL interleavings for 2 threads x 2 yield points each (6 schedules) on '
        'the first rows, seeded random schedules beyond, scheduling points at statement start, inside compilation (folded call), between execute() and reading the result; one parsed statement executed by two threads; a deeply nested statement parsed while another ends; every result is compared with the serial execution.  A shared-state '
        'audit fingerprints module-level and class-level containers, table objects, the loaded directives and interpreter-wide settings (recursion limit, decimal contexts, locale) before/after.  Thorough adds unscheduled stress runs '
        '(testing, not proof).  Non-trivial = two threads whose yield points interleave; distinct = distinct (queries, schedule).')
ASSUMPTIONS = ['interleaving granularity is column evaluation / yield-function boundaries, not CPython bytecodes (partial by construction)']


def signature(mm):
    return 'C20:' + mm.name


class Scheduler:
    """Releases threads at their yield points in the order given by `schedule` (list of thread tags)."""

    def __init__(self, schedule, nthreads):
        self.schedule = list(schedule)
        self.idx = 0
        self.cv = threading.Condition()
        self.finished = set()
        self.nthreads = nthreads
        self.timeout = False
        self.parked = set()

    def _skip_finished(self):
        while self.idx < len(self.schedule) and self.schedule[self.idx] in self.finished:
            self.idx += 1

    def yield_point(self, tag):
        with self.cv:
            self._skip_finished()
            self.parked.add(tag)
            self.cv.notify_all()
            ok = self.cv.wait_for(lambda: self._turn(tag), timeout=20)
            self.parked.discard(tag)
            if not ok:
                self.timeout = True
                self.idx = len(self.schedule)
            elif self.idx < len(self.schedule):
                self.idx += 1
            self._skip_finished()
            self.cv.notify_all()

    def _turn(self, tag):
        self._skip_finished()
        return self.idx >= len(self.schedule) or self.schedule[self.idx] == tag

    def finish(self, tag):
        with self.cv:
            self.finished.add(tag)
            self._skip_finished()
            self.cv.notify_all()


_CURRENT = {'sched': None}
_LOCAL = threading.local()


def _vp_yield(tag, n):
    sched = _CURRENT['sched']
    if sched is not None and getattr(_LOCAL, 'tag', None) is not None:
        sched.yield_point(_LOCAL.tag)
    return n


def register_yield():
    if 'vp_yield' not in qc.FUNCTIONS:
        query_env.function([str, int], int, name='vp_yield')(_vp_yield)
        # the wrapper class marks functions without row/context as pure: constant arguments would be folded
        # at compile time; the harness always passes a column.


def run_threads(conns, queries, params, schedule, start_yield=False, fetch_yield=False):
    """run query k on conns[k] in thread k following `schedule`; returns list of canonical results"""
    tags = [chr(ord('A') + k) for k in range(len(queries))]
    sched = Scheduler([tags[t] for t in schedule], len(queries))
    _CURRENT['sched'] = sched
    results = [None] * len(queries)

    def work(k):
        _LOCAL.tag = tags[k]
        try:
            if start_yield:
                # a scheduling point before the statement is parsed and compiled: the schedule also decides who compiles first
                sched.yield_point(tags[k])
            cur = conns[k].execute(queries[k], params[k])
            if fetch_yield:
                # a scheduling point between executing a statement and reading its result
                sched.yield_point(tags[k])
            desc = cur.description
            rows = []
            for row in cur:
                rows.append(row)
                if fetch_yield and len(rows) == 1:
                    sched.yield_point(tags[k])
            results[k] = proto.show_result(desc, rows, proto.Content())
        except Exception as exc:  # noqa: BLE001
            results[k] = 'EXC:%s:%s' % (type(exc).__name__, exc)
        finally:
            _LOCAL.tag = None
            sched.finish(tags[k])
    threads = [threading.Thread(target=work, args=(k,)) for k in range(len(queries))]
    for t in threads:
        t.start()
    for t in threads:
        t.join(60)
    _CURRENT['sched'] = None
    if sched.timeout or any(t.is_alive() for t in threads):
        return None
    return results


def serial(conns, queries, params):
    out = []
    for c, q, p in zip(conns, queries, params):
        try:
            cur = c.execute(q, p)
            out.append(proto.show_result(cur.description, cur.fetchall(), proto.Content()))
        except Exception as exc:  # noqa: BLE001
            out.append('EXC:%s:%s' % (type(exc).__name__, exc))
    return out


def run_with_intruder(conn_a, query_a, conn_b, query_b, when):
    """thread A runs query_a and parks at its yield points; at its `when`-th yield point the main thread runs query_b
    to completion (a whole foreign scan between two sub-expression evaluations of one row of A), then A goes on"""
    sched = Scheduler(['A'] * when + ['M'] + ['A'] * 10000, 2)
    _CURRENT['sched'] = sched
    result = {}

    def work():
        _LOCAL.tag = 'A'
        try:
            cur = conn_a.execute(query_a)
            result['a'] = proto.show_result(cur.description, cur.fetchall(), proto.Content())
        except Exception as exc:  # noqa: BLE001
            result['a'] = 'EXC:%s:%s' % (type(exc).__name__, exc)
        finally:
            _LOCAL.tag = None
            sched.finish('A')
    t = threading.Thread(target=work)
    t.start()
    with sched.cv:
        sched.cv.wait_for(lambda: ('A' in sched.parked and sched.idx == when) or 'A' in sched.finished, timeout=30)
    try:
        cur = conn_b.execute(query_b)
        result['b'] = proto.show_result(cur.description, cur.fetchall(), proto.Content())
    except Exception as exc:  # noqa: BLE001
        result['b'] = 'EXC:%s:%s' % (type(exc).__name__, exc)
    sched.finish('M')
    t.join(120)
    _CURRENT['sched'] = None
    return result.get('a'), result.get('b')


def intruder_layer(ctx):
    """a long foreign scan (several hundred balance evaluations, on another connection over another ledger) between the
    two balance references of one row"""
    rng = ctx.rng
    big = ledgers.connect(*ledgers.gen_ledger(rng, ntxn=90)[1:])
    small_text, entries, errors, options = ledgers.gen_ledger(rng, ntxn=5)
    small = ledgers.connect(entries, errors, options)
    qa = "SELECT balance, vp_yield('x', lineno), balance FROM #postings"
    qb = 'SELECT account, balance FROM #postings'
    want_a = serial([small], [qa], [None])[0]
    want_b = serial([big], [qb], [None])[0]
    for when in (0, 1, 3):
        got_a, got_b = run_with_intruder(small, qa, big, qb, when)
        ctx.evaluations += 1
        ctx.count('intruder')
        ctx.nontrivial_hashes.add(hash(('intruder', when, small_text)))
        if got_a != want_a or got_b != want_b:
            ctx.record_violation('interleaving-changes-result',
                                 'a foreign scan of %d rows at yield point %d of %r changes a result: %r vs serial %r' % (
                                     want_b.count(')('), when, qa, (got_a or '')[:200], want_a[:200]),
                                 payload={'ledger': small_text, 'queries': [qa, qb], 'when': when})
            return


PARSED_TEMPLATES = [
    ("SELECT account, number FROM #postings WHERE vp_yield('c', 1) = 1 AND number >= %s", (-1000000,), (1000000,)),
    ("SELECT account, number, %s AS tag FROM #postings WHERE vp_yield('c', 2) = 2 AND number >= %s", ('t', 0), ('u', 5)),
    ("SELECT vp_yield('c', 5) AS c, number + %s AS n, %s AS tag FROM #postings WHERE number > %s", (1, 'a', 0), (2, 'b', -5)),
    ("SELECT vp_yield('x', lineno) AS y, number + %(k)s AS n FROM #postings", {'k': 1}, {'k': 2}),
]


def parsed_statement_layer(ctx, lk, text, entries, errors, options):
    """ONE parsed statement executed by two threads with different parameters (on one connection, on two): each gets what
    the statement text gives with its own parameters"""
    from beanquery import parser
    for qtext, pa, pb in PARSED_TEMPLATES:
        for mode in ('shared-connection', 'separate-connections'):
            ca = ledgers.connect(entries, errors, options)
            conns = [ca, ca if mode == 'shared-connection' else ledgers.connect(entries, errors, options)]
            want = serial(conns, [qtext, qtext], [pa, pb])
            scheds = [(sc, False) for sc in sorted(set(itertools.permutations([0, 0, 1, 1])))]
            scheds += [(tuple([0, 1] * 12), False), (tuple([1, 0] * 12), False), (tuple([0, 1] * 12), True), (tuple([1, 0] * 12), True),
                       (tuple([0, 1, 1, 1, 0, 0] * 4), True), (tuple([1, 0, 0, 0, 1, 1] * 4), True)]
            for sched, sy in scheds:
                stmt = parser.parse(qtext)
                got = run_threads(conns, [stmt, stmt], [pa, pb], sched, start_yield=sy)
                ctx.evaluations += 1
                ctx.count('parsed-statement:' + mode)
                ctx.nontrivial_hashes.add(hash(('parsed', qtext, mode, sched, sy, lk)))
                if got is None:
                    raise RuntimeError('scheduler timed out on %r %r' % (qtext, sched))
                if got != want:
                    ctx.record_violation('interleaving-changes-result',
                                         '%s, one parsed statement %r executed by two threads with parameters %r and %r, schedule %r: '
                                         'thread results %r, serial %r' % (mode, qtext, pa, pb, sched, [g[:120] for g in got], [w[:120] for w in want]),
                                         payload={'ledger': text, 'queries': [qtext, qtext], 'params': [pa, pb], 'schedule': sched, 'mode': mode,
                                                  'parsed_once': True})
                    return
                # ... and afterwards the statement is what it was: serially it still gives the same
                again = serial(conns, [stmt, stmt], [pa, pb])
                if again != want:
                    ctx.record_violation('interleaving-changes-result', 'parsed statement %r re-executed serially after the threads: %r, expected %r'
                                         % (qtext, [g[:120] for g in again], [w[:120] for w in want]), payload={'ledger': text})
                    return


def deep_statement_layer(ctx, lk, text, entries, errors, options):
    """a statement nested deeply enough to come near the interpreter's limits, parsed while another statement ends:
    it gives (or fails with) what it gives serially"""
    deep = 'SELECT ' + '(' * 20 + 'number' + ' + 1)' * 20 + ' AS n FROM #postings'
    short = "SELECT vp_yield('x', lineno) AS y, account FROM #postings"
    for mode in ('shared-connection', 'separate-connections'):
        ca = ledgers.connect(entries, errors, options)
        conns = [ca, ca if mode == 'shared-connection' else ledgers.connect(entries, errors, options)]
        want = [w.split(':')[0] + ':' + w.split(':')[1] if w.startswith('EXC:') else w for w in serial(conns, [short, deep], [None, None])]
        # the short statement starts, the deep one starts parsing, the short one runs to its end meanwhile
        for sched in ((0, 1) + (0,) * 400, (1, 0) + (0,) * 400):
            got = run_threads(conns, [short, deep], [None, None], sched, start_yield=True)
            ctx.evaluations += 1
            ctx.count('deep-statement:' + mode)
            ctx.nontrivial_hashes.add(hash(('deep', mode, sched[:2], lk)))
            if got is None:
                raise RuntimeError('scheduler timed out on the deep statement')
            got = [g.split(':')[0] + ':' + g.split(':')[1] if g.startswith('EXC:') else g for g in got]
            if got != want:
                ctx.record_violation('interleaving-changes-result', '%s, a deeply nested statement parsed while another ends: thread results %r, serial %r' % (
                    mode, [g[:120] for g in got], [w[:120] for w in want]), payload={'ledger': text, 'queries': [short, deep], 'mode': mode})
                return


QUERY_TEMPLATES = [
    ("SELECT balance, vp_yield('x', lineno), balance FROM #postings", None),
    ("SELECT vp_yield('x', lineno), balance FROM #postings WHERE account ~ 'Assets'", None),
    ("SELECT account, sum(position), count(vp_yield('x', lineno)) FROM #postings GROUP BY account ORDER BY account", None),
    ("SELECT vp_yield('x', lineno), account IN (SELECT account FROM #postings WHERE NOT empty(balance)), balance FROM #postings", None),
    ("SELECT balance, vp_yield('x', lineno) + %s, balance FROM #postings WHERE number > %s", (1, 0)),
    ("SELECT DISTINCT vp_yield('x', lineno) * 0, currency FROM #postings ORDER BY 2", None),
    ("SELECT date, vp_yield('x', lineno), position FROM #postings ORDER BY date DESC LIMIT 5", None),
    ("SELECT %(a)s + vp_yield('x', lineno), balance FROM #postings LIMIT 4", {'a': 5}),
    # yield points in the output phase of an aggregate query (between finalising and reading the aggregates of a group)
    ("SELECT account, vp_yield('x', count(*)) AS n, sum(number) AS total FROM #postings GROUP BY account ORDER BY account", None),
    ("SELECT currency, sum(number) AS total, vp_yield('x', count(number)) AS n FROM #postings WHERE number > 0 GROUP BY currency "
     "HAVING vp_yield('x', count(*)) > 0 ORDER BY currency", None),
    # statements with FROM qualifiers (the table is summarised per statement) next to unqualified ones
    # ({early}, {mid}, {late}: dates inside the ledger at hand, so that the qualifiers cut something off)
    ("SELECT vp_yield('x', lineno), account, position FROM CLOSE ON {mid}", None),
    ("SELECT account, vp_yield('x', count(*)) AS n FROM OPEN ON {early} CLOSE ON {late} CLEAR GROUP BY account ORDER BY account", None),
    # the accounts table and the account look-up functions, also for names that were never opened
    ("SELECT account, vp_yield('x', length(account)), open FROM #accounts", None),
    ("SELECT DISTINCT parent(account), open_date(parent(account)), vp_yield('x', lineno) * 0 FROM #postings", None),
    # a yield point inside the COMPILATION of the statement (constant arguments are folded), with parameters
    ("SELECT account, number FROM #postings WHERE vp_yield('c', 1) = 1 AND number >= %(min)s", {'min': -1000000}),
    ("SELECT account, number FROM #postings WHERE vp_yield('c', 1) = 1 AND number >= %(min)s", {'min': 1000000}),
    ("SELECT account, number, %s AS tag FROM #postings WHERE vp_yield('c', 2) = 2 AND number >= %s", ('t', 0)),
    # 17-19: the directive tables (one table object per connection) scanned by two statements at once
    ("SELECT vp_yield('x', 1) AS y, date, currency, amount FROM #prices", None),
    ("SELECT count(*) AS n, max(date) AS d, vp_yield('x', count(*)) AS y FROM #prices", None),
    ("SELECT vp_yield('x', 1) AS y, date, narration FROM #transactions", None),
    # 20-21: one function overload evaluated by two statements, a yield point while its arguments are being evaluated
    ("SELECT root(account, vp_yield('x', lineno) * 0 + 2) AS r, account FROM #postings", None),
    ("SELECT vp_yield('x', lineno) AS y, root(account, 1) AS r FROM #postings", None),
    # 22-23: metadata look-ups that fall back from the posting to the transaction, next to plain look-ups
    ("SELECT vp_yield('x', lineno) AS y, any_meta('category') AS c, any_meta('note') AS n FROM #postings", None),
    ("SELECT vp_yield('x', lineno) AS y, meta('category') AS c, meta('note') AS n, meta FROM #postings", None),
    # 24-25: FROM-subqueries whose columns have the same names at different positions; the first statement parks (in the
    # compilation of a constant call) between compiling its FROM clause and resolving its column references
    ("SELECT vp_yield('c', 3) AS y, account, number FROM (SELECT account, number, date FROM #postings)", None),
    ("SELECT number, vp_yield('c', 4) AS y, account FROM (SELECT date, number, account FROM #postings)", None),
    # 26-27: BALANCES / JOURNAL with a compile-phase yield inside the FROM expression, different WHERE clauses
    ("BALANCES FROM year >= vp_yield('c', 1900) WHERE account ~ 'Expenses'", None),
    ("BALANCES FROM year >= vp_yield('c', 1901) WHERE account ~ 'Assets'", None),
    # 28-29: arithmetic whose result depends on the decimal context (quotients that do not terminate, long products)
    ("SELECT vp_yield('x', lineno) AS y, number / 3 AS third, number / 7 * 1.000000000000000000001 AS p FROM #postings", None),
    ("SELECT account, sum(number) / 7 AS m, vp_yield('x', count(*)) AS n, sum(number) / count(number) AS avg FROM #postings GROUP BY account ORDER BY account", None),
]
QUERIES = list(QUERY_TEMPLATES)
OUTPUT_PHASE = (8, 9)


def audit_fingerprint(conn):
    import sys
    fp = {}
    for name, mod in list(sys.modules.items()):
        if not name.startswith('beanquery'):
            continue
        for attr, val in list(vars(mod).items()):
            if attr.startswith('__'):
                continue
            if isinstance(val, (dict, list, set)):
                try:
                    fp['%s.%s' % (name, attr)] = (type(val).__name__, len(val), repr(sorted(map(str, val)))[:2000] if isinstance(val, (dict, set)) else len(val))
                except Exception:  # noqa: BLE001
                    fp['%s.%s' % (name, attr)] = (type(val).__name__, len(val))
        # class-level containers (shared by every instance, statement, connection and thread)
        import inspect
        for cname, cls in list(vars(mod).items()):
            if not inspect.isclass(cls) or getattr(cls, '__module__', None) != name:
                continue
            for attr, val in list(vars(cls).items()):
                if attr.startswith('__') or not isinstance(val, (dict, list, set)):
                    continue
                try:
                    fp['%s.%s.%s' % (name, cname, attr)] = (type(val).__name__, len(val), repr(val)[:2000])
                except Exception:  # noqa: BLE001
                    fp['%s.%s.%s' % (name, cname, attr)] = (type(val).__name__, len(val))
    # interpreter-wide settings every thread shares
    import decimal
    import locale
    fp['sys.getrecursionlimit'] = sys.getrecursionlimit()
    fp['sys.getswitchinterval'] = sys.getswitchinterval()
    fp['decimal.DefaultContext'] = repr(decimal.DefaultContext)
    fp['decimal.getcontext(main thread)'] = repr(decimal.getcontext())
    fp['locale'] = locale.setlocale(locale.LC_ALL)
    for tname, t in conn.tables.items():
        fp['table:%s' % tname] = (id(t), sorted(vars(t)) if hasattr(t, '__dict__') else None,
                                 len(getattr(t, 'entries', []) or []))
        fp['columns:%s' % tname] = tuple((k, id(v)) for k, v in getattr(t, 'columns', {}).items())
    return fp


def run(ctx):
    register_yield()
    # (first: nothing has run concurrently in this process yet, the interpreter-wide settings are what they were at import)
    t0 = ledgers.gen_ledger(ctx.rng, ntxn=4)
    deep_statement_layer(ctx, -1, *t0)
    intruder_layer(ctx)
    rng = ctx.rng
    nled = 4 if ctx.thorough() else 2
    for lk in range(nled):
        text, entries, errors, options = ledgers.gen_ledger(rng, ntxn=rng.range(3, 6))
        shared = ledgers.connect(entries, errors, options)
        if lk % 2 == 0:
            other = ledgers.connect(entries, errors, options)               # the same ledger on another connection
        else:
            other = ledgers.connect(*ledgers.gen_ledger(rng, ntxn=rng.range(3, 6))[1:])    # a different ledger
        tdates = sorted({e.date for e in entries if hasattr(e, 'postings')})
        marks = {'early': tdates[len(tdates) // 4].isoformat(), 'mid': tdates[len(tdates) // 2].isoformat(),
                 'late': tdates[(3 * len(tdates)) // 4].isoformat()} if tdates else {'early': '2020-01-15', 'mid': '2020-03-01', 'late': '2020-08-01'}
        global QUERIES
        QUERIES = [(q.replace('{early}', marks['early']).replace('{mid}', marks['mid']).replace('{late}', marks['late']), p)
                   for q, p in QUERY_TEMPLATES]
        parsed_statement_layer(ctx, lk, text, entries, errors, options)
        before = audit_fingerprint(shared)
        entries_before = ledgers.entries_snapshot(entries)
        fixed = [(0, 0), (10, 1), (28, 29), (0, 3), (11, 2), (8, 8), (12, 13), (14, 15), (15, 16), (19, 19), (20, 21), (17, 18), (24, 25), (22, 23), (26, 27), (9, 9), (3, 3), (8, 9), (0, 1), (10, 2),
                 (12, 12), (13, 12), (21, 20), (17, 17)]
        pairs = rng.shuffle(list(itertools.product(range(len(QUERIES)), repeat=2)))
        if not ctx.thorough():
            pairs = pairs[:12]
        # the pairs known to be sensitive come first, so that the time budget cannot cut them off
        pairs = fixed + [p for p in pairs if p not in fixed]
        for qa, qb in pairs:
            queries = [QUERIES[qa][0], QUERIES[qb][0]]
            params = [QUERIES[qa][1], QUERIES[qb][1]]
            for mode, conns in (('shared-connection', [shared, shared]), ('separate-connections', [shared, other])):
                want = serial(conns, queries, params)
                # all interleavings of the first two yield points of each thread
                scheds = sorted(set(itertools.permutations([0, 0, 1, 1])))
                # strict alternation and blocks, long enough to cover whole scans of the small ledgers
                scheds += [tuple([0, 1] * 12), tuple([1, 0] * 12)]
                if ctx.thorough() or (qa, qb) not in fixed:
                    scheds += [tuple([0, 0, 1] * 8), tuple([1, 1, 0, 0] * 6)]
                # plus seeded longer schedules (the quick tier spends its budget on covering every sensitive pair)
                for _ in range((1 if (qa, qb) not in fixed else 0) if not ctx.thorough() else 6):
                    scheds.append(tuple(rng.below(2) for _ in range(rng.range(5, 14))))
                # (schedule, with a scheduling point at the start of each statement): the second statement runs to its end
                # before the first one is even compiled; the second statement compiles first, then strict alternation
                runs = [(sc, False) for sc in scheds] + [(tuple([1] * 200 + [0] * 200), True), (tuple([1, 0] * 40), True)]
                # ... and with scheduling points between execute() and reading the result: both statements executed, then read
                runs += [(tuple([0, 1] * 60), 'fetch'), (tuple([0] * 200 + [1] * 200 + [0, 1] * 4), 'fetch')]
                for sched, sy in runs:
                    if sy == 'fetch':
                        got = run_threads(conns, queries, params, sched, fetch_yield=True)
                        ctx.evaluations += 1
                        ctx.nontrivial_hashes.add(hash((qa, qb, mode, 'fetch', sched[:4], lk)))
                        ctx.count(mode)
                        if got is None:
                            raise RuntimeError('scheduler timed out on %r %r' % (queries, sched[:8]))
                        if got != want:
                            ctx.record_violation('interleaving-changes-result',
                                                 '%s, both statements executed before either result is read, queries %r: thread results %r, serial %r' % (
                                                     mode, queries, [g[:120] for g in got], [w[:120] for w in want]),
                                                 payload={'ledger': text, 'queries': queries, 'params': params, 'schedule': sched[:8], 'mode': mode})
                            break
                        continue
                    if sy and mode == 'shared-connection':
                        # on a connection nothing has run on yet (what an earlier statement left behind would hide the
                        # order dependence), against the serial order on another such connection
                        fresh = ledgers.connect(entries, errors, options)
                        ref = ledgers.connect(entries, errors, options)
                        want_here = serial([ref, ref], queries, params)
                        got = run_threads([fresh, fresh], queries, params, sched, start_yield=True)
                        if got is not None and got != want_here:
                            ctx.record_violation('interleaving-changes-result',
                                                 '%s (fresh), schedule with the second statement first, queries %r: thread results %r, serial %r' % (
                                                     mode, queries, [g[:120] for g in got], [w[:120] for w in want_here]),
                                                 payload={'ledger': text, 'queries': queries, 'params': params, 'schedule': sched[:8], 'mode': mode})
                            break
                        ctx.evaluations += 1
                        ctx.nontrivial_hashes.add(hash((qa, qb, mode, 'fresh', sched[:4], lk)))
                        ctx.count(mode)
                        continue
                    got = run_threads(conns, queries, params, sched, start_yield=sy)
                    ctx.evaluations += 1
                    ctx.nontrivial_hashes.add(hash((qa, qb, mode, sched, lk)))
                    ctx.count(mode)
                    if got is None:
                        raise RuntimeError('scheduler timed out on %r %r' % (queries, sched))
                    if got != want:
                        ctx.record_violation('interleaving-changes-result',
                                             '%s, schedule %r, queries %r: thread results %r, serial %r' % (
                                                 mode, sched, queries, [g[:120] for g in got], [w[:120] for w in want]),
                                             payload={'ledger': text, 'queries': queries, 'params': params, 'schedule': sched, 'mode': mode})
                        break
                if ctx.stop():
                    break
            if ctx.stop():
                break
        if len(ctx.samples) < 6:
            ctx.samples.append({'case': 'pair', 'queries': [QUERIES[0][0], QUERIES[3][0]], 'schedules': 'all 6 interleavings of 2x2 yield points + random'})
        # triples (sampled)
        for _ in range(3 if not ctx.thorough() else 12):
            ks = [rng.below(len(QUERIES)) for _ in range(3)]
            queries = [QUERIES[k][0] for k in ks]
            params = [QUERIES[k][1] for k in ks]
            conns = [shared, shared, other]
            want = serial(conns, queries, params)
            sched = tuple(rng.below(3) for _ in range(rng.range(6, 18)))
            got = run_threads(conns, queries, params, sched)
            ctx.evaluations += 1
            ctx.nontrivial_hashes.add(hash((tuple(ks), sched, lk)))
            ctx.count('triples')
            if got is not None and got != want:
                ctx.record_violation('interleaving-changes-result', 'triple %r schedule %r' % (queries, sched),
                                     payload={'ledger': text, 'queries': queries, 'params': params, 'schedule': sched})
        # shared-state audit
        after = audit_fingerprint(shared)
        changed = [k for k in before if before[k] != after.get(k)] + [k for k in after if k not in before]
        ctx.count('audit-objects', len(after))
        if changed:
            ctx.record_violation('shared-state-written', 'module/table state changed across executions: %r' % changed[:8])
        entries_after = ledgers.entries_snapshot(entries)
        if entries_after != entries_before:
            diff = next(((a, b) for a, b in zip(entries_before, entries_after) if a != b), None)
            ctx.record_violation('shared-state-written', 'the loaded directives (shared by every connection over them) were changed by '
                                 'executing statements: %r' % (diff,), payload={'ledger': text})
        # unscheduled stress (testing): free-running threads, statements given as text (parsed in the threads)
        if True:
            for rep in range(30 if ctx.thorough() else 4):
                queries = [QUERIES[0][0], QUERIES[3][0], QUERIES[1][0]]
                params = [None, None, None]
                conns = [shared, shared, shared]
                want = serial(conns, queries, params)
                got = run_threads(conns, queries, params, ())
                ctx.count('stress')
                if got is not None and got != want:
                    ctx.record_violation('interleaving-changes-result', 'unscheduled stress run differs from serial',
                                         payload={'ledger': text, 'queries': queries})
        if ctx.stop():
            return
    if getattr(beanquery, 'threadsafety', None) != 2:
        ctx.record_violation('threadsafety-constant', 'beanquery.threadsafety = %r' % (getattr(beanquery, 'threadsafety', None),))


def replay(ctx, body):
    import base64
    import pickle
    register_yield()
    p = pickle.loads(base64.b64decode(body['payload_pickle_b64']))
    entries, errors, options = ledgers.load(p['ledger'])
    c1 = ledgers.connect(entries, errors, options)
    c2 = ledgers.connect(entries, errors, options)
    conns = [c1, c1 if p.get('mode') == 'shared-connection' else c2, c2][:len(p['queries'])]
    want = serial(conns, p['queries'], p['params'])
    got = run_threads(conns, p['queries'], p['params'], p.get('schedule', ()))
    print('replay: serial == interleaved ?', got == want)
    for g, w in zip(got or [], want):
        if g != w:
            print(' thread :', g[:300])
            print(' serial :', w[:300])
