"""C08 — subqueries: FROM (subquery) and IN (subquery) against their materialised forms."""
from beanquery.parser import ast

import gen_sql
import impl
import proto
from sqlcase import SqlCase, std_table, replay_sql

RULE = ('seeded random inner queries (filtered, aggregated, ordered by hidden keys, DISTINCT, LIMIT, aliased / expression-named '
        'outputs) under random outer queries over their columns, nested up to depth 3; IN / NOT IN (subquery) in targets and '
        'WHERE with the inner FROM on a *different* table, empty inner results and NULL left operands.  Besides the model, '
        'every FROM (subquery) is compared on the implementation with the same outer query over a harness table holding the '
        'materialised inner result.  Non-trivial = inner result has at least one row; distinct = distinct protocol line.')
ASSUMPTIONS = ['subqueries do not reference the outer row (not supported by BQL)']

TY2PY = dict(gen_sql.PYTYPES)


def signature(mm):
    if mm.model == 'oracle':
        return 'C08:' + mm.name
    return 'C08:' + mm.name + ':' + mm.model.split(' ')[0] + '/' + ' '.join(mm.impl.split(' ')[:2])


def gen_inner(rng, eg, tname='t'):
    """returns (select, [(name, type)] of visible outputs)"""
    keyable = [(n, t) for n, t in gen_sql.STD_SCHEMA if t != 'object']
    outs = []
    targets = []
    aggregate = rng.chance(1, 3)
    ncols = rng.range(1, 3)
    used = set()
    for j in range(ncols):
        n, t = rng.choice(keyable)
        alias = rng.choice([None, 'c%d' % j])
        name = alias or n
        if name in used:
            alias = 'c%d' % j
            name = alias
        used.add(name)
        targets.append(ast.Target(ast.Column(n), alias))
        outs.append((name, t))
    if aggregate:
        node, ty = gen_sql.gen_aggregate(rng, eg, 1)
        targets.append(ast.Target(node, 'agg'))
        outs.append(('agg', ty))
    elif rng.chance(1, 3):
        ty = rng.choice(['int', 'str', 'Decimal'])
        targets.append(ast.Target(eg.expr(ty, 1), 'e'))
        outs.append(('e', ty))
    where = eg.expr('bool', 1) if rng.chance(1, 2) else None
    order = None
    if rng.chance(1, 2) and not aggregate:
        order = [ast.OrderBy(ast.Column(rng.choice(keyable)[0]), ast.Ordering(rng.below(2)))]
    sel = ast.Select(targets, ast.Table(tname), where, None, order, None, rng.choice([None, None, 2, 5]),
                     True if rng.chance(1, 4) else None)
    return sel, outs


def gen_outer(rng, inner, outs, facts):
    schema = [(n, t) for n, t in outs]
    eg = gen_sql.ExprGen(facts, rng, schema, max_depth=2, allow_obj=False)
    if rng.chance(1, 4):
        targets = ast.Asterisk()
        outs2 = outs
    else:
        targets = []
        outs2 = []
        for j in range(rng.range(1, 3)):
            n, t = rng.choice(outs)
            if rng.chance(1, 2):
                targets.append(ast.Target(ast.Column(n), 'o%d' % j))
                outs2.append(('o%d' % j, t))
            else:
                t2 = rng.choice(['int', 'str', 'bool'])
                targets.append(ast.Target(eg.expr(t2, 1), 'o%d' % j))
                outs2.append(('o%d' % j, t2))
    where = eg.expr('bool', 1) if rng.chance(1, 2) else None
    keyable = [(n, t) for n, t in outs if t in ('int', 'str', 'Decimal', 'date', 'bool')]
    if keyable and rng.chance(1, 4) and len({n for n, _ in outs}) == len(outs):
        # grouped outer query: the second key is not selected (an invisible key that is a subquery column)
        keys = rng.shuffle(keyable)[:2]
        targets = [ast.Target(ast.Column(keys[0][0]), 'g0'), ast.Target(ast.Function('count', [ast.Asterisk()]), 'n')]
        outs2 = [('g0', keys[0][1]), ('n', 'int')]
        group = ast.GroupBy([ast.Column(n) for n, _ in keys], None)
        order = [ast.OrderBy(ast.Column('g0'), ast.Ordering(rng.below(2))), ast.OrderBy(ast.Column('n'), ast.Ordering(rng.below(2)))]
        return ast.Select(targets, inner, where, group, order, None, None, None), outs2
    order = None
    limit = None
    if keyable and rng.chance(1, 2):
        # ORDER BY subquery columns, selected or not
        order = [ast.OrderBy(ast.Column(rng.choice(keyable)[0]), ast.Ordering(rng.below(2))) for _ in range(rng.range(1, 2))]
        limit = rng.choice([None, None, 1, 3])
    distinct = None
    if rng.chance(1, 4):
        distinct = True
        if limit is None:
            limit = rng.choice([1, 2, 3])
    return ast.Select(targets, inner, where, None, order, None, limit, distinct), outs2


def materialised_oracle(ctx, tables, inner, outer, outs):
    """outer over FROM (inner)  ==  outer over a table holding inner's rows"""
    conn = impl.connection(tables)
    try:
        cur = conn.execute(inner)
        desc, rows = cur.description, cur.fetchall()
        got = impl.run_select(conn, outer)
    except Exception:  # noqa: BLE001
        return
    names = [c.name for c in desc]
    if len(set(names)) != len(names):
        return
    mat = impl.HTable('mat', [(c.name, c.datatype) for c in desc], rows)
    outer2 = ast.Select(outer.targets, ast.Table('mat'), outer.where_clause, outer.group_by, outer.order_by,
                        outer.pivot_by, outer.limit, outer.distinct)
    want = impl.run_select(impl.connection(tables + [mat]), outer2)
    ctx.count('materialised-oracle')
    if got != want:
        ctx.record_violation('from-subquery-differs-from-materialised', 'subquery: %s | materialised: %s' % (got[:300], want[:300]),
                             payload=SqlCase(tables, outer).payload())


CORPUS = [
    # minimised from seeded changes
    'SELECT s, s IN (SELECT s FROM #u ORDER BY i DESC LIMIT 2) AS m FROM #t',
    'SELECT s FROM #t WHERE s NOT IN (SELECT s FROM #u ORDER BY i LIMIT 1)',
    'SELECT s FROM #t WHERE i IN (SELECT i FROM #u WHERE i > 100)',
    'SELECT a FROM (SELECT s AS a, t AS b, i FROM #t) ORDER BY b DESC, i',
    'SELECT a, count(*) AS n FROM (SELECT s AS a, t AS b FROM #t) GROUP BY a, b ORDER BY a, n',
    'SELECT * FROM (SELECT t, s FROM (SELECT s, t, i FROM #t WHERE i > 1))',
    # membership across the numeric types, as with a literal list
    'SELECT i, i IN (SELECT i * 1.0 FROM #u) AS m, i * 1.0 IN (SELECT i FROM #u) AS n FROM #t',
    'SELECT i FROM #t WHERE i * 1.0 NOT IN (SELECT i FROM #u WHERE i > 2)',
    'SELECT i FROM #t WHERE i IN (SELECT i / 1 FROM #u)',
    # inner outputs named by their expression text
    'SELECT * FROM (SELECT s, i + 1, length(s) FROM #t)',
    'SELECT * FROM (SELECT count(*), sum(i) FROM #t)',
    'SELECT * FROM (SELECT s, sum(i), count(*) AS n FROM #t GROUP BY s)',
    'SELECT * FROM (SELECT * FROM (SELECT i * 2, s FROM #t))',
    # ... in the case they were written in, also when two of them differ in nothing else
    "SELECT * FROM (SELECT s, SUM(i), Count(*), MAX(t) FROM #t GROUP BY s)",
    "SELECT * FROM (SELECT 'usd', 'USD', s ~ 'A', s ~ 'a', LENGTH(s), length(s) FROM #t)",
    "SELECT * FROM (SELECT * FROM (SELECT UPPER(s), upper(s), i FROM #t))",
    # DISTINCT and LIMIT outside
    'SELECT DISTINCT a FROM (SELECT s AS a, i FROM #t) LIMIT 2',
    'SELECT DISTINCT a, b FROM (SELECT s AS a, t AS b, i FROM #t ORDER BY i) LIMIT 3',
    'SELECT DISTINCT a FROM (SELECT s AS a, i FROM #t LIMIT 4) LIMIT 2',
    'SELECT DISTINCT a FROM (SELECT s AS a, i FROM #t ORDER BY s) LIMIT 2',
    'SELECT DISTINCT b FROM (SELECT t AS b, i FROM #t ORDER BY t DESC) LIMIT 2',
]


# (text, parameters): the same subquery text twice with different parameters; FROM-less subqueries scan the table of the
# statement they are nested in, which is a FROM-subquery here (scanned by the outer statement at the same time)
PARAM_CORPUS = [
    ('SELECT i, i IN (SELECT i FROM #u WHERE i > %s) AS a, i IN (SELECT i FROM #u WHERE i > %s) AS b FROM #t', (1, 6)),
    ('SELECT i FROM #t WHERE i IN (SELECT i FROM #u WHERE i < %s) OR i IN (SELECT i FROM #u WHERE i < %s)', (2, 4)),
    ('SELECT a, b FROM (SELECT s AS a, i AS b FROM #t) WHERE b IN (SELECT max(b))', None),
    ('SELECT a, b FROM (SELECT s AS a, i AS b FROM #t) WHERE b NOT IN (SELECT max(b))', None),
    ('SELECT a, b IN (SELECT min(b)) AS first FROM (SELECT s AS a, i AS b FROM #t)', None),
    ('SELECT i FROM (SELECT i, s FROM #t WHERE i NOT IN (SELECT max(i))) WHERE i IN (SELECT max(i))', None),
    ('SELECT b FROM (SELECT i AS b FROM #t WHERE i > 1) WHERE b IN (SELECT b) AND b NOT IN (SELECT min(b))', None),
]


def corpus_layer(ctx):
    t = impl.HTable('t', [('i', int), ('s', str), ('t', str)], [(1, 'a', 'x'), (2, 'b', 'y'), (3, 'c', 'x'), (4, 'a', 'z'), (5, 'd', 'y')])
    u = impl.HTable('u', [('i', int), ('s', str)], [(1, 'a'), (9, 'b'), (5, 'c'), (7, 'd'), (3, 'e')])
    for text in CORPUS:
        case = SqlCase([t, u], text, name='corpus')
        case.check(ctx)
        if not case.run_impl().startswith('OK'):
            raise RuntimeError('corpus statement is not accepted: %s' % text)
        ctx.count('corpus')
    for text, params in PARAM_CORPUS:
        case = SqlCase([t, u], text, list(params) if params else None, name='corpus')
        case.check(ctx)
        if not case.run_impl().startswith('OK'):
            raise RuntimeError('corpus statement is not accepted: %s' % text)
        ctx.count('corpus')


def show(conn, q):
    try:
        cur = conn.execute(q)
        return proto.show_result(cur.description, cur.fetchall(), proto.Content())
    except Exception as exc:  # noqa: BLE001
        return 'EXC:%s:%s' % (type(exc).__name__, exc)


def ledger_layer(ctx):
    """subqueries over the ledger tables: structured datatypes pass through FROM (q); an IN subquery with its own
    FROM clause (filter, OPEN / CLOSE / CLEAR) leaves the enclosing statement's table alone"""
    import ledgers
    rng = ctx.rng
    text, entries, errors, options = ledgers.gen_ledger(rng, ntxn=rng.range(8, 14))
    conn = ledgers.connect(entries, errors, options)
    dates = sorted({r[0] for r in conn.execute('SELECT date FROM #postings').fetchall()})
    mid, late = dates[len(dates) // 3].isoformat(), dates[(2 * len(dates)) // 3].isoformat()
    pairs = [
        ('SELECT sum(p) AS s, count(*) AS n FROM (SELECT position AS p, account AS a FROM #postings)',
         'SELECT sum(position) AS s, count(*) AS n FROM #postings'),
        ('SELECT a, sum(p) AS s, units(sum(p)) AS u FROM (SELECT position AS p, account AS a FROM #postings) GROUP BY a ORDER BY a',
         'SELECT account AS a, sum(position) AS s, units(sum(position)) AS u FROM #postings GROUP BY account ORDER BY account'),
        ('SELECT number(u) AS n, currency(u) AS c FROM (SELECT units(position) AS u FROM #postings)',
         'SELECT number(units(position)) AS n, currency(units(position)) AS c FROM #postings'),
        ('SELECT * FROM (SELECT position, units(position) AS u, cost(position) AS c, weight, balance FROM #postings)',
         'SELECT position, units(position) AS u, cost(position) AS c, weight, balance FROM #postings'),
    ]
    for inner_from in ('OPEN ON %s' % mid, 'CLOSE ON %s' % late, 'OPEN ON %s CLOSE ON %s CLEAR' % (mid, late), 'year >= 2020', 'CLEAR'):
        inner = 'SELECT account FROM %s' % inner_from
        accounts = sorted({r[0] for r in conn.execute(inner).fetchall()})
        lit = '(' + ', '.join("'%s'" % a for a in accounts) + (',' if len(accounts) == 1 else '') + ')' if accounts else None
        for outer in ('SELECT date, flag, account, position WHERE account %s %s', 'SELECT account, account %s %s AS m, position'):
            for op in ('IN', 'NOT IN'):
                nested = outer % (op, '(' + inner + ')')
                if lit is None:
                    continue
                pairs.append((nested, outer % (op, lit)))
    # the other direction: the enclosing statement's OPEN / CLOSE / CLEAR do not reach a nested SELECT with a FROM clause
    # of its own (the nested statement names what it scans; what it does not name is absent)
    for outer_from in ('OPEN ON %s' % mid, 'CLOSE ON %s' % late, 'OPEN ON %s CLOSE ON %s CLEAR' % (mid, late), 'CLEAR', 'CLOSE'):
        for inner_from in ('year >= 1900', 'number < 0', 'CLOSE ON %s' % late, 'OPEN ON %s' % mid):
            inner = 'SELECT account FROM %s' % inner_from
            accounts = sorted({r[0] for r in conn.execute(inner).fetchall()})
            if not accounts:
                continue
            lit = '(' + ', '.join("'%s'" % a for a in accounts) + (',' if len(accounts) == 1 else '') + ')'
            for op in ('IN', 'NOT IN'):
                outer = 'SELECT date, flag, account, position FROM %s WHERE account %s %%s' % (outer_from, op)
                pairs.append((outer % ('(' + inner + ')'), outer % lit))
    # a subquery that returns rows, all of them NULL, is not an empty subquery
    nullrows = conn.execute("SELECT cost_label FROM #postings WHERE cost_label IS NULL").fetchall()
    if nullrows:
        pairs.append(("SELECT account, account IN (SELECT cost_label FROM #postings WHERE cost_label IS NULL) AS a, "
                      "account NOT IN (SELECT cost_label FROM #postings WHERE cost_label IS NULL) AS b FROM #postings",
                      "SELECT account, FALSE AS a, TRUE AS b FROM #postings"))
        pairs.append(("SELECT account FROM #postings WHERE account NOT IN (SELECT cost_label FROM #postings WHERE cost_label IS NULL)",
                      "SELECT account FROM #postings"))
    for a, b in pairs:
        ctx.count('ledger-subquery')
        ctx.evaluations += 1
        ra, rb = show(conn, a), show(conn, b)
        ctx.nontrivial_hashes.add(hash(('ledger', a)))
        if ra != rb:
            ctx.record_violation('ledger-subquery-differs-from-materialised', '%s -> %s | %s -> %s' % (a, ra[:300], b, rb[:300]),
                                 payload={'ledger': text, 'query': a})


def run(ctx):
    corpus_layer(ctx)
    ledger_layer(ctx)
    rng = ctx.rng
    ncases = 30000 if ctx.thorough() else 300
    t = u = None
    for case in range(ncases):
        if ctx.stop():
            return
        if t is None or case % 5 == 0:
            t = std_table(rng, 't', nrows=rng.choice([0, 1, 3, 6, 9]), small=True)
            u = std_table(rng, 'u', nrows=rng.choice([0, 2, 4]), small=True)
        eg = gen_sql.ExprGen(ctx.facts, rng, gen_sql.STD_SCHEMA, max_depth=2, allow_obj=False)
        kind = rng.choice(['from', 'from', 'in', 'in', 'nested'])
        if kind in ('from', 'nested'):
            inner, outs = gen_inner(rng, eg)
            outer, outs2 = gen_outer(rng, inner, outs, ctx.facts)
            if kind == 'nested':
                for _ in range(rng.range(1, 2)):
                    names = [n for n, _ in outs2]
                    if len(set(names)) != len(names):
                        break
                    outer, outs2 = gen_outer(rng, outer, outs2, ctx.facts)
            SqlCase([t, u], outer, name=kind).check(ctx, nontrivial=len(t.rows) > 0)
            if kind == 'from':
                materialised_oracle(ctx, [t, u], inner, outer, outs)
            # SELECT * FROM (q) = q when output names are distinct
            names = [n for n, _ in outs]
            if len(set(names)) == len(names) and rng.chance(1, 3):
                star = ast.Select(ast.Asterisk(), inner, None, None, None, None, None, None)
                conn = impl.connection([t, u])
                a, b = impl.run_select(conn, star), impl.run_select(conn, inner)
                ctx.count('star-oracle')
                if a != b:
                    ctx.record_violation('select-star-from-subquery-differs', '%s vs %s' % (a[:300], b[:300]),
                                         payload=SqlCase([t, u], star).payload())
                SqlCase([t, u], star, name='star').check(ctx)
        else:
            ty = rng.choice(['int', 'str', 'date', 'Decimal'])
            cols = [n for n, tt in gen_sql.STD_SCHEMA if tt == ty]
            inner_where = eg.expr('bool', 1) if rng.chance(1, 2) else (ast.Constant(False) if rng.chance(1, 4) else None)
            inner_order = inner_limit = None
            if rng.chance(1, 3):
                # membership in the first rows of an ordered subquery: the order decides which rows those are
                okey = rng.choice([n for n, tt in gen_sql.STD_SCHEMA if tt in ('int', 'str', 'date', 'Decimal')])
                inner_order = [ast.OrderBy(ast.Column(okey), ast.Ordering(rng.below(2)))]
                inner_limit = rng.range(1, 3)
            inner = ast.Select([ast.Target(ast.Column(rng.choice(cols)), None)], ast.Table('u'), inner_where,
                               None, inner_order, None, inner_limit, None)
            cls = rng.choice([ast.In, ast.NotIn])
            left = ast.Column(rng.choice(cols)) if rng.chance(3, 4) else eg.expr(ty, 1)
            node = cls(left, inner)
            if rng.chance(1, 2):
                sel = ast.Select([ast.Target(node, 'm'), ast.Target(ast.Column('i'), None)], ast.Table('t'), None,
                                 None, None, None, None, None)
            else:
                sel = ast.Select([ast.Target(ast.Column('i'), None), ast.Target(left, 'l')], ast.Table('t'), node,
                                 None, None, None, None, None)
            SqlCase([t, u], sel, name='in-subquery').check(ctx, nontrivial=len(t.rows) > 0)
            # membership oracle on the implementation
            conn = impl.connection([t, u])
            try:
                col = [r[0] for r in conn.execute(inner).fetchall()]
                probe = ast.Select([ast.Target(left, 'l'), ast.Target(node, 'm')], ast.Table('t'), None, None, None, None, None, None)
                for l, m in conn.execute(probe).fetchall():
                    if l is None or not col:
                        want = None
                    else:
                        want = (l in col) if cls is ast.In else (l not in col)
                    if m != want or type(m) is not type(want):
                        ctx.record_violation('in-subquery-membership', 'x=%r column=%r gives %r, expected %r' % (l, col, m, want),
                                             payload=SqlCase([t, u], probe).payload())
                        break
                ctx.count('membership-oracle')
            except Exception:  # noqa: BLE001
                pass
        ctx.count(kind)


def replay(ctx, body):
    replay_sql(ctx, body)
