"""C14 — BALANCES / JOURNAL / PRINT against their SELECT expansions; PRINT round trip through the loader."""
import io

from beancount import loader
from beancount.parser import parser as bparser
from beancount.core import data
from beancount.core.compare import hash_entry

from beanquery import compiler, parser, query_execute
from beanquery.parser import ast

import ledgers
import proto

RULE = ('generated ledgers x every summary function (none, units, cost) x FROM clauses (filters, OPEN / CLOSE / CLEAR) x WHERE '
        'conditions x account patterns: the result (description and rows) of BALANCES / JOURNAL is compared with the result of '
        'the SELECT statement the property names, written out as text; PRINT [FROM ...] output is compared with the filtered '
        'directives in ledger order and re-loaded with the Beancount loader and compared structurally with them; the last column of every register is re-computed as the running sum of its position column; BALANCES order on a ledger with renamed root accounts; PRINT conditions of non-boolean type and on tags / links (evaluated directly on the directives).  '
        'Non-trivial = result has at least two rows / directives; distinct = distinct (ledger, statement).')
ASSUMPTIONS = ['"loads back to equal directives" is a property of Beancount\'s printer and loader: correspondence only, not proved',
               'account patterns are inserted into the template text by string interpolation: patterns containing a double quote are outside the domain']

FROMS = [None, "year >= 2020", "flag = '*'", "OPEN ON 2020-01-01", "CLOSE ON 2020-07-01", "OPEN ON 2019-06-01 CLOSE ON 2020-06-01 CLEAR",
         "has_account('Food') CLOSE ON 2021-01-01", "CLEAR", "CLOSE", "year >= 2019 CLOSE", "CLOSE CLEAR", "OPEN ON 2019-06-01 CLOSE"]
WHERES = [None, "account ~ 'Assets'", "number > 0", "currency = 'USD' AND account ~ 'Expenses'"]
PATTERNS = [None, 'Assets', 'Expenses:Food', 'Assets:Bank', 'Assets:Broker', 'Bank|Card', '^Income', 'nomatch',
            'Bank\\b', 'Assets:\\w+:Checking$', 'Expenses:Foo\\w']
FUNCS = [None, 'units', 'cost']


def signature(mm):
    return 'C14:' + mm.name


def show(conn, text):
    try:
        cur = conn.execute(text)
        return proto.show_result(cur.description, cur.fetchall(), proto.Content())
    except Exception as exc:  # noqa: BLE001
        return 'EXC:%s:%s' % (type(exc).__name__, exc)


def strip_names(line):
    """descriptions differ in the names of expression targets (source text): compare types and rows"""
    import re
    return re.sub(r'desc=\[(.*?)\] rows', lambda m: 'desc=[' + ' '.join(x.rsplit(':', 1)[-1] for x in m.group(1).split(' "')) + '] rows', line)


def compare(ctx, lk, conn, stmt, select, label):
    a, b = show(conn, stmt), show(conn, select)
    ctx.evaluations += 1
    if a.count(')(') >= 1:
        ctx.nontrivial_hashes.add(hash((lk, stmt)))
    ctx.count(label)
    if len(ctx.samples) < 6 and ctx.evaluations % 40 == 1:
        ctx.samples.append({'case': label, 'statement': stmt, 'select': select, 'result': a[:200]})
    if strip_names(a) != strip_names(b):
        ctx.record_violation('%s-differs-from-select' % label, '%s -> %s | %s -> %s' % (stmt, a[:300], select, b[:300]),
                             payload={'statement': stmt, 'select': select})
    if label == 'journal' and not a.startswith('EXC:'):
        # the register itself: the last column is the running sum of the position column, row after row
        from beancount.core import amount as _amount, inventory as _inventory
        running = _inventory.Inventory()
        for k, row in enumerate(conn.execute(stmt).fetchall()):
            pos, bal = row[-2], row[-1]
            if isinstance(pos, _amount.Amount):
                running.add_amount(pos)
            elif pos is not None:
                running.add_position(pos)
            if running != bal:
                ctx.record_violation('journal-running-balance', '%s: row %d shows balance %s, the positions so far sum to %s' % (stmt, k, bal, running),
                                     payload={'statement': stmt})
                break
        ctx.count('journal-running-balance')


def norm_entry(e):
    """structural view of a directive ignoring file positions"""
    if isinstance(e, data.Transaction):
        postings = tuple((p.account, p.units, p.cost, p.price, p.flag,
                          tuple(sorted((k, v) for k, v in (p.meta or {}).items() if k not in ('filename', 'lineno') and not k.startswith('__'))))
                         for p in e.postings)
        e = e._replace(postings=postings)
    meta = tuple(sorted((k, str(v)) for k, v in (e.meta or {}).items() if k not in ('filename', 'lineno') and not k.startswith('__')))
    return (type(e).__name__,) + tuple(meta if f == 'meta' else getattr(e, f) for f in e._fields)


def print_clause_layer(ctx, lk, conn, entries, options):
    """PRINT with OPEN / CLOSE / CLEAR and no (or a) filter expression prints the prepared entries, not the raw ledger"""
    txn_dates = sorted({e.date for e in entries if isinstance(e, data.Transaction)})
    if len(txn_dates) < 3:
        return
    mid = txn_dates[len(txn_dates) // 2]
    for frm in ['CLOSE ON %s' % mid.isoformat(), 'OPEN ON %s' % mid.isoformat(), 'CLEAR',
                'OPEN ON %s CLOSE ON %s CLEAR' % (txn_dates[1].isoformat(), txn_dates[-1].isoformat()),
                'year >= 1900 CLOSE ON %s' % mid.isoformat(),
                'OPEN ON %s CLOSE ON %s CLEAR' % (mid.isoformat(), txn_dates[-1].isoformat()),
                'OPEN ON %s CLOSE ON %s CLEAR' % (txn_dates[-2].isoformat(), txn_dates[-1].isoformat())]:
        text = 'PRINT FROM ' + frm
        try:
            cp = compiler.compile(conn, parser.parse(text))
            out = io.StringIO()
            query_execute.execute_print(cp, out)
            want = compiler.compile(conn, parser.parse('SELECT account FROM ' + frm)).table.prepare()
        except Exception as exc:  # noqa: BLE001
            ctx.record_violation('print-raises-%s' % type(exc).__name__, '%s: %r' % (text, exc))
            continue
        reloaded, _, _ = loader.load_string(out.getvalue())
        # ... which are Beancount's own OPEN, then CLOSE, then CLEAR summarisations applied one after the other
        if frm.startswith('OPEN ON') and 'CLOSE ON' in frm and frm.endswith('CLEAR'):
            from beancount.ops import summarize
            import datetime as _dt
            import re as _re2
            d_open, d_close = [_dt.date.fromisoformat(x) for x in _re2.findall(r'ON ([0-9-]+)', frm)]
            ref, _ = summarize.open_opt(entries, d_open, options)
            ref, _ = summarize.close_opt(ref, d_close, options)
            ref, _ = summarize.clear_opt(ref, None, options)

            def full(es):
                return [(type(e).__name__, e.date, getattr(e, 'flag', None), getattr(e, 'narration', None),
                         tuple((p.account, str(p.units)) for p in getattr(e, 'postings', ()))) for e in es]
            ctx.count('print-clauses-composed')
            if full(want) != full(ref):
                ctx.record_violation('clauses-not-composed', '%s: the prepared directives are not open, close and clear applied in turn; first difference %r' % (
                    text, next(((a, b) for a, b in zip(full(want), full(ref)) if a != b), (len(want), len(ref)))), payload={'statement': text})

        def key(es):
            return [(e.date, e.flag, e.narration, len(e.postings)) for e in es if isinstance(e, data.Transaction) and e.flag != 'P']
        ctx.evaluations += 1
        ctx.count('print-clauses')
        ctx.nontrivial_hashes.add(hash((lk, text)))
        # the order of ALL directives as printed (the loader re-sorts what it reads, the text does not lie)
        import re as _re
        heads = [h for h in _re.findall(r'^([0-9]{4}-[0-9]{2}-[0-9]{2}) ([^ \n]+)', out.getvalue(), _re.M) if h[1] != 'P']
        want_heads = [(e.date.isoformat(), e.flag if isinstance(e, data.Transaction) else type(e).__name__.lower()) for e in want
                      if getattr(e, 'flag', None) != 'P']
        if heads != want_heads:
            ctx.record_violation('print-order', '%s: directives printed in another order than prepared; first difference %r' % (
                text, next(((a, b) for a, b in zip(heads, want_heads) if a != b), (len(heads), len(want_heads)))), payload={'statement': text})
        if key(reloaded) != key(want):
            ctx.record_violation('print-ignores-clauses', '%s: %d transactions printed, %d prepared; first difference %r' % (
                text, len(key(reloaded)), len(key(want)),
                next(((a, b) for a, b in zip(key(reloaded), key(want)) if a != b), None)), payload={'statement': text})


def print_filter_clause_layer(ctx, lk, conn, entries, options):
    """PRINT FROM <filter> OPEN / CLOSE / CLEAR prints the directives of the SUMMARISED ledger that satisfy the filter: the
    same transactions the SELECT with that FROM clause draws its postings from"""
    txn_dates = sorted({e.date for e in entries if isinstance(e, data.Transaction)})
    if len(txn_dates) < 3:
        return
    mid = txn_dates[len(txn_dates) // 2].isoformat()
    for flt in ("has_account('Expenses:Food')", "has_account('Assets:Bank:Checking')", "narration ~ 'lunch|rent|Opening'", 'year >= 2020'):
        for clauses in ('OPEN ON %s' % mid, 'CLOSE ON %s' % mid, 'CLEAR', 'OPEN ON %s CLOSE ON %s CLEAR' % (txn_dates[1].isoformat(), mid)):
            frm = '%s %s' % (flt, clauses)
            text = 'PRINT FROM ' + frm
            try:
                out = io.StringIO()
                query_execute.execute_print(compiler.compile(conn, parser.parse(text)), out)
                printed, _, _ = bparser.parse_string(out.getvalue())
                rows = conn.execute('SELECT date, narration, count(*) AS n FROM %s GROUP BY id, date, narration' % frm).fetchall()
            except Exception as exc:  # noqa: BLE001
                ctx.record_violation('print-raises-%s' % type(exc).__name__, '%s: %r' % (text, exc))
                continue
            got = sorted((e.date, e.narration, len(e.postings)) for e in printed if isinstance(e, data.Transaction) and e.postings)
            want = sorted((r[0], r[1], r[2]) for r in rows)
            ctx.evaluations += 1
            ctx.count('print-filter-clauses')
            ctx.nontrivial_hashes.add(hash((lk, text)))
            if got != want:
                ctx.record_violation('print-filter-before-clauses', '%s: printed %d transactions, the SELECT sees %d; only printed %r, only selected %r' % (
                    text, len(got), len(want), [x for x in got if x not in want][:2], [x for x in want if x not in got][:2]),
                    payload={'statement': text})


def _is_txn(e):
    return isinstance(e, data.Transaction)


TAG_CONDITIONS = {
    "'trip' IN tags": lambda e: _is_txn(e) and 'trip' in (e.tags or ()),
    "'inv-1' IN links": lambda e: _is_txn(e) and 'inv-1' in (e.links or ()),
    "tags IS NULL": lambda e: not _is_txn(e) or e.tags is None,
    "links IS NOT NULL": lambda e: _is_txn(e) and e.links is not None,
    # (NOT of NULL is true in BQL: directives without a tags column value pass)
    "NOT ('work' IN tags)": lambda e: not (_is_txn(e) and 'work' in (e.tags or ())),
}

TAGGED_TAIL = """
2020-03-02 note Assets:Bank:Checking "a tagged note" #trip ^inv-1
2020-03-03 document Assets:Bank:Checking "/tmp/tagged.pdf" #work ^inv-2
2020-03-04 note Assets:Bank:Checking "a plain note"

2019-01-05 * "early" "a conversion at a price, before any OPEN date used"
  Assets:Cash:EUR  100 EUR @ 1.10 USD
  Assets:Bank:Checking  -110.00 USD
"""


def print_layer(ctx, lk, conn, entries, options):
    print_clause_layer(ctx, lk, conn, entries, options)
    print_filter_clause_layer(ctx, lk, conn, entries, options)
    for frm in [None, "year >= 2020", "type = 'transaction'", "type != 'transaction'", "flag = '!'", "year = 1800",
                "has_account('Assets:Bank')", "narration ~ 'rent' OR payee ~ 'Cafe'",
                # conditions that are not of boolean type hold where their value is truthy, as in WHERE
                "tags", "links", "payee", "meta['ref']", "day - 15", "narration", "NOT tags"] + list(TAG_CONDITIONS):
        text = 'PRINT' + (' FROM ' + frm if frm else '')
        try:
            stmt = parser.parse(text)
            cp = compiler.compile(conn, stmt)
            out = io.StringIO()
            query_execute.execute_print(cp, out)
        except Exception as exc:  # noqa: BLE001
            ctx.record_violation('print-raises-%s' % type(exc).__name__, '%s: %r' % (text, exc))
            continue
        # the directives PRINT should emit: the FROM expression evaluated through SELECT on #entries
        sel = 'SELECT id FROM #entries' + (' WHERE ' + frm if frm else '')
        ids = [r[0] for r in conn.execute(sel).fetchall()]
        want = [e for e in entries if hash_entry(e) in set(ids)]
        if frm and frm.startswith("has_account('") and frm.endswith("')"):
            # ... and, for has_account, by Beancount's own account getter: every kind of directive that names the account
            import re as _re
            from beancount.core import getters
            pattern = frm[len("has_account('"):-2]
            direct = [e for e in entries if any(_re.search(pattern, a, _re.IGNORECASE) for a in getters.get_entry_accounts(e))]
            if [hash_entry(e) for e in direct] != [hash_entry(e) for e in want]:
                ctx.record_violation('print-filter-has-account', '%s selects %d directives, %d name a matching account (%s)' % (
                    text, len(want), len(direct), sorted({type(e).__name__ for e in direct} - {type(e).__name__ for e in want})),
                    payload={'statement': text})
        if frm in TAG_CONDITIONS:
            # ... and, for tags and links, directly: they are the tags and links of TRANSACTIONS (NULL for every other
            # kind of directive, whether or not it carries tags of its own)
            direct = [e for e in entries if TAG_CONDITIONS[frm](e)]
            if [hash_entry(e) for e in direct] != [hash_entry(e) for e in want]:
                ctx.record_violation('print-filter-tags', '%s selects %d directives (%s), by the tags of transactions it is %d' % (
                    text, len(want), sorted({type(e).__name__ for e in want}), len(direct)), payload={'statement': text})
        ctx.evaluations += 1
        if len(want) >= 2:
            ctx.nontrivial_hashes.add(hash((lk, text)))
        ctx.count('print')
        # reload the printed text (options such as operating currency are not part of PRINT output)
        reloaded, errors, _ = loader.load_string(out.getvalue())
        errors = [e for e in errors if 'does not exist' not in str(e.message) and 'inactive account' not in str(e.message).lower()
                  and 'Invalid reference to unknown account' not in str(e.message)]
        # 1. what was written, before booking: every directive with its postings as printed
        parsed, perrors, _ = bparser.parse_string(out.getvalue())
        a0 = [shallow(e) for e in parsed if getattr(e, 'flag', None) != 'P']
        b0 = [shallow(e) for e in want if getattr(e, 'flag', None) != 'P']
        if perrors or a0 != b0:
            ctx.record_violation('print-roundtrip', '%s: %d directives parsed back, %d expected; first difference %r; errors %r' % (
                text, len(a0), len(b0), next(((x, y) for x, y in zip(a0, b0) if x != y), None),
                [str(e.message)[:80] for e in perrors[:2]]), payload={'statement': text})
            continue
        # 2. the loaded directives, when the printed subset books on its own (a filter can print a sale without the
        #    purchase it reduces: the loader then rejects the transaction, which says nothing about PRINT)
        if errors:
            ctx.count('print-subset-does-not-book')
            continue
        # padding transactions (flag 'P') are synthesised by the loader from pad directives: not part of the round trip
        a = [norm_entry(e) for e in reloaded if getattr(e, 'flag', None) != 'P']
        b = [norm_entry(e) for e in want if getattr(e, 'flag', None) != 'P']
        if a != b:
            only_a = [x for x in a if x not in b][:2]
            only_b = [x for x in b if x not in a][:2]
            ctx.record_violation('print-roundtrip', '%s: %d directives reloaded, %d expected; extra %r missing %r errors %r' % (
                text, len(a), len(b), only_a, only_b, [str(e.message)[:80] for e in errors[:2]]), payload={'statement': text})
    # the qualified forms again, now that unqualified scans of the entries table have happened on this connection
    print_clause_layer(ctx, lk, conn, entries, options)


def shallow(e):
    """a directive as written: type, date and the fields PRINT writes out; postings with account, flag, units and the cost /
    price as given (before booking the cost is a specification)"""
    head = (type(e).__name__, e.date)
    if not isinstance(e, data.Transaction):
        return head + tuple(repr(getattr(e, f)) for f in e._fields if f not in ('meta', 'date'))

    def cost_key(c):
        if c is None:
            return None
        number = getattr(c, 'number', None)
        if number is None:
            number = getattr(c, 'number_per', None)
        return (number, c.currency, c.date, c.label)
    posts = tuple((p.account, p.flag, p.units, cost_key(p.cost), p.price) for p in e.postings)
    return head + (e.flag, e.payee, e.narration, e.tags, e.links, posts)


RENAMED = """option "name_assets" "Aktiva"
option "name_liabilities" "Passiva"
option "name_equity" "Eigenkapital"
option "name_income" "Ertrag"
option "name_expenses" "Aufwand"
2020-01-01 open Aktiva:Bank
2020-01-01 open Aktiva:Bar
2020-01-01 open Passiva:Karte
2020-01-01 open Eigenkapital:Start
2020-01-01 open Ertrag:Lohn
2020-01-01 open Aufwand:Essen
2020-01-01 open Aufwand:Bahn
2020-01-02 * "start"
  Aktiva:Bank  100.00 EUR
  Eigenkapital:Start  -100.00 EUR
2020-01-03 * "lohn"
  Aktiva:Bank  50.00 EUR
  Ertrag:Lohn  -50.00 EUR
2020-01-04 * "essen"
  Aufwand:Essen  7.50 EUR
  Passiva:Karte  -7.50 EUR
2020-01-05 * "bahn"
  Aufwand:Bahn  3.00 EUR
  Aktiva:Bar  -3.00 EUR
"""


NAMED = """
2020-04-01 query "balq" "BALANCES FROM year >= 1900"
2020-04-01 query "balw" "BALANCES AT cost FROM year >= 1900 WHERE account ~ 'Assets'"
2020-04-01 query "jouq" "JOURNAL 'Assets' FROM year >= 1900"
2020-04-01 query "prq" "PRINT FROM year >= 2020"
"""


def named_statement_layer(ctx, text):
    """BALANCES / JOURNAL / PRINT stored as named queries: `.run NAME` prints what typing the statement prints"""
    import contextlib
    import os
    import shutil
    import tempfile
    import warnings
    from beanquery import shell
    d = tempfile.mkdtemp(prefix='bqv-c14-')
    try:
        path = os.path.join(d, 'ledger.beancount')
        with open(path, 'w') as f:
            f.write(text.replace('document', 'note').replace('.pdf"', '"') + NAMED)
        out = io.StringIO()
        with contextlib.redirect_stderr(io.StringIO()), contextlib.redirect_stdout(io.StringIO()), warnings.catch_warnings():
            warnings.simplefilter('ignore')
            sh = shell.BQLShell(path, out, interactive=False, runinit=False, format='csv')

            def run(cmd):
                out.seek(0), out.truncate()
                try:
                    sh.onecmd(cmd)
                except Exception as exc:  # noqa: BLE001
                    return 'EXC:%s:%s' % (type(exc).__name__, exc)
                return out.getvalue()
            for name in ('balq', 'balw', 'jouq', 'prq'):
                if name not in sh.queries:
                    raise RuntimeError('named query %s was not loaded' % name)
                typed = run(sh.queries[name].query_string)
                got = run('.run ' + name)
                ctx.evaluations += 1
                ctx.count('named-statements')
                ctx.nontrivial_hashes.add(hash(('named', name, text)))
                if got != typed or got.startswith('EXC:'):
                    ctx.record_violation('named-statement-differs-from-typed', '.run %s prints %r, typing %s prints %r' % (
                        name, got[:300], sh.queries[name].query_string, typed[:300]), payload={'ledger': text})
    finally:
        shutil.rmtree(d, ignore_errors=True)


def renamed_roots_layer(ctx):
    """BALANCES lists the accounts by account type, then name, where the types are the ledger's own root names"""
    entries, errors, options = ledgers.load(RENAMED)
    conn = ledgers.connect(entries, errors, options)
    order = ['Aktiva', 'Passiva', 'Eigenkapital', 'Ertrag', 'Aufwand']
    for stmt, select in (('BALANCES', 'SELECT account, sum(position) GROUP BY account'),
                         ('BALANCES AT cost', 'SELECT account, sum(cost(position)) GROUP BY account'),
                         ("BALANCES FROM year >= 2000 WHERE number > 0", "SELECT account, sum(position) FROM year >= 2000 WHERE number > 0 GROUP BY account"),
                         ('BALANCES FROM CLOSE ON 2020-01-05 CLEAR', 'SELECT account, sum(position) FROM CLOSE ON 2020-01-05 CLEAR GROUP BY account')):
        try:
            got = conn.execute(stmt).fetchall()
        except Exception as exc:  # noqa: BLE001
            ctx.record_violation('balances-raises-%s' % type(exc).__name__, '%s on a ledger with renamed root accounts: %r' % (stmt, exc))
            continue
        rows = {r[0]: str(r[1]) for r in conn.execute(select).fetchall()}
        want = sorted(rows, key=lambda a: (order.index(a.split(':')[0]), a))
        ctx.evaluations += 1
        ctx.count('renamed-roots')
        ctx.nontrivial_hashes.add(hash(('renamed', stmt)))
        if [r[0] for r in got] != want or {r[0]: str(r[1]) for r in got} != rows:
            ctx.record_violation('balances-order-renamed-roots', '%s lists %r, by account type and name that is %r' % (
                stmt, [(r[0], str(r[1])) for r in got], [(a, rows[a]) for a in want]), payload={'statement': stmt, 'ledger': RENAMED})


def run(ctx):
    renamed_roots_layer(ctx)
    rng = ctx.rng
    n = 10 if ctx.thorough() else 2
    for lk in range(n):
        text, entries, errors, options = ledgers.gen_ledger(rng, ntxn=rng.range(6, 18))
        # notes and documents carry tags and links of their own
        entries, errors, options = ledgers.load(text + TAGGED_TAIL)
        conn = ledgers.connect(entries, errors, options)
        if lk == 0:
            named_statement_layer(ctx, text)
        # PRINT first (cheap); it also leaves its traces, if any, on the connection the other statements then use
        print_layer(ctx, lk, conn, entries, options)
        k = 0
        for f in FUNCS:
            fx = (lambda x, f=f: '%s(%s)' % (f, x)) if f else (lambda x: x)
            at = ' AT %s' % f if f else ''
            for frm in FROMS:
                k += 1
                # the quick tier walks the matrix diagonally (every summary function x every FROM clause, with one WHERE
                # condition and three account patterns each, rotating); the thorough tier takes all of it
                wheres = WHERES if ctx.thorough() else [WHERES[k % len(WHERES)]]
                patterns = PATTERNS if ctx.thorough() else [PATTERNS[(k + j * 4) % len(PATTERNS)] for j in range(3)]
                for where in wheres:
                    stmt = 'BALANCES%s%s%s' % (at, ' FROM ' + frm if frm else '', ' WHERE ' + where if where else '')
                    select = ('SELECT account, sum(%s) %s%s GROUP BY account, account_sortkey(account) ORDER BY account_sortkey(account)'
                              % (fx('position'), 'FROM ' + frm if frm else '', ' WHERE ' + where if where else ''))
                    compare(ctx, lk, conn, stmt, select, 'balances')
                for pat in patterns:
                    stmt = 'JOURNAL%s%s%s' % (" '%s'" % pat if pat else '', at, ' FROM ' + frm if frm else '')
                    select = ('SELECT date, flag, maxwidth(payee, 48), maxwidth(narration, 80), account, %s, %s %s%s'
                              % (fx('position'), fx('balance'), 'FROM ' + frm if frm else '', " WHERE account ~ '%s'" % pat if pat else ''))
                    compare(ctx, lk, conn, stmt, select, 'journal')
            if ctx.stop():
                return
        # the statements again in another order on the same connection: a statement without FROM after one with FROM
        # (and the reverse) must still equal its own expansion
        for frm in [FROMS[5], None, FROMS[1], None, FROMS[7], None]:
            for stmt, select in (
                    ("JOURNAL 'Assets:Bank' AT units%s" % (' FROM ' + frm if frm else ''),
                     "SELECT date, flag, maxwidth(payee, 48), maxwidth(narration, 80), account, units(position), units(balance) %s WHERE account ~ 'Assets:Bank'"
                     % ('FROM ' + frm if frm else '')),
                    ('BALANCES AT cost%s' % (' FROM ' + frm if frm else ''),
                     'SELECT account, sum(cost(position)) %s GROUP BY account, account_sortkey(account) ORDER BY account_sortkey(account)'
                     % ('FROM ' + frm if frm else ''))):
                compare(ctx, lk, conn, stmt, select, 'reordered')


def replay(ctx, body):
    print('replay:', body.get('implementation_output', '')[:600])
