"""C11 — ledger tables: every column of every table against a direct traversal of the loaded entries."""
import copy

from beancount.core import convert, data, getters, inventory, position
from beancount.core.compare import hash_entry

import ledgers
import proto

RULE = ('generated ledgers loaded through the real Beancount loader (all directive types, transactions with 1..n postings, lots at '
        'cost, prices, tags, links, metadata of several value types on entries and postings, pad-generated postings without '
        'metadata, accounts opened and closed, commodities with metadata): SELECT of EVERY column of EVERY table (#postings, '
        '#entries, #transactions, #prices, #balances, #notes, #events, #documents, #accounts, #commodities) compared cell by '
        'cell with a direct traversal of the loaded entries; meta / entry_meta / any_meta / open_meta / commodity_meta / '
        'open_date / close_date against the three dictionary look-ups; row structure and other_accounts also against the '
        'Lean model.  Non-trivial = table has at least two rows; distinct = distinct (ledger, table, column).')
ASSUMPTIONS = ['id (hash_entry), weight (convert.get_weight) and Position construction are Beancount functions: compared with a direct call, not modelled']

KIND = {data.Transaction: 'transaction', data.Open: 'open', data.Close: 'close', data.Price: 'price', data.Balance: 'balance',
        data.Note: 'note', data.Event: 'event', data.Document: 'document', data.Commodity: 'commodity', data.Pad: 'pad',
        data.Query: 'query', data.Custom: 'custom'}


def signature(mm):
    if mm.model == 'oracle':
        return 'C11:' + mm.name
    return 'C11:' + mm.name


def txn_only(entry, attr):
    return getattr(entry, attr) if isinstance(entry, data.Transaction) else None


def expected_entries(entries):
    rows = []
    for e in entries:
        t = isinstance(e, data.Transaction)
        rows.append({
            'id': hash_entry(e), 'type': type(e).__name__.lower(), 'filename': e.meta['filename'], 'lineno': e.meta['lineno'],
            'date': e.date, 'year': e.date.year, 'month': e.date.month, 'day': e.date.day,
            'flag': e.flag if t else None, 'payee': e.payee if t else None, 'narration': e.narration if t else None,
            'description': (' | '.join(filter(None, [e.payee, e.narration])) if t else None),
            'tags': e.tags if t else None, 'links': e.links if t else None, 'meta': e.meta})
    return rows


def expected_postings(entries):
    rows = []
    bal = inventory.Inventory()
    for e in entries:
        if not isinstance(e, data.Transaction):
            continue
        for k, p in enumerate(e.postings):
            bal.add_position(p)
            m = p.meta
            cost = p.cost
            rows.append({
                'id': hash_entry(e), 'type': 'transaction', 'filename': m['filename'] if m is not None else None,
                'lineno': m['lineno'] if m is not None else None,
                'location': ('%s:%d:' % (m['filename'], m['lineno'])) if m is not None else None,
                'date': e.date, 'year': e.date.year, 'month': e.date.month, 'day': e.date.day, 'flag': e.flag, 'payee': e.payee,
                'narration': e.narration, 'description': ' | '.join(filter(None, [e.payee, e.narration])), 'tags': e.tags,
                'links': e.links, 'posting_flag': p.flag, 'account': p.account,
                'other_accounts': sorted({q.account for j, q in enumerate(e.postings) if j != k}),
                'number': p.units.number, 'currency': p.units.currency, 'cost_number': cost.number if cost else None,
                'cost_currency': cost.currency if cost else None, 'cost_date': cost.date if cost else None,
                'cost_label': cost.label if cost else '', 'position': position.Position(p.units, p.cost), 'price': p.price,
                'weight': convert.get_weight(p), 'balance': copy.copy(bal), 'meta': m, 'entry': e})
    return rows


TYPED = {'transactions': data.Transaction, 'prices': data.Price, 'balances': data.Balance, 'notes': data.Note,
         'events': data.Event, 'documents': data.Document}
RENAMES = {'balances': {'discrepancy': 'diff_amount'}, 'commodities': {'name': 'currency'}}


def same(a, b):
    if isinstance(a, (set, frozenset, list, tuple)) and isinstance(b, (set, frozenset, list, tuple)) and not hasattr(a, '_fields') and not hasattr(b, '_fields'):
        return sorted(map(str, a)) == sorted(map(str, b))
    return a == b and (type(a) is type(b) or isinstance(a, (int, str)) or a is None)


def column_oracle(ctx, conn, table, column, expected, lk):
    try:
        got = [r[0] for r in conn.execute('SELECT %s FROM #%s' % (column, table)).fetchall()]
    except Exception as exc:  # noqa: BLE001
        ctx.record_violation('column-query-raises:%s.%s' % (table, column), repr(exc))
        return
    ctx.evaluations += 1
    if len(expected) >= 2:
        ctx.nontrivial_hashes.add(hash((lk, table, column)))
    ctx.count('table:' + table)
    if len(got) != len(expected):
        ctx.record_violation('row-count:%s' % table, '%s.%s: %d rows, expected %d' % (table, column, len(got), len(expected)))
        return
    for n, (g, w) in enumerate(zip(got, expected)):
        if not same(g, w):
            ctx.record_violation('column-value:%s.%s' % (table, column), 'row %d: %r, direct traversal gives %r' % (n, g, w))
            return


def run_ledger(ctx, lk, entries, errors, options):
    conn = ledgers.connect(entries, errors, options)
    facts = ctx.facts
    if lk % 2 == 1:
        # the tables present the ledger whatever was queried before on the connection: qualified statements first
        for q in ('SELECT count(*) FROM OPEN ON 2020-01-01 CLOSE ON 2020-06-01 CLEAR', 'SELECT date FROM #entries',
                  'BALANCES FROM CLOSE ON 2020-03-01', 'SELECT account FROM year >= 2020 OPEN ON 2020-02-01'):
            try:
                conn.execute(q).fetchall()
            except Exception as exc:  # noqa: BLE001
                ctx.record_violation('statement-raises', '%s: %r' % (q, exc))
    exp_e = expected_entries(entries)
    exp_p = expected_postings(entries)
    for col in facts['tables']['entries']['columns']:
        column_oracle(ctx, conn, 'entries', col['name'], [r[col['name']] for r in exp_e], lk)
    for col in facts['tables']['postings']['columns']:
        if col['name'] not in exp_p[0] if exp_p else False:
            ctx.record_violation('unknown-column:postings.%s' % col['name'], 'the traversal oracle has no definition for it')
            continue
        column_oracle(ctx, conn, 'postings', col['name'], [r[col['name']] for r in exp_p], lk)
    for table, cls in TYPED.items():
        rows = [e for e in entries if isinstance(e, cls)]
        for col in facts['tables'][table]['columns']:
            attr = RENAMES.get(table, {}).get(col['name'], col['name'])
            column_oracle(ctx, conn, table, col['name'], [getattr(e, attr) for e in rows], lk)
    oc = getters.get_account_open_close(entries)
    names = list(oc)
    column_oracle(ctx, conn, 'accounts', 'account', names, lk)
    column_oracle(ctx, conn, 'accounts', 'open', [oc[n][0] for n in names], lk)
    column_oracle(ctx, conn, 'accounts', 'close', [oc[n][1] for n in names], lk)
    comm = getters.get_commodity_directives(entries)
    for col in facts['tables']['commodities']['columns']:
        attr = RENAMES['commodities'].get(col['name'], col['name'])
        column_oracle(ctx, conn, 'commodities', col['name'], [getattr(c, attr) for c in comm.values()], lk)
    # metadata look-ups
    keys = ['category', 'ref', 'when', 'flagged', 'note', 'filename', 'lineno', 'nosuch', 'invoiceNo', 'invoiceno', 'lotTag', 'lottag', 'INVOICENO']
    for key in keys:
        column_oracle(ctx, conn, 'postings', "meta('%s')" % key, [(r['meta'] or {}).get(key) for r in exp_p], lk)
        column_oracle(ctx, conn, 'postings', "entry_meta('%s')" % key, [r['entry'].meta.get(key) for r in exp_p], lk)
        column_oracle(ctx, conn, 'postings', "any_meta('%s')" % key,
                      [(None if r['meta'] is None else r['meta'].get(key, r['entry'].meta.get(key))) for r in exp_p], lk)
        column_oracle(ctx, conn, 'entries', "meta['%s']" % key, [r['meta'].get(key) for r in exp_e], lk)
        column_oracle(ctx, conn, 'postings', "meta['%s']" % key, [(None if r['meta'] is None else r['meta'].get(key)) for r in exp_p], lk)
        column_oracle(ctx, conn, 'postings', "entry.meta['%s']" % key, [r['entry'].meta.get(key) for r in exp_p], lk)
    for key in ('owner', 'limit', 'nosuch'):
        column_oracle(ctx, conn, 'postings', "open_meta(account, '%s')" % key,
                      [(oc[r['account']][0].meta.get(key) if r['account'] in oc and oc[r['account']][0] else None) for r in exp_p], lk)
    for key in ('name', 'rank', 'nosuch'):
        column_oracle(ctx, conn, 'postings', "commodity_meta(currency, '%s')" % key,
                      [(comm[r['currency']].meta.get(key) if r['currency'] in comm else None) for r in exp_p], lk)
    column_oracle(ctx, conn, 'postings', 'open_date(account)',
                  [(oc[r['account']][0].date if r['account'] in oc and oc[r['account']][0] else None) for r in exp_p], lk)
    column_oracle(ctx, conn, 'postings', 'close_date(account)',
                  [(oc[r['account']][1].date if r['account'] in oc and oc[r['account']][1] else None) for r in exp_p], lk)
    # structural correspondence with the Lean model: row structure and other_accounts
    dirs = []
    for e in entries:
        k = KIND.get(type(e), 'custom')
        if isinstance(e, data.Transaction):
            dirs.append('(transaction %s)' % ' '.join(proto.q(p.account) for p in e.postings))
        else:
            dirs.append('(%s)' % k)
    tx_index = {id(e): n for n, e in enumerate(entries)}

    def impl_postings():
        rows = conn.execute('SELECT entry, other_accounts, account FROM #postings').fetchall()
        out = []
        counter = {}
        for e, others, _ in rows:
            n = tx_index[id(e)]
            j = counter.get(n, 0)
            counter[n] = j + 1
            out.append('%d.%d[%s]' % (n, j, ','.join(others)))
        return ' '.join(out)
    ctx.check('postings-structure', ['(tablerows postings %s)' % ' '.join(dirs)], impl_postings, nontrivial=len(exp_p) >= 2)
    for table, cls in TYPED.items():
        kind = KIND[cls]

        def impl_typed(table=table, cls=cls):
            got = conn.execute('SELECT date FROM #%s' % table).fetchall()
            idx = [str(n) for n, e in enumerate(entries) if isinstance(e, cls)]
            return ' '.join(idx) if len(got) == len(idx) else 'COUNT-MISMATCH %d' % len(got)
        ctx.check('typed-structure', ['(tablerows %s %s)' % (kind, ' '.join(dirs))], impl_typed)
    ctx.check('entries-structure', ['(tablerows entries %s)' % ' '.join(dirs)],
              lambda: ' '.join(str(n) for n in range(len(conn.execute('SELECT date FROM #entries').fetchall()))))


def with_generated_postings(rng, entries):
    """adds transactions the way plugins and summarisation do: postings WITHOUT a metadata dict (meta is None) under an
    entry that carries metadata, and one posting with metadata of its own"""
    from beancount.core import data
    from beancount.core.amount import Amount
    from decimal import Decimal
    txns = [e for e in entries if isinstance(e, data.Transaction)]
    if not txns:
        return entries
    out = list(entries)
    for k in range(rng.range(1, 2)):
        base = rng.choice(txns)
        meta = data.new_metadata('<generated>', 9000 + k)
        meta.update({'category': 'generated-%d' % k, 'ref': 70 + k, 'note': 'entry-level note'})
        t = data.Transaction(meta, base.date, 'G', None, 'generated %d' % k, frozenset({'gen'}), data.EMPTY_SET, [])
        data.create_simple_posting(t, 'Expenses:Food', Decimal(10 + k), 'USD')
        data.create_simple_posting(t, 'Assets:Bank:Checking', Decimal(-10 - k), 'USD')
        t.postings.append(data.Posting('Expenses:Rent', Amount(Decimal('0'), 'USD'), None, None, None, {'filename': '<generated>', 'lineno': 1, 'note': 'own note'}))
        out.append(t)
    out.sort(key=data.entry_sortkey)
    return out


# postings every ledger of this check has: a lot sold with both a cost and a price, a lot held at zero cost
FIXED_TAIL = '''
2030-01-05 * "fixed" "buy"
  Assets:Broker:ACME  4 ACME {10.00 USD}
  Assets:Bank:Checking  -40.00 USD

2030-01-06 * "fixed" "sell with cost and price"
  Assets:Broker:ACME  -1 ACME {10.00 USD} @ 12.00 USD
  Assets:Bank:Checking  12.00 USD
  Income:Gains

2030-01-07 * "fixed" "received for free"
  invoiceNo: "A-17"
  invoiceno: "lower"
  Assets:Broker:ACME  3 ACME {0.00 USD, "gift"}
    lotTag: "Free"
  Income:Gains  0.00 USD

2030-02-01 open Assets:Reopened
  owner: "first"

2030-02-01 * "fixed" "account that is closed and opened again" ""
  Assets:Reopened  1.00 USD
  Assets:Bank:Checking  -1.00 USD

2030-02-02 * "Payee only" ""
  Assets:Reopened  -1.00 USD
  Assets:Bank:Checking  1.00 USD

2030-02-03 close Assets:Reopened

2030-02-04 open Assets:Reopened
  owner: "second"
'''


def run(ctx):
    rng = ctx.rng
    n = 25 if ctx.thorough() else 5
    for lk in range(n):
        text, entries, errors, options = ledgers.gen_ledger(rng, ntxn=rng.range(4, 22))
        text = text + FIXED_TAIL
        entries, errors, options = ledgers.load(text)
        entries = with_generated_postings(rng, entries)
        run_ledger(ctx, lk, entries, errors, options)
        if lk == 0 and len(ctx.samples) < 6:
            ctx.samples.append({'case': 'ledger', 'text': text[:600]})
        if ctx.stop():
            return


def replay(ctx, body):
    print('replay:', body.get('implementation_output', '')[:400])
