"""C09 — parameters, constant folding, history independence."""
import copy
import datetime
from decimal import Decimal

import beanquery
from beanquery import parser
from beanquery.parser import ast

import bqlprint
import gen_sql
import impl
import proto
from sqlcase import SqlCase, std_table, replay_sql

RULE = ('(a) binding: seeded random statements with 1..4 positional or named placeholders (repeated names; inside WHERE, targets, '
        'ORDER BY expressions and IN-subqueries; every literal type as value) compared with the model and, on the implementation, '
        'with the same statement carrying the values as literals; (b) folding: constant sub-expressions compared with the same '
        'expression over columns holding those constants; (c) histories: sequences of 2..6 (quick) / ..20 (thorough) executions on '
        'one connection mixing text and pre-parsed statements and executemany, every result compared with a fresh execution on a '
        'fresh connection, plus a deep snapshot of the source rows before/after; the same on generated ledgers with metadata, balance and '
        'summary statements in shuffled order;  (d) fixed statements whose compilation order differs from the textual order (placeholders in FROM '
        'subqueries, nested subqueries, HAVING, ORDER BY) with pairwise different values;  (e) results opened one after the other and read late, calls outside the domain of their function folded / bound / per row.  Non-trivial = statement has a placeholder / '
        'history has a re-used parsed statement; distinct = distinct protocol line or history.')
ASSUMPTIONS = ['"never mutates the source data" is checked by deep snapshots of the table rows and of the ledger directives (entry and posting metadata included), not proved (the model is pure)']

PVALUES = {'int': [0, 3, 12], 'Decimal': [Decimal('1.5'), Decimal('0'), Decimal('10')], 'str': ['a', 'abc', ''],
           'date': [datetime.date(2020, 1, 1), datetime.date(2021, 3, 15)], 'bool': [True, False]}


def signature(mm):
    if mm.model == 'oracle':
        return 'C09:' + mm.name
    return 'C09:' + mm.name + ':' + mm.model.split(' ')[0] + '/' + ' '.join(mm.impl.split(' ')[:2])


class ParamGen(gen_sql.ExprGen):
    """expression generator whose constants may be replaced by placeholders"""
    def __init__(self, *a, named=False, **kw):
        super().__init__(*a, **kw)
        self.named = named
        self.values = []      # positional values in creation order (textual order is fixed after printing)
        self.byname = {}
        self.nodes = []

    def const(self, ty):
        if self.rng.chance(1, 2) and len(self.nodes) < 4:
            v = self.rng.choice(PVALUES[ty])
            if self.named:
                name = self.rng.choice(['p1', 'p2', 'q'])
                if name in self.byname:
                    v = self.byname[name] if type(self.byname[name]) is type(v) else None
                    if v is None:
                        return super().const(ty)
                self.byname[name] = v
                node = ast.Placeholder(name)
            else:
                node = ast.Placeholder('')
            self.nodes.append((node, v))
            return node
        return super().const(ty)


def gen_param_statement(ctx, rng, named):
    eg = ParamGen(ctx.facts, rng, gen_sql.STD_SCHEMA, max_depth=2, allow_obj=False, named=named)
    targets = [ast.Target(eg.expr(rng.choice(gen_sql.BASIC), 2), 'c%d' % j) for j in range(rng.range(1, 2))]
    where = eg.expr('bool', 2) if rng.chance(2, 3) else None
    order = None
    if rng.chance(1, 3):
        order = [ast.OrderBy(eg.expr('int', 1), ast.Ordering(rng.below(2)))]
    if rng.chance(1, 4):
        sub = ast.Select([ast.Target(ast.Column('i'), None)], ast.Table('t'), eg.expr('bool', 1), None, None, None, None, None)
        cond = ast.In(ast.Column('j'), sub)
        where = cond if where is None else ast.And([where, cond])
    frm = ast.Table('t')
    if rng.chance(1, 3):
        # a FROM subquery holding placeholders: it is compiled before the targets that precede it in the text
        inner_targets = [ast.Target(ast.Column(c), None) for c in ('i', 'j', 's', 'd', 'b', 'dt')]
        inner_targets.append(ast.Target(eg.expr(rng.choice(['int', 'str', 'Decimal']), 1), 'extra'))
        frm = ast.Select(inner_targets, ast.Table('t'), eg.expr('bool', 1) if rng.chance(1, 2) else None, None, None, None, None, None)
        targets.append(ast.Target(ast.Column('extra'), 'cx'))
    sel = ast.Select(targets, frm, where, None, order, None, None, None)
    return sel, eg


def substitute(node, mapping):
    """copy of the AST with placeholders replaced by Constant nodes"""
    if isinstance(node, ast.Placeholder):
        v = mapping(node)
        if isinstance(v, (int, Decimal)) and not isinstance(v, bool) and v < 0:
            return ast.Neg(ast.Constant(-v))
        return ast.Constant(v)
    if isinstance(node, list):
        return [substitute(x, mapping) for x in node]
    if isinstance(node, ast.Node):
        new = copy.copy(node)
        for f in node.__dataclass_fields__:
            if f == 'parseinfo':
                continue
            setattr(new, f, substitute(getattr(node, f), mapping))
        return new
    return node


def binding_layer(ctx, ncases):
    rng = ctx.rng
    table = None
    for case in range(ncases):
        if ctx.stop():
            return
        if table is None or case % 6 == 0:
            table = std_table(rng, nrows=rng.choice([1, 3, 6]), small=True)
        named = rng.chance(1, 2)
        sel, eg = gen_param_statement(ctx, rng, named)
        if not eg.nodes:
            continue
        text = bqlprint.to_text(sel)
        try:
            parsed = parser.parse(text)
        except Exception as exc:  # noqa: BLE001
            ctx.record_violation('printed-statement-does-not-parse', '%s: %s' % (type(exc).__name__, text))
            continue
        phs = sorted([n for n in parsed.walk() if isinstance(n, ast.Placeholder)], key=lambda n: n.parseinfo.pos)
        if named:
            params = dict(eg.byname)
            lit = substitute(parsed, lambda n: params[n.name])
        else:
            # values in *textual* order: the i-th placeholder in the text gets the i-th value
            created = {id(n): v for n, v in eg.nodes}
            # the printed text keeps creation nodes in tree order; recover values by walking the original tree in text order
            pos = text_order(sel)
            orig = sorted([n for n in _walk(sel) if isinstance(n, ast.Placeholder)], key=lambda n: pos[id(n)])
            params = [created[id(n)] for n in orig]
            byid = {id(p): v for p, v in zip(phs, params)}
            lit = substitute(parsed, lambda n: byid[id(n)])
        SqlCase([table], parsed, params, name='bind-named' if named else 'bind-positional').check(ctx)
        # literal-substitution oracle on the implementation (rows and datatypes; names are source text)
        conn = impl.connection([table])
        a = impl.run_select(conn, text, params)
        b = impl.run_select(conn, lit)
        ctx.count('literal-oracle')
        if _strip_names(a) != _strip_names(b):
            ctx.record_violation('parameters-differ-from-literals', '%s | %s | %s' % (text, a[:200], b[:200]),
                                 payload=SqlCase([table], text, params).payload())


def _walk(node):
    return list(node.walk())


def text_order(sel):
    """source position of every placeholder of `sel` in its printed text (tree order is not textual order)"""
    nodes = [n for n in _walk(sel) if isinstance(n, ast.Placeholder)]
    saved = [(n, n.name) for n in nodes]
    for k, n in enumerate(nodes):
        n.name = 'zzmark%d' % k
    text = bqlprint.to_text(sel)
    order = {id(n): text.index('%%(zzmark%d)s' % k) for k, n in enumerate(nodes)}
    for n, name in saved:
        n.name = name
    return order


def _strip_names(line):
    import re
    return re.sub(r'desc=\[.*?\] rows', lambda m: 'desc=[' + ' '.join(x.rsplit(':', 1)[-1] for x in m.group(0)[6:-6].split(' "')) + '] rows', line)


def folding_layer(ctx, ncases):
    """constant expression folded by the compiler == the same expression evaluated per row from columns"""
    rng = ctx.rng
    for case in range(ncases):
        if ctx.stop():
            return
        tys = [rng.choice(['int', 'Decimal', 'str', 'date', 'bool']) for _ in range(3)]
        vals = [rng.choice([v for v in gen_sql.VALUES[t] if not (t in ('int', 'Decimal') and v < 0)]) for t in tys]
        schema = [('k%d' % j, t) for j, t in enumerate(tys)]
        table = impl.HTable('t', [(n, gen_sql.PYTYPES[t]) for n, t in schema], [tuple(vals), tuple(vals)])
        eg = gen_sql.ExprGen(ctx.facts, rng, schema, max_depth=3, allow_obj=False)
        eg.leaf = lambda ty, eg=eg: ast.Column(rng.choice(eg.cols[ty])) if eg.cols.get(ty) else eg.const(ty)
        ty = rng.choice(tys)
        e_cols = eg.expr(ty, rng.range(1, 3))
        mapping = {n: v for (n, _), v in zip(schema, vals)}
        e_const = _cols_to_consts(e_cols, mapping)
        s1 = ast.Select([ast.Target(e_cols, 'v')], ast.Table('t'), None, None, None, None, None, None)
        s2 = ast.Select([ast.Target(e_const, 'v')], ast.Table('t'), None, None, None, None, None, None)
        conn = impl.connection([table])
        a, b = impl.run_select(conn, s1), impl.run_select(conn, s2)
        SqlCase([table], s2, name='fold').check(ctx)
        ctx.count('fold-oracle')
        if a != b:
            ctx.record_violation('folded-constant-differs', '%s | %s' % (a[:200], b[:200]), payload=SqlCase([table], s2).payload())


RAISING_CALLS = [
    # (function call over columns a, b, c; the constants the columns hold): calls outside the domain of the function
    ("splitcomp(a, b, c)", ('a,b', ',', 5)), ("maxwidth(a, c)", ('hello world', ',', 3)), ("date_add(a, c)", (datetime.date(2014, 1, 1), 0, 99999999)),
    ("round(a, c)", (Decimal('1.5'), 0, 100)), ("grepn(b, a, c)", ('a', '(a)', 3)), ("a / c", (1, 0, 0)), ("a % c", (Decimal('1.5'), 0, 0)),
    ("splitcomp(a, b, c)", ('a,b', ',', 1)), ("maxwidth(a, c)", ('hello world', ',', 8)), ("int(a)", ('x', 0, 0)), ("date(a)", ('2020-02-30', 0, 0)),
    ("substr(a, c, c)", ('abc', 0, -7)), ("date_add(a, c)", (datetime.date(9999, 12, 31), 0, 1)), ("year(a) / (c - c)", (datetime.date(2014, 1, 1), 0, 3)),
]


def raising_fold_layer(ctx):
    """a call outside the domain of its function behaves the same (the same value, NULL, or the same class of error) folded
    from constants, bound from parameters, and evaluated per row from columns holding those constants"""
    for call, vals in RAISING_CALLS:
        pytypes = [type(v) for v in vals]
        table = impl.HTable('t', [('a', pytypes[0]), ('b', pytypes[1]), ('c', pytypes[2])], [tuple(vals), tuple(vals)])
        conn = impl.connection([table])
        per_row = impl.run_select(conn, 'SELECT %s AS v FROM #t' % call)
        lits = {n: bqlprint_const(v) for n, v in zip('abc', vals)}
        import re as _re
        folded_text = 'SELECT %s AS v FROM #t' % _re.sub(r'\b([abc])\b', lambda m: lits[m.group(1)], call)
        folded = impl.run_select(conn, folded_text)
        names = _re.findall(r'\b([abc])\b', call)
        bound_text = 'SELECT %s AS v FROM #t' % _re.sub(r'\b([abc])\b', '%s', call)
        bound = impl.run_select(conn, bound_text, tuple(vals['abc'.index(n)] for n in names))
        where_rows = impl.run_select(conn, 'SELECT a FROM #t WHERE coalesce(str(%s), \'-\') = \'-\'' % call)
        where_fold = impl.run_select(conn, folded_text.replace(' AS v FROM #t', '').replace('SELECT ', "SELECT a FROM #t WHERE coalesce(str(", 1) + "), '-') = '-'")
        ctx.evaluations += 1
        ctx.count('raising-fold')
        ctx.nontrivial_hashes.add(hash(('raising-fold', call, repr(vals))))
        if not (per_row == folded == bound) or where_rows != where_fold:
            ctx.record_violation('folded-constant-differs', '%s with %r: per row %s | folded %s | bound %s | in WHERE %s / %s' % (
                call, vals, per_row[:120], folded[:120], bound[:120], where_rows[:80], where_fold[:80]), payload={'call': call, 'values': vals})


def bqlprint_const(v):
    if isinstance(v, str):
        return "'%s'" % v
    if isinstance(v, datetime.date):
        return v.isoformat()
    return str(v)


def _cols_to_consts(node, mapping):
    if isinstance(node, ast.Column):
        return ast.Constant(mapping[node.name])
    if isinstance(node, list):
        return [_cols_to_consts(x, mapping) for x in node]
    if isinstance(node, ast.Node):
        new = copy.copy(node)
        for f in node.__dataclass_fields__:
            if f != 'parseinfo':
                setattr(new, f, _cols_to_consts(getattr(node, f), mapping))
        return new
    return node


_FIRST_RESULT = {}


def history_layer(ctx, nhist, maxlen):
    rng = ctx.rng
    texts = [
        ('SELECT i, %s FROM #t WHERE j > %s', lambda r: (r.choice([1, 'a', Decimal('2.5')]), r.range(-1, 3))),
        ('SELECT %s - %s, s FROM #t', lambda r: (r.range(0, 9), r.range(0, 9))),
        ('SELECT i FROM #t WHERE i IN (SELECT j FROM #t WHERE j < %s) ORDER BY i + %s', lambda r: (r.range(0, 5), r.range(0, 2))),
        ('SELECT count(*), sum(i + %(a)s) FROM #t WHERE s != %(b)s', lambda r: {'a': r.range(0, 3), 'b': r.choice(['a', 'b'])}),
        ('SELECT %(a)s, %(a)s + i FROM #t', lambda r: {'a': r.range(0, 3)}),
        ('SELECT s, count(i) FROM #t GROUP BY s ORDER BY 2 DESC, 1', lambda r: None),
        ('SELECT DISTINCT b, c FROM #t', lambda r: None),
        ('SELECT * FROM (SELECT i AS a, s AS b FROM #t)', lambda r: None),
        ('SELECT * FROM (SELECT j AS c FROM #t WHERE j > %s)', lambda r: (r.range(0, 3),)),
        ('SELECT a FROM (SELECT s AS a, i AS b FROM #t WHERE i < %s)', lambda r: (r.range(2, 9),)),
        ('SELECT a FROM (SELECT dt AS a FROM #t)', lambda r: None),
        ('SELECT %s, %s, %s FROM #t LIMIT 2', lambda r: (r.choice([True, None]), datetime.date(2020, 1, r.range(1, 9)), 'x')),
        # values that compare equal in Python but are different literals
        ('SELECT str(%s) AS v, %s AS w FROM #t LIMIT 1', lambda r: (r.choice([1, True, Decimal('1'), Decimal('1.0'), Decimal('1.00'), 0, False]),
                                                                   r.choice([0, False, Decimal('0'), Decimal('0.0')]))),
        ('SELECT str(%(v)s) AS v FROM #t LIMIT 1', lambda r: {'v': r.choice([1, True, Decimal('1.0'), Decimal('1.00')])}),
        # ONE parameters object, updated in place between the executions
        ('SELECT i + %(k)s AS v FROM #t WHERE i > %(k)s', lambda r, shared={}: (shared.update(k=r.range(0, 4)) or shared)),
    ]
    for h in range(nhist):
        if ctx.stop():
            return
        table = std_table(rng, nrows=rng.choice([2, 5]), small=True)
        snapshot = copy.deepcopy(table.rows)
        conn = impl.connection([table])
        parsed = {}
        cur = conn.cursor()
        steps = []
        for step in range(rng.range(2, maxlen)):
            k = rng.below(len(texts))
            text, mk = texts[k]
            params = mk(rng)
            mode = rng.choice(['text', 'parsed', 'parsed', 'many', 'cursor', 'cursor'])
            if mode == 'parsed':
                if k not in parsed:
                    parsed[k] = conn.parse(text)
                stmt = parsed[k]
            else:
                stmt = text
            try:
                if mode == 'many' and params is not None:
                    cur.executemany(text, [params, mk(rng), params])
                    got = proto.show_result(cur.description, cur.fetchall(), proto.Opaque())
                elif mode == 'cursor':
                    # the same cursor again and again
                    cur.execute(stmt, params)
                    got = proto.show_result(cur.description, cur.fetchall(), proto.Opaque())
                else:
                    c2 = conn.execute(stmt, params)
                    got = proto.show_result(c2.description, c2.fetchall(), proto.Opaque())
            except Exception as exc:  # noqa: BLE001
                got = impl.classify_exc(exc)
            fresh = impl.run_select(impl.connection([impl.HTable('t', table.coldefs, snapshot)]), text, params)
            # ... and what this very statement gave the first time it was run in this process on these rows (state kept at
            # module or class level would spoil the fresh connection as well)
            mkey = (text, repr(params), repr(snapshot))
            first = _FIRST_RESULT.setdefault(mkey, fresh)
            if fresh != first:
                ctx.record_violation('history-dependent-result', 'a fresh connection now gives %s for %s %r, it gave %s before other statements ran'
                                     % (fresh[:200], text, params, first[:200]), payload={'steps': steps, 'rows': snapshot})
                break
            steps.append((mode, text, params))
            ctx.evaluations += 1
            ctx.nontrivial_hashes.add(hash((h, step, text, repr(params), mode)))
            if got != fresh:
                ctx.record_violation('history-dependent-result', 'step %d %s %r: %s, fresh: %s' % (step, text, params, got[:200], fresh[:200]),
                                     payload={'steps': steps, 'rows': snapshot}, meta={'steps': repr(steps)})
                break
        if table.rows != snapshot:
            ctx.record_violation('source-data-mutated', 'table rows changed during a history', payload={'steps': steps})
        ctx.count('histories')
        if len(ctx.samples) < 6 and h % 10 == 0:
            ctx.samples.append({'case': 'history', 'steps': repr(steps)[:400]})


def cursor_layer(ctx):
    """one cursor, consecutive executions that differ only in what Python's == does not see: parameter values of different
    literal types that compare equal, a parameters object updated in place, parsed statements whose trees compare equal"""
    rng = ctx.rng
    table = std_table(rng, nrows=4, small=True)
    conn = impl.connection([table])
    cur = conn.cursor()
    shared = {'k': 0}
    steps = []
    for text, params in [('SELECT str(%s) AS v FROM #t LIMIT 1', (1,)), ('SELECT str(%s) AS v FROM #t LIMIT 1', (True,)),
                         ('SELECT str(%s) AS v FROM #t LIMIT 1', (Decimal('1.0'),)), ('SELECT str(%s) AS v FROM #t LIMIT 1', (Decimal('1.00'),)),
                         ('SELECT str(%(v)s) AS v FROM #t LIMIT 1', {'v': 0}), ('SELECT str(%(v)s) AS v FROM #t LIMIT 1', {'v': False}),
                         ('SELECT i + %(k)s AS v FROM #t WHERE i > %(k)s', shared), ('SELECT i + %(k)s AS v FROM #t WHERE i > %(k)s', 'update'),
                         ('SELECT i + %(k)s AS v FROM #t WHERE i > %(k)s', 'update'),
                         (conn.parse('SELECT str(0) AS v FROM #t LIMIT 1'), None), (conn.parse('SELECT str(FALSE) AS v FROM #t LIMIT 1'), None),
                         (conn.parse('SELECT str(1.0) AS v FROM #t LIMIT 1'), None), (conn.parse('SELECT str(1.00) AS v FROM #t LIMIT 1'), None)]:
        if params == 'update':
            shared['k'] += 2
            params = shared
        try:
            cur.execute(text, params)
            got = proto.show_result(cur.description, cur.fetchall(), proto.Opaque())
        except Exception as exc:  # noqa: BLE001
            got = impl.classify_exc(exc)
        fresh = impl.run_select(impl.connection([table]), text, copy.deepcopy(params))
        steps.append((repr(text)[:80], repr(params)))
        ctx.evaluations += 1
        ctx.count('same-cursor')
        if got != fresh:
            ctx.record_violation('history-dependent-result', 'same cursor, step %d %r %r: %s, fresh: %s' % (
                len(steps), text if isinstance(text, str) else 'parsed', params, got[:200], fresh[:200]), meta={'steps': repr(steps)})
            return


def deferred_fetch_layer(ctx):
    """results fetched late: what `conn.execute()` returned keeps its rows, description and position whatever is executed
    on the connection before it is read (other statements, the same statement with other parameters, inside a loop
    over the first result)"""
    rng = ctx.rng
    table = std_table(rng, nrows=5, small=True)
    conn = impl.connection([table])
    stmts = [('SELECT i, s FROM #t ORDER BY i', None), ('SELECT s AS name, count(*) AS n FROM #t GROUP BY s', None),
             ('SELECT i + %s AS v FROM #t', (10,)), ('SELECT i + %s AS v FROM #t', (20,)), ('SELECT j FROM #t WHERE i > %(k)s', {'k': 0}),
             (conn.parse('SELECT i FROM #t LIMIT 2'), None)]
    fresh = [impl.run_select(impl.connection([table]), t, copy.deepcopy(p)) for t, p in stmts]
    for opener in ('connection', 'cursor'):
        for order in (list(range(len(stmts))), list(reversed(range(len(stmts)))), [0, 2, 4, 1, 3, 5]):
            held = []
            for k in order:
                t, p = stmts[k]
                held.append((k, conn.execute(t, p) if opener == 'connection' else conn.cursor().execute(t, p)))
            # read them back in the order they were obtained: every one is still its own result
            for k, cur in held:
                try:
                    got = proto.show_result(cur.description, cur.fetchall(), proto.Opaque())
                except Exception as exc:  # noqa: BLE001
                    got = impl.classify_exc(exc)
                ctx.evaluations += 1
                ctx.count('deferred-fetch')
                ctx.nontrivial_hashes.add(hash(('deferred', opener, tuple(order), k)))
                if got != fresh[k]:
                    ctx.record_violation('history-dependent-result', 'results opened through %s in order %r, statement %d read late: %s, fresh: %s'
                                         % (opener, order, k, got[:200], fresh[k][:200]), meta={'order': order})
                    return
    # a loop over one result that executes another statement per row
    outer = conn.execute('SELECT i FROM #t WHERE i IS NOT NULL ORDER BY i')
    seen = []
    for (i,) in outer:
        inner = conn.execute('SELECT count(*) AS n FROM #t WHERE i <= %s', (i,)).fetchall()
        seen.append((i, inner))
    want = [(r[0], conn.execute('SELECT count(*) AS n FROM #t WHERE i <= %s', (r[0],)).fetchall())
            for r in impl.connection([table]).execute('SELECT i FROM #t WHERE i IS NOT NULL ORDER BY i').fetchall()]
    ctx.evaluations += 1
    if seen != want:
        ctx.record_violation('history-dependent-result', 'loop over a result executing per row: %r, expected %r' % (seen, want))


NULL_TEXTS = [
    ('SELECT i, %(note)s AS note FROM #t WHERE j >= %(min)s', {'note': None, 'min': 0}),
    ('SELECT i, %s AS note FROM #t WHERE j >= %s', (None, 0)),
    ('SELECT coalesce(%(a)s, %(b)s, i) AS c FROM #t', {'a': None, 'b': None}),
    ('SELECT i FROM #t WHERE %(x)s IS NULL AND i > %(y)s', {'x': None, 'y': 0}),
]


ORDER_TEXTS = [
    # every placeholder gets a different value, so any permutation of the binding order shows
    ('SELECT %s AS a, b, c FROM (SELECT %s AS b, %s AS c FROM #t LIMIT 1) WHERE %s = 4', (1, 2, 3, 4)),
    ('SELECT %s AS a, b FROM (SELECT %s AS b, i FROM #t WHERE %s < 10) WHERE i IN (SELECT i FROM #t WHERE %s > 0) ORDER BY i + %s', (1, 2, 3, 4, 5)),
    ('SELECT %s AS a FROM #t WHERE i >= %s GROUP BY i HAVING count(*) >= %s ORDER BY %s', (7, 0, 1, 9)),
    ('SELECT %s AS a, %s AS b FROM (SELECT i FROM (SELECT i FROM #t WHERE %s = 3) WHERE %s = 4) WHERE %s = 5', (1, 2, 3, 4, 5)),
    # a key expression equal to a target up to the VALUE of a placeholder is another expression
    ('SELECT i, i * %s AS v FROM #t ORDER BY i * %s, i', (1, -1)),
    ('SELECT i, j FROM #t ORDER BY i * %s DESC, j * %s', (0, 1)),
    ('SELECT s, i * %s FROM #t ORDER BY i * %s, s', (1, -1)),
    ('SELECT i + %s, j FROM #t WHERE i > %s ORDER BY i + %s DESC, j', (0, 0, 0)),
    ('SELECT i % %s, i FROM #t ORDER BY i % %s, i', (2, 3)),
    ('SELECT s, coalesce(i / %s, %s) AS c, coalesce(%s / %s, %s) AS d FROM #t ORDER BY i', (0, 7, 1, 0, Decimal('2.5'))),
    ('SELECT substr(s, 0, %s) AS p, count(*) AS n FROM #t GROUP BY substr(s, 0, %s) ORDER BY 1', (2, 1)),
    ('SELECT i + %s AS x, sum(j) AS t FROM #t GROUP BY i + %s ORDER BY 1', (1, 2)),
]


def order_layer(ctx):
    """positional binding is textual order, also where compilation order differs (FROM subqueries, nesting, HAVING)"""
    rng = ctx.rng
    table = std_table(rng, nrows=4, small=True)
    for text, params in NULL_TEXTS:
        # NULL is a value like any other: the statement behaves as with the literal NULL
        parsed = parser.parse(text)
        lit = substitute(parsed, (lambda n: params[n.name]) if isinstance(params, dict) else
                         (lambda n, it=iter(params): next(it)))
        SqlCase([table], parser.parse(text), params if isinstance(params, dict) else list(params), name='bind-null').check(ctx)
        conn = impl.connection([table])
        a = impl.run_select(conn, text, params if isinstance(params, dict) else list(params))
        b = impl.run_select(conn, lit)
        ctx.count('null-parameter-oracle')
        ctx.evaluations += 1
        if _strip_names(a) != _strip_names(b):
            ctx.record_violation('parameters-differ-from-literals', '%s %r | %s | %s' % (text, params, a[:200], b[:200]),
                                 payload=SqlCase([table], text, params).payload())
    for text, params in ORDER_TEXTS:
        parsed = parser.parse(text)
        phs = sorted([n for n in parsed.walk() if isinstance(n, ast.Placeholder)], key=lambda n: n.parseinfo.pos)
        byid = {id(p): v for p, v in zip(phs, params)}
        lit = substitute(parsed, lambda n: byid[id(n)])
        SqlCase([table], parsed, list(params), name='bind-order').check(ctx)
        conn = impl.connection([table])
        a = impl.run_select(conn, text, list(params))
        b = impl.run_select(conn, lit)
        ctx.count('order-oracle')
        ctx.evaluations += 1
        if _strip_names(a) != _strip_names(b):
            ctx.record_violation('parameters-differ-from-literals', '%s %r | %s | %s' % (text, params, a[:200], b[:200]),
                                 payload=SqlCase([table], text, list(params)).payload())


LEDGER_QUERIES = [
    "SELECT date, account, meta('note'), entry_meta('category'), any_meta('category'), any_meta('note')",
    "SELECT any_meta('ref'), any_meta('nokey'), meta('nokey'), entry_meta('when')",
    "SELECT getitem(meta, 'note', 'dflt'), getitem(entry.meta, 'category', 'x') FROM #postings",
    "SELECT account, open_meta('owner'), commodity_meta('name') FROM #postings",
    "SELECT account, sum(position), last(balance) GROUP BY account",
    "SELECT date, narration, tags, links FROM #transactions ORDER BY date DESC",
    "SELECT account, balance WHERE number > 0",
    "SELECT account, open, close FROM #accounts",
    "SELECT * FROM #accounts", "SELECT * FROM #entries", "SELECT * FROM #transactions", "SELECT * FROM #balances",
    "SELECT * FROM #notes", "SELECT * FROM #events", "SELECT * FROM #documents", "SELECT * FROM #commodities",
    "SELECT account, open_date(account), close_date(account) FROM #postings WHERE account IN (SELECT account FROM #accounts)",
    "BALANCES AT cost FROM year >= 2019",
    "JOURNAL 'Assets' AT units",
    "SELECT * FROM #prices",
    "SELECT count(*) AS n, sum(position) AS s",
    "SELECT account, sum(position) FROM OPEN ON 2020-01-01 CLOSE ON 2020-09-01 GROUP BY account ORDER BY account",
    "SELECT account, sum(position) FROM CLOSE ON 2020-03-01 GROUP BY account ORDER BY account",
    "SELECT account, sum(position) FROM OPEN ON 2020-01-01 CLOSE ON 2020-09-01 CLEAR GROUP BY account ORDER BY account",
    "SELECT account, sum(position) FROM CLEAR GROUP BY account ORDER BY account",
    "SELECT date, flag, account, position FROM year >= 2020 OPEN ON 2020-02-01",
    "BALANCES FROM CLOSE ON 2020-06-01 CLEAR",
    "SELECT name, meta('name'), meta('rank') FROM #commodities",
]


from ledgers import entries_snapshot  # noqa: E402


def ledger_history_layer(ctx, nledgers):
    """executing statements over ledger tables never changes the directives, and results do not depend on what ran before"""
    import ledgers
    rng = ctx.rng
    for k in range(nledgers):
        text, entries, errors, options = ledgers.gen_ledger(rng, ntxn=rng.range(6, 14))
        conn = ledgers.connect(entries, errors, options)
        before = entries_snapshot(entries)
        fresh = {}
        for q in LEDGER_QUERIES:
            c2 = ledgers.connect(*ledgers.load(text))
            try:
                cur = c2.execute(q)
                fresh[q] = proto.show_result(cur.description, cur.fetchall(), proto.Content())
            except Exception as exc:  # noqa: BLE001
                # a statement of this list that the unchanged tree rejects would compare two error strings: a harness bug
                raise RuntimeError('ledger history statement is not accepted: %s (%r)' % (q, exc))
        order = rng.shuffle(list(LEDGER_QUERIES) * 2)
        for q in order:
            if rng.chance(1, 3):
                # a PRINT statement compiled in between (a cursor cannot execute it, but the connection compiles it)
                for ptext in ('PRINT', 'PRINT FROM year >= 2020 CLOSE ON 2020-06-01'):
                    try:
                        conn.compile(conn.parse(ptext))
                    except Exception:  # noqa: BLE001
                        pass
            try:
                cur = conn.execute(q)
                got = proto.show_result(cur.description, cur.fetchall(), proto.Content())
            except Exception as exc:  # noqa: BLE001
                got = impl.classify_exc(exc)
            ctx.evaluations += 1
            ctx.count('ledger-history')
            if got != fresh[q]:
                ctx.record_violation('history-dependent-result', 'ledger %d: %s gives %s after other statements, %s on a fresh connection'
                                     % (k, q, got[:200], fresh[q][:200]), payload={'ledger': text, 'query': q})
                break
        if entries_snapshot(entries) != before:
            after = entries_snapshot(entries)
            diff = next((a, b) for a, b in zip(before, after) if a != b)
            ctx.record_violation('source-data-mutated', 'ledger %d: directives changed by executing statements: %r -> %r'
                                 % (k, diff[0], diff[1]), payload={'ledger': text})
        ctx.nontrivial_hashes.add(hash(('ledger-history', text)))
        if ctx.stop():
            return


def run(ctx):
    order_layer(ctx)
    cursor_layer(ctx)
    deferred_fetch_layer(ctx)
    raising_fold_layer(ctx)
    ledger_history_layer(ctx, 8 if ctx.thorough() else 2)
    binding_layer(ctx, 1500 if ctx.thorough() else 250)
    folding_layer(ctx, 1500 if ctx.thorough() else 250)
    history_layer(ctx, 300 if ctx.thorough() else 60, 20 if ctx.thorough() else 6)


def replay(ctx, body):
    if body.get('payload_pickle_b64') and 'tables' in repr(body.get('meta', '')):
        replay_sql(ctx, body)
    else:
        replay_sql(ctx, body)
