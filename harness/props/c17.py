"""C17 — numberify: correspondence of the per-currency decomposition, plus conservation oracles."""
import datetime
from decimal import Decimal

from beancount.core import amount, inventory, position
from beancount.core import display_context

import beanquery
from beanquery import numberify

import proto

RULE = ('seeded random result tables mixing plain columns (int, str, decimal, date) with Amount / Position / Inventory columns: '
        '0..4 currencies per column, several lots per currency in one inventory (different costs), NULL cells, empty '
        'inventories, zero totals, with and without a display formatter (per-currency precisions incl. currencies the '
        'formatter does not know).  Model vs implementation on column names, order and every cell; oracles on the '
        'implementation: plain columns / row count / row order unchanged, every currency with a non-zero number has a column, '
        'per-currency column sums equal the input units (without formatter).  Non-trivial = table has an amount-like column '
        'with at least two currencies; distinct = distinct protocol line.')
ASSUMPTIONS = ['DisplayFormatter.quantize = Decimal.quantize to the currency\'s fractional digits (half even); unknown currency: unchanged']

CURS = ['USD', 'EUR', 'ACME', 'JPY']
D = Decimal
NUMS = [D('1'), D('2.50'), D('-3.125'), D('100'), D('0.005'), D('7.5'), D('-1'), D('10.10'), D('0.335')]


def signature(mm):
    if mm.model == 'oracle':
        return 'C17:' + mm.name
    return 'C17:' + mm.name


def gen_cell(rng, kind, curs, maxinv=4):
    if rng.chance(1, 7):
        return None
    if kind == 'amount':
        return amount.Amount(rng.choice(NUMS), rng.choice(curs))
    if kind == 'position':
        cost = None
        if rng.chance(1, 3):
            cost = position.Cost(D(rng.range(1, 9)), 'USD', datetime.date(2020, 1, rng.range(1, 9)), None)
        return position.Position(amount.Amount(rng.choice(NUMS), rng.choice(curs)), cost)
    if kind == 'inventory':
        inv = inventory.Inventory()
        for _ in range(rng.range(0, maxinv)):
            cur = rng.choice(curs)
            cost = None
            if rng.chance(1, 2) and cur != 'USD':
                cost = position.Cost(D(rng.range(1, 5)), 'USD', datetime.date(2020, 1, rng.range(1, 5)), None)
            inv.add_amount(amount.Amount(rng.choice(NUMS), cur), cost)
        return inv
    if kind == 'int':
        return rng.range(-3, 9)
    if kind == 'str':
        return rng.choice(['a', 'b', ''])
    if kind == 'Decimal':
        return rng.choice(NUMS)
    return datetime.date(2020, 1, rng.range(1, 28))


KIND_TYPES = {'amount': amount.Amount, 'position': position.Position, 'inventory': inventory.Inventory,
              'int': int, 'str': str, 'Decimal': Decimal, 'date': datetime.date}


def enc_cell(kind, v):
    if v is None:
        return 'null'
    if kind == 'amount':
        return '(a %d %d %s)' % (proto.dec_parts(v.number) + (proto.q(v.currency),))
    if kind == 'position':
        return '(pos %d %d %s)' % (proto.dec_parts(v.units.number) + (proto.q(v.units.currency),))
    if kind == 'inventory':
        return '(inv' + ''.join(' (%d %d %s)' % (proto.dec_parts(p.units.number) + (proto.q(p.units.currency),)) for p in v) + ')'
    return '(p %s)' % proto.enc_value(v)


def make_formatter(rng):
    dcontext = display_context.DisplayContext()
    digits = {}
    for cur in CURS[:3]:
        k = rng.range(0, 3)
        dcontext.update(D(1).scaleb(-k) if k else D(1), cur)
        digits[cur] = k
    return dcontext.build(), digits


def show_out(desc, rows):
    names = ' | '.join(c.name for c in desc)
    body = ''.join('(' + ' '.join(proto.show_value(v) for v in r) + ')' for r in rows)
    return '[' + names + '] ' + body


def run_case(ctx, rng, pool=CURS, maxrows=7, maxinv=4):
    ncols = rng.range(1, 4)
    kinds = [rng.choice(['amount', 'position', 'inventory', 'int', 'str', 'Decimal', 'date', 'amount', 'inventory']) for _ in range(ncols)]
    curs_per_col = [pool[:rng.range(1, len(pool))] for _ in kinds]
    nrows = rng.range(0, maxrows)
    rows = [tuple(gen_cell(rng, k, cs, maxinv) for k, cs in zip(kinds, curs_per_col)) for _ in range(nrows)]
    names_in = ['c%d' % j for j in range(ncols)]
    for j in range(1, ncols):
        same = [i for i in range(j) if kinds[i] == kinds[j]]
        if same and rng.chance(1, 5):
            names_in[j] = names_in[rng.choice(same)]      # two columns with the same name and datatype are still two columns
    duplicate_names = len(set(names_in)) != len(names_in)
    desc = [beanquery.Column(names_in[j], KIND_TYPES[k]) for j, k in enumerate(kinds)]
    use_fmt = rng.chance(1, 2)
    dformat, digits = make_formatter(rng) if use_fmt else (None, None)
    if use_fmt:
        quant = '(quant ' + ' '.join('(%s %s)' % (proto.q(c), digits[c]) for c in digits) + ')'
    else:
        quant = '(quant nil)'
    cols = ' '.join('(%s %s)' % (proto.q(names_in[j]), k if k in ('amount', 'position', 'inventory') else 'plain') for j, k in enumerate(kinds))
    line = '(numberify (cols %s) %s (rows %s))' % (cols, quant, ' '.join('(' + ' '.join(enc_cell(k, v) for k, v in zip(kinds, r)) + ')' for r in rows))

    def impl():
        try:
            odesc, orows = numberify.numberify_results(desc, rows, dformat)
        except Exception as exc:  # noqa: BLE001
            return 'EXC:' + type(exc).__name__
        return show_out(odesc, orows)
    rich = any(k in ('amount', 'position', 'inventory') for k in kinds) and nrows >= 2
    ok = ctx.check('numberify', [line], impl, nontrivial=rich, payload={'kinds': kinds, 'rows': rows, 'digits': digits},
                   meta={'kinds': kinds, 'formatter': use_fmt})
    ctx.count('formatter' if use_fmt else 'plain')
    # conservation oracles on the implementation
    try:
        odesc, orows = numberify.numberify_results(desc, rows, dformat)
    except Exception as exc:  # noqa: BLE001
        ctx.record_violation('numberify-raises-%s' % type(exc).__name__, repr(exc), payload={'kinds': kinds, 'rows': rows})
        return
    if duplicate_names:
        return      # the oracle below identifies columns by name; the model comparison above covers this table
    problems = []
    if len(orows) != len(rows):
        problems.append('row count changed')
    names = [c.name for c in odesc]
    for j, k in enumerate(kinds):
        cname = 'c%d' % j
        if k not in ('amount', 'position', 'inventory'):
            if names.count(cname) != 1:
                problems.append('plain column %s not kept exactly once' % cname)
                continue
            oj = names.index(cname)
            if [r[oj] for r in orows] != [r[j] for r in rows]:
                problems.append('plain column %s changed' % cname)
            continue
        # per-currency totals of the input
        totals = {}
        for r in rows:
            v = r[j]
            if v is None:
                continue
            if k == 'amount':
                items = [(v.currency, v.number)]
            elif k == 'position':
                items = [(v.units.currency, v.units.number)]
            else:
                items = [(p.units.currency, p.units.number) for p in v]
            for cur, num in items:
                totals[cur] = totals.get(cur, D(0)) + num
        for cur, tot in totals.items():
            col = '%s (%s)' % (cname, cur)
            if col not in names:
                problems.append('currency %s of column %s has no output column' % (cur, cname))
                continue
            if not use_fmt:
                oj = names.index(col)
                s = sum((r[oj] for r in orows if r[oj] is not None), D(0))
                if s != tot:
                    problems.append('column %s sums to %s, input units are %s' % (col, s, tot))
        for n in names:
            if n.startswith(cname + ' (') and n[len(cname) + 2:-1] not in totals:
                problems.append('invented currency column %s' % n)
    ctx.count('oracle')
    if problems:
        ctx.record_violation('conservation', '; '.join(problems), payload={'kinds': kinds, 'rows': rows})


def entry_point_layer(ctx):
    """the entry points that numberify for the user - `beanquery.query.run_query(numberify=True)` and the shell's
    `numberify` setting - give what numberify_results gives for the API result with the ledger's display formatter"""
    import io
    import os
    import tempfile
    import ledgers
    from beanquery import query as bq_query, shell
    rng = ctx.rng
    text, entries, errors, options = ledgers.gen_ledger(rng, ntxn=14)
    # a quotation with more decimals than the currency usually shows: display precision and maximum precision differ
    text += '\n2019-01-02 price ACME 10.0035 USD\n'
    entries, errors, options = ledgers.load(text)
    conn = ledgers.connect(entries, errors, options)
    queries = ['SELECT account, sum(position) AS total GROUP BY account ORDER BY account',
               'SELECT date, account, position, price, cost(position) AS c ORDER BY date, account',
               "SELECT account, value(sum(position)) AS v, units(sum(position)) AS u GROUP BY account ORDER BY account",
               'SELECT currency, amount FROM #prices', 'SELECT date, account, balance ORDER BY date, account']
    path = os.path.join(tempfile.mkdtemp(prefix='bqv-c17-'), 'ledger.beancount')
    with open(path, 'w') as f:
        f.write(text)
    for q in queries:
        cur = conn.execute(q)
        desc, rows = cur.description, cur.fetchall()
        wdesc, wrows = numberify.numberify_results(desc, rows, options['dcontext'].build())
        want = show_out(wdesc, wrows)
        try:
            gdesc, grows = bq_query.run_query(entries, options, q, numberify=True)
            got = show_out(gdesc, grows)
        except Exception as exc:  # noqa: BLE001
            got = 'EXC:%s' % type(exc).__name__
        ctx.evaluations += 1
        ctx.count('entry-point:run_query')
        ctx.nontrivial_hashes.add(hash(('run_query', q, text)))
        if got != want:
            ctx.record_violation('run_query-numberify-differs', '%s: run_query %s ... numberify_results %s' % (q, got[:300], want[:300]),
                                 payload={'ledger': text, 'query': q})
        # the shell with `.set numberify true` and csv output prints those cells
        out = io.StringIO()
        import contextlib
        import warnings
        with contextlib.redirect_stderr(io.StringIO()), warnings.catch_warnings():
            warnings.simplefilter('ignore')
            sh = shell.BQLShell(path, out, interactive=False, runinit=False)
            sh.onecmd('.set numberify true')
            sh.onecmd('.set format csv')
            sh.onecmd(q)
        ref = io.StringIO()
        from beanquery import query_render
        query_render.render_csv(wdesc, wrows, options['dcontext'], ref)
        ctx.evaluations += 1
        ctx.count('entry-point:shell')
        if out.getvalue() != ref.getvalue():
            ctx.record_violation('shell-numberify-differs', '%s: shell %r ... reference %r' % (q, out.getvalue()[:300], ref.getvalue()[:300]),
                                 payload={'ledger': text, 'query': q})
    import shutil
    shutil.rmtree(os.path.dirname(path), ignore_errors=True)


def run(ctx):
    entry_point_layer(ctx)
    rng = ctx.rng
    # portfolios of many commodities: every one of them gets its column, however many there are
    many = ['USD', 'EUR'] + ['C%02d' % k for k in range(30)]
    for case in range(400 if ctx.thorough() else 40):
        run_case(ctx, rng, pool=many, maxrows=30, maxinv=12)
    for case in range(100000 if ctx.thorough() else 1200):
        if ctx.stop():
            return
        run_case(ctx, rng)


def replay(ctx, body):
    print('replay: see payload in the replay file (kinds, rows, digits)')
