"""C13 — OPEN / CLOSE / CLEAR: model of prepare() vs the real one; period-report invariants on the implementation."""
import collections
import contextlib
import datetime
import io
import os
import shutil
import tempfile
import warnings

from beancount.core import data, inventory

from beanquery import compiler, parser

import ledgers

RULE = ('(a) generated ledgers without price conversions x every subset of OPEN / CLOSE [ON] / CLEAR x dates before, inside, after '
        'the ledger span and equal to entry dates: the transactions of BeanTable.prepare() (reached through the compiler) compared '
        'with the model prepare (originals by identity, generated entries by date, flag and postings);  (b) generated ledgers with '
        'conversions and lots at cost, observed through SELECT id, date, flag, account, position, weight FROM <clauses>: original '
        'rows are exactly the rows of the full ledger dated in [d, e), in order; Assets / Liabilities totals equal the full-ledger '
        'balance as of e; Income / Expenses totals equal the activity in [d, e) or are empty with CLEAR; the weights of every '
        'returned transaction sum to nothing; what OPEN puts before the window does not depend on the clauses that follow; FROM <filter> <clauses> equals the clause result filtered; CLOSE before OPEN is a '
        'CompilationError and nothing else is; SELECT / BALANCES / JOURNAL / PRINT prepare the same entries; .run of a named '
        'query closes at the query date.  Non-trivial = result holds at least one original and one generated transaction; '
        'distinct = distinct (ledger, clauses).')
ASSUMPTIONS = ['beancount.ops.summarize / Inventory are modelled in Lean (Model/Summarize.lean), not verified: the correspondence (a) is the tie',
               'the Lean model covers ledgers without price conversions; with conversions the invariants are checked on the implementation (b) only',
               'exact arithmetic: numbers with at most 6 decimals, products within 28 digits']

S = 10 ** 6
Row = collections.namedtuple('Row', 'id date flag account position weight')
GEN_FLAGS = ('S', 'T', 'C')


def signature(mm):
    return 'C13:' + mm.name


def sc(dv):
    v = dv * S
    if v != v.to_integral_value():
        raise ValueError(dv)
    return int(v)


def enc_pos(units, cost):
    if cost is None:
        return '(p "%s" %d nil)' % (units.currency, sc(units.number))
    return '(p "%s" %d (%d "%s" %d "%s"))' % (units.currency, sc(units.number), sc(cost.number), cost.currency,
                                              cost.date.toordinal(), cost.label or '')


def show_key(units, cost):
    if cost is None:
        return units.currency
    return '%s{%d %s %d %s}' % (units.currency, sc(cost.number), cost.currency, cost.date.toordinal(), cost.label or '')


def show_entries(result, index_of):
    """transactions of the result: originals by identity, generated ones in full"""
    out = []
    for e in result:
        if not isinstance(e, data.Transaction):
            continue
        if id(e) in index_of:
            out.append('O%d' % index_of[id(e)])
        else:
            out.append('%s%d[%s]' % (e.flag, e.date.toordinal(),
                                     ','.join('%s %s=%d' % (p.account, show_key(p.units, p.cost), sc(p.units.number)) for p in e.postings)))
    return ' '.join(out)


def from_text(o, c, clear, expr=None):
    parts = []
    if expr:
        parts.append(expr)
    if o is not None:
        parts.append('OPEN ON %s' % o.isoformat())
    if c is True:
        parts.append('CLOSE')
    elif c is not None:
        parts.append('CLOSE ON %s' % c.isoformat())
    if clear:
        parts.append('CLEAR')
    return ' '.join(parts)


def candidate_dates(rng, txns):
    dates = sorted({t.date for t in txns})
    one = datetime.timedelta(days=1)
    cands = [dates[0] - 40 * one, dates[0], dates[0] + one, dates[-1], dates[-1] + one, dates[-1] + 400 * one]
    for _ in range(4):
        dd = rng.choice(dates)
        cands += [dd, dd + rng.range(-2, 2) * one]
    return cands


def clause_sets(rng, txns, n):
    cands = candidate_dates(rng, txns)
    out = []
    for _ in range(n):
        o = rng.choice(cands) if rng.chance(2, 3) else None
        cm = rng.weighted([('absent', 3), ('nodate', 1), ('date', 5)])
        c = None if cm == 'absent' else True if cm == 'nodate' else rng.choice(cands)
        if o is not None and isinstance(c, datetime.date) and c < o:
            o, c = c, o
        out.append((o, c, rng.chance(1, 2)))
    # an empty period: OPEN and CLOSE on the same date (the balances as of that date, no activity)
    same = rng.choice(cands[1:5])
    out.append((same, same, False))
    out.append((same, same, True))
    # every subset of the three clauses at least once
    o, c = sorted([rng.choice(cands), rng.choice(cands)])
    for uo in (None, o):
        for uc in (None, True, c):
            for cl in (False, True):
                out.append((uo, uc, cl))
    return out


def prepared(conn, text):
    cq = compiler.compile(conn, parser.parse(text))
    table = cq.table
    return table.prepare()


def model_layer(ctx, lk, conn, entries, options):
    txns = [e for e in entries if isinstance(e, data.Transaction)]
    if len(txns) < 2:
        return
    # every directive is an entry of the model ledger; only transactions carry postings
    index_of = {id(e): i for i, e in enumerate(entries)}
    others = {'O%d' % i for i, e in enumerate(entries) if not isinstance(e, data.Transaction)}
    try:
        enc = ' '.join('(txn %d %d %s)' % (t.date.toordinal(), i, ' '.join(
            '(post "%s" %s)' % (p.account, enc_pos(p.units, p.cost)) for p in (t.postings if isinstance(t, data.Transaction) else [])))
            for i, t in enumerate(entries))
    except ValueError:
        ctx.skipped += 1
        ctx.count('ledger-not-representable')
        return
    head = '(roots "%s" "%s") "%s" "%s" "%s"' % (
        options['name_income'], options['name_expenses'],
        '%s:%s' % (options['name_equity'], options['account_previous_earnings']),
        '%s:%s' % (options['name_equity'], options['account_current_earnings']),
        '%s:%s' % (options['name_equity'], options['account_previous_balances']))
    for o, c, clear in clause_sets(ctx.rng, txns, 30 if ctx.thorough() else 10):
        frm = from_text(o, c, clear)
        text = 'SELECT account FROM ' + frm if frm else 'SELECT account'
        line = '(prepare %s %s %s %d %s)' % (head, o.toordinal() if o else 'nil',
                                            'absent' if c is None else 'nil' if c is True else c.toordinal(), 1 if clear else 0, enc)

        def impl(text=text):
            try:
                return show_entries(prepared(conn, text), index_of)
            except Exception as exc:  # noqa: BLE001
                return 'EXC:%s:%s' % (type(exc).__name__, exc)
        ctx.count('model:' + ('O' if o else '-') + ('C' if c else '-') + ('L' if clear else '-'))
        m = ctx.model([line])
        nontrivial = ('O' in m) and ('S' in m or 'T' in m)
        # open / price / ... directives kept or re-sorted by summarize are outside the model: compare transactions only
        ctx.check('prepare', [line], impl, nontrivial=nontrivial, meta={'ledger': lk, 'from': frm},
                  canon=lambda x: ' '.join(t for t in x.split(' ') if t not in others) if not x.startswith('EXC') else x)
        if ctx.stop():
            return


def inv_of(rows, pred):
    accts = {}
    for r in rows:
        if pred(r):
            accts.setdefault(r.account, inventory.Inventory()).add_position(r.position)
    return {a: i for a, i in accts.items() if not i.is_empty()}


def oracle_layer(ctx, lk, conn, entries, options):
    rng = ctx.rng
    txns = [e for e in entries if isinstance(e, data.Transaction)]
    if len(txns) < 2:
        return
    cols = 'id, date, flag, account, position, weight'
    rows0 = [Row(*r) for r in conn.execute('SELECT %s' % cols).fetchall()]
    bs_roots = (options['name_assets'], options['name_liabilities'])
    is_roots = (options['name_income'], options['name_expenses'])

    def root(a):
        return a.split(':')[0]
    for o, c, clear in clause_sets(rng, txns, 24 if ctx.thorough() else 8):
        frm = from_text(o, c, clear)
        q = 'SELECT %s%s' % (cols, ' FROM ' + frm if frm else '')
        try:
            rows = [Row(*r) for r in conn.execute(q).fetchall()]
        except Exception as exc:  # noqa: BLE001
            ctx.record_violation('clauses-raise-%s' % type(exc).__name__, '%s: %r' % (q, exc), payload={'query': q})
            continue
        ctx.evaluations += 1
        ctx.count('oracle:' + ('O' if o else '-') + ('C' if c else '-') + ('L' if clear else '-'))
        e = c if isinstance(c, datetime.date) else None
        orig = [r for r in rows if r.flag not in GEN_FLAGS]
        gen = [r for r in rows if r.flag in GEN_FLAGS]
        if orig and gen:
            ctx.nontrivial_hashes.add(hash((lk, frm)))
        want = [r for r in rows0 if (o is None or r.date >= o) and (e is None or r.date < e)]
        meta = {'query': q}
        if [tuple(r) for r in orig] != [tuple(r) for r in want]:
            ctx.record_violation('window', '%s: %d original rows returned, %d dated in the window; first difference %r' % (
                q, len(orig), len(want), next(((a, b) for a, b in zip(orig, want) if tuple(a) != tuple(b)), None)), payload=meta)
        for r in gen:
            if o is not None and r.flag == 'S' and r.date != o - datetime.timedelta(days=1):
                ctx.record_violation('summary-date', '%s: %r' % (q, r), payload=meta)
                break
        # the clauses apply one after the other: what OPEN puts in front of the window (opening balances and the
        # conversions carried forward, dated the day before) is what OPEN alone puts there, whatever follows
        if o is not None and (c is not None or clear):
            q_open = 'SELECT %s FROM %s' % (cols, from_text(o, None, False))
            alone = [Row(*r) for r in conn.execute(q_open).fetchall()]
            head = sorted((r.flag, r.account, str(r.position)) for r in rows if r.date < o)
            head_alone = sorted((r.flag, r.account, str(r.position)) for r in alone if r.date < o)
            ctx.count('oracle:open-then-rest')
            if head != head_alone:
                ctx.record_violation('open-depends-on-close', '%s: rows before the window %r, with OPEN alone %r' % (
                    q, [x for x in head if x not in head_alone][:4], [x for x in head_alone if x not in head][:4]), payload=meta)
        # balance sheet
        got_bs = inv_of(rows, lambda r: root(r.account) in bs_roots)
        want_bs = inv_of(rows0, lambda r: root(r.account) in bs_roots and (e is None or r.date < e))
        if got_bs != want_bs:
            acct = next(a for a in sorted(set(got_bs) | set(want_bs)) if got_bs.get(a) != want_bs.get(a))
            ctx.record_violation('balance-sheet', '%s: %s totals %s, balance as of close %s' % (q, acct, got_bs.get(acct), want_bs.get(acct)), payload=meta)
        # income statement
        got_is = inv_of(rows, lambda r: root(r.account) in is_roots)
        if clear:
            want_is = {}
        else:
            want_is = inv_of(rows0, lambda r: root(r.account) in is_roots and (o is None or r.date >= o) and (e is None or r.date < e))
        if got_is != want_is:
            acct = next(a for a in sorted(set(got_is) | set(want_is)) if got_is.get(a) != want_is.get(a))
            ctx.record_violation('income-statement', '%s: %s totals %s, expected %s' % (q, acct, got_is.get(acct), want_is.get(acct)), payload=meta)
        # every returned transaction balances
        per = {}
        for r in rows:
            per.setdefault(r.id, inventory.Inventory()).add_amount(r.weight)
        for rid, inv in per.items():
            if not inv.is_empty():
                ctx.record_violation('unbalanced-transaction', '%s: entry %s residual %s' % (q, rid, inv), payload=meta)
                break
        # the filter expression does not change how the clauses apply
        if frm and not ctx.stop():
            year = rng.choice(sorted({t.date.year for t in txns}))
            for expr, keep in (('year = %d' % year, lambda r: r.date.year == year),
                               ("date < %s" % txns[len(txns) // 2].date.isoformat(), lambda r: r.date < txns[len(txns) // 2].date)):
                q2 = 'SELECT %s FROM %s' % (cols, from_text(o, c, clear, expr))
                rows2 = [Row(*r) for r in conn.execute(q2).fetchall()]
                ctx.count('oracle:filter')
                if [tuple(r) for r in rows2] != [tuple(r) for r in rows if keep(r)]:
                    ctx.record_violation('filter-changes-clauses', '%s: %d rows vs %d filtered rows of %s' % (
                        q2, len(rows2), len([r for r in rows if keep(r)]), q), payload={'query': q2})
        # a nested SELECT anywhere in the statement does not disturb the clauses: a condition that holds for every row
        if frm and not ctx.stop():
            for cond in ('1 IN (SELECT 1 FROM #accounts)', "account NOT IN (SELECT account FROM #accounts WHERE account = 'nothing:at:all')"
                         " OR account IS NOT NULL"):
                q3 = 'SELECT %s FROM %s WHERE %s' % (cols, from_text(o, c, clear, None), cond)
                try:
                    rows3 = [tuple(r) for r in conn.execute(q3).fetchall()]
                except Exception as exc:  # noqa: BLE001
                    ctx.record_violation('nested-select-raises-%s' % type(exc).__name__, '%s: %r' % (q3, exc), payload={'query': q3})
                    continue
                ctx.count('oracle:nested-select')
                if rows3 != [tuple(r) for r in rows]:
                    ctx.record_violation('nested-select-disturbs-clauses', '%s: %d rows, %d without the condition' % (q3, len(rows3), len(rows)),
                                         payload={'query': q3})
        # ... and the clauses do not reach into a nested SELECT that has a FROM clause of its own
        if frm and not ctx.stop():
            accounts = sorted({r[0] for r in conn.execute('SELECT account FROM year >= 1900').fetchall()})
            lit = '(' + ', '.join("'%s'" % a for a in accounts) + (',' if len(accounts) == 1 else '') + ')'
            for op in ('IN', 'NOT IN'):
                qa = 'SELECT %s FROM %s WHERE account %s (SELECT account FROM year >= 1900)' % (cols, from_text(o, c, clear, None), op)
                qb = 'SELECT %s FROM %s WHERE account %s %s' % (cols, from_text(o, c, clear, None), op, lit)
                try:
                    ra = [tuple(r) for r in conn.execute(qa).fetchall()]
                    rb = [tuple(r) for r in conn.execute(qb).fetchall()]
                except Exception as exc:  # noqa: BLE001
                    ctx.record_violation('nested-select-raises-%s' % type(exc).__name__, '%s: %r' % (qa, exc), payload={'query': qa})
                    continue
                ctx.count('oracle:nested-select')
                if ra != rb:
                    ctx.record_violation('clauses-reach-nested-select', '%s: %d rows, %d with the subquery written out as a list' % (qa, len(ra), len(rb)),
                                         payload={'query': qa})
        # the four statements prepare the same entries
        if frm:
            want_e = [id(x) if x in entries else repr(x)[:200] for x in prepared(conn, 'SELECT account FROM ' + frm)]
            for stmt in ('BALANCES FROM ' + frm, 'JOURNAL FROM ' + frm, "JOURNAL 'Assets' AT cost FROM " + frm, 'PRINT FROM ' + frm):
                got_e = [id(x) if x in entries else repr(x)[:200] for x in prepared(conn, stmt)]
                ctx.count('oracle:statements')
                if got_e != want_e:
                    ctx.record_violation('statement-prepares-differently', '%s vs SELECT: %d / %d entries' % (stmt, len(got_e), len(want_e)),
                                         payload={'query': stmt})
            # ... and PRINT really prints them (executed, not only compiled): the transactions written are the prepared ones
            from beancount.parser import parser as bparser
            from beanquery import query_execute
            out = io.StringIO()
            try:
                query_execute.execute_print(compiler.compile(conn, parser.parse('PRINT FROM ' + frm)), out)
                printed, _, _ = bparser.parse_string(out.getvalue())
            except Exception as exc:  # noqa: BLE001
                ctx.record_violation('print-raises-%s' % type(exc).__name__, 'PRINT FROM %s: %r' % (frm, exc))
                printed = None
            if printed is not None:
                def tkey(es):
                    return [(e.date, e.flag, e.narration, len(e.postings)) for e in es if isinstance(e, data.Transaction)]
                ctx.count('oracle:print-executed')
                if tkey(printed) != tkey(prepared(conn, 'SELECT account FROM ' + frm)):
                    ctx.record_violation('print-ignores-clauses', 'PRINT FROM %s prints %d transactions, %d are prepared' % (
                        frm, len(tkey(printed)), len(tkey(prepared(conn, 'SELECT account FROM ' + frm)))), payload={'query': 'PRINT FROM ' + frm})
        if ctx.stop():
            return
    # CLOSE before OPEN
    cands = candidate_dates(rng, txns)
    for _ in range(12):
        o, c = rng.choice(cands), rng.choice(cands)
        head = rng.choice(['SELECT account FROM', 'SELECT account FROM', 'BALANCES FROM', 'JOURNAL FROM', 'PRINT FROM',
                           "SELECT account FROM year > 1900", 'PRINT FROM year > 1900', 'BALANCES AT cost FROM year > 1900'])
        q = '%s OPEN ON %s CLOSE ON %s%s' % (head, o.isoformat(), c.isoformat(), rng.choice(['', ' CLEAR']))
        ctx.count('oracle:date-order')
        try:
            compiler.compile(conn, parser.parse(q))
            res = 'ok'
        except compiler.CompilationError:
            res = 'rejected'
        except Exception as exc:  # noqa: BLE001
            res = 'EXC:' + type(exc).__name__
        if res != ('rejected' if c < o else 'ok'):
            ctx.record_violation('date-order-check', '%s: %s' % (q, res), payload={'query': q})


def shell_layer(ctx, text, conn):
    """`.run <name>`: a named query without CLOSE is closed at the date of the query directive"""
    from beanquery import shell
    d = tempfile.mkdtemp(prefix='bqv-c13-')
    try:
        path = os.path.join(d, 'ledger.beancount')
        with open(path, 'w') as f:
            f.write(text)
        out = io.StringIO()
        err = io.StringIO()
        with contextlib.redirect_stderr(err), warnings.catch_warnings():
            warnings.simplefilter('ignore')
            sh = shell.BQLShell(path, out, interactive=False, runinit=False, format='csv')
            queries = dict(sh.queries)

            def run(cmd):
                out.seek(0), out.truncate()
                try:
                    sh.onecmd(cmd)
                except Exception as exc:  # noqa: BLE001
                    return 'EXC:%s:%s' % (type(exc).__name__, exc)
                return out.getvalue()
            pieces = []
            for name, query in sorted(queries.items()):
                stmt = parser.parse(query.query_string)
                if not isinstance(stmt, parser.ast.Select) or not isinstance(stmt.from_clause, parser.ast.From):
                    pieces.append((name, run(query.query_string)))
                    continue
                got = run('.run ' + name)
                if stmt.from_clause.close:
                    closed = query.query_string        # the query names its own CLOSE: the directive's date must not replace it
                else:
                    closed = query.query_string.replace('FROM year >= 2019', 'FROM year >= 2019 CLOSE ON %s' % query.date.isoformat())
                    assert closed != query.query_string
                want = run(closed)
                pieces.append((name, want))
                unclosed = run(query.query_string)
                ctx.count('oracle:named-query')
                ctx.evaluations += 1
                if got != want:
                    ctx.record_violation('named-query-default-close', '.run %s: %r vs closed %r (unclosed %r)' % (name, got[:200], want[:200], unclosed[:200]),
                                         payload={'ledger': text})
            # `.run *` runs every named query the same way, under its name
            if pieces:
                names_out = io.StringIO()       # (the names are printed to the standard output, the results to the shell's output)
                with contextlib.redirect_stdout(names_out):
                    got_all = run('.run *')
                ctx.count('oracle:named-query-all')
                ctx.evaluations += 1
                want_all = ''.join(p[1] for p in pieces)
                want_names = [p[0] + ':' for p in pieces]
                got_names = [ln for ln in names_out.getvalue().split('\n') if ln.strip()]
                if got_all != want_all or got_names != want_names:
                    ctx.record_violation('named-query-default-close', '.run *: %r %r vs the queries closed one by one %r %r' % (
                        got_names, got_all[:300], want_names, want_all[:300]), payload={'ledger': text})
    finally:
        shutil.rmtree(d, ignore_errors=True)


def run(ctx):
    rng = ctx.rng
    n = 14 if ctx.thorough() else 3
    for lk in range(n):
        text, entries, errors, options = ledgers.gen_ledger(rng, ntxn=rng.range(6, 20), conversions=False)
        conn = ledgers.connect(entries, errors, options)
        model_layer(ctx, lk, conn, entries, options)
        if ctx.stop():
            return
        text, entries, errors, options = ledgers.gen_ledger(rng, ntxn=rng.range(6, 20))
        conn = ledgers.connect(entries, errors, options)
        oracle_layer(ctx, 100 + lk, conn, entries, options)
        if lk < 4:
            # a query directive dated inside the ledger so that the default close date matters
            lines = text.split('\n')
            txn_dates = sorted({e.date for e in entries if isinstance(e, data.Transaction)})
            mid = txn_dates[len(txn_dates) // 2]
            lines.append('%s query "foodmid" "SELECT date, position FROM year >= 2019 WHERE account ~ \'Food\'"' % mid.isoformat())
            shell_layer(ctx, '\n'.join(lines) + '\n', conn)
        if ctx.stop():
            return


def replay(ctx, body):
    meta = body.get('meta') or {}
    payload = body.get('payload') or {}
    print('replay: from =', meta.get('from'), 'query =', payload.get('query') if isinstance(payload, dict) else payload)
