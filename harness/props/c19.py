"""C19 — shell: settings store, dispatch, and "prints what the API returns"."""
import contextlib
import io
import os
import shlex
import tempfile
import warnings

import click.testing

import beanquery
from beanquery import shell, numberify, parser
from beanquery.parser import ast

import ledgers
import proto

RULE = ('transcripts in batch mode on generated ledgers: seeded sequences of .set (every setting x a value lexicon incl. invalid '
        'values, unknown names, non-field attribute names, wrong arity, unbalanced quotes), queries (SELECT / BALANCES / JOURNAL / '
        'PRINT), .run NAME / .run * / unknown query, .tables / .describe / .explain / unknown commands, legacy bare commands.  '
        'After every .set the output, the error text and the whole settings record are compared with the model; every line is '
        'classified by the model dispatcher and by the shell; named queries are read from the ledger (first directive of a name); every query output is compared with rendering the API result with '
        'the current settings (format plugin, numberify), `(empty)` for empty text results; the CLI is driven through click for '
        '-f / -m / -o / -q.  Non-trivial = transcript changes a setting and runs a query; distinct = distinct transcript.')
ASSUMPTIONS = ['"prints what the API returns" is glue: correspondence only', 'interactive mode, pager and readline are out of scope (batch mode)',
               'shlex.split and cmd.Cmd.parseline are trusted (their result is the input of the model)']

BOOL_VALUES = ['true', 'false', '1', '0', 'yes', 'no', 'on', 'off', 'T', 'F', ' TRUE ', 'y', 'n', 'maybe', '', '2', 'tru']
STR_VALUES = ['', 'NULL', '-', 'n/a', "it's", 'x y']
FORMAT_VALUES = ['text', 'csv', 'html', 'TEXT', '']


def signature(mm):
    if mm.model == 'oracle':
        return 'C19:' + mm.name
    return 'C19:' + mm.name


class Session:
    def __init__(self, text):
        self.dir = tempfile.mkdtemp(prefix='bqv-c19-')
        self.path = os.path.join(self.dir, 'ledger.beancount')
        with open(self.path, 'w') as f:
            f.write(text)
        self.out = io.StringIO()
        err = io.StringIO()
        with contextlib.redirect_stderr(err), warnings.catch_warnings():
            warnings.simplefilter('ignore')
            self.shell = shell.BQLShell(self.path, self.out, interactive=False, runinit=False)

    def run(self, line):
        """returns (stdout text written to outfile, stderr text)"""
        self.out.seek(0)
        self.out.truncate()
        err = io.StringIO()
        saved_warning = warnings.showwarning
        try:
            # the shell writes results to ITS output file; anything it prints to the process's stdout instead is reported
            # with the errors (a result must not go astray)
            stray = io.StringIO()
            with contextlib.redirect_stderr(err), contextlib.redirect_stdout(stray):
                try:
                    self.shell.onecmd(line)
                except Exception as exc:  # noqa: BLE001
                    return self.out.getvalue(), 'EXC:%s' % type(exc).__name__
        finally:
            warnings.showwarning = self.shell.warning
        return self.out.getvalue(), err.getvalue() + ('STRAY-STDOUT:' + stray.getvalue() if stray.getvalue() else '')

    def settings_line(self):
        st = self.shell.settings
        return ' '.join('%s=%s' % (n, st.getstr(n)) for n in st)

    def close(self):
        import shutil
        shutil.rmtree(self.dir, ignore_errors=True)


def classify_shell(sess, line):
    """which handler does the shell use: the REAL `onecmd` is run on the line with every `do_*` handler, `execute` and
    `error` of the instance replaced by recorders"""
    sh = sess.shell
    rec = []
    patched = []

    def patch(name, fn):
        setattr(sh, name, fn)
        patched.append(name)
    _, arg0, _ = sh.parseline(line)
    for name in dir(type(sh)):
        if name.startswith('do_'):
            patch(name, lambda arg, n=name[3:]: rec.append('command:%s:%s' % (n, arg)))
    patch('execute', lambda text: rec.append('query:' + text))

    def on_error(message):
        m = message.split('"')
        rec.append('command:%s:%s' % (m[1] if len(m) >= 3 else '?', arg0 or ''))
    patch('error', on_error)
    try:
        with warnings.catch_warnings():
            warnings.simplefilter('ignore')
            sh.onecmd(line)
    except Exception as exc:  # noqa: BLE001
        rec.append('EXC:' + type(exc).__name__)
    finally:
        for name in patched:
            delattr(sh, name)
    if not rec:
        return 'nothing'
    return ' + '.join(rec)


def set_layer(ctx, sess):
    rng = ctx.rng
    names = list(sess.shell.settings) + ['nosuch', 'todict', 'getstr', 'setstr', '_parse_bool', '__class__']
    steps = []
    impl_outs = []
    fixed = [['nullvalue', "it's"], ['nullvalue'], ['nullvalue', 'a"b'], ['nullvalue'], ['nullvalue', 'back\\slash'], ['nullvalue'], [],
             ['nullvalue', ''], ['nullvalue'], ['format', 'csv'], ['format']]
    nsteps = rng.range(6, 14)
    for k in range(len(fixed) + nsteps):
        name = rng.choice(names)
        kind = rng.weighted([('set', 6), ('get', 2), ('list', 1), ('arity', 1)])
        if k < len(fixed):
            kind = 'fixed'
        if kind == 'fixed':
            comps = fixed[k]
        elif kind == 'list':
            comps = []
        elif kind == 'get':
            comps = [name]
        elif kind == 'arity':
            comps = [name, 'a', 'b']
        else:
            cur = getattr(sess.shell.settings, name, None)
            if name == 'format':
                value = rng.choice(FORMAT_VALUES)
            elif isinstance(cur, bool):
                value = rng.choice(BOOL_VALUES)
            else:
                value = rng.choice(STR_VALUES + BOOL_VALUES[:3])
            comps = [name, value]
        line = '.set ' + ' '.join(shlex.quote(c) for c in comps)
        out, err = sess.run(line)
        err = err.replace('error: ', '').strip()
        impl_outs.append('out=%s|err=%s|%s' % (out.rstrip('\n').replace('\n', '\\n'), err.replace('\n', '\\n'), sess.settings_line()))
        steps.append('(set %s)' % ' '.join(proto.q(c) for c in comps))
    # restore defaults for the next layers of this session through the model-independent API
    ctx.check('set-transcript', ['(shellscript %s)' % ' '.join(steps)], lambda: ' ;; '.join(impl_outs),
              meta={'steps': steps}, payload={'steps': steps})
    # model starts from defaults: so must this session (fresh session per transcript)


def dispatch_layer(ctx, sess):
    lines = ['SELECT date, account', 'select 1', '  SELECT 1;', 'BALANCES', 'balances at cost', "JOURNAL 'Assets'", 'PRINT', '.set', '.set boxed true',
             '.run', '.run bal', '.tables', '.describe postings', '.explain SELECT 1', '.frobnicate', '.SELECT 1', '.select date', '', '   ',
             'set boxed true', 'SET boxed', 'exit', 'help', 'run bal', 'errors', 'clear', 'history', 'quit', 'parse SELECT 1', '..set', '.', 'x',
             'selectx', 'select.x', 'tables', 'describe postings', 'reload', 'EOF', '?', '? set', '(SELECT 1)', '1 + 1', '#postings']
    steps = ['(dispatch %s)' % proto.q(l) for l in lines]
    ctx.check('dispatch', ['(shellscript %s)' % ' '.join(steps)], lambda: ' ;; '.join(_norm_dispatch(classify_shell(sess, l)) for l in lines),
              meta={'lines': lines}, canon=_canon_dispatch)


def _norm_dispatch(s):
    return s


def _canon_dispatch(line):
    # `?` (help) and `!` prefixes are cmd.Cmd conveniences: compare only the class of handler
    return line.replace('command:help:', 'command:help:')


def render_api(sess, statement_text, close=None):
    """what the API + renderer print for this statement under the session's settings"""
    sh = sess.shell
    ctx_ = sh.context
    stmt = ctx_.parse(statement_text)
    if close is not None and isinstance(stmt, ast.Select) and isinstance(stmt.from_clause, ast.From) and not stmt.from_clause.close:
        stmt.from_clause.close = close
    if isinstance(stmt, ast.Print):
        from beanquery.query_execute import execute_print
        out = io.StringIO()
        execute_print(ctx_.compile(stmt), out)
        return out.getvalue()
    cur = ctx_.execute(stmt)
    desc, rows = cur.description, cur.fetchall()
    dcontext = ctx_.options['dcontext']
    st = sh.settings
    if st.numberify:
        desc, rows = numberify.numberify_results(desc, rows, dcontext.build())
    out = io.StringIO()
    # the reference is the renderer of the API (query_render), called with the settings by name - not the shell's own
    # format plug-in, which is part of what is being checked
    from beanquery import query_render
    if st.format == 'csv':
        query_render.render_csv(desc, rows, dcontext, out, expand=st.expand, nullvalue=st.nullvalue)
    elif not rows:
        print('(empty)', file=out)
    else:
        query_render.render_text(desc, rows, dcontext, out, expand=st.expand, boxed=st.boxed, spaced=st.spaced,
                                 nullvalue=st.nullvalue, narrow=st.narrow, unicode=st.unicode)
    return out.getvalue()


QUERIES = ["SELECT date, account, position WHERE account ~ 'Expenses'", "SELECT account, sum(position) AS total GROUP BY account ORDER BY account",
           "SELECT date, narration, tags, links FROM year >= 2019 LIMIT 6", "BALANCES", "BALANCES AT cost FROM year >= 2019",
           "JOURNAL 'Assets:Bank'", "SELECT date FROM #postings WHERE account = 'nothing'", "SELECT payee, number, cost_number, cost_date",
           "PRINT FROM year = 2019", "SELECT account, units(sum(position)) AS u GROUP BY 1"]


def query_layer(ctx, sess):
    rng = ctx.rng
    for _ in range(rng.range(3, 6)):
        for name in ('boxed', 'spaced', 'expand', 'narrow', 'unicode', 'numberify'):
            sess.run('.set %s %s' % (name, rng.choice(['true', 'false'])))
        sess.run('.set format %s' % rng.choice(['text', 'text', 'csv']))
        sess.run('.set nullvalue %s' % shlex.quote(rng.choice(['', 'NULL', '-'])))
        q = rng.choice(QUERIES)
        out, err = sess.run(q)
        ctx.evaluations += 1
        ctx.nontrivial_hashes.add(hash((q, sess.settings_line())))
        ctx.count('query')
        try:
            want = render_api(sess, q)
        except Exception as exc:  # noqa: BLE001
            want = 'EXC:' + type(exc).__name__
        if err.strip() or out != want:
            ctx.record_violation('shell-output-differs-from-api-rendering', 'settings %s; %s: shell %r ... api %r ... err %r' % (
                sess.settings_line(), q, out[:200], want[:200], err[:200]), payload={'query': q})
        if sess.shell.settings.format == 'text' and want == '' and out != '(empty)\n' and not q.startswith('PRINT'):
            pass
    # every format x expand on a result with multi-position inventories and NULLs
    for fmt in ('csv', 'text'):
        for expand in ('true', 'false'):
            sess.run('.set format %s' % fmt)
            sess.run('.set expand %s' % expand)
            for q in ("SELECT account, sum(position) AS total GROUP BY account ORDER BY account",
                      "SELECT date, account, balance, cost_number"):
                out, err = sess.run(q)
                ctx.evaluations += 1
                ctx.count('format-x-expand')
                try:
                    want = render_api(sess, q)
                except Exception as exc:  # noqa: BLE001
                    want = 'EXC:' + type(exc).__name__
                if err.strip() or out != want:
                    ctx.record_violation('shell-output-differs-from-api-rendering', 'settings %s; %s: shell %r ... api %r ... err %r' % (
                        sess.settings_line(), q, out[:200], want[:200], err[:200]), payload={'query': q})
    # an empty result under every format x numberify (numberify also rewrites the description)
    for fmt in ('csv', 'text'):
        for nb in ('true', 'false'):
            sess.run('.set format %s' % fmt)
            sess.run('.set numberify %s' % nb)
            for q in ("SELECT account, position, balance FROM #postings WHERE account = 'nothing'",
                      "SELECT account, sum(position) AS total, count(*) AS n WHERE account = 'nothing' GROUP BY account"):
                out, err = sess.run(q)
                ctx.evaluations += 1
                ctx.count('empty-x-format-x-numberify')
                try:
                    want = render_api(sess, q)
                except Exception as exc:  # noqa: BLE001
                    want = 'EXC:' + type(exc).__name__
                if err.strip() or out != want:
                    ctx.record_violation('shell-output-differs-from-api-rendering', 'settings %s; %s: shell %r ... api %r ... err %r' % (
                        sess.settings_line(), q, out[:200], want[:200], err[:200]), payload={'query': q})
    sess.run('.set numberify false')
    # empty text result prints "(empty)"
    sess.run('.set format text')
    out, err = sess.run("SELECT date FROM #postings WHERE account = 'nothing'")
    if out != '(empty)\n':
        ctx.record_violation('empty-result-marker', 'empty text result printed %r' % out)
    # named queries
    # (read from the ledger, not from the shell: of several query directives with one name the first is the named query,
    # the later ones are reported as duplicates)
    queries = {}
    for e in sess.shell.context.tables['entries'].entries if hasattr(sess.shell.context.tables.get('entries'), 'entries') else []:
        if type(e).__name__ == 'Query':
            queries.setdefault(e.name, e)
    if not queries:
        raise RuntimeError('no named queries found in the ledger of the session')
    if set(queries) != set(sess.shell.queries):
        ctx.record_violation('named-queries-extraction', 'the shell knows %r, the ledger defines %r' % (sorted(sess.shell.queries), sorted(queries)))
    for name, qd in sorted(queries.items()):
        out, err = sess.run('.run %s' % name)
        ctx.evaluations += 1
        ctx.count('run')
        try:
            want = render_api(sess, qd.query_string, close=qd.date)
        except Exception as exc:  # noqa: BLE001
            want = 'EXC:' + type(exc).__name__
        if out != want:
            ctx.record_violation('run-differs-from-typing-the-query', '.run %s: %r vs %r' % (name, out[:200], want[:200]))
        # a statement typed after `.run NAME` is not affected by it (no default CLOSE left behind)
        # (also the very text of the named query: typed, it is an ordinary statement without the default CLOSE)
        for typed in ('SELECT date, account, position FROM year >= 1900', 'SELECT count(*) AS n FROM year >= 1900 OPEN ON 1990-01-01', qd.query_string):
            out, err = sess.run(typed)
            ctx.evaluations += 1
            ctx.count('typed-after-run')
            try:
                want = render_api(sess, typed)
            except Exception as exc:  # noqa: BLE001
                want = 'EXC:' + type(exc).__name__
            if err.strip() or out != want:
                ctx.record_violation('statement-after-run-differs-from-api-rendering', 'after .run %s: %s: shell %r ... api %r ... err %r' % (
                    name, typed, out[:200], want[:200], err[:200]), payload={'query': typed})
    out, err = sess.run('.run nosuchquery')
    if 'not found' not in err or out:
        ctx.record_violation('run-unknown-query', 'out=%r err=%r' % (out, err))
    out, err = sess.run('.run a b')
    if 'too many arguments' not in err:
        ctx.record_violation('run-arity', 'out=%r err=%r' % (out, err))
    before = sess.settings_line()
    for bad in ('.frobnicate', '.set nosuch 1', '.set boxed maybe', '.set format html', '.set boxed 1 2', '.set todict 1', '.set getstr',
                '.set nullvalue "'):
        out, err = sess.run(bad)
        ctx.evaluations += 1
        if not err.strip() or err.startswith('EXC:') or out.strip() or sess.settings_line() != before:
            ctx.record_violation('invalid-command-not-rejected-cleanly:' + bad.split()[0] + ':' + (bad.split() + ['', ''])[1],
                                 '%s -> out=%r err=%r settings-changed=%s' % (bad, out[:100], err[:100], sess.settings_line() != before))


def cli_layer(ctx, text_ok, text_err):
    runner = click.testing.CliRunner()
    with tempfile.TemporaryDirectory(prefix='bqv-c19-') as d:
        good = os.path.join(d, 'good.beancount')
        bad = os.path.join(d, 'bad.beancount')
        open(good, 'w').write(text_ok)
        open(bad, 'w').write(text_err)
        q = "SELECT account, sum(position) AS total GROUP BY account ORDER BY account"
        sess = Session(text_ok)
        try:
            for fmt in ('text', 'csv'):
                for numb in (False, True):
                    args = [good, '-f', fmt] + (['-m'] if numb else []) + [q]
                    res = runner.invoke(shell.main, args)
                    sess.shell.settings.format = fmt
                    sess.shell.settings.numberify = numb
                    want = render_api(sess, q)
                    ctx.evaluations += 1
                    ctx.count('cli')
                    if res.exit_code != 0 or res.stdout.replace('\r\n', '\n') != want.replace('\r\n', '\n'):
                        ctx.record_violation('cli-format-numberify', 'args %r: exit %s, %r vs %r' % (args, res.exit_code, res.stdout[:200], want[:200]))
            outpath = os.path.join(d, 'out.txt')
            sess.shell.settings.format = 'text'
            sess.shell.settings.numberify = False
            res = runner.invoke(shell.main, [good, '-o', outpath, q])
            if res.exit_code != 0 or open(outpath).read() != render_api(sess, q) or res.stdout.strip():
                ctx.record_violation('cli-output-file', 'exit %s stdout %r' % (res.exit_code, res.stdout[:100]))
            # -o with an empty result, in both formats: the file holds what the API rendering prints, nothing goes to stdout
            qe = "SELECT date, account FROM #postings WHERE account = 'nothing'"
            for fmt in ('text', 'csv'):
                outpath2 = os.path.join(d, 'empty-%s.txt' % fmt)
                sess.shell.settings.format = fmt
                res = runner.invoke(shell.main, [good, '-f', fmt, '-o', outpath2, qe])
                got = open(outpath2).read() if os.path.exists(outpath2) else None
                ctx.evaluations += 1
                ctx.count('cli')
                if res.exit_code != 0 or got is None or got.replace('\r\n', '\n') != render_api(sess, qe).replace('\r\n', '\n') or res.stdout.strip():
                    ctx.record_violation('cli-output-file', '-f %s -o with an empty result: exit %s file %r stdout %r' % (fmt, res.exit_code, got, res.stdout[:100]))
            sess.shell.settings.format = 'text'
        finally:
            sess.close()
        # -q suppresses the ledger error report
        try:
            runner2 = click.testing.CliRunner(mix_stderr=False)
        except TypeError:
            runner2 = click.testing.CliRunner()
        r1 = runner2.invoke(shell.main, [bad, 'SELECT 1 FROM #'])
        r2 = runner2.invoke(shell.main, [bad, '-q', 'SELECT 1 FROM #'])
        e1 = getattr(r1, 'stderr', '') or ''
        e2 = getattr(r2, 'stderr', '') or ''
        ctx.evaluations += 1
        if 'does not balance' not in e1 and 'Transaction' not in e1:
            ctx.notes.append('ledger error report not visible on stderr without -q: %r' % e1[:100])
        if e2.strip():
            ctx.record_violation('cli-no-errors-option-ignored', '-q still reports: %r' % e2[:200])


DUPLICATE_QUERIES = """
2021-05-05 query "dup" "SELECT account, sum(position) AS total WHERE account ~ 'Assets' GROUP BY account ORDER BY account"
2021-06-06 query "dup" "SELECT account, count(*) AS n GROUP BY account ORDER BY account"
2021-07-07 query "dup" "SELECT date, narration FROM year >= 1900"
"""


def run(ctx):
    rng = ctx.rng
    n = 20 if ctx.thorough() else 6
    for k in range(n):
        text, entries, errors, options = ledgers.gen_ledger(rng, ntxn=rng.range(5, 12))
        text = text.replace('document', 'note').replace('.pdf"', '"')  # keep the ledger free of load errors
        text += DUPLICATE_QUERIES
        for t in range(10 if ctx.thorough() else 6):
            sess = Session(text)
            try:
                set_layer(ctx, sess)
            finally:
                sess.close()
        sess = Session(text)
        try:
            dispatch_layer(ctx, sess)
            query_layer(ctx, sess)
        finally:
            sess.close()
        if ctx.stop():
            return
    text_ok = ledgers.gen_ledger_text(rng, ntxn=6).replace('document', 'note').replace('.pdf"', '"')
    text_err = ledgers.gen_ledger_text(rng, ntxn=4, with_errors=True).replace('document', 'note').replace('.pdf"', '"')
    cli_layer(ctx, text_ok, text_err)


def replay(ctx, body):
    print('replay: steps =', body.get('meta'))
