"""C05 — static validation: accept/reject classification and exception classes."""
import datetime
import itertools
from decimal import Decimal

import beanquery
from beanquery import compiler, parser
from beanquery.parser import ast

import bqlprint
import gen_sql
import impl
import proto
from sqlcase import SqlCase, std_table, replay_sql

RULE = ('(a) every operator class x every pair (triple for BETWEEN) of operand types over {int, decimal, str, date, bool, object, '
        'NULL, interval, list} and every function name of the registry x all argument type tuples up to arity 2 (3 for 3-ary '
        'names): accept/reject of the compile model vs the compiler; (b) rule breakers: one validation rule broken at a time in '
        'every clause position (aggregate in WHERE / FROM / GROUP BY, aggregate of aggregate, mixed targets / HAVING / ORDER BY, '
        'uncovered targets, out-of-range positions, non-aggregate HAVING, PIVOT rules, COALESCE types, unhashable keys, IN '
        'subquery width, OPEN after CLOSE, parameter mismatches, unknown names); (c) malformed texts: mutated valid statements, '
        'token soups, invalid calendar dates, oversized numbers, empty text.  Any exception other than ParseError / '
        'CompilationError / ProgrammingError is a violation by itself; error locations must be valid spans of the text.  '
        'Non-trivial = the statement was rejected or exercises a validation rule; distinct = distinct statement.')
ASSUMPTIONS = ['exceptions raised while *evaluating* an out-of-domain constant during folding are function-domain errors (C18)',
               'AST statements are built with aliases for expression targets (text-less ASTs have no target names)']

TYPES = ['int', 'Decimal', 'str', 'date', 'bool', 'object', 'NULL', 'interval', 'list']


def signature(mm):
    if mm.model == 'oracle':
        return 'C05:' + mm.name
    return 'C05:' + mm.name + ':' + ' '.join(mm.model.split(' ')[:2]) + '/' + ' '.join(mm.impl.split(' ')[:2])


def operand(ty, k=0):
    cols = {'int': ['i', 'j'], 'Decimal': ['d', 'e'], 'str': ['s', 't'], 'date': ['dt', 'du'], 'bool': ['b', 'c'], 'object': ['o', 'o']}
    if ty in cols:
        return ast.Column(cols[ty][k % 2])
    if ty == 'NULL':
        return ast.Constant(None)
    if ty == 'interval':
        return ast.Function('interval', [ast.Constant('1 day')])
    if ty == 'list':
        return ast.Constant([1, 2])
    raise KeyError(ty)


def canon_class(line):
    """compare only the classification the property fixes"""
    if line.startswith('OK'):
        return 'OK'
    return ' '.join(line.split(' ')[:2])


def check_stmt(ctx, table_list, stmt, name, params=None, nontrivial=True, known=None):
    case = SqlCase(table_list, stmt, params, execute=False, name=name)
    case.check(ctx, nontrivial=nontrivial, canon=canon_class)
    out = case.run_impl()
    ctx.count('impl:' + canon_class(out))
    if out.startswith('ERR py:'):
        ctx.record_violation('non-dbapi-exception:%s:%s' % (out.split(':', 1)[1], known or name), '%s' % out, payload=case.payload())
    return out


def overload_matrix(ctx, table):
    facts = ctx.facts
    binops = sorted({op['name'] for op in facts['operators'] if op['kind'] == 'binop'})
    for opname in binops:
        cls = getattr(ast, opname)
        for ta, tb in itertools.product(TYPES, repeat=2):
            sel = ast.Select([ast.Target(cls(operand(ta, 0), operand(tb, 1)), 'v')], ast.Table('t'), None, None, None, None, None, None)
            check_stmt(ctx, [table], sel, 'binop-matrix')
    for opname in ('Not', 'Neg', 'IsNull', 'IsNotNull'):
        cls = getattr(ast, opname)
        for ta in TYPES:
            sel = ast.Select([ast.Target(cls(operand(ta)), 'v')], ast.Table('t'), None, None, None, None, None, None)
            check_stmt(ctx, [table], sel, 'unop-matrix')
    for ta, tb, tc in itertools.product(TYPES[:6], repeat=3):
        sel = ast.Select([ast.Target(ast.Between(operand(ta), operand(tb, 1), operand(tc)), 'v')], ast.Table('t'), None, None, None, None, None, None)
        check_stmt(ctx, [table], sel, 'between-matrix')
    names = sorted({fn['name'] for fn in facts['functions']})
    arities = {}
    for fn in facts['functions']:
        arities.setdefault(fn['name'], set()).add(len(fn['intypes']))
    for name in names:
        for n in sorted(arities[name] | {0, 1, 2}):
            if n > 3:
                continue
            tys = TYPES[:7]
            combos = itertools.product(tys, repeat=n) if n <= 2 else [(a, b, c) for a in tys[:5] for b in tys[:5] for c in tys[:5]][::3]
            for combo in combos:
                args = [operand(t, k) for k, t in enumerate(combo)]
                sel = ast.Select([ast.Target(ast.Function(name, args), 'v')], ast.Table('t'), None, None, None, None, None, None)
                check_stmt(ctx, [table], sel, 'function-matrix')
            if ctx.stop():
                return
    for name in ('nosuchfunction', 'coalesce'):
        for n in range(0, 3):
            for combo in itertools.product(TYPES[:6], repeat=n):
                sel = ast.Select([ast.Target(ast.Function(name, [operand(t, k) for k, t in enumerate(combo)]), 'v')], ast.Table('t'),
                                 None, None, None, None, None, None)
                check_stmt(ctx, [table], sel, 'function-matrix')


RULE_BREAKERS = [
    # (name, text, params)
    ('agg-in-where', 'SELECT i FROM #t WHERE sum(i) > 1', None),
    ('agg-in-where-nested', 'SELECT i FROM #t WHERE i > 0 AND (j < 2 OR count(*) = 1)', None),
    ('agg-in-from', 'SELECT i FROM sum(i) > 1', None),
    ('agg-in-groupby', 'SELECT count(*) FROM #t GROUP BY sum(i)', None),
    ('agg-in-groupby-name', 'SELECT sum(i) AS x FROM #t GROUP BY x', None),
    ('agg-in-groupby-pos', 'SELECT s, sum(i) FROM #t GROUP BY 2', None),
    ('agg-of-agg', 'SELECT sum(max(i)) FROM #t', None),
    ('agg-of-agg-deep', 'SELECT max(1 + sum(i) * 2) FROM #t', None),
    ('mixed-target', 'SELECT i + sum(j) FROM #t', None),
    ('mixed-target-2', 'SELECT s, i * count(*) FROM #t GROUP BY s', None),
    ('mixed-having', 'SELECT s FROM #t GROUP BY s HAVING sum(i) > j', None),
    ('mixed-orderby', 'SELECT s, sum(i) FROM #t GROUP BY s ORDER BY sum(i) + j', None),
    ('uncovered-target', 'SELECT s, t, sum(i) FROM #t GROUP BY s', None),
    ('uncovered-orderby', 'SELECT s, sum(i) FROM #t GROUP BY s ORDER BY t', None),
    ('groupby-pos-zero', 'SELECT s, sum(i) FROM #t GROUP BY 0', None),
    ('groupby-pos-large', 'SELECT s, sum(i) FROM #t GROUP BY 3', None),
    ('orderby-pos-zero', 'SELECT s FROM #t ORDER BY 0', None),
    ('orderby-pos-large', 'SELECT s FROM #t ORDER BY 2', None),
    ('orderby-pos-hidden', 'SELECT sum(i) FROM #t GROUP BY s ORDER BY 2', None),
    ('orderby-pos-duplicate-names', 'SELECT i AS x, j AS x FROM #t ORDER BY 2', None),
    ('having-not-aggregate', 'SELECT s, sum(i) FROM #t GROUP BY s HAVING s = "a"', None),
    ('pivot-same', 'SELECT s, t, sum(i) FROM #t GROUP BY s, t PIVOT BY s, s', None),
    ('pivot-same-by-position', 'SELECT s, t, sum(i) FROM #t GROUP BY s, t PIVOT BY s, 1', None),
    ('pivot-same-by-position-2', 'SELECT s, t, sum(i) FROM #t GROUP BY s, t PIVOT BY 2, t', None),
    ('pivot-same-positions', 'SELECT s, t, sum(i) FROM #t GROUP BY s, t PIVOT BY 1, 1', None),
    ('valid-pivot-mixed-spelling', 'SELECT s, t, sum(i) FROM #t GROUP BY s, t PIVOT BY 1, t', None),
    ('pivot-not-grouped', 'SELECT s, sum(i), count(*) FROM #t GROUP BY s PIVOT BY 1, 2', None),
    ('pivot-range', 'SELECT s, t, sum(i) FROM #t GROUP BY s, t PIVOT BY 1, 9', None),
    ('pivot-unknown', 'SELECT s, t, sum(i) FROM #t GROUP BY s, t PIVOT BY s, zz', None),
    ('pivot-non-aggregate', 'SELECT s, t FROM #t PIVOT BY s, t', None),
    ('coalesce-mixed', 'SELECT coalesce(i, s) FROM #t', None),
    ('coalesce-empty', 'SELECT coalesce() FROM #t', None),
    ('star-in-max', 'SELECT max(*) FROM #t', None),
    ('star-in-first-last', 'SELECT s, first(*), last(*) FROM #t GROUP BY s', None),
    ('star-in-scalar-functions', 'SELECT str(*), bool(*) FROM #t', None),
    ('star-in-sum', 'SELECT sum(*) FROM #t', None),
    ('star-in-length', 'SELECT length(*) FROM #t', None),
    ('valid-count-star', 'SELECT count(*), s FROM #t GROUP BY s', None),
    # aggregates hidden below BETWEEN are aggregates
    ('aggregate-in-where-between', 'SELECT s FROM #t WHERE sum(i) BETWEEN 1 AND 2', None),
    ('aggregate-in-group-key-between', 'SELECT s FROM #t GROUP BY s, count(*) BETWEEN 1 AND 2', None),
    ('aggregate-of-aggregate-between', 'SELECT count(sum(i) BETWEEN 1 AND 2) FROM #t', None),
    ('mixed-between', 'SELECT i BETWEEN min(i) AND max(i) FROM #t', None),
    ('valid-having-between', 'SELECT s, sum(i) FROM #t GROUP BY s HAVING sum(i) BETWEEN 1 AND 50', None),
    ('valid-target-between', 'SELECT s, count(*) BETWEEN 1 AND 2 AS few FROM #t GROUP BY s', None),
    ('valid-aggregate-between', 'SELECT count(*) BETWEEN 1 AND 100 AS ok FROM #t', None),
    ('coalesce-mixed-after-constant', "SELECT coalesce(s, '-', 0) FROM #t", None),
    ('coalesce-mixed-constants', "SELECT coalesce(1, 'a') FROM #t", None),
    ('coalesce-mixed-last', "SELECT coalesce(s, 'x', dt) FROM #t", None),
    ('coalesce-mixed-null-first', "SELECT coalesce(NULL, 1, 'a') FROM #t", None),
    ('coalesce-aggregate-after-constant', "SELECT coalesce(s, '-', sum(i)) FROM #t", None),
    ('valid-coalesce-constant-first', "SELECT coalesce('-', s, t) FROM #t", None),
    ('unhashable-group', 'SELECT count(*) FROM #t GROUP BY (1, 2)', None),
    ('in-subquery-wide', 'SELECT i FROM #t WHERE i IN (SELECT i, j FROM #t)', None),
    ('in-not-collection', 'SELECT i IN 3 FROM #t', None),
    ('unknown-column', 'SELECT zz FROM #t', None),
    ('unknown-column-where', 'SELECT i FROM #t WHERE zz > 1', None),
    ('unknown-column-order', 'SELECT i FROM #t ORDER BY zz', None),
    ('unknown-column-group', 'SELECT count(*) FROM #t GROUP BY zz', None),
    ('unknown-table', 'SELECT 1 FROM #nosuch', None),
    ('unknown-function', 'SELECT frobnicate(i) FROM #t', None),
    ('attribute-on-scalar', 'SELECT i.x FROM #t', None),
    ('subscript-on-scalar', "SELECT s['k'] FROM #t", None),
    ('open-after-close', 'SELECT i FROM OPEN ON 2020-02-01 CLOSE ON 2020-01-01', None),
    ('param-count', 'SELECT %s, %s FROM #t', (1,)),
    ('param-count-zero', 'SELECT %s FROM #t', ()),
    ('param-missing-name', 'SELECT %(a)s, %(b)s FROM #t', {'a': 1}),
    ('param-mixed', 'SELECT %s, %(a)s FROM #t', (1,)),
    ('param-kind-positional-given-mapping', 'SELECT %s FROM #t', {'a': 1}),
    ('param-kind-named-given-sequence', 'SELECT %(a)s FROM #t', (1,)),
    ('param-none', 'SELECT %s FROM #t', None),
    ('select-as-scalar', 'SELECT (SELECT i FROM #t) FROM #t', None),
    ('select-in-arithmetic', 'SELECT 1 + (SELECT i FROM #t) FROM #t', None),
    ('pivot-subquery-in-from', 'SELECT * FROM (SELECT s, t, sum(i) FROM #t GROUP BY s, t PIVOT BY s, t)', None),
    ('valid-date-leap', 'SELECT dt > 2016-02-29, i - 2016 - 02 - 29 FROM #t', None),
    ('valid-baseline', 'SELECT s, sum(i) FROM #t WHERE j > 0 GROUP BY s HAVING count(*) > 0 ORDER BY 2 DESC LIMIT 3', None),
    ('valid-in-subquery', 'SELECT i FROM #t WHERE i IN (SELECT j FROM #t)', None),
]

# statements that obey every rule of the property although they look like breakers
ACCEPTABLE = {'orderby-pos-duplicate-names'}

MALFORMED = ['', ' ', ';', 'SELECT', 'SELECT FROM', 'SELECT 1 FROM', 'SELECT 1,, 2', 'SELECT (1', 'SELECT 1)', 'SELEC 1',
             'SELECT 2014-13-01', 'SELECT 2014-02-30', 'SELECT 0000-01-01', 'SELECT ' + '9' * 5000, 'SELECT 1.' + '9' * 5000,
             "SELECT 'abc", 'SELECT "abc', 'SELECT i FROM #t WHERE', 'SELECT i FROM #t GROUP BY', 'SELECT i FROM #t ORDER BY',
             'SELECT i FROM #t LIMIT', 'SELECT i FROM #t LIMIT -1', 'SELECT i FROM #t LIMIT 1.5', 'SELECT i AS FROM #t',
             'SELECT i AS select FROM #t', 'SELECT select FROM #t', 'SELECT i FROM #t PIVOT BY 1', 'SELECT i FROM #t PIVOT BY 1, 2, 3',
             'SELECT * , i FROM #t', 'SELECT count(* , 1) FROM #t', 'SELECT %', 'SELECT %(', 'SELECT %()s', 'SELECT %(a)', 'BALANCES AT',
             'JOURNAL 1', 'PRINT FROM', 'SELECT i FROM #t; SELECT 1', 'SELECT i FROM #t /* unterminated', 'SELECT 1 +', 'SELECT NOT',
             'SELECT i BETWEEN 1', 'SELECT i IS', 'SELECT i IN', 'SELECT (1, )', 'SELECT (,)', 'SELECT i[1] FROM #t', 'SELECT i.[x]',
             'SELECT \x00', 'SELECT é', 'SELECT 1 FROM #t WHERE 1 = = 1', 'SELECT 1 FROM OPEN', 'SELECT 1 FROM OPEN ON',
             'SELECT 1 FROM CLOSE ON 2020-13-01', 'SELECT 1 FROM CLEAR CLEAR']


# well-shaped dates that are no calendar dates are rejected by the parser wherever they stand (not re-read as subtractions)
INVALID_DATES = ['SELECT 2014-13-01 FROM #t', 'SELECT i FROM #t WHERE i > 2014-02-30', 'SELECT i + 2015-02-29 FROM #t',
                 'SELECT s, sum(i) FROM #t GROUP BY s HAVING sum(i) > 2020-01-00', 'SELECT abs(2020-00-10) FROM #t',
                 'SELECT i FROM #t ORDER BY 2021-04-31', 'SELECT dt = 1900-02-29 FROM #t', 'SELECT 2014-13-01', 'SELECT 2100-02-29 - 1']


def span_oracle(ctx, text, params=None):
    """any location carried by a rejection is a valid span of the statement text"""
    conn = impl.connection([_SPAN_TABLE])
    try:
        stmt = parser.parse(text)
        compiler.compile(conn, stmt, params)
    except beanquery.ProgrammingError as exc:
        info = getattr(exc, 'parseinfo', None)
        if info is not None:
            pos, endpos = info.pos, info.endpos
            src = info.tokenizer.text
            ok = src == text and 0 <= pos <= endpos <= len(text) + 1 and (pos < len(text) or len(text) == 0 or pos == len(text))
            ctx.count('span-checked')
            if not ok:
                ctx.record_violation('invalid-error-span', 'span (%d, %d) for text of length %d: %r' % (pos, endpos, len(text), text[:80]))
    except Exception:  # noqa: BLE001
        pass


_SPAN_TABLE = None


def text_layer(ctx, tables):
    global _SPAN_TABLE
    _SPAN_TABLE = tables[0]
    for name, text, params in RULE_BREAKERS:
        out = check_stmt(ctx, tables, text, 'rule:' + name, params=params, known=name)
        span_oracle(ctx, text, params)
        # the rule itself: breakers must be rejected, the valid baselines accepted
        must_accept = name.startswith('valid-') or name in ACCEPTABLE
        if must_accept and not out.startswith('OK'):
            ctx.record_violation('valid-statement-rejected:' + name, '%s -> %s' % (text, out))
        if not must_accept and out.startswith('OK'):
            ctx.record_violation('rule-not-enforced:' + name, '%s -> %s' % (text, out))
    conn = impl.connection(tables)
    for text in INVALID_DATES:
        out = impl.run_select(conn, text, None, execute=False)
        ctx.evaluations += 1
        ctx.count('invalid-date:' + canon_class(out))
        if not out.startswith('ERR parse'):
            ctx.record_violation('invalid-date-not-a-parse-error', '%r -> %s' % (text, out))
    for text in MALFORMED:
        out = impl.run_select(conn, text, None, execute=False)
        ctx.evaluations += 1
        ctx.nontrivial_hashes.add(hash(text))
        ctx.count('malformed:' + canon_class(out))
        if out.startswith('ERR py:'):
            ctx.record_violation('non-dbapi-exception:%s:malformed' % out.split(':', 1)[1], '%r -> %s' % (text[:80], out))
        span_oracle(ctx, text)


def mutation_layer(ctx, tables, ncases):
    """mutated valid statements and token soups through the parser + compiler"""
    rng = ctx.rng
    tokens = ['SELECT', 'FROM', 'WHERE', 'GROUP', 'BY', 'ORDER', 'HAVING', 'LIMIT', 'DISTINCT', 'AS', 'AND', 'OR', 'NOT', 'IN', 'IS',
              'NULL', 'TRUE', 'i', 'j', 's', 'd', '#t', '1', '2.5', "'a'", '2020-01-01', '(', ')', ',', '+', '-', '*', '/', '%', '=', '<',
              '>=', '!=', '~', 'sum', 'count', '(*)', 'ASC', 'DESC', 'PIVOT', 'BETWEEN', '%s', '%(a)s', ';', '.', '[', ']']
    table = tables[0]
    conn = impl.connection(tables)
    for case in range(ncases):
        if ctx.stop():
            return
        eg = gen_sql.ExprGen(ctx.facts, rng, gen_sql.STD_SCHEMA, max_depth=2, allow_obj=False)
        if rng.chance(1, 2):
            sel = ast.Select([ast.Target(eg.expr(rng.choice(gen_sql.BASIC)), None)], ast.Table('t'),
                             eg.expr('bool', 1) if rng.chance(1, 2) else None, None, None, None, None, None)
            text = bqlprint.to_text(sel, rng, redundant=10, noise=True)
            chars = list(text)
            for _ in range(rng.range(1, 3)):
                k = rng.below(len(chars) + 1)
                op = rng.below(3)
                if op == 0 and chars:
                    del chars[min(k, len(chars) - 1)]
                elif op == 1:
                    chars.insert(k, rng.choice(list("()',\"+-*/%=<>!~.;#[] 0aS")))
                elif chars:
                    k2 = min(k, len(chars) - 1)
                    chars[k2] = rng.choice(list("()',\"+-*/%=<>!~.;#[] 0aS"))
            text = ''.join(chars)
        else:
            text = ' '.join(rng.choice(tokens) for _ in range(rng.range(1, 12)))
        params = rng.choice([None, None, (1,), {'a': 2}])
        out = impl.run_select(conn, text, params, execute=False)
        ctx.evaluations += 1
        ctx.nontrivial_hashes.add(hash((text, repr(params))))
        ctx.count('mutated:' + canon_class(out))
        if out.startswith('ERR py:'):
            kind = out.split(':', 1)[1]
            known = 'param-kind' if kind == 'TypeError' and '%' in text else 'mutated'
            ctx.record_violation('non-dbapi-exception:%s:%s' % (kind, known), '%r %r -> %s' % (text[:120], params, out),
                                 payload={'text': text, 'params': params})
        elif out.startswith('OK'):
            # accepted by the compiler: the model must accept it too
            SqlCase(tables, text, params, execute=False, name='mutated-accepted').check(ctx, canon=canon_class)
        span_oracle(ctx, text, params)


CLAUSE_STATEMENTS = [
    # (text, must be accepted)
    ('SELECT account FROM OPEN ON 2020-02-01 CLOSE ON 2020-02-01', True),
    ('SELECT account FROM OPEN ON 2020-02-01 CLOSE', True),
    ('SELECT account FROM year > 2000 OPEN ON 2020-02-01 CLOSE CLEAR', True),
    ('SELECT account FROM CLOSE CLEAR', True),
    ('BALANCES FROM OPEN ON 2020-02-01 CLOSE', True),
    ('JOURNAL FROM OPEN ON 2020-02-01 CLOSE CLEAR', True),
    ('PRINT FROM OPEN ON 2020-02-01 CLOSE', True),
    # grouping keys of a non-hashable type are rejected whether or not they are selected
    ('SELECT count(*) GROUP BY balance', False),
    ('SELECT count(*) GROUP BY meta', False),
    ('SELECT account, count(*) GROUP BY account, entry.meta', False),
    ('SELECT account, count(*) GROUP BY 1, other_accounts', False),
    ('SELECT sum(number) GROUP BY units(balance)', False),
    ('SELECT balance, count(*) GROUP BY balance', False),
    ('SELECT count(*) GROUP BY position', True),
    ('SELECT account FROM OPEN ON 2020-02-01 CLOSE ON 2020-01-31', False),
    ('BALANCES FROM OPEN ON 2020-02-01 CLOSE ON 2020-01-31', False),
    ('JOURNAL FROM year > 2000 OPEN ON 2020-02-01 CLOSE ON 2020-01-31 CLEAR', False),
    ('PRINT FROM OPEN ON 2020-02-01 CLOSE ON 2020-01-31', False),
    ('PRINT FROM year > 2000 OPEN ON 2020-02-01 CLOSE ON 2019-01-31', False),
    # aggregates in FROM and WHERE are rejected for every statement kind
    ('PRINT FROM count(date) > 0', False),
    ('PRINT FROM year = 2020 AND max(date) > 2020-01-01', False),
    ('PRINT FROM year = 2020 CLOSE ON 2020-06-01', True),
    ('BALANCES FROM sum(number) > 0', False),
    ('JOURNAL FROM count(*) > 1', False),
    ('SELECT account FROM max(date) > 2020-01-01', False),
    ('SELECT account WHERE sum(number) > 0', False),
    ('BALANCES WHERE count(*) > 0', False),
    ('SELECT account FROM year = 2020 WHERE first(date) = date', False),
    # HAVING must be an aggregate expression, also when it repeats a target or a grouping key
    ('SELECT account, sum(number) GROUP BY account HAVING account', False),
    ('SELECT account, number > 0, count(*) GROUP BY 1, 2 HAVING number > 0', False),
    ("SELECT count(*) GROUP BY flag = '!' HAVING flag = '!'", False),
    ('SELECT account, sum(number) GROUP BY account HAVING sum(number) > 0', True),
    ('SELECT account, count(*) AS n GROUP BY account HAVING count(*) > 1', True),
    # a grouping key may be referred to more than once
    ('SELECT account, sum(number) GROUP BY account, 1', True),
    ('SELECT year(date) AS y, count(*) GROUP BY y, year(date)', True),
    ('SELECT count(*) GROUP BY flag, flag', True),
    ('SELECT account, date, count(*) GROUP BY 2, account, 1, date', True),
    ('SELECT account, date, count(*) GROUP BY account', False),
    # the metadata look-ups take exactly one string key
    ('SELECT meta()', False), ('SELECT entry_meta()', False), ("SELECT account WHERE any_meta() = 'x'", False),
    ("SELECT meta('note', 'bogus')", False), ("SELECT any_meta('note', account, 42)", False), ('SELECT meta(1)', False),
    ("SELECT meta('note'), entry_meta('note'), any_meta('note')", True),
]


def clause_layer(ctx):
    """OPEN / CLOSE / CLEAR on the real ledger tables (the harness tables do not implement them): valid combinations are
    accepted, CLOSE before OPEN is a CompilationError for every statement kind, nothing else is raised"""
    import ledgers
    text, entries, errors, options = ledgers.gen_ledger(ctx.rng, ntxn=6)
    conn = ledgers.connect(entries, errors, options)
    for text_, valid in CLAUSE_STATEMENTS:
        ctx.count('clauses')
        ctx.evaluations += 1
        try:
            compiler.compile(conn, parser.parse(text_))
            out = 'OK'
        except compiler.CompilationError:
            out = 'ERR compile'
        except beanquery.ProgrammingError as exc:
            out = 'ERR %s' % type(exc).__name__
        except Exception as exc:  # noqa: BLE001
            out = 'ERR py:%s' % type(exc).__name__
        want = 'OK' if valid else 'ERR compile'
        if out != want:
            name = 'non-dbapi-exception:%s:clauses' % out[7:] if out.startswith('ERR py:') else 'clauses-misclassified'
            ctx.record_violation(name, '%s -> %s (expected %s)' % (text_, out, want), payload={'text': text_})


def sequence_layer(ctx):
    """whether a statement is accepted does not depend on the statements compiled before it on the same connection (every
    statement kind leaves the connection as it found it)"""
    import ledgers
    text, entries, errors, options = ledgers.gen_ledger(ctx.rng, ntxn=6)
    conn = ledgers.connect(entries, errors, options)
    statements = ['SELECT account, sum(number) GROUP BY account', 'PRINT', "PRINT FROM year >= 2019", 'SELECT position, entry.flag',
                  'BALANCES', "JOURNAL 'Assets'", 'SELECT count(*) AS n', 'SELECT narration FROM #transactions', 'SELECT name FROM #commodities',
                  'SELECT account FROM #accounts', 'SELECT date, type FROM #entries', 'SELECT nosuchcolumn', 'SELECT account FROM #nosuchtable',
                  'SELECT account WHERE account IN (SELECT account FROM #accounts)', 'SELECT payee FROM OPEN ON 2020-01-01 CLOSE ON 2020-06-01']

    def outcome(c, text_):
        try:
            compiler.compile(c, parser.parse(text_))
            return 'OK'
        except beanquery.ProgrammingError as exc:
            return 'ERR %s' % type(exc).__name__
        except Exception as exc:  # noqa: BLE001
            return 'ERR py:%s' % type(exc).__name__
    fresh = {t: outcome(ledgers.connect(entries, errors, options), t) for t in statements}
    order = ctx.rng.shuffle(statements * 2)
    # every statement at least once right after a PRINT
    order = ['PRINT'] + [x for t in statements for x in (t, 'PRINT')] + order
    for t in order:
        got = outcome(conn, t)
        ctx.evaluations += 1
        ctx.count('sequence')
        if got != fresh[t]:
            ctx.record_violation('validation-depends-on-history', '%s -> %s after other statements, %s on a fresh connection' % (t, got, fresh[t]),
                                 payload={'text': t})
            return
        if got.startswith('ERR py:'):
            ctx.record_violation('non-dbapi-exception:%s:sequence' % got[7:], '%s -> %s' % (t, got), payload={'text': t})
    # ... and the accepted SELECTs return what a fresh connection returns
    for t in ('SELECT count(*) AS n', 'SELECT account, sum(number) GROUP BY account'):
        a = conn.execute(t).fetchall()
        b = ledgers.connect(entries, errors, options).execute(t).fetchall()
        if a != b:
            ctx.record_violation('validation-depends-on-history', '%s: %r on the used connection, %r on a fresh one' % (t, a[:3], b[:3]))


def run(ctx):
    rng = ctx.rng
    clause_layer(ctx)
    sequence_layer(ctx)
    table = std_table(rng, nrows=3)
    # FROM <expression> resolves against the connection's default table 'postings'
    postings = impl.HTable('postings', table.coldefs, table.rows)
    text_layer(ctx, [table, postings])
    overload_matrix(ctx, table)
    mutation_layer(ctx, [table, postings], 4000 if ctx.thorough() else 500)


def replay(ctx, body):
    replay_sql(ctx, body)
