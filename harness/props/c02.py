"""C02 — aggregation: correspondence of grouping, aggregate folds and HAVING."""
import itertools
from decimal import Decimal

from beanquery.parser import ast

import gen_sql
import impl
from sqlcase import SqlCase, std_table, replay_sql

RULE = ('layer 2: every key multiset over a 3-valued domain (NULL, a, b) for tables of up to 5 rows x every aggregate '
        'function over every admissible argument type; layer 3: seeded random aggregate queries over an 11-column typed '
        'table: GROUP BY keys by expression / output name / position, visible or invisible, explicit or implicit, '
        'arithmetic over aggregates, WHERE and HAVING; fixed corpora (redundant and repeated keys, FROM-subqueries and their row order, LIMIT on groups, GROUP BY without aggregates); on the implementation: grouping keys that are tuples (amounts, positions) against a fold in the harness, aggregates over inventory-typed columns alone and side by side.  Non-trivial = at least two source rows; distinct protocol lines.')
ASSUMPTIONS = ['dict insertion order and tuple hashing/equality of int/bool/Decimal as modelled (eqKey)',
               'inventory sums are covered by C12, not here']

AGGS = ['count', 'sum', 'min', 'max', 'first', 'last']


def signature(mm):
    return 'C02:' + mm.name + ':' + mm.model.split(' ')[0] + '/' + ' '.join(mm.impl.split(' ')[:2])


def small_layer(ctx):
    dom = {'str': [None, 'a', 'b'], 'int': [None, 1, 2], 'Decimal': [None, Decimal('1.0'), Decimal('1.00')],
           'bool': [None, True, False]}
    vals = {'int': [3, None, -1, 7, 3], 'Decimal': [Decimal('1.5'), None, Decimal('-2'), Decimal('0.25'), Decimal('1.5')],
            'str': ['x', None, 'a', 'zz', ''], 'bool': [True, None, False, True, True]}
    nrows = 4 if not ctx.thorough() else 5
    for kty, kdom in dom.items():
        for keys in itertools.product(kdom, repeat=nrows):
            for vty, vv in vals.items():
                rows = [(k, vv[n]) for n, k in enumerate(keys)]
                table = impl.HTable('t', [('k', gen_sql.PYTYPES[kty]), ('v', gen_sql.PYTYPES[vty])], rows)
                targets = [ast.Target(ast.Column('k'), None), ast.Target(ast.Function('count', [ast.Asterisk()]), 'n')]
                for fn in AGGS:
                    if fn == 'sum' and vty in ('str',):
                        continue
                    targets.append(ast.Target(ast.Function(fn, [ast.Column('v')]), fn + '_v'))
                sel = ast.Select(targets, ast.Table('t'), None, None, None, None, None, None)
                SqlCase([table], sel, name='small').check(ctx, meta={'keys': keys})
                if vty == 'int' and kty in ('str', 'int'):
                    # explicit GROUP BY with an invisible key and HAVING
                    sel2 = ast.Select([ast.Target(ast.Function('sum', [ast.Column('v')]), 's')], ast.Table('t'), None,
                                      ast.GroupBy([ast.Column('k')], ast.Greater(ast.Function('count', [ast.Column('v')]),
                                                                                ast.Constant(1))),
                                      None, None, None, None)
                    SqlCase([table], sel2, name='small-having').check(ctx)
                if ctx.stop():
                    return


def random_layer(ctx, ncases):
    rng = ctx.rng
    table = None
    keyable = [n for n, t in gen_sql.STD_SCHEMA if t != 'object']
    for n in range(ncases):
        if ctx.stop():
            return
        if table is None or n % 4 == 0:
            table = std_table(rng, nrows=rng.choice([0, 1, 2, 4, 8, 12, 20]), null_pct=25, small=rng.chance(2, 3))
        eg = gen_sql.ExprGen(ctx.facts, rng, gen_sql.STD_SCHEMA, max_depth=2, allow_obj=False)
        nkeys = rng.range(0, 3)
        key_exprs = []
        for _ in range(nkeys):
            if rng.chance(2, 3):
                key_exprs.append(ast.Column(rng.choice(keyable)))
            else:
                key_exprs.append(eg.expr(rng.choice(gen_sql.BASIC), 1))
        targets = []
        group_refs = []
        explicit = rng.chance(1, 2) and nkeys > 0
        for j, ke in enumerate(key_exprs):
            visible = rng.chance(3, 4) or not explicit
            if visible:
                alias = None if isinstance(ke, ast.Column) else 'k%d' % j
                targets.append(ast.Target(ke, alias))
                how = rng.choice(['expr', 'name', 'pos'])
                if how == 'name':
                    group_refs.append(ast.Column(alias or ke.name))
                elif how == 'pos':
                    group_refs.append(len(targets))
                else:
                    group_refs.append(ke)
            else:
                group_refs.append(ke)
        nagg = rng.range(1, 3)
        for j in range(nagg):
            node, ty = gen_sql.gen_agg_expr(rng, eg, 1)
            targets.append(ast.Target(node, 'a%d' % j))
        targets = targets if not rng.chance(1, 5) else rng.shuffle(targets)
        if explicit:
            # positions may have moved after the shuffle: recompute positional references
            refs = []
            for ref, ke in zip(group_refs, key_exprs):
                if isinstance(ref, int):
                    idx = [i for i, t in enumerate(targets) if t.expression is ke]
                    ref = idx[0] + 1 if idx else ke
                refs.append(ref)
            having = None
            if rng.chance(1, 3):
                hv, hty = gen_sql.gen_aggregate(rng, eg, 1)
                having = ast.Greater(ast.Function('count', [ast.Asterisk()]), ast.Constant(rng.range(0, 2))) \
                    if hty not in ('int',) else ast.Greater(hv, ast.Constant(rng.range(-1, 3)))
            group = ast.GroupBy(refs, having)
        else:
            group = None
        where = eg.expr('bool', 2) if rng.chance(1, 2) else None
        if explicit and rng.chance(2, 3):
            # an invisible key that looks like a visible key expression but differs in a literal: a key of its own
            cands = [t.expression for t in targets if not isinstance(t.expression, ast.Column) and t.name and t.name.startswith('k')]
            if cands:
                near = gen_sql.perturb_constant(rng.choice(cands), rng)
                if near is not None:
                    group = ast.GroupBy(list(group.columns) + [near], group.having)
                    ctx.count('near-copy-key')
        frm = ast.Table('t')
        if rng.chance(1, 2):
            # the same statement over a FROM subquery delivering the table: invisible keys are subquery columns
            frm = ast.Select([ast.Target(ast.Column(n_), None) for n_, t_ in gen_sql.STD_SCHEMA], ast.Table('t'), None, None, None, None, None, None)
            ctx.count('from-subquery')
        sel = ast.Select(targets, frm, where, group, None, None, None, None)
        SqlCase([table], sel, name='random-explicit' if explicit else 'random-implicit').check(
            ctx, nontrivial=len(table.rows) >= 2)
        ctx.count('explicit' if explicit else 'implicit')
        ctx.count('keys:%d' % nkeys)


CORPUS = [
    # minimised from seeded changes: redundant grouping references, keys in any order
    'SELECT s, t, count(*) AS n, sum(i) AS x FROM #t GROUP BY 1, s, t',
    'SELECT s, t, count(*) AS n FROM #t GROUP BY s, s, 2',
    'SELECT i % 2 AS y, j AS m, count(*) AS n FROM #t GROUP BY y, i % 2, m',
    'SELECT t, s, first(i) AS f, last(i) AS l FROM #t GROUP BY s, t',
    'SELECT s, first(j) AS f, last(j) AS l, min(j) AS lo FROM #t GROUP BY s',
    'SELECT count(*) AS n, sum(i) AS x, first(s) AS f FROM #t WHERE i > 100',
    # FROM-subqueries: a grouping key that is not selected, of the same datatype as another subquery column
    'SELECT a, sum(n) AS x FROM (SELECT s AS a, t AS b, i AS n FROM #t) GROUP BY a, b',
    'SELECT b, count(*) AS c FROM (SELECT s AS a, t AS b, i AS n, j AS m FROM #t) GROUP BY b, a ORDER BY b, c',
    'SELECT sum(n) AS x, max(m) AS y FROM (SELECT s AS a, i AS n, j AS m FROM #t) GROUP BY a, m',
    # the same aggregate twice in one expression; sums of nothing but NULLs; NULL keys; HAVING that is NULL
    'SELECT s, sum(i) / (sum(i) + 100) AS r, max(i) - min(i) AS w FROM #t GROUP BY s',
    'SELECT s, sum(i) AS x FROM #t GROUP BY s HAVING sum(i) > 0 AND sum(i) < 100',
    'SELECT t, sum(j) AS x, count(j) AS c, first(j) AS f, last(j) AS l FROM #t GROUP BY t',
    'SELECT j, count(*) AS n FROM #t GROUP BY j',
    'SELECT s, count(*) AS n FROM #t GROUP BY s HAVING max(j) > 4',
    'SELECT s, count(*) AS n FROM #t GROUP BY s HAVING count(j)',
    # aggregates below COALESCE are aggregates; LIMIT cuts groups, not the rows folded into them
    "SELECT s, coalesce(max(t), 'none') AS m, coalesce(sum(j), 0) AS x FROM #t GROUP BY s",
    "SELECT coalesce(sum(j), 0) AS x, coalesce(max(s), '-') AS m FROM #t",
    "SELECT s, coalesce(sum(j), 0) + 1 AS x FROM #t",
    'SELECT s, sum(i) AS x, count(*) AS n, last(i) AS l FROM #t GROUP BY s LIMIT 2',
    'SELECT t, min(i) AS lo, max(i) AS hi FROM #t GROUP BY t LIMIT 1',
    'SELECT a, x FROM (SELECT s AS a, sum(i) AS x FROM #t GROUP BY s LIMIT 2)',
    # GROUP BY without any aggregate: one row per group, also when the groups differ only in a key that is not selected
    'SELECT s FROM #t GROUP BY s, t',
    'SELECT t FROM #t GROUP BY t, s, j',
    'SELECT count(*) AS n FROM (SELECT s FROM #t GROUP BY s, t)',
    'SELECT s, t FROM #t GROUP BY s, t',
    'SELECT s FROM #t GROUP BY s, i % 2 ORDER BY s',
]


def corpus_layer(ctx):
    import impl
    rows = [(5, None, 'b', 'x'), (3, 2, 'a', 'z'), (8, 3, 'b', 'y'), (1, None, 'a', 'z'), (4, 5, 'a', 'x'), (6, 6, 'b', 'x'), (3, 7, 'c', 'y')]
    table = impl.HTable('t', [('i', int), ('j', int), ('s', str), ('t', str)], rows)
    for text in CORPUS:
        case = SqlCase([table], text, name='corpus')
        case.check(ctx)
        if not case.run_impl().startswith('OK'):
            raise RuntimeError('corpus statement is not accepted: %s' % text)
        ctx.count('corpus')


def tuple_key_layer(ctx):
    """grouping keys whose values are themselves tuples (amounts, positions): one such key is still one key (the
    model has no tuple values: the expected groups are folded here, in first-appearance order); and the order in
    which a FROM-subquery delivers its rows is the order first() and last() and the groups follow (model)"""
    import impl
    from decimal import Decimal as D
    from beancount.core import amount, position
    a1, a2 = amount.Amount(D('5.00'), 'USD'), amount.Amount(D('7'), 'EUR')
    p1, p2 = position.Position(a1, None), position.Position(a2, None)
    cols = ['w', 'p', 'i', 's']
    rows = [(a1, p1, 1, 'x'), (a2, p1, 2, 'y'), (a1, None, 3, 'x'), (None, p2, 4, 'y'), (a2, p1, 5, 'x'), (a1, p2, 6, 'y')]
    table = impl.HTable('v', [('w', amount.Amount), ('p', position.Position), ('i', int), ('s', str)], rows)
    conn = impl.connection([table])
    for keys, spell in ((['w'], 'w'), (['p'], 'p'), (['p'], '1'), (['w'], None), (['w', 'p'], 'w, p'), (['s', 'w'], 's, w'),
                        (['p', 's'], '2, 1')):
        for hidden in (False, True):
            if hidden and spell in (None, '1', '2, 1'):
                continue
            sel = ([] if hidden else keys) + ['count(*) AS n', 'sum(i) AS x', 'first(i) AS f', 'last(i) AS l']
            text = 'SELECT %s FROM #v%s' % (', '.join(sel), ' GROUP BY ' + spell if spell else '')
            groups = {}
            for r in rows:
                k = tuple(r[cols.index(c)] for c in keys)
                groups.setdefault(k, []).append(r[2])
            want = [(() if hidden else k) + (len(v), sum(v), v[0], v[-1]) for k, v in groups.items()]
            try:
                cur = conn.execute(text)
                got = cur.fetchall()
                gdesc = [c.datatype for c in cur.description]
            except Exception as exc:  # noqa: BLE001
                got, gdesc = 'EXC:%s' % type(exc).__name__, None
            ctx.evaluations += 1
            ctx.count('tuple-keys')
            ctx.nontrivial_hashes.add(hash(('tuple-keys', text)))
            problem = None
            if repr(got) != repr(want):
                problem = 'rows %r, expected %r' % (got, want)
            elif any(v is not None and not isinstance(v, t) for r in got for v, t in zip(r, gdesc)):
                problem = 'a cell is not of the announced datatype: %r vs %r' % (got, gdesc)
            if problem:
                ctx.record_violation('tuple-valued-key', '%s: %s' % (text, problem[:600]), payload={'statement': text})
    for text in ('SELECT first(i) AS f, last(i) AS l FROM (SELECT i, s FROM #v ORDER BY i DESC)',
                 'SELECT s, first(i) AS f, last(i) AS l, count(*) AS n FROM (SELECT i, s FROM #v ORDER BY s DESC, i DESC) GROUP BY s',
                 'SELECT s, last(i) - first(i) AS span FROM (SELECT i, s FROM #v ORDER BY i DESC) GROUP BY s',
                 'SELECT s, count(*) AS n FROM (SELECT i, s FROM #v ORDER BY s DESC) GROUP BY s',
                 'SELECT s, first(i) AS f FROM (SELECT i, s FROM #v ORDER BY i DESC LIMIT 4) GROUP BY s'):
        table2 = impl.HTable('v', [('i', int), ('s', str)], [r[2:] for r in rows])
        case = SqlCase([table2], text, name='corpus')
        case.check(ctx)
        if not case.run_impl().startswith('OK'):
            raise RuntimeError('corpus statement is not accepted: %s' % text)
        ctx.count('corpus')


def inventory_aggregate_layer(ctx):
    """sums of inventories (the per-account balances of a subquery) next to other aggregates over the same column: every
    aggregate gives what it gives alone, and the inputs are not written to (oracle on the implementation)"""
    import ledgers
    text, entries, errors, options = ledgers.gen_ledger(ctx.rng, ntxn=10)
    conn = ledgers.connect(entries, errors, options)
    inner = 'SELECT account, root(account, 1) AS r, sum(position) AS inv FROM #postings GROUP BY account, r'
    single = {}
    for agg in ('sum', 'first', 'last', 'count'):
        single[agg] = [(r[0], str(r[1])) for r in conn.execute('SELECT r, %s(inv) AS x FROM (%s) GROUP BY r' % (agg, inner)).fetchall()]
    combos = [('sum', 'first'), ('first', 'sum'), ('sum', 'sum'), ('sum', 'last', 'first'), ('count', 'sum', 'first')]
    for combo in combos:
        q = 'SELECT r, %s FROM (%s) GROUP BY r' % (', '.join('%s(inv) AS x%d' % (a, k) for k, a in enumerate(combo)), inner)
        rows = conn.execute(q).fetchall()
        ctx.evaluations += 1
        ctx.count('inventory-aggregates')
        ctx.nontrivial_hashes.add(hash(('inventory-aggregates', combo)))
        for k, a in enumerate(combo):
            got = [(r[0], str(r[1 + k])) for r in rows]
            if got != single[a]:
                ctx.record_violation('aggregate-depends-on-neighbours', '%s: %s(inv) gives %r, alone it gives %r' % (q, a, got, single[a]),
                                     payload={'statement': q, 'ledger': text})
                return
    q = 'SELECT r, sum(inv) AS s FROM (%s) GROUP BY r HAVING NOT empty(sum(inv))' % inner
    want = [x for x in single['sum'] if x[1] != '()']
    got = [(r[0], str(r[1])) for r in conn.execute(q).fetchall()]
    ctx.evaluations += 1
    if got != want:
        ctx.record_violation('aggregate-depends-on-neighbours', '%s gives %r, expected %r' % (q, got, want), payload={'statement': q, 'ledger': text})
    # the total over everything equals the direct total
    total = str(conn.execute('SELECT sum(inv) AS s, first(inv) AS f FROM (%s)' % inner).fetchall()[0][0])
    direct = str(conn.execute('SELECT sum(position) AS s FROM #postings').fetchall()[0][0])
    if total != direct:
        ctx.record_violation('aggregate-depends-on-neighbours', 'sum of the per-account balances %s, direct total %s' % (total, direct),
                             payload={'ledger': text})


def run(ctx):
    corpus_layer(ctx)
    inventory_aggregate_layer(ctx)
    tuple_key_layer(ctx)
    small_layer(ctx)
    random_layer(ctx, 60000 if ctx.thorough() else 600)


def replay(ctx, body):
    replay_sql(ctx, body)
