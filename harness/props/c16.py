"""C16 — text and CSV rendering: layout correspondence and alignment / read-back oracles."""
import csv
import datetime
import io
from decimal import Decimal

from beancount.core import amount, inventory, position, display_context

import beanquery
from beanquery import query_render

import proto

RULE = ('seeded random result tables over every datatype (bool, int, str, date, decimal, set, dict/object, amount, position, cost, '
        'inventory) with NULLs, negative numbers, mixed precisions, many currencies, empty results and empty inventories x all 2^5 '
        'combinations of boxed / unicode / spaced / expand / narrow x a nullvalue / list-separator lexicon.  The real text (and '
        'CSV records) are compared with the layout model, where cells of amount-like columns are instantiated with what the real '
        'cell renderers returned; on the real text: all lines equal width, columns at fixed offsets, decimal points aligned, '
        'headers centred, int / decimal / date / str / bool cells read back to their values, CSV read back with csv.reader.  '
        'Non-trivial = at least two rows and two columns; distinct = distinct protocol line.')
ASSUMPTIONS = ['cell strings of amount / position / inventory / cost / dict columns come from the real renderers (DisplayContext formatting is trusted); '
               'their width hypothesis (every cell fits the prepared width) is checked at run time',
               'strings contain no newlines, tabs or East-Asian wide characters (width = len)']

D = Decimal
CURS = ['USD', 'EUR', 'ACME', 'BTC']
KINDS = ['bool', 'int', 'str', 'date', 'dec', 'set', 'amount', 'position', 'inventory', 'object', 'dict', 'cost']
PYTYPE = {'bool': bool, 'int': int, 'str': str, 'date': datetime.date, 'dec': Decimal, 'set': set, 'amount': amount.Amount,
          'position': position.Position, 'inventory': inventory.Inventory, 'object': object, 'dict': dict, 'cost': position.Cost}
DECS = [D('0'), D('1'), D('-1'), D('12.5'), D('-3.125'), D('1000'), D('0.001'), D('7.50'), D('-120.00'), D('-0.5'), D('99999.9'), D('2E+2'), D('0.000005'),
        D('-0.05'), D('-0.50'), D('0.5'), D('-0.001')]


def signature(mm):
    if mm.model == 'oracle':
        return 'C16:' + mm.name
    return 'C16:' + mm.name


def gen_value(rng, kind):
    if rng.chance(1, 6):
        return None
    if kind == 'bool':
        return rng.chance(1, 2)
    if kind == 'int':
        return rng.choice([0, 1, -1, 42, -1234, 1000000, 7])
    if kind == 'str':
        return rng.choice(['', 'a', 'Assets:Bank:Checking', 'x y', 'lunch with | pipe', 'ünï', 'Z'])
    if kind == 'date':
        return datetime.date(rng.range(1999, 2024), rng.range(1, 12), rng.range(1, 28))
    if kind == 'dec':
        return rng.choice(DECS)
    if kind == 'set':
        return frozenset(rng.choice(['trip', 'work', 'x', 'long-tag-name']) for _ in range(rng.range(0, 3)))
    if kind == 'amount':
        return amount.Amount(rng.choice(DECS[:10]), rng.choice(CURS))
    if kind == 'position':
        cost = None
        if rng.chance(1, 2):
            cost = position.Cost(rng.choice([D('10'), D('12.80'), D('0.5')]), 'USD', datetime.date(2020, 1, rng.range(1, 9)),
                                 rng.choice([None, 'lot1', 'a-much-longer-lot-label', 'x']))
        return position.Position(amount.Amount(rng.choice(DECS[:10]), rng.choice(CURS)), cost)
    if kind == 'cost':
        # a column of costs: labels of different lengths in any row order, dates, numbers of different widths
        return position.Cost(rng.choice([D('10'), D('12.80'), D('0.5'), D('1234.5678')]), rng.choice(['USD', 'EUR']),
                             datetime.date(2020, rng.range(1, 12), rng.range(1, 28)),
                             rng.choice([None, 'lot1', 'a-much-longer-lot-label', 'x', 'medium-label']))
    if kind == 'inventory':
        inv = inventory.Inventory()
        for _ in range(rng.range(0, 4)):
            cost = None
            cur = rng.choice(CURS)
            if rng.chance(1, 3) and cur != 'USD':
                cost = position.Cost(rng.choice([D('10'), D('12.80')]), 'USD', datetime.date(2020, 1, rng.range(1, 5)), None)
            inv.add_amount(amount.Amount(rng.choice(DECS[1:10]), cur), cost)
        return inv
    if kind == 'object':
        return rng.choice([D('1.5'), 'text', 12, datetime.date(2020, 1, 1), True])
    return {'k': rng.choice(['v', 3]), 'lineno': 3}


def make_dcontext(rng):
    dc = display_context.DisplayContext()
    for cur in CURS:
        k = rng.range(0, 4)
        dc.update(D(1).scaleb(-k) if k else D(1), cur)
    return dc


MODEL_KIND = {'bool': 'bool', 'int': 'int', 'str': 'str', 'date': 'date', 'dec': 'dec', 'set': 'set'}


def build_line(mode, kinds, headers, rows, opts, nullvalue, listsep, dcontext):
    """protocol line; raw columns are rendered by the real cell renderers"""
    ctx_r = query_render.RenderContext(dcontext, expand=opts['expand'], listsep=listsep if mode == 'text' else ',', spaced=opts['spaced'],
                                       null=nullvalue)
    cols = []
    raw = {}
    for j, k in enumerate(kinds):
        if k in MODEL_KIND:
            cols.append('(%s %s 0)' % (proto.q(headers[j]), MODEL_KIND[k]))
        else:
            r = query_render._get_renderer(PYTYPE[k], ctx_r)
            for row in rows:
                if row[j] is not None:
                    r.update(row[j])
            w = max(r.prepare(), 0)
            raw[j] = (r, w)
            cols.append('(%s raw %d)' % (proto.q(headers[j]), max(w, 0)))
    enc_rows = []
    fits = True
    for row in rows:
        cells = []
        for j, v in enumerate(row):
            if v is None:
                cells.append('null')
            elif j in raw:
                r, w = raw[j]
                s = r.format(v)
                if isinstance(s, list):
                    fits = fits and all(len(x) <= w for x in s)
                    cells.append('(rawlist %s)' % ' '.join(proto.q(x) for x in s))
                else:
                    fits = fits and len(s) <= w
                    cells.append('(raw %s)' % proto.q(s))
            elif isinstance(v, frozenset):
                cells.append(proto.enc_value(set(v)))
            else:
                cells.append(proto.enc_value(v))
        enc_rows.append('(' + ' '.join(cells) + ')')
    line = '(render %s (cols %s) (opts %d %d %d %d) %s %s (rows %s))' % (
        mode, ' '.join(cols), opts['boxed'], opts['unicode'], opts['spaced'], opts['narrow'], proto.q(nullvalue),
        proto.q(listsep if mode == 'text' else ','), ' '.join(enc_rows))
    return line, fits


def text_oracles(ctx, text, kinds, headers, rows, opts, nullvalue, dcontext=None):
    lines = text.split('\n')
    if lines and lines[-1] == '':
        lines = lines[:-1]
    problems = []
    widths = {len(l) for l in lines}
    if len(widths) > 1:
        problems.append('lines of different widths %r' % sorted(widths))
    if not opts['boxed'] and not opts['expand'] and lines:
        # column offsets from the rule line
        rule = lines[1]
        starts, k = [], 0
        for seg in rule.split('  '):
            starts.append(k)
            k += len(seg) + 2
        segs = rule.split('  ')
        body = lines[2:][::2] if opts['spaced'] else lines[2:]
        if len(segs) == len(kinds):
            n = 0
            for row in rows:
                if n >= len(body):
                    break
                l = body[n]
                n += 1
                for j, (kind, v) in enumerate(zip(kinds, row)):
                    cell = l[starts[j]:starts[j] + len(segs[j])]
                    if v is None:
                        if cell.strip() != nullvalue.strip():
                            problems.append('NULL cell shows %r' % cell)
                        continue
                    s = cell.strip()
                    try:
                        if kind == 'int' and int(s) != v:
                            problems.append('int cell %r != %r' % (s, v))
                        if kind == 'dec' and Decimal(s) != v:
                            problems.append('decimal cell %r != %r' % (s, v))
                        if kind == 'date' and datetime.date.fromisoformat(s) != v:
                            problems.append('date cell %r != %r' % (s, v))
                        if kind == 'bool' and {'TRUE': True, 'FALSE': False}[s] != v:
                            problems.append('bool cell %r != %r' % (s, v))
                        if kind == 'str' and s != v.strip():
                            problems.append('str cell %r != %r' % (s, v))
                        if kind == 'amount' and dcontext is not None:
                            # an amount reads back at the ledger's display precision for its currency
                            want = dcontext.build().format(v.number, v.currency).strip()
                            parts = s.split()
                            if len(parts) != 2 or parts[1] != v.currency or parts[0] != want:
                                problems.append('amount cell %r, expected %s %s' % (s, want, v.currency))
                    except Exception as exc:  # noqa: BLE001
                        problems.append('cell %r of kind %s does not read back (%s)' % (s, kind, type(exc).__name__))
            # decimal points aligned
            for j, kind in enumerate(kinds):
                if kind == 'dec':
                    dots = {l[starts[j]:starts[j] + len(segs[j])].find('.') for l in body[:len(rows)]
                            if '.' in l[starts[j]:starts[j] + len(segs[j])]}
                    if len(dots) > 1:
                        problems.append('decimal points at offsets %r in column %d' % (sorted(dots), j))
            # amounts of one column are aligned on the decimal point (the units digit when a currency shows no fraction)
            import re as _re
            for j, kind in enumerate(kinds):
                if kind == 'amount':
                    offs = set()
                    for l in body[:len(rows)]:
                        cell = l[starts[j]:starts[j] + len(segs[j])]
                        m = _re.search(r'-?[0-9][0-9,]*', cell)
                        if m and not cell.strip() == nullvalue.strip():
                            offs.add(m.end())
                    if len(offs) > 1:
                        problems.append('amounts of column %d have their decimal points at offsets %r' % (j, sorted(offs)))
            # one-line inventories in tabular form (at most five slots): the n-th lot of a commodity has a slot of its own, at
            # the same offset in every row, and the amounts in it are aligned on the decimal point
            if not opts['expand']:
                import collections as _collections
                for j, kind in enumerate(kinds):
                    if kind != 'inventory':
                        continue
                    counts = _collections.Counter()
                    for row in rows:
                        if row[j] is not None:
                            for cur, n in _collections.Counter(p.units.currency for p in row[j]).items():
                                counts[cur] = max(counts[cur], n)
                    if sum(counts.values()) > 5:
                        continue
                    offs = {}
                    for l, row in zip(body, rows):
                        if row[j] is None:
                            continue
                        cell = l[starts[j]:starts[j] + len(segs[j])]
                        masked = _re.sub(r'\{[^}]*\}', lambda m: '#' * len(m.group()), cell)
                        seen = _collections.Counter()
                        for m in _re.finditer(r'(-?[0-9][0-9,]*)(\.[0-9]+)? +([A-Z]+)', masked):
                            cur = m.group(3)
                            offs.setdefault((cur, seen[cur]), set()).add(m.end(1))
                            seen[cur] += 1
                    bad = {k: sorted(o) for k, o in offs.items() if len(o) > 1}
                    if bad:
                        problems.append('inventory column %d: lots of one commodity at different offsets %r' % (j, bad))
            # header centred
            for j, h in enumerate(headers):
                cell = lines[0][starts[j]:starts[j] + len(segs[j])]
                if len(h) <= len(segs[j]):
                    left = len(cell) - len(cell.lstrip(' '))
                    right = len(cell) - len(cell.rstrip(' '))
                    if cell.strip() != h.strip() or abs(left - right) > 1 + (len(h) - len(h.strip())):
                        problems.append('header %r rendered %r' % (h, cell))
                elif not opts['narrow']:
                    problems.append('header %r cut although narrow is off' % h)
    ctx.count('text-oracle')
    return problems


def run_case(ctx, rng):
    ncols = rng.range(1, 5)
    kinds = [rng.choice(KINDS) for _ in range(ncols)]
    headers = [rng.choice(['a', 'amount', 'sum(position)', 'x', 'a long header name', 'n']) for _ in kinds]
    nrows = rng.choice([0, 1, 2, 3, 5, 8])
    rows = [tuple(gen_value(rng, k) for k in kinds) for _ in range(nrows)]
    opts = {k: bool(rng.below(2)) for k in ('boxed', 'unicode', 'spaced', 'expand', 'narrow')}
    nullvalue = rng.choice(['', '', 'NULL', '-', 'n/a'])
    listsep = rng.choice(['  ', ', ', ' | '])
    dcontext = make_dcontext(rng)
    desc = [beanquery.Column(h, PYTYPE[k]) for h, k in zip(headers, kinds)]
    payload = {'kinds': kinds, 'headers': headers, 'rows': rows, 'opts': opts, 'nullvalue': nullvalue, 'listsep': listsep}

    def real_text():
        out = io.StringIO()
        query_render.render_text(desc, rows, dcontext, out, listsep=listsep, nullvalue=nullvalue, **opts)
        return out.getvalue()

    def real_csv():
        out = io.StringIO()
        query_render.render_csv(desc, rows, dcontext, out, expand=opts['expand'], nullvalue=nullvalue)
        return out.getvalue()
    try:
        text = real_text()
    except Exception as exc:  # noqa: BLE001
        ctx.record_violation('render-text-raises-%s' % type(exc).__name__, repr(exc), payload=payload)
        return
    line, fits = build_line('text', kinds, headers, rows, opts, nullvalue, listsep, dcontext)
    if not fits:
        ctx.record_violation('cell-wider-than-prepared-width', 'a cell renderer returned a string wider than prepare() announced', payload=payload)
    lines = text.split('\n')
    if lines and lines[-1] == '':
        lines = lines[:-1]
    ctx.check('text', [line], lambda: '\\n'.join(lines), nontrivial=nrows >= 2 and ncols >= 2, payload=payload,
              meta={'kinds': kinds, 'opts': opts})
    problems = text_oracles(ctx, text, kinds, headers, rows, opts, nullvalue, dcontext)
    if problems:
        ctx.record_violation('text-oracle', '; '.join(problems[:4]) + ' in\n' + text[:600], payload=payload)
    # CSV
    try:
        ctext = real_csv()
    except Exception as exc:  # noqa: BLE001
        ctx.record_violation('render-csv-raises-%s' % type(exc).__name__, repr(exc), payload=payload)
        return
    records = list(csv.reader(io.StringIO(ctext)))
    cline, _ = build_line('csv', kinds, headers, rows, opts, nullvalue, ',', dcontext)
    ctx.check('csv', [cline], lambda: '\\n'.join('\\t'.join(rec) for rec in records), nontrivial=nrows >= 2 and ncols >= 2, payload=payload,
              meta={'kinds': kinds, 'opts': opts})
    bad = [rec for rec in records if len(rec) != ncols]
    if bad or not records or records[0] != headers:
        ctx.record_violation('csv-shape', 'records with %r fields for %d columns' % ([len(r) for r in bad][:3], ncols), payload=payload)
    if not opts['expand'] and len(records) != 1 + nrows:
        ctx.record_violation('csv-record-count', '%d records for %d rows' % (len(records), nrows), payload=payload)
    # the format plug-ins the shell and the command line go through print the same tables ("(empty)" for an empty text table)
    from beanquery import shell
    settings = dict(opts, nullvalue=nullvalue, format='text', numberify=False, pager=False)
    for fmt, want in (('csv', ctext), ('text', text if rows else '(empty)\n')):
        if fmt == 'text' and listsep != '  ':
            continue      # the list separator is not a shell setting
        out = io.StringIO()
        try:
            shell.FORMATS[fmt](desc, rows, out, dcontext=dcontext, **settings)
            got = out.getvalue()
        except Exception as exc:  # noqa: BLE001
            got = 'EXC:%s' % type(exc).__name__
        ctx.count('plugin:' + fmt)
        if got != want:
            ctx.record_violation('format-plugin-differs:' + fmt, 'the %s plug-in prints %r ..., the renderer %r ...' % (fmt, got[:200], want[:200]),
                                 payload=payload)
    for k in ('boxed', 'unicode', 'spaced', 'expand', 'narrow'):
        ctx.count('%s=%d' % (k, opts[k]))
    for k in set(kinds):
        ctx.count('kind:' + k)


def run(ctx):
    rng = ctx.rng
    for case in range(6000 if ctx.thorough() else 1000):
        if ctx.stop():
            return
        run_case(ctx, rng)


def replay(ctx, body):
    print('replay: see payload (kinds, headers, rows, opts)')
