"""C01 — row-level evaluation: correspondence of the engine model with beanquery."""
import datetime
from decimal import Decimal

from beanquery.parser import ast

import gen_sql
import impl
from sqlcase import SqlCase, std_table, replay_sql

RULE = ('layer 2: every operator overload of the generated registry x every NULL position x value classes, as target '
        'and as WHERE on a 3-row table; layer 3: seeded type-directed random expression trees over an 11-column typed '
        'table (int, decimal, str, date, bool, object) with 0..8 rows.  Non-trivial = the statement compiled and the '
        'WHERE clause / targets reference a column; distinct = distinct protocol line.')
ASSUMPTIONS = ['regex operands are literal patterns (model: case-insensitive substring search)',
               'decimal coefficients stay within the 28-digit context (rounding by Decimal._fix is modelled)',
               'NaN / Infinity / negative zero are outside the generator']
TRUSTED = ['CPython int/Decimal/str/date semantics as transcribed in Model/Value.lean, Model/Sem.lean']

REPR = {
    'int': [0, 3, -2], 'Decimal': [Decimal('0'), Decimal('2.5'), Decimal('-1.25')], 'str': ['', 'abc', 'B'],
    'date': [datetime.date(2020, 2, 29), datetime.date(1999, 12, 31), datetime.date(2021, 3, 1)],
    'bool': [True, False, True], 'object': [Decimal('1.5'), 'abc', datetime.date(2020, 1, 1)],
}


def signature(mm):
    return 'C01:' + mm.name + ':' + mm.model.split(' ')[0] + '/' + ' '.join(mm.impl.split(' ')[:2])


def overload_layer(ctx):
    """every overload x NULL position x representative values"""
    facts = ctx.facts
    for op in facts['operators']:
        tys = op['intypes']
        if op['name'] in ('In', 'NotIn'):
            continue
        tys = [('int' if t == 'any' else t) for t in tys]
        if not all(t in REPR for t in tys):
            continue
        n = len(tys)
        cols = [('a%d' % k, t) for k, t in enumerate(tys)]
        # rows: all NULL patterns x 3 value classes
        rows = []
        for mask in range(1 << n):
            for cls in range(3):
                rows.append(tuple(None if (mask >> k) & 1 else REPR[t][(cls + k) % 3] for k, t in enumerate(tys)))
        table = impl.HTable('t', [(c, gen_sql.PYTYPES[t]) for c, t in cols], rows)
        args = [ast.Column(c) for c, _ in cols]
        cls_ = getattr(ast, op['name'])
        node = cls_(*args)
        sel = ast.Select([ast.Target(node, 'v')] + [ast.Target(a, None) for a in args], ast.Table('t'),
                         None, None, None, None, None, None)
        SqlCase([table], sel, name='overload-target').check(ctx, meta={'overload': op})
        ctx.count('overload:' + op['name'])
        if op['out'] == 'bool':
            sel = ast.Select([ast.Target(a, None) for a in args], ast.Table('t'), node, None, None, None, None, None)
            SqlCase([table], sel, name='overload-where').check(ctx, meta={'overload': op})
        if ctx.stop():
            return
    # IN / NOT IN against list constants, every basic type, NULL on the left
    for t in ('int', 'Decimal', 'str', 'date'):
        table = impl.HTable('t', [('a', gen_sql.PYTYPES[t])], [(v,) for v in REPR[t]] + [(None,)])
        items = [v for v in REPR[t][:2] if not (isinstance(v, (int, Decimal)) and v < 0)]
        for cls_ in (ast.In, ast.NotIn):
            node = cls_(ast.Column('a'), ast.Constant(list(items)))
            sel = ast.Select([ast.Target(node, 'v'), ast.Target(ast.Column('a'), None)], ast.Table('t'), node,
                             None, None, None, None, None)
            SqlCase([table], sel, name='in-list').check(ctx)
    # every modelled scalar function overload x NULL positions
    for fn in facts['functions']:
        if fn['name'] not in gen_sql.MODELLED_FUNCTIONS or not fn['kind'].startswith('func'):
            continue
        tys = [('str' if t == 'any' else t) for t in fn['intypes']]
        if not tys or not all(t in REPR for t in tys):
            continue
        n = len(tys)
        cols = [('a%d' % k, t) for k, t in enumerate(tys)]
        rows = []
        for mask in range(1 << n):
            for cls in range(3):
                rows.append(tuple(None if (mask >> k) & 1 else REPR[t][(cls + k) % 3] for k, t in enumerate(tys)))
        table = impl.HTable('t', [(c, gen_sql.PYTYPES[t]) for c, t in cols], rows)
        node = ast.Function(fn['name'], [ast.Column(c) for c, _ in cols])
        sel = ast.Select([ast.Target(node, 'v')], ast.Table('t'), None, None, None, None, None, None)
        SqlCase([table], sel, name='function').check(ctx, meta={'function': fn})
        ctx.count('function:' + fn['name'])


def random_layer(ctx, ncases, depth):
    rng = ctx.rng
    table = None
    for k in range(ncases):
        if ctx.stop():
            return
        if table is None or k % 5 == 0:
            table = std_table(rng, nrows=rng.choice([0, 1, 2, 3, 5, 8]))
        eg = gen_sql.ExprGen(ctx.facts, rng, gen_sql.STD_SCHEMA, max_depth=rng.range(1, depth))
        targets = [ast.Target(eg.expr(rng.choice(gen_sql.BASIC)), 'c%d' % j) for j in range(rng.range(1, 3))]
        where = eg.expr('bool') if rng.chance(2, 3) else None
        use_from = where is not None and rng.chance(1, 4)
        if use_from:
            frm = ast.From(eg.expr('bool', 1))
            # FROM expression is compiled against the *default* table; harness statements name the table
            # through the connection's 'postings' entry
            table2 = impl.HTable('postings', table.coldefs, table.rows)
            sel = ast.Select(targets, frm, where, None, None, None, None, None)
            SqlCase([table2], sel, name='random-from').check(ctx, nontrivial=True)
        else:
            sel = ast.Select(targets, ast.Table('t'), where, None, None, None, None, None)
            SqlCase([table], sel, name='random').check(ctx, nontrivial=len(table.rows) > 0)
        for name, n in eg.stats['ops'].items():
            ctx.count('op:' + name, n)
        ctx.count('rows:%d' % len(table.rows))


def text_layer(ctx, ncases):
    """a few statements through the real parser (text), so naming and literal parsing are on the path"""
    rng = ctx.rng
    table = std_table(rng, nrows=6)
    texts = [
        "SELECT i + j * 2, d / e, s FROM #t WHERE i IS NOT NULL AND (j > 0 OR d < 1.5)",
        "SELECT i / j, i % j, d % e FROM #t",
        "SELECT NOT b, b AND c, b OR c, coalesce(s, t, 'x') FROM #t",
        "SELECT dt - du, dt + 1, dt - 1, year(dt), month(du) FROM #t WHERE dt BETWEEN 2000-01-01 AND 2021-01-01",
        "SELECT s ~ 'a', s !~ 'B', i IN (1, 2, 3), s NOT IN ('a', 'abc') FROM #t",
        "SELECT o + 1, o = 'abc', o < 2020-06-01 FROM #t",
        "SELECT length(s), upper(s), lower(t), substr(s, 0, 2), str(i), str(d), int(d), decimal(i) FROM #t",
    ]
    for text in texts:
        SqlCase([table], text, name='text').check(ctx)
    # conditions without a column (the compiler folds them): NULL and every falsy value exclude every row
    for cond in ("NULL", "0", "0.0", "''", "FALSE", "TRUE", "1", "'x'", "1 / 0 > 1", "5 % 0 = 1", "int('x') = 1", "'abc' ~ str(NULL)",
                 "NOT NULL", "1 / 0 > 1 AND TRUE", "NULL OR FALSE", "coalesce(NULL, 0)", "coalesce(0, 1)", "coalesce('', 'x') = ''",
                 "coalesce(FALSE, TRUE)"):
        SqlCase([table], 'SELECT i, s FROM #t WHERE ' + cond, name='constant-where').check(ctx)
        SqlCase([table], 'SELECT count(*) AS n FROM #t WHERE ' + cond, name='constant-where').check(ctx)
    for value in (None, 0, False, True, ''):
        SqlCase([table], 'SELECT i FROM #t WHERE %s', (value,), name='constant-where').check(ctx)
        SqlCase([table], 'SELECT i FROM #t WHERE %(p)s', {'p': value}, name='constant-where').check(ctx)
    # AND / OR with a constant operand still look at the operands before it
    SqlCase([table], "SELECT b AND FALSE, (i > 1 AND FALSE) IS NULL, coalesce(b AND FALSE, TRUE), b AND 0, NULL AND FALSE, b OR TRUE, "
            "(b OR TRUE) IS NULL, i > 1 AND 1 > 2, FALSE AND b, TRUE OR b FROM #t", name='text').check(ctx)
    SqlCase([table], "SELECT i FROM #t WHERE coalesce(b AND FALSE, TRUE)", name='text').check(ctx)
    SqlCase([table], "SELECT i FROM #t WHERE (i > 1 AND FALSE) IS NULL", name='text').check(ctx)
    SqlCase([table], "SELECT i, j, i / j, i % j, d / e, d % e, i % e, d % j, 0 / j, 0.0 % e, (i - i) / (j - j), (d - d) % (i - i) FROM #t", name='text').check(ctx)
    # coalesce returns the first non-NULL value, falsy or not
    SqlCase([table], "SELECT coalesce(i, 99), coalesce(d, 9.5), coalesce(s, 'x'), coalesce(b, TRUE), coalesce(i * 0, 7), coalesce(NULL, 0) FROM #t",
            name='text').check(ctx)


def date_string_layer(ctx):
    """strings read as dates, by the cast and by the implicit cast of an object operand: which spellings are dates"""
    import impl
    dd = datetime.date
    rows = [('2020-1-31', '2020-1-31', dd(2020, 2, 1)), ('2020-02-9', '2020-02-9', dd(2020, 2, 9)), ('20200131', '20200131', dd(2020, 1, 31)),
            ('2020-W05-5', '2020-W05-5', dd(2020, 1, 31)), ('2020-02-29', '2020-02-29', dd(2020, 2, 29)), ('abc', 'abc', dd(2020, 1, 1)),
            (dd(2020, 3, 1), '2020-3-1', None), (None, None, dd(2020, 1, 1)), ('2021-02-29', ' 2020-01-01', dd(2021, 3, 1)),
            ('2020-01-31 ', '2020-001-01', dd(2020, 1, 31)), ('0099-1-1', '99-1-1', dd(2020, 1, 31))]
    table = impl.HTable('x', [('o', object), ('s', str), ('dt', dd)], rows)
    for text in ("SELECT date(s), date(s) IS NULL, year(date(s)), coalesce(year(date(s)), 0), coalesce(month(date(o)), 0) FROM #x",
                 "SELECT o >= 2020-02-01, o < dt, o = dt, dt - o, coalesce(dt - o, -1) FROM #x",
                 "SELECT s FROM #x WHERE date(s) = 2020-01-31", "SELECT s FROM #x WHERE date(s) IS NULL", "SELECT s FROM #x WHERE o <= dt",
                 "SELECT date('2020-1-31'), date('2020-02-9'), date('20200131'), date('2020-W05-5'), date('2020-02-30'), date('2020-12-1') FROM #x"):
        case = SqlCase([table], text, name='text')
        case.check(ctx)
        if not case.run_impl().startswith('OK'):
            raise RuntimeError('statement is not accepted: %s' % text)


def run(ctx):
    overload_layer(ctx)
    date_string_layer(ctx)
    text_layer(ctx, 0)
    random_layer(ctx, 60000 if ctx.thorough() else 700, 5 if ctx.thorough() else 3)


def replay(ctx, body):
    replay_sql(ctx, body)
