"""C12 — inventory homomorphism and running balance on generated ledgers."""
from decimal import Decimal

from beancount.core import amount, convert, inventory

import ledgers

RULE = ('generated ledgers (multi-currency, dated lots at cost, sales reducing lots, price conversions) x selections (WHERE / FROM '
        'filters, groupings): (a) sum(position) of every group vs the model inventory sum of the group\'s positions, units(sum) '
        'and cost(sum) vs the model reducers; (b) on the implementation: f(sum(position)) == sum(f(position)) for f in units, cost, '
        'value, convert, and group sums adding up to the total; (c) the balance column referenced 0..3 times in the targets and in '
        'WHERE, compared row by row with the model scan, last balance == sum(position); (d) LIMIT on grouped sums, BALANCES [AT f] WHERE ... against the grouped sums; lots at zero cost in every ledger.  Non-trivial = selection has at least two '
        'postings; distinct = distinct protocol line.')
ASSUMPTIONS = ['exact arithmetic: coefficients within 28 digits (no Decimal rounding in sums / products)',
               'value() / convert() use Beancount\'s price map (opaque): checked as homomorphism identities on the implementation only']

S = 10 ** 9


def signature(mm):
    if mm.model == 'oracle':
        return 'C12:' + mm.name
    return 'C12:' + mm.name


def sc(d, scale=S):
    v = d * scale
    assert v == v.to_integral_value(), d
    return int(v)


def enc_pos(pos):
    u, c = pos.units, pos.cost
    if c is None:
        return '(p "%s" %d nil)' % (u.currency, sc(u.number))
    return '(p "%s" %d (%d "%s" %d "%s"))' % (u.currency, sc(u.number), sc(c.number), c.currency, c.date.toordinal(), c.label or '')


def show_inv(inv, scale=S):
    items = []
    for pos in inv:
        u, c = pos.units, pos.cost
        if c is None:
            key = u.currency
        else:
            key = '%s{%d %s %d %s}' % (u.currency, sc(c.number), c.currency, c.date.toordinal(), c.label or '')
        items.append('%s=%d' % (key, sc(u.number, scale)))
    return '<' + '; '.join(sorted(items)) + '>'


WHERES = [None, "account ~ 'Assets'", "account ~ 'Expenses'", "currency = 'ACME'", "year >= 2020", "number > 0",
          "account ~ 'Broker' OR account ~ 'Income'", "flag = '*' AND NOT account ~ 'Rent'"]


def inv_close(a, b, divides=False):
    """equal inventories up to the rounding of the 28-digit decimal context; with `divides` (price conversions divide) a
    total that cancels may leave a residue of the last digits on one side only: such a position counts as absent"""
    if a == b:
        return True
    if a is None or b is None:
        return False
    da = {(p.units.currency, p.cost): p.units.number for p in a}
    db = {(p.units.currency, p.cost): p.units.number for p in b}
    if divides:
        da = {k: v for k, v in da.items() if abs(v) > Decimal('1e-18')}
        db = {k: v for k, v in db.items() if abs(v) > Decimal('1e-18')}
    if set(da) != set(db):
        return False
    return all(abs(da[k] - db[k]) <= max(abs(da[k]) * Decimal('1e-20'), Decimal('1e-18') if divides else 0) for k in da)


def sums_layer(ctx, conn):
    rng = ctx.rng
    for where in WHERES:
        w = ' WHERE ' + where if where else ''
        for key in ('account', 'currency', 'year', "root(account, 1)", None, 'payee', 'cost_currency', "meta('note')"):
            # (the last three keys are NULL for part of the postings: those postings form the NULL group)
            sel = 'SELECT %s AS k, position FROM #postings%s' % (key or "'all'", w)
            rows = conn.execute(sel).fetchall()
            groups = {}
            for k, pos in rows:
                groups.setdefault(k, []).append(pos)
            q = 'SELECT %s AS k, sum(position) AS s, units(sum(position)) AS u, cost(sum(position)) AS c FROM #postings%s GROUP BY 1' % (key or "'all'", w)
            got = {r[0]: r for r in conn.execute(q).fetchall()}
            if set(got) != set(groups):
                ctx.record_violation('group-keys', '%s: groups %r vs %r' % (q, sorted(map(str, got)), sorted(map(str, groups))))
                continue
            for k, plist in groups.items():
                ps = ' '.join(enc_pos(p) for p in plist)
                ctx.check('sum', ['(invsum %s)' % ps], lambda k=k: show_inv(got[k][1]), nontrivial=len(plist) >= 2,
                          meta={'query': q, 'group': str(k)})
                ctx.check('units-of-sum', ['(invunits %s)' % ps], lambda k=k: show_inv(got[k][2]), nontrivial=len(plist) >= 2,
                          meta={'query': q, 'group': str(k)})
                ctx.check('cost-of-sum', ['(invcost %d %s)' % (S, ps)], lambda k=k: show_inv(got[k][3], S * S), nontrivial=len(plist) >= 2,
                          meta={'query': q, 'group': str(k)})
            # LIMIT cuts the list of groups; every group that is left still sums all of its postings
            full = conn.execute(q).fetchall()
            for n in (1, 2, 3):
                cut = conn.execute(q + ' LIMIT %d' % n).fetchall()
                ctx.evaluations += 1
                ctx.count('limit-oracle')
                if [(r[0], show_inv(r[1])) for r in cut] != [(r[0], show_inv(r[1])) for r in full[:n]]:
                    ctx.record_violation('limit-truncates-sums', '%s LIMIT %d: %s, without LIMIT the first groups are %s' % (
                        q, n, [(r[0], str(r[1])) for r in cut], [(r[0], str(r[1])) for r in full[:n]]), payload={'query': q})
                    break
            # partition: group sums add up to the total
            total = conn.execute('SELECT sum(position) FROM #postings%s' % w).fetchall()
            acc = inventory.Inventory()
            for r in got.values():
                acc.add_inventory(r[1])
            ctx.count('partition-oracle')
            if rows and acc != total[0][0]:
                ctx.record_violation('partition-sums', '%s: group sums %s != total %s' % (q, acc, total[0][0]))
        # BALANCES is such a grouped sum: over the postings its WHERE clause selects, per account; its rows add up to the total
        for at in ('', ' AT units', ' AT cost'):
            stmt = 'BALANCES%s%s' % (at, w)
            fx = {'': 'position', ' AT units': 'units(position)', ' AT cost': 'cost(position)'}[at]
            try:
                got = {r[0]: r[1] for r in conn.execute(stmt).fetchall()}
                want = {r[0]: r[1] for r in conn.execute('SELECT account, sum(%s) FROM #postings%s GROUP BY account' % (fx, w)).fetchall()}
                total = conn.execute('SELECT sum(%s) FROM #postings%s' % (fx, w)).fetchall()
            except Exception as exc:  # noqa: BLE001
                ctx.record_violation('balances-raises', '%s: %r' % (stmt, exc))
                continue
            ctx.evaluations += 1
            ctx.count('balances-oracle')
            acc = inventory.Inventory()
            for inv in got.values():
                acc.add_inventory(inv)
            if set(got) != set(want) or any(not inv_close(got[k], want[k]) for k in got) or (total and not inv_close(acc, total[0][0])):
                ctx.record_violation('balances-sums', '%s: %s, the selected postings sum per account to %s (total %s)' % (
                    stmt, {k: str(v) for k, v in got.items()}, {k: str(v) for k, v in want.items()}, total[0][0] if total else None),
                    payload={'query': stmt})
        # homomorphism identities on the implementation
        # dates inside the ledger's span, so that prices before and after them differ
        pdates = sorted({r[0] for r in conn.execute('SELECT date FROM #prices').fetchall()})
        mids = [d.isoformat() for d in ([pdates[0], pdates[len(pdates) // 2]] if pdates else [])]
        dated = []
        for md in mids:
            dated += [("convert({}, 'USD', %s)" % md,) * 2, ("value({}, %s)" % md,) * 2, ("convert({}, 'EUR', %s)" % md,) * 2]
        for f, g in [('units({})', 'units({})'), ('cost({})', 'cost({})'), ('value({})', 'value({})'),
                     ("convert({}, 'USD')", "convert({}, 'USD')"), ("convert({}, 'EUR')", "convert({}, 'EUR')"),
                     ('value({}, 2020-06-30)', 'value({}, 2020-06-30)'),
                     ("convert({}, 'EUR', 2020-06-30)", "convert({}, 'EUR', 2020-06-30)"),
                     # the amount overloads (through units / cost of a position), also towards a currency nothing is priced in
                     ("convert(units({}), 'EUR')", "convert(units({}), 'EUR')"), ("convert(units({}), 'CHF')", "convert(units({}), 'CHF')"),
                     ("convert(cost({}), 'EUR')", "convert(cost({}), 'EUR')"), ("convert({}, 'CHF')", "convert({}, 'CHF')")] + dated:
            # grouped by account, by transaction (the legs of one currency cancel to exactly zero) and over everything
            for key in ('account', 'id', "'all'"):
                q = 'SELECT %s AS k, %s AS a, sum(%s) AS b FROM #postings%s GROUP BY %s' % (
                    key, f.format('sum(position)'), g.format('position'), w, 'k' if key == "'all'" else key)
                if key != 'account' and f.split('(')[0] not in ('units', 'cost') and not ctx.thorough():
                    continue
                try:
                    res = conn.execute(q).fetchall()
                except Exception as exc:  # noqa: BLE001
                    ctx.record_violation('homomorphism-query-raises', '%s: %r' % (q, exc))
                    continue
                ctx.evaluations += 1
                ctx.count('homomorphism-oracle')
                for acc_name, a, b in res:
                    if not inv_close(a, b, divides=f.split('(')[0] in ('convert', 'value')):
                        ctx.record_violation('f-of-sum-differs-from-sum-of-f:' + f.split('(')[0], '%s: %s: %s vs %s' % (q, acc_name, a, b),
                                             payload={'query': q})
                        break


def nested_sums_layer(ctx, conn):
    """sums of inventories that come out of a subquery, consumed more than once in the outer statement: every consumer sees
    the same values, and the inner rows are not altered by being summed"""
    inner = 'SELECT account, root(account, 1) AS r, sum(position) AS total FROM #postings GROUP BY account, r'
    rows = conn.execute(inner).fetchall()
    want_all = inventory.Inventory()
    by_root = {}
    for account, r, total in rows:
        want_all.add_inventory(total)
        by_root.setdefault(r, inventory.Inventory()).add_inventory(total)
    q = 'SELECT sum(total) AS a, units(sum(total)) AS u, cost(sum(total)) AS c, sum(total) AS again, first(total) AS f, last(total) AS l FROM (%s)' % inner
    got = conn.execute(q).fetchall()
    ctx.evaluations += 1
    ctx.count('nested-sums')
    if got:
        a, u, c, again, f, l = got[0]
        problems = []
        if a != want_all or again != want_all:
            problems.append('sum(total) = %s / %s, expected %s' % (a, again, want_all))
        if u != want_all.reduce(convert.get_units) or c != want_all.reduce(convert.get_cost):
            problems.append('units / cost of the sum differ from reducing the expected sum')
        if rows and (f != rows[0][2] or l != rows[-1][2]):
            problems.append('first(total) = %s (row value %s), last(total) = %s (row value %s)' % (f, rows[0][2], l, rows[-1][2]))
        if problems:
            ctx.record_violation('nested-sum-of-inventories', '%s: %s' % (q, '; '.join(problems)), payload={'query': q})
    q2 = 'SELECT r, sum(total) AS a, sum(total) AS b FROM (%s) GROUP BY r' % inner
    for r, a, b in conn.execute(q2).fetchall():
        ctx.evaluations += 1
        if a != by_root.get(r) or b != by_root.get(r):
            ctx.record_violation('nested-sum-of-inventories', '%s: group %s: %s / %s, expected %s' % (q2, r, a, b, by_root.get(r)), payload={'query': q2})
            break


def balance_layer(ctx, conn):
    rng = ctx.rng
    for where in WHERES:
        w = ' WHERE ' + where if where else ''
        sel = conn.execute('SELECT position FROM #postings%s' % w).fetchall()
        positions = [r[0] for r in sel]
        for refs in (1, 2, 3):
            targets = ', '.join(['balance'] * refs)
            # interleave other columns between the references
            if refs >= 2:
                targets = targets.replace(', ', ', account, ', 1)
            q = 'SELECT %s FROM #postings%s' % (targets, w)
            rows = conn.execute(q).fetchall()
            bal_idx = [i for i, c in enumerate(conn.execute(q).description) if c.name == 'balance']

            def impl(rows=rows, bal_idx=bal_idx):
                return ' | '.join(','.join(show_inv(r[i]) for i in bal_idx) for r in rows)
            line = '(balance %s)' % ' '.join('(%d %d %s)' % (n + 1, refs, enc_pos(p)) for n, p in enumerate(positions))
            ctx.check('balance-refs-%d' % refs, [line], impl, nontrivial=len(positions) >= 2, meta={'query': q})
            # last balance == sum(position)
            if rows:
                total = conn.execute('SELECT sum(position) FROM #postings%s' % w).fetchall()[0][0]
                ctx.count('last-balance-oracle')
                if rows[-1][bal_idx[-1]] != total:
                    ctx.record_violation('last-balance-differs-from-sum', '%s: %s vs %s' % (q, rows[-1][bal_idx[-1]], total))
        # balance together with a subquery that also scans the postings and consults its own balance
        q = ('SELECT balance, account IN (SELECT account FROM #postings WHERE NOT empty(balance)), balance FROM #postings%s' % w)
        rows = conn.execute(q).fetchall()
        line = '(balance %s)' % ' '.join('(%d 2 %s)' % (n + 1, enc_pos(p)) for n, p in enumerate(positions))
        ctx.check('balance-with-subquery-scan', [line], lambda rows=rows: ' | '.join('%s,%s' % (show_inv(r[0]), show_inv(r[2])) for r in rows),
                  nontrivial=len(positions) >= 2, meta={'query': q})
    # the balance as a later argument of a function whose earlier argument is NULL on part of the rows: every posting
    # scanned still enters the running balance
    rows4 = conn.execute('SELECT cost_currency, only(cost_currency, balance) AS o FROM #postings').fetchall()
    pos4 = [r[0] for r in conn.execute('SELECT position FROM #postings').fetchall()]
    run4 = inventory.Inventory()
    expect4 = []
    for (cc, _), p in zip(rows4, pos4):
        run4.add_position(p)
        expect4.append(None if cc is None else run4.get_currency_units(cc))
    ctx.count('balance-as-later-argument-oracle')
    ctx.evaluations += 1
    if [r[1] for r in rows4] != expect4:
        k = next(i for i, (a, b) in enumerate(zip([r[1] for r in rows4], expect4)) if a != b)
        ctx.record_violation('balance-as-later-argument', 'only(cost_currency, balance): row %d gives %s, the postings so far hold %s' % (
            k, rows4[k][1], expect4[k]), payload={'query': 'SELECT cost_currency, only(cost_currency, balance) AS o FROM #postings'})
    # a condition that consults the balance: it is the sum over all postings scanned so far
    allpos = [r[0] for r in conn.execute('SELECT position FROM #postings').fetchall()]
    q = "SELECT balance FROM #postings WHERE empty(balance) OR NOT empty(balance)"
    rows = conn.execute(q).fetchall()
    line = '(balance %s)' % ' '.join('(%d 2 %s)' % (n + 1, enc_pos(p)) for n, p in enumerate(allpos))
    ctx.check('balance-in-where', [line], lambda: ' | '.join('%s,%s' % (show_inv(r[0]), show_inv(r[0])) for r in rows), meta={'query': q})
    q2 = "SELECT account, balance FROM #postings WHERE NOT empty(balance) AND account ~ 'Expenses'"
    rows2 = conn.execute(q2).fetchall()
    accts = [r[0] for r in conn.execute('SELECT account FROM #postings').fetchall()]
    # scanned-so-far semantics: expected balances are the prefix sums over ALL postings at the selected rows
    run = inventory.Inventory()
    expect = []
    for a, p in zip(accts, allpos):
        run.add_position(p)
        if not run.is_empty() and 'Expenses' in a:
            expect.append(show_inv(run))
    # a FROM filter next to a condition consulting the balance: only postings of entries passing FROM are scanned
    years = sorted({r[0] for r in conn.execute('SELECT year FROM #postings').fetchall()})
    for y in years:
        q3 = "SELECT account, balance FROM year = %d WHERE NOT empty(balance) AND account ~ 'Assets|Expenses'" % y
        rows3 = conn.execute(q3).fetchall()
        run3 = inventory.Inventory()
        expect3 = []
        for yy, a, p in conn.execute('SELECT year, account, position FROM #postings').fetchall():
            if yy != y:
                continue
            run3.add_position(p)
            if not run3.is_empty() and ('Assets' in a or 'Expenses' in a):
                expect3.append(show_inv(run3))
        ctx.count('balance-from-and-where-oracle')
        ctx.evaluations += 1
        if [show_inv(r[1]) for r in rows3] != expect3:
            ctx.record_violation('balance-with-from-filter', '%s: %r vs %r' % (q3, [show_inv(r[1]) for r in rows3][:3], expect3[:3]),
                                 payload={'query': q3})
    ctx.count('balance-in-where-oracle')
    ctx.evaluations += 1
    if [show_inv(r[1]) for r in rows2] != expect:
        ctx.record_violation('balance-consulted-in-where', '%s: %r vs %r' % (q2, [show_inv(r[1]) for r in rows2][:3], expect[:3]))


ZERO_COST_TAIL = '''
2030-01-07 * "fixed" "received for free"
  Assets:Broker:ACME  3 ACME {0.00 USD, "gift"}
  Income:Gains  0.00 USD

2030-01-08 * "fixed" "received for free, again"
  Assets:Broker:ACME  2 ACME {0 USD}
  Income:Gains  0 USD
'''


# a commodity held at cost in USD, priced in USD only, next to a EUR / USD rate: converting it to EUR goes through the cost currency
PRICES_TAIL = """
2030-01-09 price ACME 11.00 USD
2030-01-09 price EUR 1.10 USD
"""


def priceless_layer(ctx):
    """a ledger without any price directive: value() and convert() have nothing to convert with, and still commute with sum"""
    import re
    rng = ctx.rng
    text, entries, errors, options = ledgers.gen_ledger(rng, ntxn=12)
    text = re.sub(r'^[0-9-]+ price .*\n', '', text, flags=re.M)
    entries, errors, options = ledgers.load(text + ZERO_COST_TAIL)
    conn = ledgers.connect(entries, errors, options)
    if conn.execute('SELECT count(*) FROM #prices').fetchall() not in ([], [(0,)]):
        raise RuntimeError('the priceless ledger has prices')
    for f in ('value({})', "convert({}, 'USD')", "convert({}, 'EUR')", 'value({}, 2020-06-30)', 'cost({})', 'units({})'):
        for key in ('account', "'all'", 'currency'):
            q = 'SELECT %s AS k, %s AS a, sum(%s) AS b FROM #postings GROUP BY k' % (key, f.format('sum(position)'), f.format('position'))
            try:
                res = conn.execute(q).fetchall()
            except Exception as exc:  # noqa: BLE001
                ctx.record_violation('homomorphism-query-raises', '%s: %r' % (q, exc))
                continue
            ctx.evaluations += 1
            ctx.count('priceless-oracle')
            ctx.nontrivial_hashes.add(hash(('priceless', q)))
            for k, a, b in res:
                if not inv_close(a, b, divides=f.split('(')[0] in ('convert', 'value')):
                    ctx.record_violation('f-of-sum-differs-from-sum-of-f:' + f.split('(')[0], '%s (no prices in the ledger): %s: %s vs %s' % (q, k, a, b),
                                         payload={'query': q, 'ledger': text})
                    break
        # ... and the running balance under f is the running sum of f
        q = 'SELECT %s AS a, %s AS b FROM #postings' % (f.format('balance'), f.format('position'))
        run_ = inventory.Inventory()
        for n, (a, b) in enumerate(conn.execute(q).fetchall()):
            if isinstance(b, amount.Amount):
                run_.add_amount(b)
            elif b is not None:
                run_.add_position(b)
            if not inv_close(a, run_, divides=f.split('(')[0] in ('convert', 'value')):
                ctx.record_violation('f-of-balance-differs-from-running-sum-of-f:' + f.split('(')[0], '%s (no prices): row %d: %s vs %s' % (q, n, a, run_),
                                     payload={'query': q, 'ledger': text})
                break


def run(ctx):
    rng = ctx.rng
    priceless_layer(ctx)
    n = 12 if ctx.thorough() else 2
    for k in range(n):
        text, entries, errors, options = ledgers.gen_ledger(rng, ntxn=rng.range(8, 25))
        # lots received for nothing: their cost is zero, which is a cost all the same
        entries, errors, options = ledgers.load(text + ZERO_COST_TAIL + PRICES_TAIL)
        conn = ledgers.connect(entries, errors, options)
        sums_layer(ctx, conn)
        nested_sums_layer(ctx, conn)
        balance_layer(ctx, conn)
        if ctx.stop():
            return


def replay(ctx, body):
    print('replay: query =', body.get('meta', {}).get('query'))
