"""Deterministic PRNG (splitmix64): every random choice of every check derives from one state."""
MASK = (1 << 64) - 1


class Rng:
    def __init__(self, seed):
        self.s = (seed * 0x9E3779B97F4A7C15 + 0x1234567) & MASK

    def next(self):
        self.s = (self.s + 0x9E3779B97F4A7C15) & MASK
        z = self.s
        z = ((z ^ (z >> 30)) * 0xBF58476D1CE4E5B9) & MASK
        z = ((z ^ (z >> 27)) * 0x94D049BB133111EB) & MASK
        return z ^ (z >> 31)

    def below(self, n):
        return self.next() % n if n > 0 else 0

    def range(self, lo, hi):
        """inclusive"""
        return lo + self.below(hi - lo + 1)

    def chance(self, num, den):
        return self.below(den) < num

    def choice(self, seq):
        return seq[self.below(len(seq))]

    def weighted(self, pairs):
        total = sum(w for _, w in pairs)
        k = self.below(total)
        for v, w in pairs:
            if k < w:
                return v
            k -= w
        return pairs[-1][0]

    def shuffle(self, seq):
        seq = list(seq)
        for i in range(len(seq) - 1, 0, -1):
            j = self.below(i + 1)
            seq[i], seq[j] = seq[j], seq[i]
        return seq

    def fork(self, tag):
        h = 0
        for ch in str(tag):
            h = (h * 131 + ord(ch)) & MASK
        return Rng(self.next() ^ h)
