#!/usr/bin/env python3
"""Regenerate DESIGN.md: tools/design_head.md + generated sections 5-7 + tools/design_tail.md.

Section 5 is read from the code (theorem names from the Lean property files, rule and assumptions from the
harness modules, level note from tools/manifest_gen.py), section 6 from known_findings.json, section 7 from
seeded/*/meta.json, so the document cannot drift from what the checks do.
"""
import glob
import importlib.util
import json
import os
import re
import sys

VERIF = os.path.dirname(os.path.dirname(os.path.abspath(__file__)))
sys.path.insert(0, os.path.join(VERIF, 'tools'))

BOUNDARY = {
    'C01': 'modelled: `query_execute.execute_select` row loop (FROM filter, WHERE, target evaluation), `EvalAnd/Or/Not/Coalesce`, the operator classes of `query_compile.py`, ~90 functions of `query_env.py`.  Not modelled: regular expressions beyond literal patterns, NaN / Infinity.',
    'C02': 'modelled: `execute_select` aggregation branch (allocator, `initialize` / `update` / `finalize`, the dict store keyed by the GROUP BY tuple, HAVING) and the aggregators count, sum, first, last, min, max.  dict insertion order and tuple hashing of int / bool / Decimal are modelled by `eqKey`.  Values that are themselves tuples (amounts, positions, costs) are not values of the model: grouping by them is checked on the implementation against a fold written in the harness (an oracle, not the model).',
    'C03': 'modelled: `execute_select` ORDER BY (`nullitemgetter`, one `list.sort` per run of equal direction, `reversed(order_spec)`), DISTINCT (`uses_distinct`), LIMIT.  `list.sort` stability and Python ordering across types are assumptions of the model (`sortable` = where Python raises TypeError).',
    'C04': 'modelled: the overload tables of every operator (generated), the semantic functions, `types.function_lookup` with MRO, implicit casts of `_binaryop`.  The type oracle runs on the implementation: the Python type of every fetched cell against the announced datatype.',
    'C05': 'modelled: `Compiler._compile_*` validation rules and `Compiler.compile` parameter checks; the parser is covered by C06.  Exceptions raised while folding an out-of-domain constant are function-domain errors (C18).',
    'C06': 'modelled: the grammar `bql.ebnf` as a deterministic scanner (`Lexer.lean`) and recursive-descent parser (`Parser.lean`) with the semantic actions of `parser/__init__.py`.  The parser proof is at token level; the scanner proof (`C06_lex`) covers written tokens separated by blanks (any letter case, all literal spellings, the context-dependent reading of `%`); other white space, comments and tokens written without a separator are tied by correspondence only.  TatSu is not modelled: "shipped parser = grammar" is translation validation (V).',
    'C07': 'modelled: `get_target_name`, wildcard expansion, `_compile_group_by` / `_compile_order_by` appending invisible targets, `result_indexes`.',
    'C08': 'modelled: `SubqueryTable`, `EvalConstantSubquery1D` (IN / NOT IN over a materialised one-column subquery, empty result = NULL), `_compile_from` for subqueries (table scoping after the repair).',
    'C09': 'modelled: placeholder collection and numbering in `Compiler.compile` (old and repaired), `_placeholder`, constant folding of pure nodes; the model is pure, so "never mutates the source" is checked by deep snapshots.',
    'C10': 'modelled: `cursor.Cursor` (execute, fetchone, fetchmany, fetchall, iteration - also by an iterator kept across other calls (`heldNext`) -, arraysize, rowcount, rownumber, description) and `Column` as a 7-item sequence.',
    'C11': 'modelled: the row structure of every table of `sources/beancount.py` / `query_env.py`, `other_accounts`, the metadata lookups; column *values* are Beancount attributes compared cell by cell with a direct traversal of the loaded directives (`id`, `weight`, `position` by a direct call).',
    'C12': 'modelled: Beancount `Inventory.add_amount` with strict lot keys, `reduce`, the `balance` column with its per-scan guard.  Exact arithmetic domain (28 digits).  `value` / `convert` use Beancount\'s price map: checked as identities on the implementation.',
    'C13': 'modelled: `BeanTable.prepare` and Beancount\'s `summarize.open / close / clear`, `transfer_balances`, `create_entries_from_balances`, `balance_by_account`, `truncate` over transactions (other directives carry no postings), without price conversions.  Conversions entries, kept open / price directives are implementation-level only.',
    'C14': 'modelled: `transform_balances` / `transform_journal` are not modelled but *dumped*: their output ASTs are generated facts compared with a specification document; `execute_print`\'s collection loop.  "Loads back to equal directives" is Beancount\'s printer / loader: correspondence only.',
    'C15': 'modelled: `execute_query` pivot branch (key collection, sorting, block placement), `_compile_pivot_by`.',
    'C16': 'modelled: `render_rows`, `render_text`, `render_csv` layout, the bool / int / str / date / decimal / set renderers.  Amount / position / cost / inventory cell formatters are checked by oracles on the rendered output (alignment, read-back at display precision).',
    'C17': 'modelled: `numberify_results` and its converters (identity, amount, position, inventory), the currency census and its ordering.',
    'C18': 'modelled: the date, account, string, numeric and cast functions of `query_env.py` with CPython `datetime`, `relativedelta`, `str`, `decimal` and `textwrap.shorten` (maxwidth; texts without hyphens) semantics; grep / grepn / subst / findfirst for literal patterns only.',
    'C19': 'modelled: `shell.Settings` (typed fields, `setstr` / `getstr`), `DispatchingShell.default` / `onecmd` dispatch, `BQLShell.parse` default close.  The rendering of results is C16; the CLI options are checked by running the entry point.',
    'C20': 'modelled: each execution as a state machine over private state; the old process-wide cache as shared state.  Interleaving granularity of the harness: yield-function boundaries (`vp_yield`) in row evaluation, aggregate output and HAVING, not bytecodes.',
}

FALSE_ALARMS = [
    ('C08/C09', 'harness', 'found by the multi-seed sweeps on the unchanged tree (as `VIOLATION ... no-failing-input-found`, harness exception): a pure aggregate over an empty selection returns no row, which the harness indexed; a per-row parameter taken from a column with NULLs made a statement the compiler rightly rejects (`int <= NULL`).  Both harness layers were corrected; every layer added since is run with seeds 1..7 on the unchanged tree before it is committed'),
    ('C01/C18', 'model', '`round(decimal)` returns a Decimal, `int(" 1")` strips white space, `date("2020-1-2")` accepts unpadded fields (strptime), an inventory quantised to zero is NULL: the model was corrected, the code was right'),
    ('C03', 'model', 'the first sort model inserted before equal elements (unstable); corrected to insert after them'),
    ('C04', 'oracle', 'the "accepted query must not raise" oracle counted every exception; restricted to TypeError / AttributeError (the classes the property excludes); other classes belong to C18\'s function domains'),
    ('C05', 'harness', 'FROM-expression cases need a `postings` table on the harness connection; the harness, not the compiler, was wrong'),
    ('C05', 'harness', 'valid OPEN / CLOSE / CLEAR statements were first run on a harness table, which does not implement `update()` (NotImplementedError): moved to a layer on real ledger tables before the check was committed'),
    ('C12', 'oracle', '`value()` / `convert()` divide: results are compared up to 1e-20 relative (28-digit context), exact equality was a false alarm'),
    ('C13', 'model', 'the transfer date of CLEAR is the date of the last *directive*, not of the last transaction: the model now carries every directive (without postings)'),
    ('C14', 'oracle', 'PRINT round trip: padding transactions synthesised by the loader (flag P) are not printed as directives; excluded from the comparison'),
    ('C16', 'oracle', 'spaced mode: the oracle sliced rows without the blank separator lines; negative widths are clamped by the renderer and by the model'),
    ('C18', 'model', 'positions of functions without an implementation in the model (NOFUNC) were compared; now filtered and counted as outside the model'),
    ('C19', 'oracle', 'CSV output of the CLI uses \\r\\n line ends; normalised before comparison; `.` alone dispatches to nothing'),
    ('C01', 'model', 'found by the thorough tier on the unchanged tree after the case counts were raised: (a) CPython decimals have a signed zero (`-1 * 0.000` prints `-0.000`), the model\'s decimals do not - `str()` results are compared modulo the sign of a zero and the generator applies `str()` to columns and constants only; (b) `decimal(\'2E+1\')` is 20: the model\'s numeral parser now accepts exponents; (c) `date(y, m, d)` with an argument beyond a C int: the model returned NULL where the code raised OverflowError - here the CODE was at odds with its own intent (it turns ValueError into NULL): repaired by a `fix:` commit (§6.1), the model keeps NULL'),
    ('C05', 'harness', 'a mutated text happened to read `FROM #`: every connection has the null table `\'\'`, which the harness did not define to the model (model: unknown table, code: accepted); now always defined'),
    ('C06', 'model', 'TatSu\'s zero-or-more gather `\',\'.{expression}` accepts `f(, 1)` (when no expression stands first the repetition still takes `, expression`): the model rejected it; `dropLeadComma` added to the model, the round-trip proof adapted (printed arguments never start with a comma), a corpus of separator placements runs first'),
    ('C09', 'harness', 'two statements of the ledger-history list were rejected by the unchanged tree (`meta` is no column of #accounts; PRINT cannot be executed through a cursor): both sides produced the same error string, so the cases were vacuous; corrected, and a rejected list statement is now a harness error'),
    ('C12', 'oracle', 'totals that cancel exactly on one side leave a residue of the last digits (1e-27) on the other when a conversion divides: for `convert` / `value` such a position counts as absent; `units` / `cost` stay exact'),
    ('C14', 'oracle', 'PRINT with a filter can print a sale without the purchase it reduces: the loader then refuses to book the reloaded text, which says nothing about PRINT; the printed text is now compared as written (parser level) always, and as loaded only when it books'),
    ('C17', 'oracle', 'the conservation oracle identified columns by name; with two columns of one name (legal) it misreported: skipped there, the model comparison covers those tables'),
    ('C05 / C19', 'model', 'found by new fixed cases on the unchanged tree before they were committed: `types.Any` does not match the pseudo-type of `*` (a `typing.NewType` object is no `type`), so `max(*)`, `str(*)` are compilation errors - the model accepted them; Python\'s `repr` doubles backslashes in the echo of `.set` - the model did not.  Both models corrected'),
    ('run_check', 'infrastructure', 'theorem names containing `\'` broke the audit regex; a `signatures` list was added for findings with several signatures; stale replays are cleared at the start of a run; the driver must flush after every line'),
]


def load_claimed():
    spec = importlib.util.spec_from_file_location('manifest_gen', os.path.join(VERIF, 'tools', 'manifest_gen.py'))
    mod = importlib.util.module_from_spec(spec)
    spec.loader.exec_module(mod)
    return mod.CLAIMED


def prop_module_strings(pid):
    """RULE and ASSUMPTIONS of harness/props/cxx.py without importing beanquery"""
    import ast as pyast
    src = open(os.path.join(VERIF, 'harness', 'props', pid.lower() + '.py')).read()
    tree = pyast.parse(src)
    out = {}
    for node in tree.body:
        if isinstance(node, pyast.Assign) and len(node.targets) == 1 and isinstance(node.targets[0], pyast.Name):
            name = node.targets[0].id
            if name in ('RULE', 'ASSUMPTIONS'):
                try:
                    out[name] = pyast.literal_eval(node.value)
                except Exception:  # noqa: BLE001
                    pass
    return out


def theorems(pid):
    src = open(os.path.join(VERIF, 'lean', 'BqlVerif', 'Properties', pid + '.lean')).read()
    return re.findall(r'^theorem (%s_[^\s(:{\[]+)' % pid, src, flags=re.M)


def wrap(text, width=100, indent=''):
    import textwrap
    return '\n'.join(textwrap.wrap(text, width=width, initial_indent=indent, subsequent_indent=indent))


def section5(props, claimed):
    out = ['## 5. Per-property: theorems, model boundary, correspondence rule, assumptions', '',
           'Legend: **T** theorems of `Properties/Cxx.lean` (all kernel-checked on every run, axioms audited); '
           '**M** what of the code the model covers; **B / S** the correspondence rule and the oracles run directly on the '
           'implementation (from `harness/props/cxx.py`); **A** assumptions; **N** why the level is what it is.', '']
    for p in props:
        pid = p['id']
        c = claimed.get(pid)
        ms = prop_module_strings(pid)
        out.append('### %s %s' % (pid, p['title']))
        out.append('')
        th = theorems(pid)
        out.append(wrap('**T** (%d): %s.' % (len(th), ', '.join('`%s`' % t for t in th))))
        out.append('')
        out.append(wrap('What they say: ' + c['text']))
        out.append('')
        out.append(wrap('**M** ' + BOUNDARY[pid]))
        out.append('')
        out.append(wrap('**B / S** ' + ms.get('RULE', '')))
        out.append('')
        for a in ms.get('ASSUMPTIONS', []):
            out.append(wrap('**A** ' + a))
        out.append('')
        note = c['note']
        note = note.split('validated by correspondence, not verified. ', 1)[-1]
        if note.strip():
            out.append(wrap('**N** ' + note))
            out.append('')
    return '\n'.join(out)


def section6():
    kf = json.load(open(os.path.join(VERIF, 'known_findings.json')))
    out = ['', '---------------------------------------------------------------------------', '',
           '## 6. Genuine defects found on the unchanged tree, and false alarms corrected', '',
           wrap('Every entry below was exhibited by a check of this framework against the real code (failing input shown). '
                'A defect was repaired by one minimal unguarded `fix:` commit in /repo when the patch corrects the behaviour at '
                'its cause, is a few lines in one place, removes no working behaviour and keeps the 241 tests green (14 tests '
                'fail before and after: pre-existing, unrelated renderer tests); otherwise it is a known finding. '
                'The model follows the repaired code; each repaired defect is re-detected if the fix is reverted (this was '
                'exercised for the F-13, F-15, balance-cache, date_bin and shell fixes).'), '',
           '### 6.1 Repaired (`fix:` commits; recorded in `known_findings.json` under `fixed`)', '']
    for line in kf.get('fixed', []):
        out.append('* ' + (line if isinstance(line, str) else json.dumps(line)).replace('fixed: ', ''))
    out += ['', '### 6.2 Known findings (not repaired: a maintainer might defend the behaviour, or the repair is not small)', '',
            '| id | property | signature(s) | what fails | replay |', '|----|----------|--------------|------------|--------|']
    for f in kf['findings']:
        sigs = f.get('signatures') or [f.get('signature')]
        out.append('| %s | %s | %s | %s | `%s` |' % (f['id'], f['property'], '<br>'.join('`%s`' % s for s in sigs),
                                                    f['description'].replace('|', '\\|'), f['replay'].replace('|', '\\|')))
    out += ['', wrap('Each is matched by signature only: a different failing input under the same property has a different '
                     'signature and is reported as a violation.  The checks print `KNOWN-FINDING: property=… …` for them and exit 0.'), '',
            '### 6.3 False alarms of my own checks (corrected in the machinery; never listed as findings)', '',
            '| where | kind | what was wrong |', '|-------|------|----------------|']
    for where, kind, what in FALSE_ALARMS:
        out.append('| %s | %s | %s |' % (where, kind, what))
    out += ['', wrap('Quirks that shape the *specification* rather than violate it (C06): list literals drop NULL / empty items '
                     'after the first; `(expr).attr` does not parse; a GROUP BY / ORDER BY key beginning with a numeral is read as a '
                     'position; negative numbers are not literals; `FROM (SELECT …)` is a subquery table, `FROM ((SELECT …))` a FROM '
                     'expression; `%` after an operand is the modulo operator.  They define well-formedness (`wfStmt`).'), '']
    return '\n'.join(out)


def section7():
    rows = []
    for path in sorted(glob.glob(os.path.join(VERIF, 'seeded', '*', 'meta.json'))):
        m = json.load(open(path))
        rows.append(m)
    out = ['', '---------------------------------------------------------------------------', '',
           '## 7. Seeded changes: which check catches which change', '',
           wrap('Nine rounds (A/B ... Q/R; the ninth over 13 properties), two changes per property per round (344 changes).  Each change was written by a fresh sub-agent that '
                'saw only the text of one property, the summaries of the earlier changes for it (from round 2 on, so as not to '
                'repeat them) and its own scratch worktree of /repo - nothing from /verif - with the brief: break the property, keep '
                'the library importable and the test suite result unchanged (14 failed, 241 passed), need something specific to '
                'manifest.  I confirmed each demonstration and ran the property\'s check from a scratch copy of /verif against the '
                'patched tree (`tools/seeded_eval.py`: rounds 1-4 on /repo itself, patched and reverted, quick tier then thorough if '
                'quick passed; rounds 5 to 9 and the final re-evaluation of everything on private copies of the repository, four side by side, quick tier).  None '
                'of these patches is committed in /repo.  `seeded/<id>-<letter>/` holds patch.diff, demonstration.py and meta.json: '
                '`runs` is the final outcome, `earlier_runs` the outcome with the checks as they stood before the change was '
                'used to strengthen them.  Every round found gaps (9, 15, 15, 13, 14, 6, 21, 17 misses of about 40 and 11 of 26; in rounds 4 to 6 part of the gaps had already '
                'been closed from the agents\' summaries before the evaluation, in rounds 7 to 9 nothing was); each was in a '
                'generator or an oracle, never in a theorem, and the checks were strengthened, never loosened (the narrative is '
                'below the table).  The table shows the final outcome.'), '',
           '| change | what it does | manifests when | caught by | tier | signatures |',
           '|--------|--------------|----------------|-----------|------|------------|']
    n_det = 0
    for m in rows:
        runs = m.get('runs', [])
        hit = next((r for r in runs if r['exit'] == 1), None)
        if hit:
            n_det += 1
        out.append('| %s-%s | %s | %s | %s | %s | %s |' % (
            m['property'], m['seed'], (m.get('summary') or '').replace('|', '\\|')[:260], (m.get('manifests_when') or '').replace('|', '\\|')[:200],
            './check %s' % m['property'] if hit else '**not caught**', hit['tier'] if hit else '-',
            ', '.join(hit.get('signatures', [])[:3]) if hit else ''))
    out += ['', '%d of %d seeded changes are caught.' % (n_det, len(rows)), '']
    notes = os.path.join(VERIF, 'seeded', 'NOTES.md')
    if os.path.exists(notes):
        out.append(open(notes).read())
    return '\n'.join(out)


def main():
    props = [json.loads(l) for l in open(os.path.join(VERIF, 'properties.jsonl'))]
    claimed = load_claimed()
    head = open(os.path.join(VERIF, 'tools', 'design_head.md')).read()
    tail = open(os.path.join(VERIF, 'tools', 'design_tail.md')).read()
    cb = ''
    p = os.path.join(VERIF, 'tools', 'cleanbuild.txt')
    if os.path.exists(p):
        cb = open(p).read().strip()
    tail = tail.replace('__CLEANBUILD__', cb)
    text = head + section5(props, claimed) + section6() + section7() + tail
    open(os.path.join(VERIF, 'DESIGN.md'), 'w').write(text)
    print('DESIGN.md: %d lines' % text.count('\n'))


if __name__ == '__main__':
    main()
