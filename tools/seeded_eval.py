#!/usr/bin/env python3
"""Evaluate seeded changes: apply one patch to /repo, run the property's check from a scratch copy of /verif,
undo the patch, and record the outcome under /verif/seeded/<ID>-<letter>/.

usage: seeded_eval.py <src-dir> <ID> <letter> [--thorough-too]
  <src-dir> holds patch_<letter>.diff, demo_<letter>.py, meta.json (written by the seeding agent).
The scratch copy keeps the evidence and replays of mutated runs away from the committed ones.
"""
import json
import os
import shutil
import subprocess
import sys
import time

VERIF = os.path.dirname(os.path.dirname(os.path.abspath(__file__)))
# SEEDED_SLOT=n: work on a private copy of the repository (/tmp/repo-mut-n, given to the check with VERIF_REPO) and a
# private scratch copy of /verif, so that several evaluations run side by side and /repo itself is never touched
SLOT = os.environ.get('SEEDED_SLOT')
SCRATCH = '/tmp/verif-eval' + ('-' + SLOT if SLOT else '')
REPO_COPY = '/tmp/repo-mut-' + SLOT if SLOT else None


def sh(cmd, **kw):
    return subprocess.run(cmd, shell=True, capture_output=True, text=True, **kw)


def sync_scratch():
    os.makedirs(SCRATCH, exist_ok=True)
    r = sh('rsync -a --delete --exclude .git --exclude replays --exclude evidence %s/ %s/' % (VERIF, SCRATCH))
    if r.returncode != 0:
        raise SystemExit('rsync failed: ' + r.stderr)
    os.makedirs(os.path.join(SCRATCH, 'evidence'), exist_ok=True)


def run_check(pid, tier, timeout):
    t0 = time.time()
    try:
        env = 'VERIF_REPO=%s ' % REPO_COPY if REPO_COPY else ''
        r = sh('cd %s && %stimeout %d ./check %s --tier %s' % (SCRATCH, env, timeout, pid, tier))
        out = r.stdout + r.stderr
        rc = r.returncode
    except Exception as exc:  # noqa: BLE001
        out, rc = repr(exc), 99
    lines = [l for l in out.splitlines() if l.startswith(('VIOLATION', 'KNOWN-FINDING', 'INFRA', 'property='))]
    names = []
    for l in lines:
        if l.startswith('VIOLATION') and 'replay=' in l:
            path = l.split('replay=')[1].split()[0]
            try:
                body = json.load(open(path))
                names.append(body.get('signature') or body.get('case'))
            except Exception:  # noqa: BLE001
                pass
    return {'tier': tier, 'exit': rc, 'wall_s': round(time.time() - t0, 1), 'lines': lines[:12], 'signatures': sorted(set(n for n in names if n))}


def main():
    src, pid, letter = sys.argv[1:4]
    dest = os.path.join(VERIF, 'seeded', '%s-%s' % (pid, letter))
    os.makedirs(dest, exist_ok=True)
    shutil.copy(os.path.join(src, 'patch_%s.diff' % letter), os.path.join(dest, 'patch.diff'))
    demo = os.path.join(src, 'demo_%s.py' % letter)
    if os.path.exists(demo):
        shutil.copy(demo, os.path.join(dest, 'demonstration.py'))
    meta = {}
    for name in ('meta.json', 'meta2.json', 'meta3.json', 'meta4.json', 'meta5.json', 'meta6.json', 'meta7.json', 'meta8.json', 'meta9.json'):
        try:
            got = json.load(open(os.path.join(src, name))).get(letter, {})
            if got:
                meta = got
        except Exception:  # noqa: BLE001
            pass
    if not os.environ.get('SEEDED_NOSYNC'):
        sync_scratch()
    if REPO_COPY:
        sh('rm -rf %s && mkdir -p %s && git -C /repo archive HEAD | tar -x -C %s' % (REPO_COPY, REPO_COPY, REPO_COPY))
        ap = sh('cd %s && patch -p1 -s < %s' % (REPO_COPY, os.path.join(dest, 'patch.diff')))
    else:
        st = sh('git -C /repo status --short --untracked-files=no').stdout.strip()
        if st:
            raise SystemExit('/repo is not clean: ' + st)
        ap = sh('git -C /repo apply %s' % os.path.join(dest, 'patch.diff'))
    if ap.returncode != 0:
        raise SystemExit('patch does not apply: ' + ap.stderr + ap.stdout)
    results = []
    try:
        res = run_check(pid, 'quick', 1500)
        results.append(res)
        if res['exit'] == 0 and not os.environ.get('SEEDED_QUICK_ONLY'):
            results.append(run_check(pid, 'thorough', 3000))
    finally:
        if REPO_COPY:
            sh('rm -rf %s' % REPO_COPY)
        else:
            sh('git -C /repo checkout -- .')
    detected = any(r['exit'] == 1 for r in results)
    out = {'property': pid, 'seed': letter, 'summary': meta.get('summary'), 'files': meta.get('files'),
           'manifests_when': meta.get('manifests_when'), 'tests_after': meta.get('tests_after'),
           'origin': 'sub-agent given only the property text and a scratch worktree',
           'detected': detected, 'runs': results}
    try:
        old = json.load(open(os.path.join(dest, 'meta.json')))
        if old.get('runs'):
            # the outcome with the checks as they stood before they were strengthened
            out['earlier_runs'] = old.get('earlier_runs', []) + [old['runs']]
    except Exception:  # noqa: BLE001
        pass
    json.dump(out, open(os.path.join(dest, 'meta.json'), 'w'), indent=1)
    print('%s-%s detected=%s %s' % (pid, letter, detected, [(r['tier'], r['exit'], r['wall_s']) for r in results]))
    for r in results:
        for l in r['lines'][:4]:
            print('   ', l)


if __name__ == '__main__':
    main()
