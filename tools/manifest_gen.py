#!/usr/bin/env python3
"""Regenerate MANIFEST.json from the table below (keeps it valid at all times)."""
import json
import os

VERIF = os.path.dirname(os.path.dirname(os.path.abspath(__file__)))

NOTE_COMMON = ('Trusted: Lean 4.33 kernel (axioms propext, Classical.choice, Quot.sound only; audited by #print axioms on '
               'every run), the translator harness/gen_tables.py, the correspondence harness and compiled model driver. '
               'Python/stdlib/Beancount behaviour is modelled and validated by correspondence, not verified. ')

CLAIMED = {
    'C01': dict(
        text=('Lean theorems over the engine model: the row loop equals filter/map with first-exception propagation, NULL '
              'strictness of every operator/function node kind, three-valued AND/OR/NOT/IS NULL/COALESCE tables, division '
              'and modulo by zero, int/decimal promotion checked by `decide` over the registry regenerated from the code. '
              'The model is tied to the code by the regenerated registry and by behavioural correspondence (every overload '
              'x NULL position, plus seeded random typed trees) against the real engine.'),
        design='DESIGN.md §5 C01',
        note=NOTE_COMMON + 'Regex operands restricted to literal patterns; NaN/Infinity outside the generator.',
        technique='Lean 4 proof over an executable engine model + generated registry (decide) + differential correspondence'),
}

PENDING_REASON = 'check under construction in this round (model or correspondence not yet registered); not claimed yet'


def main():
    props = [json.loads(l) for l in open(os.path.join(VERIF, 'properties.jsonl'))]
    checks = []
    na = []
    for p in props:
        pid = p['id']
        c = CLAIMED.get(pid)
        if c is None:
            na.append({'property_id': pid, 'reason': NA.get(pid, PENDING_REASON)})
            continue
        checks.append({
            'property_id': pid,
            'quick_cmd': './check %s --tier quick' % pid,
            'thorough_cmd': './check %s --tier thorough' % pid,
            'evidence_file': 'evidence/%s.json' % pid,
            'replay_cmd_template': './check %s --replay {path}' % pid,
            'engine': 'lean-engine',
            'level_claimed': {'category': 'proof', 'text': c['text'], 'design_ref': c['design']},
            'level_note': c['note'],
            'technique': c['technique'],
        })
    manifest = {
        'version': 1,
        'setup_cmd': './setup.sh',
        'hooks': {
            'guard': 'BEANQUERY_VERIF',
            'enable': 'no source hooks are needed: the harness registers its tables/functions through beanquery\'s public registries; ./check exports BEANQUERY_VERIF=1 anyway',
            'baseline_off_cmd': 'cd /repo && /venv/bin/python -m pytest -ra -q -p no:cacheprovider --timeout=900 --continue-on-collection-errors',
            'source_commits': [],
            'add_only': True,
        },
        'engines': [{'name': 'lean-engine', 'path': 'lean/', 'serves_properties': sorted(CLAIMED),
                     'kind_free_text': 'Lean 4 model + theorems (lake), compiled model driver, Python correspondence harness'}],
        'checks': checks,
        'not_applicable': na,
        'notes': 'See DESIGN.md. Every check: regenerate facts from /repo, lake build the property module, audit axioms, run correspondence, write evidence.',
    }
    with open(os.path.join(VERIF, 'MANIFEST.json'), 'w') as f:
        json.dump(manifest, f, indent=1)
    print('claimed:', sorted(CLAIMED), 'unclaimed:', len(na))


NA = {}

if __name__ == '__main__':
    main()
