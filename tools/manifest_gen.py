#!/usr/bin/env python3
"""Regenerate MANIFEST.json from the table below (keeps it valid at all times)."""
import json
import os

VERIF = os.path.dirname(os.path.dirname(os.path.abspath(__file__)))

NOTE_COMMON = ('Trusted: Lean 4.33 kernel (axioms propext, Classical.choice, Quot.sound only; audited by #print axioms on '
               'every run), the translator harness/gen_tables.py, the correspondence harness and compiled model driver. '
               'Python/stdlib/Beancount behaviour is modelled and validated by correspondence, not verified. ')

CLAIMED = {
    'C01': dict(
        text=('Lean theorems over the engine model: the row loop equals filter/map with first-exception propagation, NULL '
              'strictness of every operator/function node kind, three-valued AND/OR/NOT/IS NULL/COALESCE tables, division '
              'and modulo by zero, int/decimal promotion checked by `decide` over the registry regenerated from the code. '
              'The model is tied to the code by the regenerated registry and by behavioural correspondence (every overload '
              'x NULL position, plus seeded random typed trees) against the real engine.'),
        design='DESIGN.md §5 C01',
        note=NOTE_COMMON + 'Regex operands restricted to literal patterns; NaN/Infinity outside the generator.',
        technique='Lean 4 proof over an executable engine model + generated registry (decide) + differential correspondence'),
    'C02': dict(
        text=('Lean theorems: whenever the aggregation loop returns, its insertion-ordered store equals "distinct key tuples '
              'in first-appearance order, each holding the fold of the per-row update over exactly its group in source order" '
              '(refinement proved for all tables/keys/aggregates); groups are non-empty, pairwise key-distinct, disjoint and '
              'cover the selection; closed forms of count(*)/count/sum/first/last and step laws of min/max; group-wise counts '
              'and sums add up to the totals; empty selection gives no row; HAVING drops falsy groups. Tied to the code by '
              'correspondence over exhaustive small key multisets and seeded random grouped queries.'),
        design='DESIGN.md §5 C02',
        note=NOTE_COMMON + 'Python dict insertion order and tuple equality/hash of int/bool/Decimal are modelled (eqKey).',
        technique='Lean 4 refinement proof (upsert fold = group/fold) + differential correspondence'),
    'C03': dict(
        text=('Lean theorems: the multi-pass ORDER BY loop (one stable list.sort per run of equal direction, right to left) '
              'equals ONE stable sort by the lexicographic comparator for every key list and ASC/DESC pattern (induction over '
              'runs on top of "two stable passes = one lexicographic pass"); the comparator is a proved total preorder '
              '(including numeric cross-scaling of decimals); result is a sorted, stable permutation; NULL first/last; '
              'DISTINCT = first occurrences (sublist, pairwise distinct, covers); LIMIT = take; order of application. Tied to '
              'the code by correspondence over all direction patterns up to 4 keys with a stability witness column, and '
              'random queries with hidden/aggregate keys, DISTINCT and LIMIT.'),
        design='DESIGN.md §5 C03',
        note=NOTE_COMMON + 'list.sort stability and reverse=True semantics are modelled; partially ordered key types excluded.',
        technique='Lean 4 proof (multi-pass stable sort = lexicographic stable sort) + differential correspondence'),
    'C10': dict(
        text=('Lean theorems over the cursor state machine: for every call sequence after an execute the rows delivered so far '
              'are exactly the first `rownumber` rows of the result (in order, none twice, none skipped), rowcount stays the '
              'result size, exhaustion is signalled by None / [] exactly when all rows were delivered, a new execute resets, '
              '-1/None before execute; executemany leaves the state of the last execute and nothing for no parameter set '
              '(`C10_executemany`); several cursors do not influence each other (`C10_frame`); an iterator kept across other calls delivers the next row of the cursor at the time of each next() and, once ended, stays ended (`C10_held_iterator`, `_ended`, `_fresh`); Column is a 7-item sequence with '
              'Python index/slice laws. Tied to the code by exhaustive '
              'short call sequences and random long ones compared call by call (return value, rowcount, rownumber, description), '
              'with sqlite3 as a second opinion.'),
        design='DESIGN.md §5 C10',
        note=NOTE_COMMON + 'fetchmany sizes are non-negative.',
        technique='Lean 4 invariant/refinement proof over the cursor state machine + exhaustive op-sequence correspondence'),
    'C15': dict(
        text=('Lean theorems over the pivot model: every output row has exactly one value per described column and starts '
              'with its group key; block (r,k) holds the remaining-column values of the unique row with (first, second) = (r,k) '
              'and NULLs otherwise (block placement by splice proved for all widths); key set distinct and sorted; adjacent '
              'grouping loses/invents nothing; rows sorted by the first column (stable permutation). Tied to the code by '
              'correspondence over exhaustive sparse 3x3 grids, random typed grids, invalid-reference rejection, and an '
              'independent un-pivot oracle run on the implementation output.'),
        design='DESIGN.md §5 C15',
        note=NOTE_COMMON + 'NULL pivot keys raise TypeError (known finding F-20); pivot keys of one comparable class.',
        technique='Lean 4 proof of block placement/width + differential correspondence + un-pivot oracle'),
    'C06': dict(
        text=('Lean theorem C06_roundtrip: for EVERY written statement (a layered tree with one constructor per grammar alternative: '
              'explicit parentheses anywhere, optional unary plus, empty / NULL list items, explicit ASC; SELECT with every clause '
              'combination and nesting, BALANCES, JOURNAL, PRINT) that is well formed (names not reserved, valid dates, keys not '
              'starting with a numeral, ...) the token-level parser model returns exactly its abstract syntax tree, for all large '
              'enough fuel; proved by one mutual structural induction with continuation lemmas for the left-recursive levels, so '
              'every parent x child x operand-position combination, every depth, precedence, left associativity and the '
              'non-associativity of comparisons are instances; C06_lex: the scanner model reads written tokens (words in any '
              'letter case, integers with leading zeros, all decimal spellings, dates, strings in either quote, symbols, '
              'placeholders) separated by blanks back as exactly their tokens; every natural number has a text that reads back '
              '(C06_lit_int); the reserved words of the model are proved equal to the @@keyword list regenerated from the live grammar. Tied to the code by (B) the Lean scanner + parser model against the shipped '
              'parser on generated texts (random case, white space, comments, redundant parentheses, literal spellings), the full '
              'operator matrix, ~250 boundary forms and token-mutated malformed texts (accept/reject and AST), (S) the shipped '
              'parser returning the generated AST, (V) `python -m tatsu bql.ebnf` regenerated and compared with parser.py.'),
        design='DESIGN.md §5 C06',
        note=NOTE_COMMON + 'PARTIAL: the parser theorem is at token level and the scanner theorem covers blank-separated written tokens; other white space, comments and adjacent tokens without a separator are tied by correspondence only; TatSu/PEG semantics are modelled by a deterministic recursive-descent parser (validated by B); the driver runs the model with fuel 16*tokens+64 while the theorem speaks of all large enough fuel; identifiers OPEN/CLOSE/CLEAR/BETWEEN/NULL are outside the printable domain.',
        technique='Lean 4 proof (token-level round trip by mutual induction) + model parser vs shipped parser + grammar translation validation'),
    'C07': dict(
        text=('Lean theorems over the compile/exec model: the naming rule (alias / column name / source text); compiled SELECT '
              'targets are one per target, in order, all named; wildcard = the table\'s wildcard list in order; GROUP BY and '
              'ORDER BY resolution only ever APPEND unnamed targets; the description ignores hidden targets; every result row is '
              'a projection to the visible indexes (hidden values cannot leak) and its width equals the description width. Tied '
              'to the code by correspondence on statements printed with random spacing/comments/case/parentheses and parsed by '
              'the shipped parser, plus oracles on the implementation (row width, naming, re-parse of expression names).'),
        design='DESIGN.md §5 C07',
        note=NOTE_COMMON + 'Names are source slices provided by TatSu parseinfo (trusted).',
        technique='Lean 4 proof over the compile model + differential correspondence on parsed text + naming oracle'),
    'C08': dict(
        text=('Lean theorems: (1) compiling any outer statement with FROM (q) IS compiling it with the table materialised from '
              'q\'s executed result as current table (`C08_from_subquery_materialised`, every outer clause, q arbitrary and nested '
              'to any depth); (2) `SELECT * FROM (q)` compiles and EXECUTES to exactly q\'s description and rows, for every inner '
              'query with distinct non-empty output names (`C08_star_from_subquery`, through the compiler and the executor; '
              'rows are as wide as the description: `C08_rows_match_description`), with the duplicate-name witness where a '
              'column is lost; (3) the table a subquery exposes has one positional accessor per visible inner target under the '
              'inner names and datatypes; (4) `x IN (subquery)` compiles to the membership node over the subquery\'s single '
              'column in row order (`C08_in_subquery_compiles`, more columns = compilation error), whose truth table is NULL when '
              'x is NULL or the subquery is empty, else membership, NOT IN the dual. Tied to the code by correspondence (random '
              'inner/outer queries nested to depth 3, IN-subqueries over a different table, ledger tables with structured '
              'datatypes) and by a materialisation oracle run on the implementation itself.'),
        design='DESIGN.md §5 C08',
        note=NOTE_COMMON + 'Subqueries cannot reference the outer row (BQL restriction).',
        technique='Lean 4 proof (IN truth table, subquery table) + differential correspondence + materialisation oracle'),
    'C09': dict(
        text=('Lean theorems: the WHOLE-STATEMENT law `C09_literals_statement`: for every statement and every parameters object '
              'that passes the validation of `Compiler.compile`, compiling with the parameters equals compiling, without '
              'parameters, the statement in which every placeholder has been replaced by the literal of its bound value '
              '(`Select.subst`: targets, WHERE, GROUP BY / ORDER BY keys, HAVING, FROM expressions, FROM- and IN-subqueries to '
              'any depth; proved by mutual induction over the AST and the compiler\'s fuel), no placeholder being left '
              '(`C09_literals_no_placeholder_left`) because validated parameters bind every placeholder '
              '(`C09_validated_parameters_bind`); a placeholder-free statement compiles alike under any parameters; node level: '
              'a placeholder compiles to what the literal of its bound value compiles to; positional parameters '
              'bind in ascending source position (sorted positions proved); named parameters bind by name; constant folding '
              'preserves value and datatype on every row; the model\'s execution is a pure function of (tables, parameters, '
              'statement), and the AST-numbering state machine of the old compiler is shown to break re-execution while the '
              'repaired one is history independent for all histories. Tied to the code by correspondence (binding), a '
              'literal-substitution oracle, a folding oracle, and execution histories compared with fresh executions.'),
        design='DESIGN.md §5 C09',
        note=NOTE_COMMON + 'Absence of source-data mutation is checked by snapshot only.',
        technique='Lean 4 proof (binding, folding, placeholder state machine) + history correspondence vs fresh execution'),
    'C04': dict(
        text=('Lean theorems: progress + preservation of the operator semantics for the model\'s own typing table (every binary '
              'and unary operator on conforming non-NULL operands returns a value of the typed result or NULL and never a type '
              'error; BETWEEN on comparable classes returns bool), lifted by mutual structural induction (`C04_preservation`) to '
              'expression trees of typed columns, constants, unary / binary operators, BETWEEN, AND, OR and COALESCE: the value '
              'is NULL or an instance of the announced datatype - AND / OR / BETWEEN give a bool whatever the operand types - '
              'and no type error is raised; the compiler only builds such nodes: `C04_compileBinop_wellTyped` (also when the '
              'node is folded into a constant, by preservation), `C04_compileBetween_wellTyped`, `C04_coalesce_wellTyped`, each '
              'through the overload the live registry returns; `decide` theorems over the registry REGENERATED from the code: every binary/unary overload declares '
              'exactly the type its semantics returns (also as found by `lookupExact`: `C04_binop_lookup_agrees`), comparison/BETWEEN/IN announce bool, BETWEEN overloads are over one comparable class, aggregate result types, closed world '
              'of operator classes. Tied to the code additionally by an oracle on the implementation: every cell of every '
              'column of every Beancount table, every structured attribute and every function/aggregate/operator overload of '
              'the registry driven through SQL is checked against the announced datatype, rendered and numberified.'),
        design='DESIGN.md §5 C04',
        note=NOTE_COMMON + 'Opaque overloads (prices, metadata) are sampled, not modelled. F-5 is a known finding.',
        technique='Lean 4 proof (progress/preservation + decide over generated registry) + type oracle over all overloads'),
    'C05': dict(
        text=('Lean theorems characterising each validation stage of the compile model rule by rule: target rule (no mixing, no '
              'aggregate of aggregate) as an iff; operator / BETWEEN / target checks reject only with CompilationError unless '
              'constant folding itself raised; parameter check (mixed kinds, wrong count, accepted forms; the only non-DB-API '
              'outcome is the deliberate kind TypeError); GROUP BY key rule (valid index, non-aggregate, hashable); positional '
              'ranges; coverage as an iff; PIVOT rule; implicit grouping. Tied to the code by the full operator x type and '
              'function x type matrices generated from the registry (accept/reject of model vs compiler), one-rule-broken-at-a-'
              'time statements with a rule-enforcement oracle, malformed / mutated texts, and an oracle that any exception other '
              'than ParseError/CompilationError/ProgrammingError is a violation and error spans lie inside the text.'),
        design='DESIGN.md §5 C05',
        note=NOTE_COMMON + 'Known findings F-12 (parameter kind TypeError) and F-31 (scalar subselect AttributeError). Domain errors raised while folding constants belong to C18.',
        technique='Lean 4 rule-by-rule proofs over the compile model + exhaustive type matrices + rule-enforcement oracle'),
    'C17': dict(
        text=('Lean theorems over the numberify model: row count, row order and per-row independence; every output row has one '
              'cell per output column; plain columns are copied by an identity converter; naming `name (CUR)`; the Amount / '
              'Position / Inventory cell laws (own currency -> (quantised) units, other currency / NULL / absent -> NULL, '
              'inventory = sum over lots, zero -> NULL); the census keeps every contributed currency (no currency dropped) and '
              'the per-column order is a permutation of the census keys sorted by the (count, currency) key. Tied to the code by '
              'correspondence on random tables (all three amount-like kinds, lots, NULLs, formatter on/off) and conservation '
              'oracles on the implementation (column sums = input units, no invented/lost currency, plain columns untouched).'),
        design='DESIGN.md §5 C17',
        note=NOTE_COMMON + 'DisplayFormatter.quantize is modelled as Decimal.quantize half-even to the currency\'s digits.',
        technique='Lean 4 proof over the numberify model + differential correspondence + conservation oracles'),
    'C18': dict(
        text=('Lean theorems in two strengths. Structural, for all dates: date_trunc month/quarter/year/decade/century/millennium '
              'is the first day of the unit, not after d, idempotent (and month/year monotone); parts agree. Over the property\'s '
              'own range 1900-2100, derived from three facts enumerated by the kernel (`decide +kernel` over a logarithmic-depth '
              'range checker, 16 chunk modules): ordinal round trip, (y,m,d) round trip, ISO-calendar consistency; from them '
              'date_add/date_diff/date +- n mutually inverse, date_trunc(week) is the Monday of the week (idempotent), date_bin '
              'with day strides is the stride-aligned bin start; interval normalisation; account decomposition laws, possign, '
              'sort keys; substr = Python slice laws; maxwidth = `textwrap.shorten` modelled chunk by chunk: the result never '
              'exceeds the width (`C18_maxwidth_bound`, every text), a text that fits is returned with its white space '
              'normalised and nothing else (`C18_maxwidth_fits`), every result is a prefix of the normalised chunks, possibly followed by the '
              'placeholder, or the bare placeholder (`C18_maxwidth_shape`), widths below 5 are errors; subst with a literal pattern leaves a text without the pattern alone and, for a one-character pattern, replaces exactly that character everywhere (`C18_subst_absent`, `C18_subst_char`); abs/neg/safediv/round (exponent, exactness, half-even error bound); casts '
              'are total (value or NULL). Tied to the code by EXHAUSTIVE correspondence over the property\'s domains: every date '
              '1900-2100 x every unit/part, strides x origins, 605 account names, 341 strings x all index pairs in [-6,6], the same strings '
              'and longer texts x every width in [-1,14] for maxwidth, subst / grepn over every string of length <= 5 over {a, b, :} x 8 patterns x 5 replacements, every cast and numeric function down a column of equal-but-distinct values, all '
              'decimals of <= 3 digits, cast lexicon.'),
        design='DESIGN.md §5 C18',
        note=NOTE_COMMON + 'regex beyond literal patterns and dateutil (parse_date) are not modelled; maxwidth (textwrap.shorten) is modelled for texts without hyphens.',
        technique='Lean 4 proof (structural + kernel enumeration of the 1900-2100 range) + exhaustive domain correspondence'),
    'C12': dict(
        text=('Lean theorems over the inventory model (insertion-ordered dict with strict lot keys, delete on zero; exact numbers): '
              'add_amount changes exactly one lot and keeps keys unique; the summed inventory holds per lot the total of the rows; '
              'homomorphism over concatenation, permutation invariance, partition additivity, add_inventory; f(SUM) = SUM f for every '
              'reducer that maps lot keys and multiplies by a key-dependent factor (units, cost, value, convert); the running '
              'balance with the per-scan guard is the prefix sum for any number >= 1 of references per row, last balance = '
              'sum(position); a decided counter-example for the former process-wide one-entry cache. Tied to the code by '
              'correspondence on generated multi-currency ledgers with lots (group sums, units/cost of sums, balance with 1..3 '
              'references, with an interfering subquery scan, and in WHERE) and by homomorphism/partition oracles on the implementation.'),
        design='DESIGN.md §5 C12',
        note=NOTE_COMMON + 'Exact arithmetic domain (<= 28 digits); value()/convert() use the opaque price map: homomorphism checked on the implementation up to context rounding.',
        technique='Lean 4 proof (commutative-monoid homomorphism, reducer linearity, prefix-sum invariant) + ledger correspondence'),
    'C20': dict(
        text=('Lean theorems: for ANY number of threads and ANY schedule, if each step touches only its own thread\'s private '
              'state, the state of every thread after the schedule is its own step function iterated as often as it was '
              'scheduled - so every interleaving (every permutation of a schedule) gives the serial result; the repaired balance '
              'column (guard kept in the scan\'s row context) is an instance; state SHARED by the threads is covered by '
              '`C20_shared_benign`: under an invariant of the shared state that makes every private effect independent of it, '
              'every thread ends where its private steps alone take it after any schedule - instance `C20_shared_memo_harmless`: '
              'a memo table of a PURE function shared by all threads, of any capacity and with any eviction policy, never '
              'changes a result (what a regex or overload cache is; what the old balance cache was not); a decided schedule A B A\' on which the former '
              'process-wide one-entry cache counts a posting twice; the advertised thread-safety level is a generated fact. Tied to '
              'the code by scheduler-driven threads: all interleavings of 2 threads x 2 yield points plus seeded longer schedules '
              'and sampled triples, on a shared connection and on separate connections, each compared with serial execution; a '
              'shared-state audit of module-level containers and table objects validates the privacy hypothesis.'),
        design='DESIGN.md §5 C20',
        note=NOTE_COMMON + 'PARTIAL by construction: interleavings are explored at column-evaluation / yield-function granularity, not between CPython bytecodes; unscheduled stress runs (thorough) are testing.',
        technique='Lean 4 proof (product-of-state-machines commutation + decided counter-example) + scheduler-driven interleavings'),
    'C19': dict(
        text=('Lean theorems over the shell model: `.set` is a typed key-value store - frame (a valid set changes exactly that '
              'setting), echo (`.set NAME` prints the value just set), rejection (invalid value / unknown name / wrong arity '
              'produce an error and change nothing), listing; the documented boolean spellings and format values; dispatch - a '
              'line starting with `.` is never executed as a query (for all lines), statements are queries, legacy commands; '
              '`.run` default CLOSE date; the generated Settings schema equals the modelled one (decide). Tied to the code by '
              'transcripts in batch mode: every `.set` compared on output, error text and the whole settings record, every line '
              'classified by both dispatchers; "prints what the API returns" by comparing every query / .run output with the '
              'renderer applied to the API result under the current settings, and the CLI options through click.'),
        design='DESIGN.md §5 C19',
        note=NOTE_COMMON + 'The printing glue is correspondence only; interactive mode, pager, readline out of scope (batch mode); shlex/cmd.Cmd trusted.',
        technique='Lean 4 proof (settings state machine, dispatcher) + transcript correspondence + rendering oracle'),
    'C16': dict(
        text=('Lean theorems over the layout model (text as character lists): a padded cell has exactly the column width when the '
              'value fits and is never truncated (blanks on one side only); every body line has length frame + widths + '
              'separators, the rules have the same length in all four box styles, hence the table is rectangular; column j starts '
              'at a fixed offset (prefix-length theorem); headers are centred with at most one blank of difference and cut only '
              'when the column is narrower; decimal cells place the integral part so that the decimal point of every value is at '
              'offset nintegral, and have the column width; a row without list cells is one line, row expansion gives max-lines '
              'lines with one entry per column, spacing adds exactly one blank line per row; CSV = header + one record per '
              '(expanded) row with one field per column. Tied to the code by correspondence of the complete text and CSV output '
              'on random tables over all eleven datatypes x all 2^5 option combinations, with read-back and alignment oracles.'),
        design='DESIGN.md §5 C16',
        note=NOTE_COMMON + 'PARTIAL: cells of amount/position/cost/inventory/dict columns are instantiated with the real renderers\' strings (DisplayContext number formatting and csv quoting are trusted); width = len (no wide characters).',
        technique='Lean 4 proof over the layout model + full-output correspondence + read-back/alignment oracles'),
    'C11': dict(
        text=('Lean theorems (thin by design): the postings table has exactly one row per posting of every transaction (count, '
              'membership as an iff, ledger order), typed tables are the directives of their kind in ledger order, other_accounts '
              'is exactly the set of sibling accounts excluding this posting by position, meta / entry_meta / any_meta look-ups '
              '(NULL for missing keys and for postings without a metadata dict); `decide` theorems over the GENERATED column '
              'declarations: every column the property names exists with the expected datatype, no two columns of a table '
              'compare equal, the postings wildcard. The main weight is correspondence: on generated ledgers loaded by the real '
              'loader, every column of every table and every metadata function is compared cell by cell with a direct traversal '
              'of the loaded entries, and the row structure / other_accounts with the Lean model.'),
        design='DESIGN.md §5 C11',
        note=NOTE_COMMON + 'id (hash_entry), weight (get_weight) and Position are Beancount functions: compared with a direct call, not modelled.',
        technique='Lean 4 proof (row structure, lookups, generated column table by decide) + per-column traversal correspondence'),
    'C13': dict(
        text=('Lean theorems over a model of BeanTable.prepare and the Beancount summarisation it calls (balance_by_account, '
              'create_entries_from_balances, transfer_balances, summarize, truncate): prepare applies OPEN, CLOSE, CLEAR in that '
              'order by definition; CLOSE returns a prefix with nothing dated on or after e (all of it on sorted ledgers); OPEN '
              'returns balanced summarising entries dated d-1 followed by exactly the original transactions from the first dated '
              '>= d, unchanged and in order; for OPEN d CLOSE e every non-income-statement account (except the equity accounts '
              'that receive the differences) totals, lot by lot, to its balance as of e in the full ledger, every income-statement '
              'account to its activity in [d, e), and to zero with CLEAR; every returned transaction is an unchanged original or '
              'balances, for every subset of the clauses. Tied to the code by correspondence of the model prepare with the real '
              'one on generated ledgers (lots at cost, reductions, pads) for every clause subset and boundary dates, and by the '
              'same invariants checked through SELECT on ledgers with price conversions, filter independence, the compile-time '
              'date-order check, the four statement kinds and the shell\'s default close date for named queries.'),
        design='DESIGN.md §5 C13',
        note=NOTE_COMMON + 'PARTIAL: beancount.ops.summarize is modelled, not verified; price conversions (Equity:Conversions entries) are outside the Lean model and covered by the implementation-level invariants only; non-transaction directives kept by summarize (open, price) are not modelled.',
        technique='Lean 4 proof (period-report invariants over a summarisation model) + prepare() correspondence + SQL-level invariants'),
    'C14': dict(
        text=('Lean theorems: the ASTs produced by the live `transform_balances` / `transform_journal` for every summary function '
              '(none, units, cost), with and without an account pattern, are dumped on every run and proved EQUAL (`decide` over '
              'the generated text) to the rendering of the SELECT the property names, built from a specification document and a '
              'printer that mirrors `ast.tosexp`; PRINT\'s collection loop equals `filter` (order kept, everything kept when no '
              'condition). Tied to the code by correspondence on generated ledgers: BALANCES / JOURNAL x summary functions x FROM '
              '(incl. OPEN/CLOSE/CLEAR) x WHERE x account patterns against the written-out SELECT, and PRINT output re-loaded '
              'with the Beancount loader and compared structurally with the filtered directives.'),
        design='DESIGN.md §5 C14',
        note=NOTE_COMMON + 'PARTIAL: "loads back to equal directives" depends on Beancount\'s printer and loader and is correspondence only; account patterns containing a double quote are outside the domain (string interpolation in the template).',
        technique='Lean 4 proof (generated template = specification by decide; PRINT loop = filter) + ledger correspondence'),
}

PENDING_REASON = 'check under construction in this round (model or correspondence not yet registered); not claimed yet'


def main():
    props = [json.loads(l) for l in open(os.path.join(VERIF, 'properties.jsonl'))]
    checks = []
    na = []
    for p in props:
        pid = p['id']
        c = CLAIMED.get(pid)
        if c is None:
            na.append({'property_id': pid, 'reason': NA.get(pid, PENDING_REASON)})
            continue
        checks.append({
            'property_id': pid,
            'quick_cmd': './check %s --tier quick' % pid,
            'thorough_cmd': './check %s --tier thorough' % pid,
            'evidence_file': 'evidence/%s.json' % pid,
            'replay_cmd_template': './check %s --replay {path}' % pid,
            'engine': 'lean-engine',
            'level_claimed': {'category': 'proof', 'text': c['text'], 'design_ref': c['design']},
            'level_note': c['note'],
            'technique': c['technique'],
        })
    manifest = {
        'version': 1,
        'setup_cmd': './setup.sh',
        'hooks': {
            'guard': 'BEANQUERY_VERIF',
            'enable': 'no source hooks are needed: the harness registers its tables/functions through beanquery\'s public registries; ./check exports BEANQUERY_VERIF=1 anyway',
            'baseline_off_cmd': 'cd /repo && /venv/bin/python -m pytest -ra -q -p no:cacheprovider --timeout=900 --continue-on-collection-errors',
            'source_commits': [],
            'add_only': True,
        },
        'engines': [{'name': 'lean-engine', 'path': 'lean/', 'serves_properties': sorted(CLAIMED),
                     'kind_free_text': 'Lean 4 model + theorems (lake), compiled model driver, Python correspondence harness'}],
        'checks': checks,
        'not_applicable': na,
        'notes': 'See DESIGN.md. Every check: regenerate facts from /repo, lake build the property module, audit axioms, run correspondence, write evidence.',
    }
    with open(os.path.join(VERIF, 'MANIFEST.json'), 'w') as f:
        json.dump(manifest, f, indent=1)
    print('claimed:', sorted(CLAIMED), 'unclaimed:', len(na))


NA = {}

if __name__ == '__main__':
    main()
