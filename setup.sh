#!/bin/bash
# MANIFEST.setup_cmd: regenerate the facts from /repo, build all Lean modules and the model driver.
set -e
cd "$(dirname "$0")"
PYTHONPATH=/repo:$(pwd)/harness /venv/bin/python harness/gen_tables.py >/dev/null
cd lean
lake build 2>&1 | tail -5
