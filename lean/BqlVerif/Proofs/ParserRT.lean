/-
  The parser maps the tokens of a well-formed layered tree to its abstract syntax tree
  (for every large enough fuel).  Continuation-style lemmas for the left-recursive levels.
-/
import BqlVerif.Proofs.ParserStart
set_option autoImplicit false
namespace Bql.Syn

theorem ev_intro {β : Type} {p : Nat → Option β} {r : β} (n : Nat) (h : ∀ k, n ≤ k → p (k + 1) = some r) : Ev p r :=
  ⟨n + 1, fun m hm => by
    obtain ⟨k, rfl⟩ : ∃ k, m = k + 1 := ⟨m - 1, by omega⟩
    exact h k (by omega)⟩

/-- the next token is not an opening parenthesis (a word followed by one is a function call) -/
def NoCall : List Tok → Prop
  | .sym .lparen :: _ => False
  | _ => True

theorem NoCall.of_follow {rest : List Tok} (h : Follow 0 rest) : NoCall rest := by
  cases rest with
  | nil => trivial
  | cons t r =>
    cases t with
    | sym s => cases s <;> simp_all [NoCall, Follow, tokLevel]
    | _ => trivial

theorem noCall_cons (t : Tok) (r : List Tok) (h : t ≠ .sym .lparen) : NoCall (t :: r) := by
  cases t with
  | sym s => cases s <;> simp_all [NoCall]
  | _ => trivial

/-! ### dispatch lemmas -/

theorem atomAct_word (w : String) (rest : List Tok) (hw : (w == "select") = false) (hc : NoCall rest) :
    atomAct (.word w :: rest) = .word w rest := by
  cases rest with
  | nil => simp [atomAct, hw]
  | cons t r =>
    cases t with
    | sym s => cases s <;> simp_all [atomAct, NoCall]
    | _ => simp [atomAct, hw]

theorem atomAct_func (w : String) (r : List Tok) (hw : (w == "select") = false) (hs : headOKE r = true) :
    atomAct (.word w :: .sym .lparen :: r) = .func w r := by
  cases r with
  | nil => simp [headOKE] at hs
  | cons t r' =>
    cases t with
    | sym s => cases s <;> simp_all [atomAct, headOKE, startOK, isW]
    | _ => simp [atomAct, hw]

theorem ident_not_select (n : String) (h : identOK n = true) : (n == "select") = false := by
  simp only [identOK, isKeyword, Bool.not_eq_true'] at h
  by_cases e : n = "select"
  · subst e; simp [keywords] at h
  · simpa using e

theorem factorAct_paren (ts : List Tok) (h : noLitComma ts = true) : factorAct (.sym .lparen :: ts) = .paren ts := by
  cases ts with
  | nil => rfl
  | cons t r =>
    cases r with
    | nil => rfl
    | cons u r' =>
      cases u with
      | sym s => cases s <;> simp_all [factorAct, noLitComma]
      | _ => rfl

theorem factorAct_prim (ts : List Tok) (h : primStart ts = true) : factorAct ts = .prim := by
  cases ts with
  | nil => rfl
  | cons t r =>
    cases t with
    | sym s =>
      cases s <;> simp [primStart] at h
      -- lparen: a list literal
      cases r with
      | nil => simp [primStart] at h
      | cons u r' =>
        cases r' with
        | nil => simp [primStart] at h
        | cons v r'' =>
          cases v with
          | sym s' => cases s' <;> simp_all [primStart, factorAct]
          | _ => simp [primStart] at h
    | _ => rfl

/-! ### literals -/

theorem litOfTok_lit (l : Lit) (h : l.wf = true) : litOfTok l.tok = some l.value := by
  cases l with
  | bool b => cases b <;> rfl
  | date d =>
    simp only [Lit.wf] at h
    simp [Lit.tok, litOfTok, Lit.value, h]
  | _ => rfl

/-- `(literal | ())` items: tokens of one item -/
def itemToks : Option Lit → List Tok
  | none => []
  | some l => [l.tok]

theorem printListItems_cons (x : Option Lit) (xs : List (Option Lit)) :
    printListItems (x :: xs) = .sym .comma :: (itemToks x ++ printListItems xs) := by
  cases x <;> rfl

def itemVals : Option Lit → List Value
  | none => []
  | some .null => []
  | some l => [l.value]

theorem listValues_cons (x : Option Lit) (xs : List (Option Lit)) : listValues (x :: xs) = itemVals x ++ listValues xs := by
  cases x with
  | none => rfl
  | some l => cases l <;> rfl

theorem takeItem_print (acc : List Value) (x : Option Lit) (hx : itemsOK [x] = true) (tail : List Tok)
    (ht : ∀ t r, tail = t :: r → isLitTok t = false) :
    takeItem acc (itemToks x ++ tail) = some (acc ++ itemVals x, tail) := by
  cases x with
  | none =>
    simp only [itemToks, List.nil_append, itemVals, List.append_nil]
    cases tail with
    | nil => rfl
    | cons t r => simp [takeItem, ht t r rfl]
  | some l =>
    have hl : l.wf = true := by simpa [itemsOK] using hx
    simp only [itemToks, List.cons_append, List.nil_append, takeItem, lit_tok_isLit, ↓reduceIte, litOfTok_lit l hl]
    cases l <;> simp [Lit.value, itemVals]

theorem listItems_print (xs : List (Option Lit)) : ∀ (x : Option Lit) (acc : List Value) (rest : List Tok) (f : Nat),
    itemsOK (x :: xs) = true → xs.length + 1 ≤ f →
    listItems f acc (itemToks x ++ (printListItems xs ++ rest)) = some (acc ++ listValues (x :: xs), rest) := by
  induction xs with
  | nil =>
    intro x acc rest f hok hf
    obtain ⟨k, rfl⟩ : ∃ k, f = k + 1 := ⟨f - 1, by omega⟩
    have hx : itemsOK [x] = true := hok
    simp only [printListItems, List.cons_append, List.nil_append, listItems]
    rw [takeItem_print acc x hx _ (by intro t r h; cases h; rfl)]
    simp [listValues_cons, listValues]
  | cons y ys ih =>
    intro x acc rest f hok hf
    obtain ⟨k, rfl⟩ : ∃ k, f = k + 1 := ⟨f - 1, by simp at hf; omega⟩
    have hx : itemsOK [x] = true := by cases x <;> simp_all [itemsOK]
    have hrest : itemsOK (y :: ys) = true := by cases x <;> simp_all [itemsOK]
    rw [printListItems_cons]
    simp only [List.cons_append, listItems]
    rw [takeItem_print acc x hx _ (by intro t r h; cases h; rfl)]
    simp only []
    rw [List.append_assoc, ih y (acc ++ itemVals x) rest k hrest (by simp at hf; omega), listValues_cons x, List.append_assoc]

end Bql.Syn
