/-
  The parser maps the tokens of a well-formed layered tree to its abstract syntax tree
  (for every large enough fuel).  Continuation-style lemmas for the left-recursive levels.
-/
import BqlVerif.Proofs.ParserStart
set_option autoImplicit false
namespace Bql.Syn

theorem ev_intro {β : Type} {p : Nat → Option β} {r : β} (n : Nat) (h : ∀ k, n ≤ k → p (k + 1) = some r) : Ev p r :=
  ⟨n + 1, fun m hm => by
    obtain ⟨k, rfl⟩ : ∃ k, m = k + 1 := ⟨m - 1, by omega⟩
    exact h k (by omega)⟩

/-- the next token is not an opening parenthesis (a word followed by one is a function call) -/
def NoCall : List Tok → Prop
  | .sym .lparen :: _ => False
  | _ => True

theorem NoCall.of_follow {rest : List Tok} (h : Follow 0 rest) : NoCall rest := by
  cases rest with
  | nil => trivial
  | cons t r =>
    cases t with
    | sym s => cases s <;> simp_all [NoCall, Follow, tokLevel]
    | _ => trivial

theorem noCall_cons (t : Tok) (r : List Tok) (h : t ≠ .sym .lparen) : NoCall (t :: r) := by
  cases t with
  | sym s => cases s <;> simp_all [NoCall]
  | _ => trivial

/-! ### dispatch lemmas -/

theorem atomAct_word (w : String) (rest : List Tok) (hw : (w == "select") = false) (hc : NoCall rest) :
    atomAct (.word w :: rest) = .word w rest := by
  cases rest with
  | nil => simp [atomAct, hw]
  | cons t r =>
    cases t with
    | sym s => cases s <;> simp_all [atomAct, NoCall]
    | _ => simp [atomAct, hw]

theorem atomAct_func (w : String) (r : List Tok) (hw : (w == "select") = false) (hs : headOKE r = true) :
    atomAct (.word w :: .sym .lparen :: r) = .func w r := by
  cases r with
  | nil => simp [headOKE] at hs
  | cons t r' =>
    cases t with
    | sym s => cases s <;> simp_all [atomAct, headOKE, startOK, isW]
    | _ => simp [atomAct, hw]

theorem ident_not_select (n : String) (h : identOK n = true) : (n == "select") = false := by
  simp only [identOK, isKeyword, Bool.not_eq_true'] at h
  by_cases e : n = "select"
  · subst e; simp [keywords] at h
  · simpa using e

theorem factorAct_paren (ts : List Tok) (h : noLitComma ts = true) : factorAct (.sym .lparen :: ts) = .paren ts := by
  cases ts with
  | nil => rfl
  | cons t r =>
    cases r with
    | nil => rfl
    | cons u r' =>
      cases u with
      | sym s => cases s <;> simp_all [factorAct, noLitComma]
      | _ => rfl

theorem factorAct_prim (ts : List Tok) (h : primStart ts = true) : factorAct ts = .prim := by
  cases ts with
  | nil => rfl
  | cons t r =>
    cases t with
    | sym s =>
      cases s <;> simp [primStart] at h
      -- lparen: a list literal
      cases r with
      | nil => simp [primStart] at h
      | cons u r' =>
        cases r' with
        | nil => simp [primStart] at h
        | cons v r'' =>
          cases v with
          | sym s' => cases s' <;> simp_all [primStart, factorAct]
          | _ => simp [primStart] at h
    | _ => rfl

/-! ### literals -/

theorem litOfTok_lit (l : Lit) (h : l.wf = true) : litOfTok l.tok = some l.value := by
  cases l with
  | bool b => cases b <;> rfl
  | date d =>
    simp only [Lit.wf] at h
    simp [Lit.tok, litOfTok, Lit.value, h]
  | _ => rfl

/-- `(literal | ())` items: tokens of one item -/
def itemToks : Option Lit → List Tok
  | none => []
  | some l => [l.tok]

theorem printListItems_cons (x : Option Lit) (xs : List (Option Lit)) :
    printListItems (x :: xs) = .sym .comma :: (itemToks x ++ printListItems xs) := by
  cases x <;> rfl

def itemVals : Option Lit → List Value
  | none => []
  | some .null => []
  | some l => [l.value]

theorem listValues_cons (x : Option Lit) (xs : List (Option Lit)) : listValues (x :: xs) = itemVals x ++ listValues xs := by
  cases x with
  | none => rfl
  | some l => cases l <;> rfl

theorem takeItem_print (acc : List Value) (x : Option Lit) (hx : itemsOK [x] = true) (tail : List Tok)
    (ht : ∀ t r, tail = t :: r → isLitTok t = false) :
    takeItem acc (itemToks x ++ tail) = some (acc ++ itemVals x, tail) := by
  cases x with
  | none =>
    simp only [itemToks, List.nil_append, itemVals, List.append_nil]
    cases tail with
    | nil => rfl
    | cons t r => simp [takeItem, ht t r rfl]
  | some l =>
    have hl : l.wf = true := by simpa [itemsOK] using hx
    simp only [itemToks, List.cons_append, List.nil_append, takeItem, lit_tok_isLit, ↓reduceIte, litOfTok_lit l hl]
    cases l <;> simp [Lit.value, itemVals]

theorem listItems_print (xs : List (Option Lit)) : ∀ (x : Option Lit) (acc : List Value) (rest : List Tok) (f : Nat),
    itemsOK (x :: xs) = true → xs.length + 1 ≤ f →
    listItems f acc (itemToks x ++ (printListItems xs ++ rest)) = some (acc ++ listValues (x :: xs), rest) := by
  induction xs with
  | nil =>
    intro x acc rest f hok hf
    obtain ⟨k, rfl⟩ : ∃ k, f = k + 1 := ⟨f - 1, by omega⟩
    have hx : itemsOK [x] = true := hok
    simp only [printListItems, List.cons_append, List.nil_append, listItems]
    rw [takeItem_print acc x hx _ (by intro t r h; cases h; rfl)]
    simp [listValues_cons, listValues]
  | cons y ys ih =>
    intro x acc rest f hok hf
    obtain ⟨k, rfl⟩ : ∃ k, f = k + 1 := ⟨f - 1, by simp at hf; omega⟩
    have hx : itemsOK [x] = true := by cases x <;> simp_all [itemsOK]
    have hrest : itemsOK (y :: ys) = true := by cases x <;> simp_all [itemsOK]
    rw [printListItems_cons]
    simp only [List.cons_append, listItems]
    rw [takeItem_print acc x hx _ (by intro t r h; cases h; rfl)]
    simp only []
    rw [List.append_assoc, ih y (acc ++ itemVals x) rest k hrest (by simp at hf; omega), listValues_cons x, List.append_assoc]

theorem primStart_append (x rest : List Tok) (h : primStart x = true) : primStart (x ++ rest) = true := by
  cases x with
  | nil => simp [primStart] at h
  | cons t r =>
    cases t with
    | sym s =>
      cases s <;> simp [primStart] at h
      cases r with
      | nil => simp [primStart] at h
      | cons u r' =>
        cases r' with
        | nil => simp [primStart] at h
        | cons v r'' =>
          cases v with
          | sym s' => cases s' <;> simp_all [primStart]
          | _ => simp [primStart] at h
    | _ => exact h

/-! ### follow sets of the clause level -/

def clauseLevel : Tok → Nat
  | .word w =>
    if w = "from" then 1 else if w = "where" then 2 else if w = "group" then 3 else if w = "having" then 4
    else if w = "order" then 5 else if w = "pivot" then 6 else if w = "limit" then 7 else 0
  | .sym .rparen => 8
  | _ => 0

/-- the head of the list (if any) is a clause word of level above `k` or a closing parenthesis -/
def CFollow (k : Nat) : List Tok → Prop
  | [] => True
  | t :: _ => k < clauseLevel t

theorem CFollow.mono {k j : Nat} {rest : List Tok} (h : CFollow k rest) (hj : j ≤ k) : CFollow j rest := by
  cases rest with
  | nil => trivial
  | cons t r => exact Nat.lt_of_le_of_lt hj h

theorem clauseLevel_tokLevel (t : Tok) (h : 0 < clauseLevel t) : tokLevel t = 6 := by
  cases t with
  | word w =>
    simp only [clauseLevel] at h
    by_cases h1 : w = "from"
    · subst h1; simp [tokLevel, wordLevel]
    by_cases h2 : w = "where"
    · subst h2; simp [tokLevel, wordLevel]
    by_cases h3 : w = "group"
    · subst h3; simp [tokLevel, wordLevel]
    by_cases h4 : w = "having"
    · subst h4; simp [tokLevel, wordLevel]
    by_cases h5 : w = "order"
    · subst h5; simp [tokLevel, wordLevel]
    by_cases h6 : w = "pivot"
    · subst h6; simp [tokLevel, wordLevel]
    by_cases h7 : w = "limit"
    · subst h7; simp [tokLevel, wordLevel]
    simp [h1, h2, h3, h4, h5, h6, h7] at h
  | sym s => cases s <;> simp_all [clauseLevel, tokLevel]
  | _ => simp [clauseLevel] at h

theorem CFollow.follow {k : Nat} {rest : List Tok} (h : CFollow k rest) : Follow 5 rest := by
  cases rest with
  | nil => trivial
  | cons t r =>
    have : 0 < clauseLevel t := Nat.lt_of_le_of_lt (Nat.zero_le k) h
    simp only [Follow, clauseLevel_tokLevel t this]; omega

theorem CFollow.noComma {k : Nat} {rest : List Tok} (h : CFollow k rest) : NoComma rest := by
  cases rest with
  | nil => trivial
  | cons t r =>
    cases t with
    | sym s => cases s <;> simp_all [CFollow, clauseLevel, NoComma]
    | _ => trivial

theorem stripWord_cf (w : String) (k : Nat) (rest : List Tok) (h : CFollow k rest) (hw : clauseLevel (.word w) ≤ k) :
    stripWord w rest = none := by
  apply stripWord_miss
  intro t r e
  subst e
  cases t with
  | word v =>
    simp only [isW_word, beq_eq_false_iff_ne, ne_eq]
    intro e; subst e
    simp only [CFollow] at h; omega
  | _ => rfl

theorem stripWord_follow (w : String) (k : Nat) (rest : List Tok) (h : Follow k rest) (hw : wordLevel w ≤ k) :
    stripWord w rest = none := by
  apply stripWord_miss
  intro t r e
  subst e
  exact isW_of_level w t k h hw

/-! ### two-fuel eventual results (loops carry the fuel of their caller in the sub-parser) -/

def Ev2 {β : Type} (p : Nat → Nat → Option β) (r : β) : Prop := ∃ n, ∀ a b, n ≤ a → n ≤ b → p a b = some r

theorem headOK_append (x rest : List Tok) (h : headOK x = true) : headOK (x ++ rest) = true := by
  cases x with
  | nil => simp [headOK] at h
  | cons t r => exact h

theorem headOKE_append (x rest : List Tok) (h : headOKE x = true) : headOKE (x ++ rest) = true := by
  cases x with
  | nil => simp [headOKE] at h
  | cons t r => exact h

theorem isW_not_of_startOK (t : Tok) (h : startOK t = true) : isW "not" t = false := by
  cases t with
  | word w =>
    simp only [isW_word, beq_eq_false_iff_ne, ne_eq]
    intro e; subst e
    simp [startOK, isKeyword, keywords] at h
  | _ => rfl

theorem stripNot_miss (ts : List Tok) (h : headOK ts = true) : stripWord "not" ts = none := by
  apply stripWord_miss
  intro t r e
  subst e
  exact isW_not_of_startOK t h

theorem cmpAct_none (rest : List Tok) (h : Follow 3 rest) : cmpAct rest = .none := by
  cases rest with
  | nil => rfl
  | cons t r =>
    have h1 := isW_of_level "not" t 3 h (by decide)
    have h2 := isW_of_level "is" t 3 h (by decide)
    have h3 := isW_of_level "between" t 3 h (by decide)
    simp [cmpAct, h1, h2, h3, cmpOpOf_none t h]

theorem cmpAct_op (op : CmpOp) (r : List Tok) :
    cmpAct (op.toks ++ r) = (match op with | .notin => .notin r | o => .op o.op r) := by
  cases op <;> simp [CmpOp.toks, cmpAct, isW, cmpOpOf, CmpOp.op]

theorem follow_toks (op : CmpOp) (r : List Tok) : Follow 2 (op.toks ++ r) := by
  cases op <;> simp [CmpOp.toks, Follow, tokLevel, wordLevel]

theorem follow_sumop (op : SumOp) (r : List Tok) : Follow 1 (op.tok :: r) := by
  cases op <;> simp [SumOp.tok, Follow, tokLevel]

theorem follow_termop (op : TermOp) (r : List Tok) : Follow 0 (op.tok :: r) := by
  cases op <;> simp [TermOp.tok, Follow, tokLevel]

theorem addOpOf_sumop (op : SumOp) : addOpOf op.tok = some op.op := by cases op <;> rfl
theorem mulOpOf_termop (op : TermOp) : mulOpOf op.tok = some op.op := by cases op <;> rfl

theorem follow_orTail (tl : List LConj) (rest : List Tok) (h : Follow 5 rest) : Follow 4 (printOrTail tl ++ rest) := by
  cases tl with
  | nil => exact h.mono (by omega)
  | cons c cs => simp [printOrTail, Follow, tokLevel, wordLevel]

theorem follow_andTail (tl : List LInv) (rest : List Tok) (h : Follow 4 rest) : Follow 3 (printAndTail tl ++ rest) := by
  cases tl with
  | nil => exact h.mono (by omega)
  | cons c cs => simp [printAndTail, Follow, tokLevel, wordLevel]

theorem ev2_binLoop_done (opOf : Tok → Option BinOp) (sub : Nat → List Tok → P Expr) (acc : Expr) (rest : List Tok)
    (h : ∀ t r, rest = t :: r → opOf t = none) : Ev2 (fun a b => binLoop opOf (sub a) b acc rest) (acc, rest) :=
  ⟨1, fun a b _ hb => by
    obtain ⟨k, rfl⟩ : ∃ k, b = k + 1 := ⟨b - 1, by omega⟩
    exact binLoop_done opOf (sub a) k acc rest h⟩

theorem ev_postfix_done (acc : Expr) (rest : List Tok) (h : Follow 0 rest) : Ev (fun m => postfixLoop m acc rest) (acc, rest) :=
  ⟨1, fun m hm => by
    obtain ⟨k, rfl⟩ : ∃ k, m = k + 1 := ⟨m - 1, by omega⟩
    exact postfixLoop_done k acc rest h⟩

theorem litOfTok_word_none (n : String) (hk : isKeyword n = false) (hn : n ≠ "null") : litOfTok (.word n) = none := by
  unfold litOfTok
  split <;> simp_all [isKeyword, keywords]

theorem printListItems_length (xs : List (Option Lit)) : xs.length + 1 ≤ (printListItems xs).length := by
  induction xs with
  | nil => simp [printListItems]
  | cons x xs ih => cases x <;> simp [printListItems] <;> omega

theorem printArgs_head (e : LExpr) (es : List LExpr) : ∃ tail, printArgs (e :: es) = printExpr e ++ tail := by
  cases es with
  | nil => exact ⟨_, rfl⟩
  | cons e2 es' => exact ⟨_, rfl⟩

theorem stripComma_miss (rest : List Tok) (h : NoComma rest) : stripComma rest = none := by
  cases rest with
  | nil => rfl
  | cons t r =>
    cases t with
    | sym s => cases s <;> simp_all [stripComma, NoComma]
    | _ => rfl

theorem keyStartOK_append (x rest : List Tok) (hx : x ≠ []) (h : keyStartOK x = true) : keyStartOK (x ++ rest) = true := by
  cases x with
  | nil => exact absurd rfl hx
  | cons t r => cases t <;> first | exact h | (rename_i a b c; cases c <;> exact h)

theorem keyAct_expr (ts : List Tok) (h : keyStartOK ts = true) : keyAct ts = .expr := by
  cases ts with
  | nil => rfl
  | cons t r =>
    cases t with
    | dec c e d => cases d <;> simp_all [keyStartOK, keyAct]
    | int n => simp [keyStartOK] at h
    | date y m d => simp [keyStartOK] at h
    | _ => rfl

theorem fromStartOK_append (x rest : List Tok) (hx : x ≠ []) (h : fromStartOK x = true) : fromStartOK (x ++ rest) = true := by
  cases x with
  | nil => exact absurd rfl hx
  | cons t r =>
    cases t with
    | sym s =>
      cases s <;> try rfl
      cases r with
      | nil => simp [fromStartOK] at h
      | cons u r' => cases u <;> first | exact h | rfl
    | word w => exact h
    | _ => rfl

theorem fromAct_body (ts : List Tok) (h1 : fromStartOK ts = true) (h2 : headOKE ts = true) : fromAct ts = .body ts := by
  cases ts with
  | nil => rfl
  | cons t r =>
    cases t with
    | table n => simp [headOKE, startOK, isW] at h2
    | sym s =>
      cases s <;> try rfl
      cases r with
      | nil => rfl
      | cons u r' =>
        cases u with
        | word w =>
          have : (w == "select") = false := by simpa [fromStartOK] using h1
          simp [fromAct, isW, this]
        | _ => rfl
    | _ => rfl

theorem bodyAct_expr (ts : List Tok) (h1 : fromStartOK ts = true) : bodyAct ts = .expr := by
  cases ts with
  | nil => rfl
  | cons t r =>
    cases t with
    | word w =>
      simp only [fromStartOK, Bool.and_eq_true, bne_iff_ne, ne_eq] at h1
      simp [bodyAct, isW, h1.1.1, h1.1.2, h1.2]
    | _ => rfl

/-- a parenthesised SELECT seen from `expression`: every level passes the atom through -/
theorem passthrough_select (r : List Tok) (x : Expr) (rest : List Tok)
    (h : Ev (fun m => parseAtom m (.word "select" :: r)) (x, .sym .rparen :: rest)) :
    Ev (fun m => parseExpr m (.word "select" :: r)) (x, .sym .rparen :: rest) := by
  obtain ⟨n, hn⟩ := h
  refine ⟨n + 9, fun m hm => ?_⟩
  obtain ⟨k, rfl⟩ : ∃ k, m = k + 9 := ⟨m - 9, by omega⟩
  have hA := hn (k + 1) (by omega)
  dsimp only at hA
  have hpost : postfixLoop (k + 1) x (.sym .rparen :: rest) = some (x, .sym .rparen :: rest) :=
    postfixLoop_done k x _ (by simp [Follow, tokLevel])
  have hprim : parsePrimary (k + 2) (.word "select" :: r) = some (x, .sym .rparen :: rest) := by
    simp only [parsePrimary, hA, hpost]
  have hfac : parseFactor (k + 3) (.word "select" :: r) = some (x, .sym .rparen :: rest) := by
    simp only [parseFactor, factorAct, hprim]
  have hterm : parseTerm (k + 4) (.word "select" :: r) = some (x, .sym .rparen :: rest) := by
    simp only [parseTerm, hfac]
    exact binLoop_done mulOpOf _ (k + 2) x _ (fun t r' e => by cases e; rfl)
  have hsum : parseSum (k + 5) (.word "select" :: r) = some (x, .sym .rparen :: rest) := by
    simp only [parseSum, hterm]
    exact binLoop_done addOpOf _ (k + 3) x _ (fun t r' e => by cases e; rfl)
  have hcmp : parseCmp (k + 6) (.word "select" :: r) = some (x, .sym .rparen :: rest) := by
    simp only [parseCmp, hsum]
    simp [cmpAct, isW, cmpOpOf]
  have hinv : parseInv (k + 7) (.word "select" :: r) = some (x, .sym .rparen :: rest) := by
    simp only [parseInv, hcmp]
    simp [stripWord, isW]
  have hconj : parseConj (k + 8) (.word "select" :: r) = some (x, .sym .rparen :: rest) := by
    simp only [parseConj, hinv]
    rw [sepLoop_done "and" _ (k + 6) [x] _ (fun t r' e => by cases e; rfl)]
  simp only [parseExpr, hconj]
  rw [sepLoop_done "or" _ (k + 7) [x] _ (fun t r' e => by cases e; rfl)]

/-! ### OPEN / CLOSE / CLEAR -/

def openToks : Option Date → List Tok
  | some d => [.word "open", .word "on", .date d.y d.m d.d]
  | none => []
def closeToks : CloseSpec → List Tok
  | .absent => []
  | .flag => [.word "close"]
  | .on d => [.word "close", .word "on", .date d.y d.m d.d]
def clearToks (b : Bool) : List Tok := if b then [.word "clear"] else []

theorem printClauses_eq (o : Option Date) (c : CloseSpec) (cl : Bool) :
    printClauses o c cl = openToks o ++ closeToks c ++ clearToks cl := by
  cases o <;> cases c <;> cases cl <;> rfl

theorem optDate_print (d : Date) (h : d.valid = true) (rest : List Tok) :
    optDate (.date d.y d.m d.d :: rest) = some (d, rest) := by
  simp [optDate, h]

theorem parseClear_print (cl : Bool) (tail : List Tok) (k : Nat) (h : CFollow k tail) :
    parseClear (clearToks cl ++ tail) = (cl, tail) := by
  cases cl with
  | true => simp [clearToks, parseClear, stripWord_hit]
  | false => simp [clearToks, parseClear, stripWord_cf "clear" k tail h (by simp [clauseLevel])]

theorem parseCloseClear_print (c : CloseSpec) (cl : Bool) (hc : closeOK c = true) (tail : List Tok) (k : Nat) (h : CFollow k tail) :
    parseCloseClear (closeToks c ++ (clearToks cl ++ tail)) = some (c, cl, tail) := by
  have hmiss : ∀ w, clauseLevel (.word w) = 0 → stripWord w (clearToks cl ++ tail) = none ∨ (cl = true ∧ w = "clear") := by
    intro w hw
    cases cl with
    | true =>
      by_cases e : w = "clear"
      · exact Or.inr ⟨rfl, e⟩
      · left; simp [clearToks, stripWord, isW, Ne.symm e]
    | false => left; simpa [clearToks] using stripWord_cf w k tail h (by omega)
  cases c with
  | absent =>
    have h1 : stripWord "close" (clearToks cl ++ tail) = none := by
      rcases hmiss "close" (by simp [clauseLevel]) with h | ⟨_, h⟩
      · exact h
      · simp at h
    simp [closeToks, parseCloseClear, parseClose, h1, parseClear_print cl tail k h]
  | flag =>
    have h1 : stripWord "on" (clearToks cl ++ tail) = none := by
      rcases hmiss "on" (by simp [clauseLevel]) with h | ⟨_, h⟩
      · exact h
      · simp at h
    simp [closeToks, parseCloseClear, parseClose, stripWord_hit, h1, parseClear_print cl tail k h]
  | on d =>
    have hd : d.valid = true := hc
    simp [closeToks, parseCloseClear, parseClose, stripWord_hit, optDate_print d hd, parseClear_print cl tail k h]

end Bql.Syn
