/-
  Clause-level stages of `parseSelect`: each takes the eventual results of the recursive parsers
  it calls as hypotheses (the mutual induction of ParserRT2 supplies them).
-/
import BqlVerif.Proofs.ParserRT
set_option autoImplicit false
namespace Bql.Syn

theorem isW_kw_of_headOKE (w : String) (hk : isKeyword w = true) (h1 : w ≠ "not") (h2 : w ≠ "true") (h3 : w ≠ "false")
    (ts : List Tok) (h : headOKE ts = true) : stripWord w ts = none := by
  apply stripWord_miss
  intro t r e
  subst e
  cases t with
  | word v =>
    simp only [isW_word, beq_eq_false_iff_ne, ne_eq]
    intro e; subst e
    simp [headOKE, startOK, isW, hk, h1, h2, h3] at h
  | _ => rfl

theorem stripStar_miss (ts : List Tok) (h : headOKE ts = true) : stripStar ts = none := by
  cases ts with
  | nil => rfl
  | cons t r =>
    cases t with
    | sym s => cases s <;> simp_all [stripStar, headOKE, startOK, isW]
    | _ => rfl

/-! ### alias, ordering, pivot, limit -/

theorem parseAlias_print (a : Option String) (ha : optIdentOK a = true) (tail : List Tok) (hmiss : stripWord "as" tail = none) :
    parseAlias (aliasToks a ++ tail) = some (a, tail) := by
  cases a with
  | none => simp [aliasToks, parseAlias, hmiss]
  | some n =>
    have hk : isKeyword n = false := by simpa [optIdentOK, identOK] using ha
    simp [aliasToks, parseAlias, stripWord_hit, identOf, hk]

theorem follow_alias (a : Option String) (tail : List Tok) (h : Follow 5 tail) : Follow 5 (aliasToks a ++ tail) := by
  cases a with
  | none => exact h
  | some n => simp [aliasToks, Follow, tokLevel, wordLevel]

theorem parseOrdering_print (desc asc : Bool) (tail : List Tok) (h1 : stripWord "desc" tail = none) (h2 : stripWord "asc" tail = none) :
    parseOrdering (orderingToks desc asc ++ tail) = (desc, tail) := by
  cases desc with
  | true => simp [orderingToks, parseOrdering, stripWord_hit]
  | false =>
    cases asc with
    | true => simp [orderingToks, parseOrdering, stripWord, isW]
    | false => simp [orderingToks, parseOrdering, h1, h2]

theorem follow_ordering (desc asc : Bool) (tail : List Tok) (h : Follow 5 tail) : Follow 5 (orderingToks desc asc ++ tail) := by
  cases desc <;> cases asc <;> first | exact h | simp [orderingToks, Follow, tokLevel, wordLevel]

theorem pivotKey_print (a : PKey) (ha : a.ok = true) (rest : List Tok) : pivotKey (a.tok :: rest) = some (a.key, rest) := by
  cases a with
  | idx n => rfl
  | col w =>
    have hk : isKeyword w = false := by simpa [PKey.ok, identOK] using ha
    simp [PKey.tok, pivotKey, hk, PKey.key]

def pivotEmbed : Option (PKey × PKey) → List KeyRef
  | none => []
  | some (a, b) => [a.key, b.key]

def pivotOK : Option (PKey × PKey) → Prop
  | none => True
  | some (a, b) => a.ok = true ∧ b.ok = true

def optWf : Option LExpr → Prop
  | none => True
  | some e => wfExpr e

def targetsOK : Option (List LTarget) → Prop
  | none => True
  | some tl => tl ≠ [] ∧ wfTargets tl

def havingOK (g : List LKey) : Option LExpr → Prop
  | none => True
  | some e => wfExpr e ∧ g ≠ []

theorem wfSelect_def (d : Bool) (ts : Option (List LTarget)) (f : LFrom) (w : Option LExpr) (g : List LKey) (hv : Option LExpr)
    (o : List LOrder) (p : Option (PKey × PKey)) (l : Option Nat) :
    wfSelect (.mk d ts f w g hv o p l) ↔
      (targetsOK ts ∧ wfFrom f ∧ optWf w ∧ wfKeys g ∧ havingOK g hv ∧ wfOrders o ∧ pivotOK p) := by
  cases ts <;> cases w <;> cases hv <;> cases p <;>
    first
    | exact Iff.rfl
    | (rename_i ab; obtain ⟨a, b⟩ := ab; exact Iff.rfl)

def optExprEmbed : Option LExpr → Option Expr
  | none => none
  | some e => some (embedExpr e)

def targetsEmbed : Option (List LTarget) → Option (List Target)
  | none => none
  | some ts => some (embedTargets ts)

theorem parsePivot_print (p : Option (PKey × PKey)) (hp : pivotOK p) (tail : List Tok) (hc : CFollow 6 tail) :
    parsePivot (pivotToks p ++ tail) = some (pivotEmbed p, tail) := by
  cases p with
  | none =>
    simp [pivotToks, parsePivot, stripWords2, stripWord_cf "pivot" 6 tail hc (by simp [clauseLevel]), pivotEmbed]
  | some ab =>
    obtain ⟨a, b⟩ := ab
    simp [pivotToks, parsePivot, stripWords2, stripWord_hit, pivotKey_print a hp.1, pivotKey_print b hp.2, pivotEmbed]

theorem parseLimit_print (l : Option Nat) (rest : List Tok) (hc : CFollow 7 rest) :
    parseLimit (limitToks l ++ rest) = some (l, rest) := by
  cases l with
  | none => simp [limitToks, parseLimit, stripWord_cf "limit" 7 rest hc (by simp [clauseLevel])]
  | some n => simp [limitToks, parseLimit, stripWord_hit]

/-! ### WHERE / GROUP BY / ORDER BY / targets -/

theorem stage_where_none (tail : List Tok) (hc : CFollow 2 tail) : Ev (fun m => parseWhere m tail) (none, tail) :=
  ev_intro 0 (fun k _ => by simp [parseWhere, stripWord_cf "where" 2 tail hc (by simp [clauseLevel])])

theorem stage_where_some (e : LExpr) (tail : List Tok)
    (h : Ev (fun m => parseExpr m (printExpr e ++ tail)) (embedExpr e, tail)) :
    Ev (fun m => parseWhere m (.word "where" :: (printExpr e ++ tail))) (some (embedExpr e), tail) := by
  obtain ⟨n, hn⟩ := h
  exact ev_intro n (fun k hk => by simp [parseWhere, stripWord_hit, hn k hk])

theorem stage_group_nil (tail : List Tok) (hc : CFollow 3 tail) : Ev (fun m => parseGroup m tail) (([], none), tail) :=
  ev_intro 0 (fun k _ => by simp [parseGroup, stripWords2, stripWord_cf "group" 3 tail hc (by simp [clauseLevel])])

theorem stage_group_keys (ktoks : List Tok) (keys : List KeyRef) (tail : List Tok) (hc : CFollow 4 tail)
    (hK : Ev (fun m => parseKeys m (ktoks ++ tail)) (keys, tail)) :
    Ev (fun m => parseGroup m (.word "group" :: .word "by" :: (ktoks ++ tail))) ((keys, none), tail) := by
  obtain ⟨n, hn⟩ := hK
  exact ev_intro n (fun k hk => by
    simp [parseGroup, stripWords2, stripWord_hit, hn k hk, stripWord_cf "having" 4 tail hc (by simp [clauseLevel])])

theorem stage_group_having (ktoks : List Tok) (keys : List KeyRef) (e : LExpr) (tail : List Tok)
    (hK : Ev (fun m => parseKeys m (ktoks ++ (.word "having" :: (printExpr e ++ tail)))) (keys, .word "having" :: (printExpr e ++ tail)))
    (hE : Ev (fun m => parseExpr m (printExpr e ++ tail)) (embedExpr e, tail)) :
    Ev (fun m => parseGroup m (.word "group" :: .word "by" :: (ktoks ++ (.word "having" :: (printExpr e ++ tail)))))
      ((keys, some (embedExpr e)), tail) := by
  obtain ⟨n1, h1⟩ := hK
  obtain ⟨n2, h2⟩ := hE
  exact ev_intro (max n1 n2) (fun k hk => by
    simp [parseGroup, stripWords2, stripWord_hit, h1 k (by omega), h2 k (by omega)])

theorem stage_order_nil (tail : List Tok) (hc : CFollow 5 tail) : Ev (fun m => parseOrderBy m tail) ([], tail) :=
  ev_intro 0 (fun k _ => by simp [parseOrderBy, stripWords2, stripWord_cf "order" 5 tail hc (by simp [clauseLevel])])

theorem stage_order_some (otoks : List Tok) (os : List (KeyRef × Bool)) (tail : List Tok)
    (hO : Ev (fun m => parseOrders m (otoks ++ tail)) (os, tail)) :
    Ev (fun m => parseOrderBy m (.word "order" :: .word "by" :: (otoks ++ tail))) (os, tail) := by
  obtain ⟨n, hn⟩ := hO
  exact ev_intro n (fun k hk => by simp [parseOrderBy, stripWords2, stripWord_hit, hn k hk])

theorem stage_targets_star (tail : List Tok) : Ev (fun m => parseTargetList m (.sym .star :: tail)) (none, tail) :=
  ev_intro 0 (fun k _ => by simp [parseTargetList, stripStar])

theorem stage_targets_list (ttoks : List Tok) (tl : List Target) (tail : List Tok) (hh : headOKE (ttoks ++ tail) = true)
    (hT : Ev (fun m => parseTargets m (ttoks ++ tail)) (tl, tail)) :
    Ev (fun m => parseTargetList m (ttoks ++ tail)) (some tl, tail) := by
  obtain ⟨n, hn⟩ := hT
  exact ev_intro n (fun k hk => by simp [parseTargetList, stripStar_miss _ hh, hn k hk])

/-! ### FROM -/

theorem follow_clauses (o : Option Date) (c : CloseSpec) (cl : Bool) (tail : List Tok) (h : Follow 5 tail) :
    Follow 5 (openToks o ++ (closeToks c ++ (clearToks cl ++ tail))) := by
  cases o <;> cases c <;> cases cl <;> first | exact h | simp [openToks, closeToks, clearToks, Follow, tokLevel, wordLevel]

theorem stripOpen_miss (c : CloseSpec) (cl : Bool) (tail : List Tok) (k : Nat) (hc : CFollow k tail) :
    stripWord "open" (closeToks c ++ (clearToks cl ++ tail)) = none := by
  cases c <;> cases cl <;>
    first
    | simpa [closeToks, clearToks] using stripWord_cf "open" k tail hc (by simp [clauseLevel])
    | simp [closeToks, clearToks, stripWord, isW]

theorem parseOpenOpt_print (o : Option Date) (ho : optDateOK o = true) (c : CloseSpec) (cl : Bool) (tail : List Tok) (k : Nat)
    (hc : CFollow k tail) :
    parseOpenOpt (openToks o ++ (closeToks c ++ (clearToks cl ++ tail))) = some (o, closeToks c ++ (clearToks cl ++ tail)) := by
  cases o with
  | none => simp [openToks, parseOpenOpt, stripOpen_miss c cl tail k hc]
  | some d =>
    have hd : d.valid = true := ho
    simp [openToks, parseOpenOpt, stripWord_hit, optDate_print d hd]

/-- FROM clause without a subquery: all the non-recursive alternatives -/
theorem stage_from_none (tail : List Tok) (hc : CFollow 1 tail) : Ev (fun m => parseFromClause m tail) (.none, tail) :=
  ev_intro 0 (fun k _ => by simp [parseFromClause, stripWord_cf "from" 1 tail hc (by simp [clauseLevel])])

theorem stage_from_table (n : String) (tail : List Tok) :
    Ev (fun m => parseFromClause m (.word "from" :: .table n :: tail)) (.table n, tail) :=
  ev_intro 0 (fun k _ => by simp [parseFromClause, stripWord_hit, fromAct])

theorem stage_from_sub (r : List Tok) (s : Select) (tail : List Tok)
    (h : Ev (fun m => parseSelect m (.word "select" :: (r ++ .sym .rparen :: tail))) (s, .sym .rparen :: tail)) :
    Ev (fun m => parseFromClause m (.word "from" :: .sym .lparen :: .word "select" :: (r ++ .sym .rparen :: tail))) (.sub s, tail) := by
  obtain ⟨n, hn⟩ := h
  exact ev_intro n (fun k hk => by simp [parseFromClause, stripWord_hit, fromAct, isW, hn k hk])

theorem parseFromBody_clauses (o : Option Date) (c : CloseSpec) (cl : Bool) (tail : List Tok) (kf : Nat) (hc : CFollow kf tail)
    (hne : o.isSome = true ∨ c ≠ .absent ∨ cl = true) (ho : optDateOK o = true) (hcl : closeOK c = true) (f : Nat) :
    parseFromBody (f + 1) (printClauses o c cl ++ tail) = some (.from none o c cl, tail) := by
  rw [printClauses_eq, List.append_assoc, List.append_assoc]
  cases o with
  | some d =>
    have hd : d.valid = true := ho
    simp [openToks, parseFromBody, bodyAct, isW, parseOpenFirst, stripWord_hit, optDate_print d hd,
      parseCloseClear_print c cl hcl tail kf hc]
  | none =>
    cases c with
    | flag =>
      have := parseCloseClear_print .flag cl hcl tail kf hc
      simp only [closeToks, List.cons_append, List.nil_append] at this
      simp [openToks, closeToks, parseFromBody, bodyAct, isW, this]
    | on d =>
      have := parseCloseClear_print (.on d) cl hcl tail kf hc
      simp only [closeToks, List.cons_append, List.nil_append] at this
      simp [openToks, closeToks, parseFromBody, bodyAct, isW, this]
    | absent =>
      cases cl with
      | true => simp [openToks, closeToks, clearToks, parseFromBody, bodyAct, isW]
      | false => simp at hne

theorem stage_from_clauses (o : Option Date) (c : CloseSpec) (cl : Bool) (tail : List Tok) (kf : Nat) (hc : CFollow kf tail)
    (hne : o.isSome = true ∨ c ≠ .absent ∨ cl = true) (ho : optDateOK o = true) (hcl : closeOK c = true) :
    Ev (fun m => parseFromClause m (.word "from" :: (printClauses o c cl ++ tail))) (.from none o c cl, tail) := by
  refine ev_intro 1 (fun k hk => ?_)
  obtain ⟨j, rfl⟩ : ∃ j, k = j + 1 := ⟨k - 1, by omega⟩
  have hb := parseFromBody_clauses o c cl tail kf hc hne ho hcl j
  have hfa : fromAct (printClauses o c cl ++ tail) = .body (printClauses o c cl ++ tail) := by
    rw [printClauses_eq]
    cases o <;> cases c <;> cases cl <;> first | rfl | simp at hne
  simp [parseFromClause, stripWord_hit, hfa, hb]

theorem parseFromBody_expr (e : LExpr) (x : Expr) (o : Option Date) (c : CloseSpec) (cl : Bool) (tail : List Tok) (kf : Nat)
    (hc : CFollow kf tail) (ho : optDateOK o = true) (hcl : closeOK c = true)
    (hstart : fromStartOK (printExpr e ++ (printClauses o c cl ++ tail)) = true) (f : Nat)
    (hE : parseExpr f (printExpr e ++ (printClauses o c cl ++ tail)) = some (x, printClauses o c cl ++ tail)) :
    parseFromBody (f + 1) (printExpr e ++ (printClauses o c cl ++ tail)) = some (.from (some x) o c cl, tail) := by
  simp only [parseFromBody, bodyAct_expr _ hstart, hE]
  rw [printClauses_eq, List.append_assoc, List.append_assoc, parseOpenOpt_print o ho c cl tail kf hc]
  simp [parseCloseClear_print c cl hcl tail kf hc]

theorem stage_from_expr (e : LExpr) (o : Option Date) (c : CloseSpec) (cl : Bool) (tail : List Tok) (kf : Nat)
    (hc : CFollow kf tail) (ho : optDateOK o = true) (hcl : closeOK c = true)
    (hstart : fromStartOK (printExpr e) = true) (hhead : headOKE (printExpr e) = true)
    (hE : Ev (fun m => parseExpr m (printExpr e ++ (printClauses o c cl ++ tail))) (embedExpr e, printClauses o c cl ++ tail)) :
    Ev (fun m => parseFromClause m (.word "from" :: (printExpr e ++ (printClauses o c cl ++ tail))))
      (.from (some (embedExpr e)) o c cl, tail) := by
  obtain ⟨n, hn⟩ := hE
  have hne : printExpr e ≠ [] := by intro h; rw [h] at hhead; simp [headOKE] at hhead
  have hs := fromStartOK_append _ (printClauses o c cl ++ tail) hne hstart
  have hh := headOKE_append _ (printClauses o c cl ++ tail) hhead
  refine ev_intro (n + 1) (fun k hk => ?_)
  obtain ⟨j, rfl⟩ : ∃ j, k = j + 1 := ⟨k - 1, by omega⟩
  have hb := parseFromBody_expr e (embedExpr e) o c cl tail kf hc ho hcl hs j (hn j (by omega))
  simp [parseFromClause, stripWord_hit, fromAct_body _ hs hh, hb]

/-- assembling the stages of `parseSelect` -/
theorem parseSelect_stages (d : Bool) (ts0 ts1 ts2 ts3 ts4 ts5 ts6 ts7 ts8 : List Tok)
    (tg : Option (List Target)) (fr : FromC) (wh : Option Expr) (gk : List KeyRef) (hv : Option Expr) (ob : List (KeyRef × Bool))
    (pv : List KeyRef) (lim : Option Nat)
    (hd : stripDistinct ts0 = (d, ts1))
    (h1 : Ev (fun m => parseTargetList m ts1) (tg, ts2))
    (h2 : Ev (fun m => parseFromClause m ts2) (fr, ts3))
    (h3 : Ev (fun m => parseWhere m ts3) (wh, ts4))
    (h4 : Ev (fun m => parseGroup m ts4) ((gk, hv), ts5))
    (h5 : Ev (fun m => parseOrderBy m ts5) (ob, ts6))
    (h6 : parsePivot ts6 = some (pv, ts7))
    (h7 : parseLimit ts7 = some (lim, ts8)) :
    Ev (fun m => parseSelect m (.word "select" :: ts0)) (.mk tg fr wh gk hv ob pv lim d, ts8) := by
  obtain ⟨n1, h1⟩ := h1
  obtain ⟨n2, h2⟩ := h2
  obtain ⟨n3, h3⟩ := h3
  obtain ⟨n4, h4⟩ := h4
  obtain ⟨n5, h5⟩ := h5
  refine ev_intro (max n1 (max n2 (max n3 (max n4 n5)))) (fun k hk => ?_)
  simp only [parseSelect, stripWord_hit, hd, h1 k (by omega), h2 k (by omega), h3 k (by omega), h4 k (by omega), h5 k (by omega), h6, h7]

/-- the FROM clause of BALANCES / JOURNAL / PRINT -/
theorem parseFromOpt_none (tail : List Tok) (hmiss : stripWord "from" tail = none) (f : Nat) :
    parseFromOpt f tail = some (.none, tail) := by
  simp [parseFromOpt, hmiss]

end Bql.Syn
