/-
  Lemmas for C18: `maxwidth` = `textwrap.shorten` never exceeds the width and only normalises a text that fits.
-/
import BqlVerif.Model.Funcs
set_option autoImplicit false
set_option linter.unusedSimpArgs false
namespace Bql

theorem totalLen_append (a b : List (List Char)) : totalLen (a ++ b) = totalLen a + totalLen b := by
  simp [totalLen, List.sum_append]

theorem totalLen_flatten (l : List (List Char)) : l.flatten.length = totalLen l := by
  simp [totalLen, List.length_flatten]

theorem totalLen_reverse (l : List (List Char)) : totalLen l.reverse = totalLen l := by
  induction l with
  | nil => rfl
  | cons a rest ih => simp [totalLen_append, ih, totalLen]; omega

theorem fitLoop_spec (w : Nat) : ∀ (chunks cur : List (List Char)) (len : Nat), len = totalLen cur → len ≤ w →
    (fitLoop w cur len chunks).2.1 = totalLen (fitLoop w cur len chunks).1 ∧ (fitLoop w cur len chunks).2.1 ≤ w ∧
      (fitLoop w cur len chunks).1 ++ (fitLoop w cur len chunks).2.2 = cur ++ chunks
  | [], cur, len, h1, h2 => by
    simp only [fitLoop, List.append_nil]
    exact ⟨h1, h2, trivial⟩
  | c :: rest, cur, len, h1, h2 => by
    simp only [fitLoop]
    by_cases hfit : len + c.length ≤ w
    · simp only [hfit, if_true]
      have := fitLoop_spec w rest (cur ++ [c]) (len + c.length) (by simp [totalLen_append, totalLen, h1]) hfit
      refine ⟨this.1, this.2.1, ?_⟩
      rw [this.2.2]; simp
    · simp only [hfit, if_false]
      exact ⟨h1, h2, trivial⟩

/-- the placeholder loop never exceeds the width (which is at least the bare placeholder) -/
theorem placeholderLoop_le (w : Nat) (hw : 5 ≤ w) : ∀ (cur : List (List Char)) (len : Nat), len = totalLen cur →
    (placeholderLoop w cur len).length ≤ w
  | [], _, _ => by simp [placeholderLoop]; exact hw
  | c :: rest, len, h => by
    simp only [placeholderLoop]
    split
    · rename_i hc
      simp only [Bool.and_eq_true, decide_eq_true_eq] at hc
      simp only [List.length_append, totalLen_flatten, totalLen_reverse, ← h]
      exact hc.2
    · apply placeholderLoop_le w hw rest
      simp [h, totalLen]

theorem longWord_le (w : Nat) (cur : List (List Char)) (len : Nat) (rest : List (List Char))
    (h1 : len = totalLen cur) (h2 : len ≤ w) : totalLen (longWord w cur len rest).1 ≤ w := by
  cases rest with
  | nil => simp [longWord, ← h1, h2]
  | cons c r =>
    simp only [longWord]
    split
    · simp only [totalLen_append, ← h1]
      simp [totalLen]; omega
    · simp [← h1, h2]

theorem dropLast_totalLen_le (cur : List (List Char)) : totalLen cur.dropLast ≤ totalLen cur := by
  by_cases h : cur = []
  · subst h; simp
  · have := List.dropLast_concat_getLast h
    conv => rhs; rw [← this]
    simp [totalLen_append]

theorem dropBlank_le (cur : List (List Char)) : totalLen (dropBlank cur) ≤ totalLen cur := by
  unfold dropBlank
  cases cur.getLast? with
  | none => simp
  | some l =>
    simp only
    split
    · exact dropLast_totalLen_le cur
    · exact Nat.le_refl _

/-- **`maxwidth` never exceeds the width**: for every text and every width the placeholder fits in -/
theorem shortenLine_le (w : Nat) (hw : 5 ≤ w) (chunks : List (List Char)) : (shortenLine w chunks).length ≤ w := by
  unfold shortenLine
  have hf := fitLoop_spec w chunks [] 0 rfl (Nat.zero_le _)
  have hl := longWord_le w _ _ (fitLoop w [] 0 chunks).2.2 hf.1 hf.2.1
  have hd := Nat.le_trans (dropBlank_le _) hl
  simp only
  split
  · simp
  · split
    · rw [totalLen_flatten]; exact hd
    · exact placeholderLoop_le w hw _ _ (totalLen_reverse _).symm


theorem fitLoop_all (w : Nat) : ∀ (chunks cur : List (List Char)) (len : Nat), len + totalLen chunks ≤ w →
    fitLoop w cur len chunks = (cur ++ chunks, len + totalLen chunks, [])
  | [], cur, len, _ => by simp [fitLoop, totalLen]
  | c :: rest, cur, len, h => by
    have hc : len + c.length ≤ w := by simp [totalLen] at h; omega
    simp only [fitLoop, hc, if_true]
    rw [fitLoop_all w rest (cur ++ [c]) (len + c.length) (by simp [totalLen] at h ⊢; omega)]
    simp [totalLen]; omega

/-- the words `str.split()` returns are non-empty and free of white space -/
def GoodWord (wd : List Char) : Prop := wd ≠ [] ∧ ∀ c ∈ wd, isWs c = false

theorem splitStep_inv (c : Char) (acc : List (List Char) × List Char)
    (h1 : ∀ wd ∈ acc.1, GoodWord wd) (h2 : ∀ x ∈ acc.2, isWs x = false) :
    (∀ wd ∈ (splitStep acc c).1, GoodWord wd) ∧ (∀ x ∈ (splitStep acc c).2, isWs x = false) := by
  unfold splitStep
  by_cases hc : isWs c = true
  · simp only [hc, if_true]
    refine ⟨?_, by simp⟩
    by_cases he : acc.2.isEmpty = true
    · simp only [he, if_true]; exact h1
    · simp only [he]
      intro wd hwd
      rcases List.mem_append.mp hwd with h | h
      · exact h1 wd h
      · simp at h; subst h
        exact ⟨by intro hnil; simp [hnil] at he, h2⟩
  · simp only [hc]
    refine ⟨h1, ?_⟩
    intro x hx
    rcases List.mem_append.mp hx with h | h
    · exact h2 x h
    · simp at h; subst h; simpa using hc

theorem splitFold_inv : ∀ (l : List Char) (acc : List (List Char) × List Char),
    (∀ wd ∈ acc.1, GoodWord wd) → (∀ x ∈ acc.2, isWs x = false) →
    (∀ wd ∈ (l.foldl splitStep acc).1, GoodWord wd) ∧ (∀ x ∈ (l.foldl splitStep acc).2, isWs x = false)
  | [], acc, h1, h2 => ⟨h1, h2⟩
  | c :: rest, acc, h1, h2 => by
    simp only [List.foldl_cons]
    have := splitStep_inv c acc h1 h2
    exact splitFold_inv rest _ this.1 this.2

theorem splitWords_good (cs : List Char) : ∀ wd ∈ splitWords cs, GoodWord wd := by
  have := splitFold_inv cs ([], []) (by simp) (by simp)
  intro wd hwd
  unfold splitWords at hwd
  by_cases he : (cs.foldl splitStep ([], [])).2.isEmpty = true
  · simp only [he, if_true] at hwd
    exact this.1 wd hwd
  · simp only [he] at hwd
    rcases List.mem_append.mp hwd with h | h
    · exact this.1 wd h
    · simp at h; subst h
      exact ⟨by intro hnil; simp [hnil] at he, this.2⟩

theorem goodWord_not_blank (wd : List Char) (h : GoodWord wd) : isBlankChunk wd = false := by
  obtain ⟨hne, hall⟩ := h
  cases wd with
  | nil => exact absurd rfl hne
  | cons c rest => simp [isBlankChunk, hall c (List.mem_cons_self ..)]

theorem shortenChunks_ne (ws : List (List Char)) (hne : ws ≠ []) : shortenChunks ws ≠ [] := by
  cases ws with
  | nil => exact absurd rfl hne
  | cons a rest => cases rest <;> simp [shortenChunks]

theorem shortenChunks_last (ws : List (List Char)) (hne : ws ≠ []) :
    (shortenChunks ws).getLast? = ws.getLast? := by
  induction ws with
  | nil => exact absurd rfl hne
  | cons a rest ih =>
    cases rest with
    | nil => rfl
    | cons b r =>
      have := ih (by simp)
      have hne2 := shortenChunks_ne (b :: r) (by simp)
      cases hx : shortenChunks (b :: r) with
      | nil => exact absurd hx hne2
      | cons x xs =>
        rw [hx] at this
        simp only [shortenChunks, hx, List.getLast?_cons_cons]
        exact this

/-- **a text that fits is only normalised**: when the words joined by single blanks are not longer than the width, `maxwidth`
    returns exactly that -/
theorem shortenLine_fits (w : Nat) (ws : List (List Char)) (hgood : ∀ wd ∈ ws, GoodWord wd)
    (hfit : totalLen (shortenChunks ws) ≤ w) : shortenLine w (shortenChunks ws) = (shortenChunks ws).flatten := by
  unfold shortenLine
  rw [fitLoop_all w (shortenChunks ws) [] 0 (by omega)]
  simp only [List.nil_append, Nat.zero_add, longWord]
  by_cases hne : ws = []
  · subst hne; simp [shortenChunks, dropBlank]
  · have hlast := shortenChunks_last ws hne
    have hd : dropBlank (shortenChunks ws) = shortenChunks ws := by
      unfold dropBlank
      rw [hlast]
      cases hl : ws.getLast? with
      | none => rfl
      | some l =>
        have hm : l ∈ ws := List.mem_of_getLast? hl
        simp [goodWord_not_blank l (hgood l hm)]
    have hne2 := shortenChunks_ne ws hne
    have : (shortenChunks ws).isEmpty = false := by
      cases h : shortenChunks ws with
      | nil => exact absurd h hne2
      | cons _ _ => rfl
    simp only [hd, this, hfit]
    simp



/-- the placeholder loop keeps a prefix of the line's chunks (it only ever drops chunks from the end) and appends the
    placeholder, or returns the bare placeholder -/
theorem placeholderLoop_shape (w : Nat) : ∀ (cur : List (List Char)) (len : Nat),
    placeholderLoop w cur len = "[...]".toList ∨
      ∃ k, k < cur.length ∧ placeholderLoop w cur len = (cur.drop k).reverse.flatten ++ shortenPlaceholder
  | [], _ => Or.inl rfl
  | c :: rest, len => by
    simp only [placeholderLoop]
    split
    · exact Or.inr ⟨0, by simp, rfl⟩
    · rcases placeholderLoop_shape w rest (len - c.length) with h | ⟨k, hk, h⟩
      · exact Or.inl h
      · exact Or.inr ⟨k + 1, by simp; omega, by simpa using h⟩


/-- a prefix of the chunks whose last chunk may have been cut short -/
def CutPrefix (pre chunks : List (List Char)) : Prop :=
  ∃ n, pre = chunks.take n ∨ ∃ m, pre = chunks.take n ++ [(chunks.getD n []).take m]

theorem cutPrefix_take (pre chunks : List (List Char)) (h : CutPrefix pre chunks) (k : Nat) : CutPrefix (pre.take k) chunks := by
  obtain ⟨n, h | ⟨m, h⟩⟩ := h
  · subst h
    exact ⟨min k n, Or.inl (by rw [List.take_take])⟩
  · subst h
    by_cases hk : k ≤ (chunks.take n).length
    · refine ⟨min k n, Or.inl ?_⟩
      rw [List.take_append_of_le_length hk, List.take_take]
    · have : (chunks.take n ++ [(chunks.getD n []).take m]).take k = chunks.take n ++ [(chunks.getD n []).take m] := by
        apply List.take_of_length_le
        simp only [List.length_append, List.length_cons, List.length_nil]
        omega
      rw [this]
      exact ⟨n, Or.inr ⟨m, rfl⟩⟩

theorem cutPrefix_dropLast (pre chunks : List (List Char)) (h : CutPrefix pre chunks) : CutPrefix pre.dropLast chunks := by
  rw [List.dropLast_eq_take]
  exact cutPrefix_take pre chunks h _

theorem fitLoop_prefix (w : Nat) (chunks : List (List Char)) :
    (fitLoop w [] 0 chunks).1 = chunks.take (fitLoop w [] 0 chunks).1.length ∧
    (fitLoop w [] 0 chunks).2.2 = chunks.drop (fitLoop w [] 0 chunks).1.length := by
  have h := (fitLoop_spec w chunks [] 0 rfl (Nat.zero_le _)).2.2
  simp only [List.nil_append] at h
  generalize (fitLoop w [] 0 chunks).1 = a at h ⊢
  generalize (fitLoop w [] 0 chunks).2.2 = b at h ⊢
  subst h
  simp

theorem longWord_cutPrefix (w : Nat) (chunks : List (List Char)) :
    CutPrefix (longWord w (fitLoop w [] 0 chunks).1 (fitLoop w [] 0 chunks).2.1 (fitLoop w [] 0 chunks).2.2).1 chunks := by
  obtain ⟨h1, h2⟩ := fitLoop_prefix w chunks
  generalize (fitLoop w [] 0 chunks).1 = cur at h1 h2
  generalize (fitLoop w [] 0 chunks).2.1 = len
  generalize hr : (fitLoop w [] 0 chunks).2.2 = rest at h2
  cases rest with
  | nil => exact ⟨cur.length, Or.inl (by simpa [longWord] using h1)⟩
  | cons c r =>
    simp only [longWord]
    split
    · refine ⟨cur.length, Or.inr ⟨w - len, ?_⟩⟩
      have hc : chunks.getD cur.length [] = c := by
        have : (chunks.drop cur.length).head? = some c := by rw [← h2]; rfl
        rw [List.head?_drop] at this
        simp [List.getD, this]
      simp only
      rw [hc, ← h1]
    · exact ⟨cur.length, Or.inl h1⟩

/-- **the shape of every result**: nothing, the bare placeholder, or a prefix of the normalised text's chunks (the last one
    possibly cut, when a single word is longer than the width) - followed by the placeholder when something was left out -/
theorem shortenLine_shape (w : Nat) (chunks : List (List Char)) :
    shortenLine w chunks = [] ∨ shortenLine w chunks = "[...]".toList ∨
      ∃ pre, CutPrefix pre chunks ∧ (shortenLine w chunks = pre.flatten ∨ shortenLine w chunks = pre.flatten ++ shortenPlaceholder) := by
  have hlw := longWord_cutPrefix w chunks
  unfold shortenLine
  simp only
  generalize (longWord w (fitLoop w [] 0 chunks).1 (fitLoop w [] 0 chunks).2.1 (fitLoop w [] 0 chunks).2.2) = lw at hlw ⊢
  have hcur : CutPrefix (dropBlank lw.1) chunks := by
    unfold dropBlank
    cases lw.1.getLast? with
    | none => exact hlw
    | some l =>
      simp only
      split
      · exact cutPrefix_dropLast _ _ hlw
      · exact hlw
  generalize dropBlank lw.1 = cur at hcur ⊢
  split
  · exact Or.inl rfl
  · split
    · exact Or.inr (Or.inr ⟨cur, hcur, Or.inl rfl⟩)
    · rcases placeholderLoop_shape w cur.reverse (totalLen cur) with h | ⟨k, _, h⟩
      · exact Or.inr (Or.inl h)
      · refine Or.inr (Or.inr ⟨cur.take (cur.length - k), cutPrefix_take _ _ hcur _, Or.inr ?_⟩)
        rw [h]
        congr 2
        rw [List.drop_reverse, List.reverse_reverse]

end Bql
