/-
  Lemmas for C08: the table a FROM-subquery exposes, `SELECT *` over it, and the width of result rows.
-/
import BqlVerif.Model.Compile
set_option autoImplicit false
set_option linter.unusedSimpArgs false
namespace Bql

/-- the compiled targets of `*` over a subquery table -/
def starTargets (l : List ((String × Ty) × Nat)) : List CTarget :=
  l.map (fun p => ⟨.col p.2 p.1.1 p.1.2, some p.1.1, false⟩)

theorem find_nodup_key {β : Type} (l : List (String × β)) (hnd : (l.map (·.1)).Nodup) (x : String × β) (hx : x ∈ l) :
    l.find? (fun c => c.1 == x.1) = some x := by
  induction l with
  | nil => cases hx
  | cons a rest ih =>
    simp only [List.map_cons, List.nodup_cons] at hnd
    rcases List.mem_cons.mp hx with h | h
    · subst h; simp [List.find?_cons]
    · have hne : a.1 ≠ x.1 := by
        intro heq
        exact hnd.1 (heq ▸ List.mem_map.mpr ⟨x, h, rfl⟩)
      simp [List.find?_cons, hne, ih hnd.2 h]

theorem compileTargets_star (ctx : Ctx) (tbl : TableDef) (subq : Select → CM SubResult)
    (l : List ((String × Ty) × Nat)) (h : Nat)
    (hl : ∀ p ∈ l, lookupColumn tbl p.1.1 = some (p.2, p.1.2)) :
    compileTargets ctx tbl subq (l.map (fun p => Target.mk (.col p.1.1) none p.1.1)) h = .ok (starTargets l, h) := by
  induction l with
  | nil => simp [compileTargets, starTargets]
  | cons p rest ih =>
    have hp := hl p (List.mem_cons_self ..)
    have ih' := ih (fun q hq => hl q (List.mem_cons_of_mem _ hq))
    simp only [List.map_cons, compileTargets, Target.expr, compileExpr, hp, targetName, checkTarget, CExpr.cols,
      CExpr.aggs, ih', starTargets, CExpr.isAggregate]
    simp

def starOver (q : Select) : Select := .mk none (.sub q) none [] none [] [] none false

def starQuery (desc : List (String × Ty)) (rows : List Row) : CQuery :=
  { table := rows, targets := starTargets desc.zipIdx, where_ := none, groupIdx := none, havingIdx := none,
    orderSpec := none, limit := none, distinct := false }

theorem subqueryTable_cols (desc : List (String × Ty)) (rows : List Row) (hnd : (desc.map (·.1)).Nodup) :
    (subqueryTable desc rows).cols = desc.zipIdx.map (fun p => (p.1.1, p.2, p.1.2)) := by
  unfold subqueryTable
  simp only
  have key : ∀ (l : List ((String × Ty) × Nat)) (acc : List (String × Nat × Ty)),
      (∀ p ∈ l, ∀ c ∈ acc, c.1 ≠ p.1.1) → (l.map (·.1.1)).Nodup →
      l.foldl (fun acc p => upsertCol acc p.1.1 p.2 p.1.2) acc = acc ++ l.map (fun p => (p.1.1, p.2, p.1.2)) := by
    intro l
    induction l with
    | nil => intro acc _ _; simp
    | cons p rest ih =>
      intro acc hfresh hnd
      simp only [List.foldl_cons, List.map_cons]
      have hnot : acc.any (fun c => c.1 == p.1.1) = false := by
        rw [List.any_eq_false]
        intro c hc
        have := hfresh p (List.mem_cons_self ..) c hc
        simp [this]
      have hup : upsertCol acc p.1.1 p.2 p.1.2 = acc ++ [(p.1.1, p.2, p.1.2)] := by
        simp [upsertCol, hnot]
      rw [hup, ih]
      · simp
      · intro q hq c hc
        rcases List.mem_append.mp hc with hc | hc
        · exact hfresh q (List.mem_cons_of_mem _ hq) c hc
        · simp at hc
          subst hc
          simp only
          have := (List.nodup_cons.mp hnd).1
          intro heq
          exact this (List.mem_map.mpr ⟨q, hq, heq.symm⟩)
      · exact (List.nodup_cons.mp hnd).2
  have hz : desc.zipIdx.map (·.1.1) = desc.map (·.1) := by
    have h1 : desc.zipIdx.map (·.1) = desc := List.zipIdx_map_fst 0 desc
    have h2 : desc.zipIdx.map (·.1.1) = (desc.zipIdx.map (·.1)).map (·.1) := by
      rw [List.map_map]; rfl
    rw [h2, h1]
  have h := key desc.zipIdx [] (by simp) (by rw [hz]; exact hnd)
  simpa using h

theorem lookup_subqueryTable (desc : List (String × Ty)) (rows : List Row) (hnd : (desc.map (·.1)).Nodup) :
    ∀ p ∈ desc.zipIdx, lookupColumn (subqueryTable desc rows) p.1.1 = some (p.2, p.1.2) := by
  intro p hp
  unfold lookupColumn
  rw [subqueryTable_cols desc rows hnd]
  have hz : (desc.zipIdx.map (fun p => (p.1.1, p.2, p.1.2))).map (·.1) = desc.map (·.1) := by
    have h1 : desc.zipIdx.map (·.1) = desc := List.zipIdx_map_fst 0 desc
    rw [List.map_map]
    have : ((fun (x : String × Nat × Ty) => x.1) ∘ fun (p : (String × Ty) × Nat) => (p.1.1, p.2, p.1.2)) = (fun x => x.1) ∘ (fun p => p.1) := by
      funext x; rfl
    rw [this, ← List.map_map, h1]
  have := find_nodup_key (desc.zipIdx.map (fun p => (p.1.1, p.2, p.1.2))) (by rw [hz]; exact hnd) (p.1.1, p.2, p.1.2)
    (List.mem_map.mpr ⟨p, hp, rfl⟩)
  simp only at this
  rw [this]
  rfl

theorem implicitGroup_star (l : List ((String × Ty) × Nat)) : implicitGroup (starTargets l) = none := by
  unfold implicitGroup
  have : (starTargets l).any (·.isAgg) = false := by
    rw [List.any_eq_false]; intro t ht
    unfold starTargets at ht
    obtain ⟨p, _, rfl⟩ := List.mem_map.mp ht
    simp
  simp [this]

theorem compile_star_sub (ctx : Ctx) (fuel : Nat) (outer : TableDef) (q : Select) (cq : CQuery)
    (desc : List (String × Ty)) (rows : List Row)
    (hc : compileSelect ctx fuel outer q = .ok (.query cq))
    (he : execSelect cq = .ok (desc, rows))
    (hnd : (desc.map (·.1)).Nodup) :
    compileSelect ctx (fuel + 1) outer (starOver q) = .ok (.query (starQuery desc rows)) := by
  have hw : wildcardTargets (subqueryTable desc rows) = desc.zipIdx.map (fun p => Target.mk (.col p.1.1) none p.1.1) := by
    unfold wildcardTargets
    have : (subqueryTable desc rows).wildcard = (subqueryTable desc rows).cols.map (·.1) := rfl
    rw [this, subqueryTable_cols desc rows hnd, List.map_map, List.map_map]
    rfl
  simp only [compileSelect, starOver, Select.from_, hc, he, Select.targets, hw,
    compileTargets_star _ _ _ _ _ (lookup_subqueryTable desc rows hnd), Select.where_, Select.groupBy, Select.having,
    Select.orderBy, Select.pivotBy, Select.limit, Select.distinct, andWhere, implicitGroup_star, compilePivot]
  simp [starQuery, subqueryTable]


theorem range_getD {α : Type} (row : List α) (d : α) (k : Nat) :
    (List.range' k (row.length - k)).map (fun i => row.getD i d) = row.drop k := by
  apply List.ext_getElem
  · simp
  · intro i h1 h2
    simp at h1 h2
    simp [List.getD]
    have : k + i < row.length := by omega
    simp [this]

theorem zipIdx_map_snd {α : Type} (l : List α) (k : Nat) : (l.zipIdx k).map (·.2) = List.range' k l.length := by
  induction l generalizing k with
  | nil => simp
  | cons a rest ih => simp [List.zipIdx_cons, ih, List.range'_succ]

theorem evalTargets_star (row : Row) (l : List ((String × Ty) × Nat)) :
    evalTargets [] row ((starTargets l).map (·.expr)) = .ok (l.map (fun p => row.getD p.2 .null)) := by
  induction l with
  | nil => simp [starTargets, evalTargets]
  | cons p rest ih =>
    simp only [starTargets, List.map_cons, evalTargets, eval] at ih ⊢
    rw [ih]

theorem foldlE_nonAgg_map (ts : List CExpr) (f : Row → Row) (hf : ∀ r, evalTargets [] r ts = .ok (f r)) (rows acc : List Row) :
    foldlE (nonAggStep none ts) acc rows = .ok (acc ++ rows.map f) := by
  induction rows generalizing acc with
  | nil => simp [foldlE]
  | cons r rest ih =>
    simp only [foldlE, nonAggStep, whereTrue, hf, ih, List.map_cons]
    simp

theorem visibleIdx_star (l : List ((String × Ty) × Nat)) (i : Nat) (hne : ∀ p ∈ l, p.1.1 ≠ "") :
    visibleIdx (starTargets l) i = List.range' i l.length := by
  induction l generalizing i with
  | nil => simp [starTargets, visibleIdx]
  | cons p rest ih =>
    have hp := hne p (List.mem_cons_self ..)
    have ih' := ih (i + 1) (fun q hq => hne q (List.mem_cons_of_mem _ hq))
    simp only [starTargets, List.map_cons, visibleIdx] at ih' ⊢
    simp [hp, ih', List.range'_succ]

theorem exec_starQuery (desc : List (String × Ty)) (rows : List Row)
    (hne : ∀ d ∈ desc, d.1 ≠ "") (hw : ∀ r ∈ rows, r.length = desc.length) :
    execSelect (starQuery desc rows) = .ok (desc, rows) := by
  have hfix : ∀ r ∈ rows, (desc.zipIdx.map (fun p => r.getD p.2 Value.null)) = r := by
    intro r hr
    have h1 : desc.zipIdx.map (fun p => r.getD p.2 Value.null) = (desc.zipIdx.map (·.2)).map (fun i => r.getD i .null) := by
      rw [List.map_map]; rfl
    rw [h1, zipIdx_map_snd, ← hw r hr]
    have := range_getD r Value.null 0
    simpa using this
  have hsel : selectNonAgg (starQuery desc rows) = .ok rows := by
    unfold selectNonAgg
    have := foldlE_nonAgg_map ((starTargets desc.zipIdx).map (·.expr)) _ (fun r => evalTargets_star r desc.zipIdx) rows []
    simp only [starQuery, this, List.nil_append]
    congr 1
    conv => rhs; rw [← List.map_id rows]
    apply List.map_congr_left
    intro r hr; simpa using hfix r hr
  have hne' : ∀ p ∈ desc.zipIdx, p.1.1 ≠ "" := by
    intro p hp
    have : p.1 ∈ desc := by
      have := List.mem_map_of_mem (f := (·.1)) hp
      rwa [List.zipIdx_map_fst] at this
    exact hne _ this
  have hproj : ∀ r ∈ rows, project (resultIndexes (starTargets desc.zipIdx)) r = r := by
    intro r hr
    unfold project resultIndexes
    rw [visibleIdx_star _ _ hne']
    have := range_getD r Value.null 0
    simp only [List.length_zipIdx, ← hw r hr]
    simpa using this
  have hdesc : (starQuery desc rows).description = desc := by
    unfold CQuery.description starQuery starTargets
    simp only [List.filterMap_map]
    have : desc.zipIdx.filterMap ((fun (t : CTarget) => t.name.map (fun n => (n, t.expr.ty))) ∘
        (fun (p : (String × Ty) × Nat) => (⟨.col p.2 p.1.1 p.1.2, some p.1.1, false⟩ : CTarget))) = desc.zipIdx.map (·.1) := by
      rw [← List.filterMap_eq_map]
      congr 1
    rw [this, List.zipIdx_map_fst]
  unfold execSelect
  simp only [starQuery] at hsel ⊢
  simp only [hsel]
  simp only [postProcess, unsortable, unhashableDistinct, finishRows, projectedRows, orderedRows, Bool.false_and]
  have : rows.map (project (resultIndexes (starTargets desc.zipIdx))) = rows := by
    conv => rhs; rw [← List.map_id rows]
    apply List.map_congr_left
    intro r hr; simpa using hproj r hr
  simp only [this]
  have hd := hdesc
  simp only [starQuery] at hd
  simp [hd]


theorem uniquifyAux_subset (seen rows : List Row) : ∀ r ∈ uniquifyAux seen rows, r ∈ rows := by
  induction rows generalizing seen with
  | nil => intro r hr; simp [uniquifyAux] at hr
  | cons a rest ih =>
    intro r hr
    simp only [uniquifyAux] at hr
    by_cases h : seen.any (fun s => keyEq s a)
    · simp only [h, if_true] at hr
      exact List.mem_cons_of_mem _ (ih _ r hr)
    · simp only [h] at hr
      rcases List.mem_cons.mp hr with h1 | h1
      · subst h1; exact List.mem_cons_self ..
      · exact List.mem_cons_of_mem _ (ih _ r h1)

theorem visibleIdx_length (ts : List CTarget) (i : Nat)
    (hne : ∀ d ∈ ts.filterMap (fun t => t.name.map (fun n => (n, t.expr.ty))), d.1 ≠ "") :
    (visibleIdx ts i).length = (ts.filterMap (fun t => t.name.map (fun n => (n, t.expr.ty)))).length := by
  induction ts generalizing i with
  | nil => simp [visibleIdx]
  | cons t rest ih =>
    cases hn : t.name with
    | none =>
      have := ih (i + 1) (by intro d hd; apply hne; simp [List.filterMap_cons, hn]; simpa using hd)
      simp [visibleIdx, hn, List.filterMap_cons, this]
    | some n =>
      have hn' : n ≠ "" := by
        have := hne (n, t.expr.ty) (by simp [List.filterMap_cons, hn])
        simpa using this
      have := ih (i + 1) (by intro d hd; apply hne; simp only [List.filterMap_cons, hn, Option.map_some]; exact List.mem_cons_of_mem _ hd)
      simp [visibleIdx, hn, hn', List.filterMap_cons, this]

/-- every row a query returns is as wide as its description -/
theorem execSelect_width (cq : CQuery) (desc : List (String × Ty)) (rows : List Row)
    (he : execSelect cq = .ok (desc, rows)) (hne : ∀ d ∈ desc, d.1 ≠ "") :
    ∀ r ∈ rows, r.length = desc.length := by
  unfold execSelect at he
  split at he
  · cases he
  · rename_i rows0 _
    split at he
    · cases he
    · rename_i rows1 hpp
      unfold postProcess at hpp
      split at hpp
      · cases hpp
      · split at hpp
        · cases hpp
        · simp only [Except.ok.injEq, Prod.mk.injEq] at he hpp
          obtain ⟨hd, hr1⟩ := he
          subst hd
          have hr : finishRows cq rows0 = rows := by rw [hpp, hr1]
          intro r hr'
          rw [← hr] at hr'
          have hp : r ∈ projectedRows cq rows0 := by
            unfold finishRows at hr'
            simp only at hr'
            have h1 : r ∈ (if cq.distinct then uniquify (projectedRows cq rows0) else projectedRows cq rows0) := by
              cases hl : cq.limit with
              | none => simpa [hl] using hr'
              | some n => rw [hl] at hr'; exact List.mem_of_mem_take hr'
            by_cases hdst : cq.distinct
            · simp only [hdst, if_true] at h1
              exact uniquifyAux_subset _ _ r h1
            · simpa [hdst] using h1
          unfold projectedRows at hp
          obtain ⟨r0, _, rfl⟩ := List.mem_map.mp hp
          unfold project resultIndexes
          rw [List.length_map]
          exact visibleIdx_length cq.targets 0 hne

theorem compile_from_sub (ctx : Ctx) (fuel : Nat) (outer : TableDef) (q : Select) (cq : CQuery)
    (desc : List (String × Ty)) (rows : List Row)
    (t : Option (List Target)) (w : Option Expr) (g : List KeyRef) (h : Option Expr) (o : List (KeyRef × Bool))
    (p : List KeyRef) (l : Option Nat) (d : Bool)
    (hc : compileSelect ctx fuel outer q = .ok (.query cq))
    (he : execSelect cq = .ok (desc, rows)) :
    compileSelect ctx (fuel + 1) outer (.mk t (.sub q) w g h o p l d) =
    compileSelect ctx (fuel + 1) (subqueryTable desc rows) (.mk t .none w g h o p l d) := by
  simp only [compileSelect, Select.from_, hc, he, Select.targets, Select.where_, Select.groupBy, Select.having,
    Select.orderBy, Select.pivotBy, Select.limit, Select.distinct]
  rfl
end Bql
