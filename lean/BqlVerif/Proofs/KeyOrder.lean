/-
  The sort-key comparator `keyLt` is a strict weak order, hence the derived `≤` on rows
  (for any index tuple, ascending or descending) is a total preorder.
-/
import BqlVerif.Proofs.SortLemmas
set_option autoImplicit false
namespace Bql
open Bql.Sort

/-! ### decimals: comparison by cross scaling is comparison of scaled integers -/

def Dec.sc (a : Dec) (e : Int) : Int := a.coef * 10 ^ (a.exp - e).toNat

theorem Dec.sc_shift (a : Dec) (e m : Int) (h1 : e ≤ m) (h2 : m ≤ a.exp) :
    a.sc e = a.sc m * 10 ^ (m - e).toNat := by
  unfold Dec.sc
  have : (a.exp - e).toNat = (a.exp - m).toNat + (m - e).toNat := by omega
  rw [this, Int.pow_add, Int.mul_assoc]

theorem Dec.lt_iff_sc (a b : Dec) (e : Int) (ha : e ≤ a.exp) (hb : e ≤ b.exp) :
    Dec.lt a b = true ↔ a.sc e < b.sc e := by
  have hm1 : min a.exp b.exp ≤ a.exp := Int.min_le_left ..
  have hm2 : min a.exp b.exp ≤ b.exp := Int.min_le_right ..
  have hme : e ≤ min a.exp b.exp := by omega
  rw [Dec.sc_shift a e _ hme hm1, Dec.sc_shift b e _ hme hm2]
  have hpos : (0 : Int) < 10 ^ (min a.exp b.exp - e).toNat := Int.pow_pos (by decide)
  rw [Int.mul_lt_mul_right hpos]
  simp [Dec.lt, Dec.cmp, Dec.align, pow10, Dec.sc, Int.compare_eq_lt]

theorem Dec.lt_asymm (a b : Dec) (h : Dec.lt a b = true) : Dec.lt b a = false := by
  have e1 := (Dec.lt_iff_sc a b (min a.exp b.exp) (Int.min_le_left ..) (Int.min_le_right ..)).mp h
  cases h2 : Dec.lt b a with
  | false => rfl
  | true =>
    have e2 := (Dec.lt_iff_sc b a (min a.exp b.exp) (Int.min_le_right ..) (Int.min_le_left ..)).mp h2
    omega

theorem Dec.lt_negTrans (a b c : Dec) (h : Dec.lt a c = true) : Dec.lt a b = true ∨ Dec.lt b c = true := by
  let e := min a.exp (min b.exp c.exp)
  have ha : e ≤ a.exp := Int.min_le_left ..
  have hb : e ≤ b.exp := Int.le_trans (Int.min_le_right ..) (Int.min_le_left ..)
  have hc : e ≤ c.exp := Int.le_trans (Int.min_le_right ..) (Int.min_le_right ..)
  have h1 := (Dec.lt_iff_sc a c e ha hc).mp h
  by_cases h2 : a.sc e < b.sc e
  · exact Or.inl ((Dec.lt_iff_sc a b e ha hb).mpr h2)
  · exact Or.inr ((Dec.lt_iff_sc b c e hb hc).mpr (by omega))

/-! ### dates -/

theorem Date.lt_asymm (a b : Date) (h : a.lt b = true) : b.lt a = false := by
  cases hb : b.lt a with
  | false => rfl
  | true =>
    simp [Date.lt] at h hb
    omega

theorem Date.lt_negTrans (a b c : Date) (h : a.lt c = true) : a.lt b = true ∨ b.lt c = true := by
  simp only [Date.lt, Bool.or_eq_true, Bool.and_eq_true, decide_eq_true_eq, beq_iff_eq] at *
  omega

/-! ### keys -/

theorem SortKey.lt_asymm (a b : SortKey) (h : a.lt b = true) : b.lt a = false := by
  cases a <;> cases b <;> simp [SortKey.lt, SortKey.rank] at h ⊢
  · exact Dec.lt_asymm _ _ h
  · exact String.lt_asymm h
  · exact Date.lt_asymm _ _ h

theorem SortKey.lt_negTrans (a b c : SortKey) (h : a.lt c = true) : a.lt b = true ∨ b.lt c = true := by
  cases a <;> cases b <;> cases c <;> simp [SortKey.lt, SortKey.rank] at h ⊢
  · exact Dec.lt_negTrans _ _ _ h
  · rename_i x y z
    by_cases hxy : x < y
    · exact Or.inl hxy
    · exact Or.inr (Std.lt_of_le_of_lt (String.not_lt.mp hxy) h)
  · exact Date.lt_negTrans _ _ _ h

theorem keyLt_asymm (a b : Value) (h : keyLt a b = true) : keyLt b a = false :=
  SortKey.lt_asymm _ _ h

theorem keyLt_negTrans (a b c : Value) (h : keyLt a c = true) : keyLt a b = true ∨ keyLt b c = true :=
  SortKey.lt_negTrans _ _ _ h

/-- a strict weak order yields a total preorder -/
theorem totalPre_of_swo {α : Type} (lt : α → α → Bool)
    (asymm : ∀ a b, lt a b = true → lt b a = false)
    (negTrans : ∀ a b c, lt a c = true → lt a b = true ∨ lt b c = true) :
    TotalPre (leOf lt) := by
  constructor
  · intro a b
    unfold leOf
    cases h : lt b a with
    | false => left; rfl
    | true => right; simp [asymm b a h]
  · intro a b c hab hbc
    unfold leOf at *
    cases h : lt c a with
    | false => rfl
    | true =>
      rcases negTrans c b a h with h1 | h1
      · simp [h1] at hbc
      · simp [h1] at hab

/-! ### tuple keys -/

theorem tupleLt_cons (i : Nat) (is : List Nat) (a b : Row) :
    tupleLt (i :: is) a b =
      if keyEqv (a.getD i .null) (b.getD i .null) then tupleLt is a b
      else keyLt (a.getD i .null) (b.getD i .null) := rfl

theorem keyEqv_symm (x y : Value) : keyEqv x y = keyEqv y x := by simp [keyEqv, Bool.and_comm]

theorem tupleLt_asymm (idxs : List Nat) (a b : Row) (h : tupleLt idxs a b = true) : tupleLt idxs b a = false := by
  induction idxs with
  | nil => simp [tupleLt] at h
  | cons i is ih =>
    rw [tupleLt_cons] at h ⊢
    generalize a.getD i .null = x at *
    generalize b.getD i .null = y at *
    rw [keyEqv_symm y x]
    by_cases he : keyEqv x y = true
    · simp only [he, ↓reduceIte] at h ⊢; exact ih h
    · simp only [he, ↓reduceIte, Bool.false_eq_true] at h ⊢; exact keyLt_asymm _ _ h

theorem keyEqv_trans (x y z : Value) (h1 : keyEqv x y = true) (h2 : keyEqv y z = true) : keyEqv x z = true := by
  simp only [keyEqv, Bool.and_eq_true, Bool.not_eq_true'] at *
  constructor
  · cases h : keyLt x z with
    | false => rfl
    | true => rcases keyLt_negTrans x y z h with h' | h' <;> simp_all
  · cases h : keyLt z x with
    | false => rfl
    | true => rcases keyLt_negTrans z y x h with h' | h' <;> simp_all

theorem keyLt_congr_left (x y z : Value) (h : keyEqv x y = true) : keyLt x z = keyLt y z := by
  simp only [keyEqv, Bool.and_eq_true, Bool.not_eq_true'] at h
  cases h1 : keyLt x z <;> cases h2 : keyLt y z <;> try rfl
  · rcases keyLt_negTrans y x z h2 with h' | h' <;> simp_all
  · rcases keyLt_negTrans x y z h1 with h' | h' <;> simp_all

theorem keyLt_congr_right (x y z : Value) (h : keyEqv x y = true) : keyLt z x = keyLt z y := by
  simp only [keyEqv, Bool.and_eq_true, Bool.not_eq_true'] at h
  cases h1 : keyLt z x <;> cases h2 : keyLt z y <;> try rfl
  · rcases keyLt_negTrans z x y h2 with h' | h' <;> simp_all
  · rcases keyLt_negTrans z y x h1 with h' | h' <;> simp_all

theorem tupleLt_negTrans (idxs : List Nat) (a b c : Row) (h : tupleLt idxs a c = true) :
    tupleLt idxs a b = true ∨ tupleLt idxs b c = true := by
  induction idxs with
  | nil => simp [tupleLt] at h
  | cons i is ih =>
    rw [tupleLt_cons] at h ⊢
    rw [tupleLt_cons]
    generalize a.getD i .null = x at *
    generalize b.getD i .null = y at *
    generalize c.getD i .null = z at *
    by_cases hxz : keyEqv x z = true
    · simp only [hxz, ↓reduceIte] at h
      by_cases hxy : keyEqv x y = true
      · have hyz : keyEqv y z = true := keyEqv_trans y x z (by rw [keyEqv_symm]; exact hxy) hxz
        simp only [hxy, hyz, ↓reduceIte]
        exact ih h
      · have hyz : ¬ keyEqv y z = true := fun hyz => hxy (keyEqv_trans x z y hxz (by rw [keyEqv_symm]; exact hyz))
        simp only [hxy, hyz, ↓reduceIte, Bool.false_eq_true]
        -- x ~ z, y not equivalent: either x < y or y < x ~ z
        simp only [keyEqv, Bool.and_eq_true, Bool.not_eq_true', not_and, Bool.not_eq_false] at hxy
        cases hlt : keyLt x y with
        | true => left; rfl
        | false =>
          right
          have := hxy hlt
          rw [← keyLt_congr_right x z y hxz]; exact this
    · simp only [hxz, ↓reduceIte, Bool.false_eq_true] at h
      by_cases hxy : keyEqv x y = true
      · have hyz : ¬ keyEqv y z = true := fun hyz => hxz (keyEqv_trans x y z hxy hyz)
        simp only [hxy, hyz, ↓reduceIte, Bool.false_eq_true]
        right
        rw [← keyLt_congr_left x y z hxy]; exact h
      · simp only [hxy, ↓reduceIte, Bool.false_eq_true]
        by_cases hyz : keyEqv y z = true
        · simp only [hyz, ↓reduceIte]
          left
          rw [keyLt_congr_right y z x hyz]; exact h
        · simp only [hyz, ↓reduceIte, Bool.false_eq_true]
          exact keyLt_negTrans x y z h

/-- ascending pass: `≤` derived from the tuple comparator is a total preorder -/
theorem tupleLe_totalPre (idxs : List Nat) : TotalPre (leOf (tupleLt idxs)) :=
  totalPre_of_swo _ (tupleLt_asymm idxs) (tupleLt_negTrans idxs)

/-- descending pass (`reverse=True`): the converse comparator -/
theorem tupleGe_totalPre (idxs : List Nat) : TotalPre (leOf (fun a b => tupleLt idxs b a)) :=
  totalPre_of_swo _ (fun a b h => tupleLt_asymm idxs b a h)
    (fun a b c h => (tupleLt_negTrans idxs c b a h).symm)

end Bql
