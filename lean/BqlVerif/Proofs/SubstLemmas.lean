/-
  Lemmas for C09: writing parameter values into a statement as literals does not change what it compiles to.
-/
import BqlVerif.Model.Compile
set_option autoImplicit false
set_option linter.unusedSimpArgs false
namespace Bql

/-! ### writing the parameter values into the statement as literals -/
mutual
def Expr.subst (ctx : Ctx) : Expr → Expr
  | .placeholder n p => match bindParam ctx n p with | .ok v => .const v | .error _ => .placeholder n p
  | .col n => .col n
  | .const v => .const v
  | .star => .star
  | .func f as => .func f (Expr.substL ctx as)
  | .attr e n => .attr (e.subst ctx) n
  | .subscript e k => .subscript (e.subst ctx) k
  | .unop op e => .unop op (e.subst ctx)
  | .binop op l r => .binop op (l.subst ctx) (r.subst ctx)
  | .between a b c => .between (a.subst ctx) (b.subst ctx) (c.subst ctx)
  | .and es => .and (Expr.substL ctx es)
  | .or es => .or (Expr.substL ctx es)
  | .sub q => .sub (q.subst ctx)
def Expr.substL (ctx : Ctx) : List Expr → List Expr
  | [] => []
  | e :: es => e.subst ctx :: Expr.substL ctx es
def Target.subst (ctx : Ctx) : Target → Target
  | .mk e a t => .mk (e.subst ctx) a t
def Target.substL (ctx : Ctx) : List Target → List Target
  | [] => []
  | t :: ts => t.subst ctx :: Target.substL ctx ts
def KeyRef.subst (ctx : Ctx) : KeyRef → KeyRef
  | .idx n => .idx n
  | .expr e => .expr (e.subst ctx)
def KeyRef.substL (ctx : Ctx) : List KeyRef → List KeyRef
  | [] => []
  | k :: ks => k.subst ctx :: KeyRef.substL ctx ks
def OrderKeys.substL (ctx : Ctx) : List (KeyRef × Bool) → List (KeyRef × Bool)
  | [] => []
  | (k, d) :: ks => (k.subst ctx, d) :: OrderKeys.substL ctx ks
def FromC.subst (ctx : Ctx) : FromC → FromC
  | .none => .none
  | .table n => .table n
  | .sub q => .sub (q.subst ctx)
  | .from e o c cl => .from (match e with | some e => some (e.subst ctx) | none => none) o c cl
def Select.subst (ctx : Ctx) : Select → Select
  | .mk ts f w g hv o p l d =>
    .mk (match ts with | some ts => some (Target.substL ctx ts) | none => none) (f.subst ctx)
      (match w with | some e => some (e.subst ctx) | none => none) (KeyRef.substL ctx g)
      (match hv with | some e => some (e.subst ctx) | none => none) (OrderKeys.substL ctx o) p l d
end

theorem subst_not_sub (ctx : Ctx) (r : Expr) (hr : ∀ q, r ≠ .sub q) : ∀ q, r.subst ctx ≠ .sub q := by
  intro q
  cases r <;> simp [Expr.subst]
  · split <;> simp
  · exact absurd rfl (hr _)

mutual
theorem compileExpr_subst (ctx : Ctx) (tbl : TableDef) (subq : Select → CM SubResult)
    (hs : ∀ q, subq (q.subst ctx) = subq q) :
    ∀ (e : Expr) (h : Nat), compileExpr ctx tbl subq (e.subst ctx) h = compileExpr ctx tbl subq e h
  | .placeholder n p, h => by
    simp only [Expr.subst]
    cases hb : bindParam ctx n p with
    | ok v => simp [compileExpr, hb]
    | error x => rfl
  | .col _, _ => rfl
  | .const _, _ => rfl
  | .star, _ => rfl
  | .func f as, h => by
    simp only [Expr.subst, compileExpr, compileExprs_subst ctx tbl subq hs as h]
  | .attr e n, h => by
    simp only [Expr.subst, compileExpr, compileExpr_subst ctx tbl subq hs e h]
  | .subscript e k, h => by
    simp only [Expr.subst, compileExpr, compileExpr_subst ctx tbl subq hs e h]
  | .unop op e, h => by
    simp only [Expr.subst, compileExpr, compileExpr_subst ctx tbl subq hs e h]
  | .binop op l r, h => by
    simp only [Expr.subst, compileExpr, compileExpr_subst ctx tbl subq hs l h]
    cases hl : compileExpr ctx tbl subq l h with
    | error x => rfl
    | ok p =>
      obtain ⟨cl, h1⟩ := p
      simp only
      by_cases hop : (op == .in || op == .notin) = true
      · simp only [hop, if_true]
        have ihr := compileExpr_subst ctx tbl subq hs r h1
        cases r with
        | sub q => simp only [Expr.subst, hs q]
        | placeholder n p =>
          simp only [Expr.subst] at ihr ⊢
          cases hb : bindParam ctx n p with
          | ok v => simp only [hb] at ihr ⊢; simp only [ihr]
          | error x => rfl
        | _ => simp only [Expr.subst] at ihr ⊢; first | done | simp only [ihr]
      · simp only [hop]
        simp only [compileExpr_subst ctx tbl subq hs r h1]
        rfl
  | .between a b c, h => by
    simp only [Expr.subst, compileExpr, compileExpr_subst ctx tbl subq hs a h]
    cases ha : compileExpr ctx tbl subq a h with
    | error x => rfl
    | ok p =>
      obtain ⟨ca, h1⟩ := p
      simp only [compileExpr_subst ctx tbl subq hs b h1]
      cases hb : compileExpr ctx tbl subq b h1 with
      | error x => rfl
      | ok p2 =>
        obtain ⟨cb, h2⟩ := p2
        simp only [compileExpr_subst ctx tbl subq hs c h2]
  | .and es, h => by
    simp only [Expr.subst, compileExpr, compileExprs_subst ctx tbl subq hs es h]
  | .or es, h => by
    simp only [Expr.subst, compileExpr, compileExprs_subst ctx tbl subq hs es h]
  | .sub q, h => by
    simp only [Expr.subst, compileExpr]
theorem compileExprs_subst (ctx : Ctx) (tbl : TableDef) (subq : Select → CM SubResult)
    (hs : ∀ q, subq (q.subst ctx) = subq q) :
    ∀ (es : List Expr) (h : Nat), compileExprs ctx tbl subq (Expr.substL ctx es) h = compileExprs ctx tbl subq es h
  | [], _ => rfl
  | e :: es, h => by
    simp only [Expr.substL, compileExprs, compileExpr_subst ctx tbl subq hs e h]
    cases he : compileExpr ctx tbl subq e h with
    | error x => rfl
    | ok p =>
      obtain ⟨ce, h1⟩ := p
      simp only [compileExprs_subst ctx tbl subq hs es h1]
end

theorem targetName_subst (ctx : Ctx) (t : Target) : targetName (t.subst ctx) = targetName t := by
  obtain ⟨e, a, txt⟩ := t
  cases a with
  | some a => rfl
  | none =>
    cases e with
    | placeholder n p =>
      simp only [Target.subst, Expr.subst]
      cases hb : bindParam ctx n p <;> rfl
    | _ => simp only [Target.subst, Expr.subst, targetName]

theorem compileTargets_subst (ctx : Ctx) (tbl : TableDef) (subq : Select → CM SubResult)
    (hs : ∀ q, subq (q.subst ctx) = subq q) :
    ∀ (ts : List Target) (h : Nat), compileTargets ctx tbl subq (Target.substL ctx ts) h = compileTargets ctx tbl subq ts h
  | [], _ => rfl
  | t :: ts, h => by
    have he : (t.subst ctx).expr = t.expr.subst ctx := by cases t; rfl
    simp only [Target.substL, compileTargets, he, compileExpr_subst ctx tbl subq hs t.expr h, targetName_subst]
    cases hc : compileExpr ctx tbl subq t.expr h with
    | error x => rfl
    | ok p =>
      obtain ⟨ce, h1⟩ := p
      simp only [compileTargets_subst ctx tbl subq hs ts h1]

theorem compileKey_subst (ctx : Ctx) (tbl : TableDef) (subq : Select → CM SubResult)
    (hs : ∀ q, subq (q.subst ctx) = subq q) (k : KeyRef) (h : Nat) :
    compileKey ctx tbl subq (k.subst ctx) h = compileKey ctx tbl subq k h := by
  cases k with
  | idx n => rfl
  | expr e =>
    have ih := compileExpr_subst ctx tbl subq hs e h
    cases e with
    | col n => rfl
    | placeholder n p =>
      simp only [KeyRef.subst, Expr.subst] at ih ⊢
      cases hb : bindParam ctx n p with
      | ok v => simp only [hb] at ih ⊢; simp only [compileKey, ih]
      | error x => rfl
    | _ => simp only [KeyRef.subst, Expr.subst] at ih ⊢; first | done | simp only [compileKey, ih]

theorem compileGroupKeys_subst (ctx : Ctx) (tbl : TableDef) (subq : Select → CM SubResult)
    (hs : ∀ q, subq (q.subst ctx) = subq q) (nvis : Nat) (visible : List CTarget) :
    ∀ (ks : List KeyRef) (ts : List CTarget) (h : Nat),
      compileGroupKeys ctx tbl subq nvis visible (KeyRef.substL ctx ks) ts h = compileGroupKeys ctx tbl subq nvis visible ks ts h
  | [], _, _ => rfl
  | k :: ks, ts, h => by
    simp only [KeyRef.substL, compileGroupKeys, compileKey_subst ctx tbl subq hs k h]
    cases hk : compileKey ctx tbl subq k h with
    | error x => rfl
    | ok p =>
      obtain ⟨ck, unres, h1⟩ := p
      simp only
      cases hr : resolveGroupKey nvis visible ts ck unres with
      | error x => rfl
      | ok p2 =>
        obtain ⟨ts', i⟩ := p2
        simp only [compileGroupKeys_subst ctx tbl subq hs nvis visible ks ts' h1]

theorem compileOrderKeys_subst (ctx : Ctx) (tbl : TableDef) (subq : Select → CM SubResult)
    (hs : ∀ q, subq (q.subst ctx) = subq q) (nt : Nat) (named : List CTarget) :
    ∀ (ks : List (KeyRef × Bool)) (ts : List CTarget) (h : Nat),
      compileOrderKeys ctx tbl subq nt named (OrderKeys.substL ctx ks) ts h = compileOrderKeys ctx tbl subq nt named ks ts h
  | [], _, _ => rfl
  | (k, d) :: ks, ts, h => by
    simp only [OrderKeys.substL, compileOrderKeys, compileKey_subst ctx tbl subq hs k h]
    cases hk : compileKey ctx tbl subq k h with
    | error x => rfl
    | ok p =>
      obtain ⟨ck, unres, h1⟩ := p
      simp only
      cases hr : resolveOrderKey nt named ts ck unres with
      | error x => rfl
      | ok p2 =>
        obtain ⟨ts', i⟩ := p2
        simp only [compileOrderKeys_subst ctx tbl subq hs nt named ks ts' h1]


theorem compileSelect_subst (ctx : Ctx) :
    ∀ (fuel : Nat) (tbl : TableDef) (sel : Select), compileSelect ctx fuel tbl (sel.subst ctx) = compileSelect ctx fuel tbl sel
  | 0, _, _ => rfl
  | fuel + 1, outer, .mk ts f w g hv o p l d => by
    have ih := compileSelect_subst ctx fuel
    have hs : ∀ (tbl : TableDef) (q : Select),
        (fun q => subqOf (compileSelect ctx fuel tbl q)) (q.subst ctx) = (fun q => subqOf (compileSelect ctx fuel tbl q)) q :=
      fun tbl q => by simp only [ih]
    have hE : ∀ tbl e h, compileExpr ctx tbl (fun q => subqOf (compileSelect ctx fuel tbl q)) (Expr.subst ctx e) h =
        compileExpr ctx tbl (fun q => subqOf (compileSelect ctx fuel tbl q)) e h :=
      fun tbl => compileExpr_subst ctx tbl _ (hs tbl)
    have hT : ∀ tbl ts h, compileTargets ctx tbl (fun q => subqOf (compileSelect ctx fuel tbl q)) (Target.substL ctx ts) h =
        compileTargets ctx tbl (fun q => subqOf (compileSelect ctx fuel tbl q)) ts h :=
      fun tbl => compileTargets_subst ctx tbl _ (hs tbl)
    have hG : ∀ tbl nvis vis ks ts h, compileGroupKeys ctx tbl (fun q => subqOf (compileSelect ctx fuel tbl q)) nvis vis (KeyRef.substL ctx ks) ts h =
        compileGroupKeys ctx tbl (fun q => subqOf (compileSelect ctx fuel tbl q)) nvis vis ks ts h :=
      fun tbl nvis vis => compileGroupKeys_subst ctx tbl _ (hs tbl) nvis vis
    have hO : ∀ tbl nt named ks ts h, compileOrderKeys ctx tbl (fun q => subqOf (compileSelect ctx fuel tbl q)) nt named (OrderKeys.substL ctx ks) ts h =
        compileOrderKeys ctx tbl (fun q => subqOf (compileSelect ctx fuel tbl q)) nt named ks ts h :=
      fun tbl nt named => compileOrderKeys_subst ctx tbl _ (hs tbl) nt named
    have hgi : ∀ ks, (KeyRef.substL ctx ks).isEmpty = ks.isEmpty := by
      intro ks; cases ks <;> rfl
    have hoi : ∀ ks, (OrderKeys.substL ctx ks).isEmpty = ks.isEmpty := by
      intro ks; cases ks with
      | nil => rfl
      | cons a _ => cases a; rfl
    cases f with
    | none =>
      cases ts <;> cases w <;> cases hv <;>
        simp only [Select.subst, FromC.subst, compileSelect, Select.from_, Select.targets, Select.where_, Select.groupBy,
          Select.having, Select.orderBy, Select.pivotBy, Select.limit, Select.distinct, hE, hT, hG, hO, hgi, hoi] <;> rfl
    | table n =>
      cases ts <;> cases w <;> cases hv <;>
        simp only [Select.subst, FromC.subst, compileSelect, Select.from_, Select.targets, Select.where_, Select.groupBy,
          Select.having, Select.orderBy, Select.pivotBy, Select.limit, Select.distinct, hE, hT, hG, hO, hgi, hoi] <;> rfl
    | sub q =>
      cases ts <;> cases w <;> cases hv <;>
        simp only [Select.subst, FromC.subst, compileSelect, Select.from_, Select.targets, Select.where_, Select.groupBy,
          Select.having, Select.orderBy, Select.pivotBy, Select.limit, Select.distinct, hE, hT, hG, hO, hgi, hoi, ih] <;> rfl
    | «from» e op cl clr =>
      cases e <;> cases ts <;> cases w <;> cases hv <;>
        simp only [Select.subst, FromC.subst, compileSelect, Select.from_, Select.targets, Select.where_, Select.groupBy,
          Select.having, Select.orderBy, Select.pivotBy, Select.limit, Select.distinct, hE, hT, hG, hO, hgi, hoi] <;> rfl



/-! ### a statement without placeholders compiles alike whatever the parameters are -/

mutual
theorem compileExpr_ctx (ctx ctx' : Ctx) (tbl : TableDef) (subq subq' : Select → CM SubResult)
    (hs : ∀ q, q.placeholders = [] → subq q = subq' q) :
    ∀ (e : Expr) (h : Nat), e.placeholders = [] → compileExpr ctx tbl subq e h = compileExpr ctx' tbl subq' e h
  | .placeholder n p, h, hp => by simp [Expr.placeholders] at hp
  | .col _, _, _ => rfl
  | .const _, _, _ => rfl
  | .star, _, _ => rfl
  | .func f as, h, hp => by
    simp only [Expr.placeholders] at hp
    simp only [compileExpr, compileExprs_ctx ctx ctx' tbl subq subq' hs as h hp]
  | .attr e n, h, hp => by
    simp only [Expr.placeholders] at hp
    simp only [compileExpr, compileExpr_ctx ctx ctx' tbl subq subq' hs e h hp]
  | .subscript e k, h, hp => by
    simp only [Expr.placeholders] at hp
    simp only [compileExpr, compileExpr_ctx ctx ctx' tbl subq subq' hs e h hp]
  | .unop op e, h, hp => by
    simp only [Expr.placeholders] at hp
    simp only [compileExpr, compileExpr_ctx ctx ctx' tbl subq subq' hs e h hp]
  | .binop op l r, h, hp => by
    simp only [Expr.placeholders, List.append_eq_nil_iff] at hp
    simp only [compileExpr, compileExpr_ctx ctx ctx' tbl subq subq' hs l h hp.1]
    cases hl : compileExpr ctx' tbl subq' l h with
    | error x => rfl
    | ok p =>
      obtain ⟨cl, h1⟩ := p
      simp only
      have ihr := compileExpr_ctx ctx ctx' tbl subq subq' hs r h1 hp.2
      by_cases hop : (op == .in || op == .notin) = true
      · simp only [hop, if_true]
        cases r with
        | sub q =>
          have hq : q.placeholders = [] := by simpa [Expr.placeholders] using hp.2
          simp only [hs q hq]
        | _ => first | done | simp only [ihr]
      · simp only [hop]
        simp only [ihr]
        rfl
  | .between a b c, h, hp => by
    simp only [Expr.placeholders, List.append_eq_nil_iff] at hp
    simp only [compileExpr, compileExpr_ctx ctx ctx' tbl subq subq' hs a h hp.1.1]
    cases ha : compileExpr ctx' tbl subq' a h with
    | error x => rfl
    | ok p =>
      obtain ⟨ca, h1⟩ := p
      simp only [compileExpr_ctx ctx ctx' tbl subq subq' hs b h1 hp.1.2]
      cases hb : compileExpr ctx' tbl subq' b h1 with
      | error x => rfl
      | ok p2 =>
        obtain ⟨cb, h2⟩ := p2
        simp only [compileExpr_ctx ctx ctx' tbl subq subq' hs c h2 hp.2]
  | .and es, h, hp => by
    simp only [Expr.placeholders] at hp
    simp only [compileExpr, compileExprs_ctx ctx ctx' tbl subq subq' hs es h hp]
  | .or es, h, hp => by
    simp only [Expr.placeholders] at hp
    simp only [compileExpr, compileExprs_ctx ctx ctx' tbl subq subq' hs es h hp]
  | .sub q, h, _ => by
    simp only [compileExpr]
theorem compileExprs_ctx (ctx ctx' : Ctx) (tbl : TableDef) (subq subq' : Select → CM SubResult)
    (hs : ∀ q, q.placeholders = [] → subq q = subq' q) :
    ∀ (es : List Expr) (h : Nat), Expr.placeholdersL es = [] → compileExprs ctx tbl subq es h = compileExprs ctx' tbl subq' es h
  | [], _, _ => rfl
  | e :: es, h, hp => by
    simp only [Expr.placeholdersL, List.append_eq_nil_iff] at hp
    simp only [compileExprs, compileExpr_ctx ctx ctx' tbl subq subq' hs e h hp.1]
    cases he : compileExpr ctx' tbl subq' e h with
    | error x => rfl
    | ok p =>
      obtain ⟨ce, h1⟩ := p
      simp only [compileExprs_ctx ctx ctx' tbl subq subq' hs es h1 hp.2]
end


theorem compileTargets_ctx (ctx ctx' : Ctx) (tbl : TableDef) (subq subq' : Select → CM SubResult)
    (hs : ∀ q, q.placeholders = [] → subq q = subq' q) :
    ∀ (ts : List Target) (h : Nat), Target.placeholdersL ts = [] →
      compileTargets ctx tbl subq ts h = compileTargets ctx' tbl subq' ts h
  | [], _, _ => rfl
  | t :: ts, h, hp => by
    simp only [Target.placeholdersL, List.append_eq_nil_iff] at hp
    have he : t.expr.placeholders = [] := by obtain ⟨e, a, x⟩ := t; simpa [Target.placeholders, Target.expr] using hp.1
    simp only [compileTargets, compileExpr_ctx ctx ctx' tbl subq subq' hs t.expr h he]
    cases hc : compileExpr ctx' tbl subq' t.expr h with
    | error x => rfl
    | ok p =>
      obtain ⟨ce, h1⟩ := p
      simp only [compileTargets_ctx ctx ctx' tbl subq subq' hs ts h1 hp.2]

theorem compileKey_ctx (ctx ctx' : Ctx) (tbl : TableDef) (subq subq' : Select → CM SubResult)
    (hs : ∀ q, q.placeholders = [] → subq q = subq' q) (k : KeyRef) (h : Nat) (hp : k.placeholders = []) :
    compileKey ctx tbl subq k h = compileKey ctx' tbl subq' k h := by
  cases k with
  | idx n => rfl
  | expr e =>
    have ih := compileExpr_ctx ctx ctx' tbl subq subq' hs e h (by simpa [KeyRef.placeholders] using hp)
    cases e with
    | col n => simp only [compileKey, ih]
    | _ => first | done | simp only [compileKey, ih]

theorem compileGroupKeys_ctx (ctx ctx' : Ctx) (tbl : TableDef) (subq subq' : Select → CM SubResult)
    (hs : ∀ q, q.placeholders = [] → subq q = subq' q) (nvis : Nat) (visible : List CTarget) :
    ∀ (ks : List KeyRef) (ts : List CTarget) (h : Nat), KeyRef.placeholdersL ks = [] →
      compileGroupKeys ctx tbl subq nvis visible ks ts h = compileGroupKeys ctx' tbl subq' nvis visible ks ts h
  | [], _, _, _ => rfl
  | k :: ks, ts, h, hp => by
    simp only [KeyRef.placeholdersL, List.append_eq_nil_iff] at hp
    simp only [compileGroupKeys, compileKey_ctx ctx ctx' tbl subq subq' hs k h hp.1]
    cases hk : compileKey ctx' tbl subq' k h with
    | error x => rfl
    | ok p =>
      obtain ⟨ck, unres, h1⟩ := p
      simp only
      cases hr : resolveGroupKey nvis visible ts ck unres with
      | error x => rfl
      | ok p2 =>
        obtain ⟨ts', i⟩ := p2
        simp only [compileGroupKeys_ctx ctx ctx' tbl subq subq' hs nvis visible ks ts' h1 hp.2]

theorem compileOrderKeys_ctx (ctx ctx' : Ctx) (tbl : TableDef) (subq subq' : Select → CM SubResult)
    (hs : ∀ q, q.placeholders = [] → subq q = subq' q) (nt : Nat) (named : List CTarget) :
    ∀ (ks : List (KeyRef × Bool)) (ts : List CTarget) (h : Nat), OrderKeys.placeholdersL ks = [] →
      compileOrderKeys ctx tbl subq nt named ks ts h = compileOrderKeys ctx' tbl subq' nt named ks ts h
  | [], _, _, _ => rfl
  | (k, d) :: ks, ts, h, hp => by
    simp only [OrderKeys.placeholdersL, List.append_eq_nil_iff] at hp
    simp only [compileOrderKeys, compileKey_ctx ctx ctx' tbl subq subq' hs k h hp.1]
    cases hk : compileKey ctx' tbl subq' k h with
    | error x => rfl
    | ok p =>
      obtain ⟨ck, unres, h1⟩ := p
      simp only
      cases hr : resolveOrderKey nt named ts ck unres with
      | error x => rfl
      | ok p2 =>
        obtain ⟨ts', i⟩ := p2
        simp only [compileOrderKeys_ctx ctx ctx' tbl subq subq' hs nt named ks ts' h1 hp.2]


theorem compileSelect_ctx (ctx ctx' : Ctx) (hdb : ctx.db = ctx'.db) :
    ∀ (fuel : Nat) (tbl : TableDef) (sel : Select), sel.placeholders = [] →
      compileSelect ctx fuel tbl sel = compileSelect ctx' fuel tbl sel
  | 0, _, _, _ => rfl
  | fuel + 1, outer, .mk ts f w g hv o p l d, hp => by
    have ih := compileSelect_ctx ctx ctx' hdb fuel
    have hs : ∀ (tbl : TableDef) (q : Select), q.placeholders = [] →
        (fun q => subqOf (compileSelect ctx fuel tbl q)) q = (fun q => subqOf (compileSelect ctx' fuel tbl q)) q :=
      fun tbl q hq => by simp only [ih tbl q hq]
    have hE : ∀ tbl e h, e.placeholders = [] → compileExpr ctx tbl (fun q => subqOf (compileSelect ctx fuel tbl q)) e h =
        compileExpr ctx' tbl (fun q => subqOf (compileSelect ctx' fuel tbl q)) e h :=
      fun tbl => compileExpr_ctx ctx ctx' tbl _ _ (hs tbl)
    have hT : ∀ tbl ts h, Target.placeholdersL ts = [] → compileTargets ctx tbl (fun q => subqOf (compileSelect ctx fuel tbl q)) ts h =
        compileTargets ctx' tbl (fun q => subqOf (compileSelect ctx' fuel tbl q)) ts h :=
      fun tbl => compileTargets_ctx ctx ctx' tbl _ _ (hs tbl)
    have hT0 : ∀ tbl ts h, compileTargets ctx tbl (fun q => subqOf (compileSelect ctx fuel tbl q)) (wildcardTargets ts) h =
        compileTargets ctx' tbl (fun q => subqOf (compileSelect ctx' fuel tbl q)) (wildcardTargets ts) h := by
      intro tbl ts h
      apply hT
      unfold wildcardTargets
      induction ts.wildcard with
      | nil => rfl
      | cons a rest ih => simp [Target.placeholdersL, Target.placeholders, Expr.placeholders, ih]
    have hG : ∀ tbl nvis vis ks ts h, KeyRef.placeholdersL ks = [] →
        compileGroupKeys ctx tbl (fun q => subqOf (compileSelect ctx fuel tbl q)) nvis vis ks ts h =
        compileGroupKeys ctx' tbl (fun q => subqOf (compileSelect ctx' fuel tbl q)) nvis vis ks ts h :=
      fun tbl nvis vis => compileGroupKeys_ctx ctx ctx' tbl _ _ (hs tbl) nvis vis
    have hO : ∀ tbl nt named ks ts h, OrderKeys.placeholdersL ks = [] →
        compileOrderKeys ctx tbl (fun q => subqOf (compileSelect ctx fuel tbl q)) nt named ks ts h =
        compileOrderKeys ctx' tbl (fun q => subqOf (compileSelect ctx' fuel tbl q)) nt named ks ts h :=
      fun tbl nt named => compileOrderKeys_ctx ctx ctx' tbl _ _ (hs tbl) nt named
    cases f with
    | none =>
      cases ts <;> cases w <;> cases hv <;> (
        simp only [Select.placeholders, FromC.placeholders, List.append_eq_nil_iff, List.nil_append, List.append_nil,
          and_true, true_and] at hp
        simp only [compileSelect, Select.from_, Select.targets, Select.where_, Select.groupBy,
          Select.having, Select.orderBy, Select.pivotBy, Select.limit, Select.distinct, hdb, hE, hT, hT0, hG, hO, hp]) <;> rfl
    | table n =>
      cases ts <;> cases w <;> cases hv <;> (
        simp only [Select.placeholders, FromC.placeholders, List.append_eq_nil_iff, List.nil_append, List.append_nil,
          and_true, true_and] at hp
        simp only [compileSelect, Select.from_, Select.targets, Select.where_, Select.groupBy,
          Select.having, Select.orderBy, Select.pivotBy, Select.limit, Select.distinct, hdb, hE, hT, hT0, hG, hO, hp]) <;> rfl
    | sub q =>
      cases ts <;> cases w <;> cases hv <;> (
        simp only [Select.placeholders, FromC.placeholders, List.append_eq_nil_iff, List.nil_append, List.append_nil,
          and_true, true_and] at hp
        simp only [compileSelect, Select.from_, Select.targets, Select.where_, Select.groupBy,
          Select.having, Select.orderBy, Select.pivotBy, Select.limit, Select.distinct, hdb, hE, hT, hT0, hG, hO, hp, ih]) <;> rfl
    | «from» e op cl clr =>
      cases e <;> cases ts <;> cases w <;> cases hv <;> (
        simp only [Select.placeholders, FromC.placeholders, List.append_eq_nil_iff, List.nil_append, List.append_nil,
          and_true, true_and] at hp
        simp only [compileSelect, Select.from_, Select.targets, Select.where_, Select.groupBy,
          Select.having, Select.orderBy, Select.pivotBy, Select.limit, Select.distinct, hdb, hE, hT, hT0, hG, hO, hp]) <;> rfl



def unbound (ctx : Ctx) (np : Option String × Nat) : Bool :=
  match bindParam ctx np.1 np.2 with | .ok _ => false | .error _ => true

mutual
theorem Expr.placeholders_subst (ctx : Ctx) : ∀ e : Expr, (e.subst ctx).placeholders = e.placeholders.filter (unbound ctx)
  | .placeholder n p =>
    match h : bindParam ctx n p with
    | .ok v => by simp [Expr.subst, h, unbound, Expr.placeholders]
    | .error x => by simp [Expr.subst, h, unbound, Expr.placeholders]
  | .col _ => rfl
  | .const _ => rfl
  | .star => rfl
  | .func f as => by simp only [Expr.subst, Expr.placeholders, Expr.placeholdersL_subst ctx as]
  | .attr e _ => by simp only [Expr.subst, Expr.placeholders, Expr.placeholders_subst ctx e]
  | .subscript e _ => by simp only [Expr.subst, Expr.placeholders, Expr.placeholders_subst ctx e]
  | .unop _ e => by simp only [Expr.subst, Expr.placeholders, Expr.placeholders_subst ctx e]
  | .binop _ l r => by
    simp only [Expr.subst, Expr.placeholders, Expr.placeholders_subst ctx l, Expr.placeholders_subst ctx r, List.filter_append]
  | .between a b c => by
    simp only [Expr.subst, Expr.placeholders, Expr.placeholders_subst ctx a, Expr.placeholders_subst ctx b,
      Expr.placeholders_subst ctx c, List.filter_append]
  | .and es => by simp only [Expr.subst, Expr.placeholders, Expr.placeholdersL_subst ctx es]
  | .or es => by simp only [Expr.subst, Expr.placeholders, Expr.placeholdersL_subst ctx es]
  | .sub q => by simp only [Expr.subst, Expr.placeholders, Select.placeholders_subst ctx q]
theorem Expr.placeholdersL_subst (ctx : Ctx) : ∀ es : List Expr,
    Expr.placeholdersL (Expr.substL ctx es) = (Expr.placeholdersL es).filter (unbound ctx)
  | [] => rfl
  | e :: es => by
    simp only [Expr.substL, Expr.placeholdersL, Expr.placeholders_subst ctx e, Expr.placeholdersL_subst ctx es, List.filter_append]
theorem Target.placeholders_subst (ctx : Ctx) : ∀ t : Target, (t.subst ctx).placeholders = t.placeholders.filter (unbound ctx)
  | .mk e _ _ => by simp only [Target.subst, Target.placeholders, Expr.placeholders_subst ctx e]
theorem Target.placeholdersL_subst (ctx : Ctx) : ∀ ts : List Target,
    Target.placeholdersL (Target.substL ctx ts) = (Target.placeholdersL ts).filter (unbound ctx)
  | [] => rfl
  | t :: ts => by
    simp only [Target.substL, Target.placeholdersL, Target.placeholders_subst ctx t, Target.placeholdersL_subst ctx ts, List.filter_append]
theorem KeyRef.placeholders_subst (ctx : Ctx) : ∀ k : KeyRef, (k.subst ctx).placeholders = k.placeholders.filter (unbound ctx)
  | .idx _ => rfl
  | .expr e => by simp only [KeyRef.subst, KeyRef.placeholders, Expr.placeholders_subst ctx e]
theorem KeyRef.placeholdersL_subst (ctx : Ctx) : ∀ ks : List KeyRef,
    KeyRef.placeholdersL (KeyRef.substL ctx ks) = (KeyRef.placeholdersL ks).filter (unbound ctx)
  | [] => rfl
  | k :: ks => by
    simp only [KeyRef.substL, KeyRef.placeholdersL, KeyRef.placeholders_subst ctx k, KeyRef.placeholdersL_subst ctx ks, List.filter_append]
theorem OrderKeys.placeholdersL_subst (ctx : Ctx) : ∀ ks : List (KeyRef × Bool),
    OrderKeys.placeholdersL (OrderKeys.substL ctx ks) = (OrderKeys.placeholdersL ks).filter (unbound ctx)
  | [] => rfl
  | (k, _) :: ks => by
    simp only [OrderKeys.substL, OrderKeys.placeholdersL, KeyRef.placeholders_subst ctx k, OrderKeys.placeholdersL_subst ctx ks, List.filter_append]
theorem FromC.placeholders_subst (ctx : Ctx) : ∀ f : FromC, (f.subst ctx).placeholders = f.placeholders.filter (unbound ctx)
  | .none => rfl
  | .table _ => rfl
  | .sub q => by simp only [FromC.subst, FromC.placeholders, Select.placeholders_subst ctx q]
  | .from (some e) _ _ _ => by simp only [FromC.subst, FromC.placeholders, Expr.placeholders_subst ctx e]
  | .from none _ _ _ => rfl
theorem Select.placeholders_subst (ctx : Ctx) : ∀ s : Select, (s.subst ctx).placeholders = s.placeholders.filter (unbound ctx)
  | .mk ts f w g hv o _ _ _ => by
    cases ts <;> cases w <;> cases hv <;>
      simp only [Select.subst, Select.placeholders, FromC.placeholders_subst ctx f, KeyRef.placeholdersL_subst ctx g,
        OrderKeys.placeholdersL_subst ctx o, List.filter_append, Target.placeholdersL_subst, Expr.placeholders_subst,
        List.filter_nil]
end



theorem mem_insertNat_iff (x z : Nat) (l : List Nat) : z ∈ insertNat x l ↔ z = x ∨ z ∈ l := by
  induction l with
  | nil => simp [insertNat]
  | cons w ws ih =>
    simp only [insertNat]
    by_cases h : x ≤ w
    · simp [h]
    · simp only [h, if_false, List.mem_cons, ih]
      constructor
      · rintro (h1 | h1 | h1)
        · exact Or.inr (Or.inl h1)
        · exact Or.inl h1
        · exact Or.inr (Or.inr h1)
      · rintro (h1 | h1 | h1)
        · exact Or.inr (Or.inl h1)
        · exact Or.inl h1
        · exact Or.inr (Or.inr h1)

theorem length_insertNat (x : Nat) (l : List Nat) : (insertNat x l).length = l.length + 1 := by
  induction l with
  | nil => rfl
  | cons w ws ih =>
    simp only [insertNat]
    by_cases h : x ≤ w <;> simp [h, ih]

theorem mem_sortNat (z : Nat) (l : List Nat) : z ∈ sortNat l ↔ z ∈ l := by
  induction l with
  | nil => simp [sortNat]
  | cons x xs ih =>
    have : sortNat (x :: xs) = insertNat x (sortNat xs) := rfl
    rw [this, mem_insertNat_iff, ih]; simp

theorem length_sortNat (l : List Nat) : (sortNat l).length = l.length := by
  induction l with
  | nil => rfl
  | cons x xs ih =>
    have : sortNat (x :: xs) = insertNat x (sortNat xs) := rfl
    rw [this, length_insertNat, ih]; rfl

/-- the context `compileStmt` builds -/
def stmtCtx (db : List TableDef) (params : Params) (sel : Select) : Ctx :=
  { db := db, params := params,
    positional := sortNat ((sel.placeholders.filter (fun p => p.1.isNone)).map (·.2)) }

/-- parameters that pass the validation bind every placeholder of the statement -/
theorem checkParams_bound (db : List TableDef) (params : Params) (sel : Select)
    (hok : checkParams sel.placeholders params = .ok ()) :
    ∀ np ∈ sel.placeholders, unbound (stmtCtx db params sel) np = false := by
  intro np hnp
  obtain ⟨n, pos⟩ := np
  unfold checkParams at hok
  have hne : sel.placeholders.isEmpty = false := by
    cases h : sel.placeholders with
    | nil => rw [h] at hnp; cases hnp
    | cons _ _ => rfl
  simp only [hne, Bool.false_eq_true, if_false] at hok
  by_cases hall : ((sel.placeholders.filter (fun p => p.1.isSome)).length == sel.placeholders.length) = true
  · -- every placeholder is named
    simp only [hall, if_true] at hok
    have hallp : ∀ a ∈ sel.placeholders, a.1.isSome = true :=
      List.length_filter_eq_length_iff.mp (beq_iff_eq.mp hall)
    have hfl : sel.placeholders.filter (fun p => p.1.isSome) = sel.placeholders := List.filter_eq_self.mpr hallp
    rw [hfl] at hok
    cases hp : params with
    | map kvs =>
      simp only [hp] at hok
      split at hok
      · rename_i hmem
        have h1 := List.all_eq_true.mp hmem (n, pos) hnp
        have hsome : n.isSome = true := hallp (n, pos) hnp
        cases n with
        | none => cases hsome
        | some nm =>
          simp only at h1
          obtain ⟨kv, hkv, hk⟩ := List.any_eq_true.mp h1
          unfold unbound bindParam stmtCtx
          simp only
          cases hf : kvs.find? (fun p => p.1 == nm) with
          | some p => rfl
          | none =>
            have := List.find?_eq_none.mp hf kv hkv
            simp [hk] at this
      · cases hok
    | none => simp only [hp] at hok; cases hok
    | seq vs => simp only [hp] at hok; cases hok
  · simp only [hall] at hok
    by_cases hnone : (sel.placeholders.filter (fun p => p.1.isSome)).isEmpty = true
    · simp only [hnone, if_true] at hok
      have hnonep : ∀ a ∈ sel.placeholders, a.1.isNone = true := by
        intro a ha
        have : a ∉ sel.placeholders.filter (fun p => p.1.isSome) := by
          rw [List.isEmpty_iff.mp hnone]; simp
        cases hx : a.1 with
        | none => rfl
        | some _ => exact absurd (List.mem_filter.mpr ⟨ha, by simp [hx]⟩) this
      have hfl : sel.placeholders.filter (fun p => p.1.isNone) = sel.placeholders := List.filter_eq_self.mpr hnonep
      cases hp : params with
      | seq vs =>
        simp only [hp] at hok
        by_cases hlen : (vs.length == sel.placeholders.length) = true
        · have hnn : n = none := by
            have := hnonep (n, pos) hnp
            cases n with
            | none => rfl
            | some _ => cases this
          subst hnn
          unfold unbound bindParam stmtCtx
          simp only [hfl]
          have hmem : pos ∈ sortNat (sel.placeholders.map (·.2)) := by
            rw [mem_sortNat]; exact List.mem_map.mpr ⟨(none, pos), hnp, rfl⟩
          have hidx := List.idxOf_lt_length_of_mem hmem
          rw [length_sortNat, List.length_map] at hidx
          have hl := beq_iff_eq.mp hlen
          have : List.idxOf pos (sortNat (sel.placeholders.map (·.2))) < vs.length := by omega
          simp [List.getElem?_eq_getElem this]
        · simp only [hlen] at hok; cases hok
      | none => simp only [hp] at hok; cases hok
      | map kvs => simp only [hp] at hok; cases hok
    · simp only [hnone] at hok; cases hok


/-- **the whole statement**: executing with parameters = executing the statement with the values written as literals -/
theorem compileStmt_literals (db : List TableDef) (params : Params) (sel : Select)
    (hok : checkParams sel.placeholders params = .ok ()) :
    compileStmt db params sel = compileStmt db .none (sel.subst (stmtCtx db params sel)) := by
  have hpl : (sel.subst (stmtCtx db params sel)).placeholders = [] := by
    rw [Select.placeholders_subst]
    apply List.filter_eq_nil_iff.mpr
    intro np hnp
    simp [checkParams_bound db params sel hok np hnp]
  have hl : compileStmt db params sel = compileSelect (stmtCtx db params sel) 64 (defaultTable db) sel := by
    unfold compileStmt stmtCtx
    simp only [hok]
  have hr : compileStmt db .none (sel.subst (stmtCtx db params sel)) =
      compileSelect (stmtCtx db .none (sel.subst (stmtCtx db params sel))) 64 (defaultTable db) (sel.subst (stmtCtx db params sel)) := by
    have hc : checkParams (sel.subst (stmtCtx db params sel)).placeholders .none = .ok () := by
      rw [hpl]; rfl
    unfold compileStmt
    simp only [hc]
    rfl
  rw [hl, hr, compileSelect_ctx (stmtCtx db .none (sel.subst (stmtCtx db params sel))) (stmtCtx db params sel) rfl 64 _ _ hpl,
    compileSelect_subst]

end Bql
