/-
  Lemmas about the summarisation model: per-account per-lot sums (`psum`/`tsum`), the balances
  dictionary, and the entries generated from balances.
-/
import BqlVerif.Model.Summarize
import BqlVerif.Properties.C12
set_option autoImplicit false
namespace Bql.Summ
open Bql.C12

/-- total number posted to account `a` in lot `k` -/
def psum (a : String) (k : LotKey) : List Posting → Int
  | [] => 0
  | p :: r => (if p.account = a ∧ p.key = k then p.num else 0) + psum a k r

theorem psum_append (a : String) (k : LotKey) (x y : List Posting) : psum a k (x ++ y) = psum a k x + psum a k y := by
  induction x with
  | nil => simp [psum]
  | cons p r ih => simp only [List.cons_append, psum, ih]; omega

def tsum (a : String) (k : LotKey) (es : List Txn) : Int := psum a k (es.flatMap (·.postings))

theorem tsum_nil (a : String) (k : LotKey) : tsum a k [] = 0 := rfl

theorem tsum_cons (a : String) (k : LotKey) (t : Txn) (es : List Txn) :
    tsum a k (t :: es) = psum a k t.postings + tsum a k es := by
  simp [tsum, psum_append]

theorem tsum_append (a : String) (k : LotKey) (x y : List Txn) : tsum a k (x ++ y) = tsum a k x + tsum a k y := by
  simp [tsum, psum_append]

/-! ### the balances dictionary -/

def AllUniq (b : Balances) : Prop := ∀ p ∈ b, p.2.Uniq

def accounts (b : Balances) : List String := b.map (·.1)

theorem get_add (b : Balances) (p : Posting) (h : AllUniq b) (a : String) (k : LotKey) :
    ((b.add p).get a).get k = (b.get a).get k + (if p.account = a ∧ p.key = k then p.num else 0) := by
  induction b with
  | nil =>
    simp only [Balances.add, Balances.get]
    by_cases ha : p.account = a
    · simp only [ha, ↓reduceIte, true_and]
      rw [get_addAmount [] p.key p.num uniq_nil k]
      by_cases hk : k = p.key
      · subst hk; simp [Inv.get]
      · have : ¬ p.key = k := fun e => hk e.symm
        simp [hk, this, Inv.get]
    · simp [ha, Inv.get]
  | cons x rest ih =>
    obtain ⟨a0, i0⟩ := x
    have hrest : AllUniq rest := fun q hq => h q (List.mem_cons_of_mem _ hq)
    have hi0 : i0.Uniq := h (a0, i0) (by simp)
    simp only [Balances.add]
    by_cases h0 : a0 = p.account
    · simp only [h0, ↓reduceIte, Balances.get]
      by_cases ha : p.account = a
      · simp only [ha, ↓reduceIte, true_and]
        rw [get_addAmount i0 p.key p.num hi0 k]
        by_cases hk : k = p.key
        · subst hk; simp
        · have : ¬ p.key = k := fun e => hk e.symm
          simp [hk, this]
      · simp [ha]
    · simp only [h0, ↓reduceIte, Balances.get]
      by_cases ha0 : a0 = a
      · have : ¬ p.account = a := fun e => h0 (ha0.trans e.symm)
        simp [ha0, this]
      · simp only [ha0, ↓reduceIte]
        exact ih hrest

theorem allUniq_add (b : Balances) (p : Posting) (h : AllUniq b) : AllUniq (b.add p) := by
  induction b with
  | nil =>
    intro q hq
    simp only [Balances.add, List.mem_singleton] at hq
    subst hq
    exact uniq_addAmount [] p.key p.num uniq_nil
  | cons x rest ih =>
    obtain ⟨a0, i0⟩ := x
    have hrest : AllUniq rest := fun q hq => h q (List.mem_cons_of_mem _ hq)
    have hi0 : i0.Uniq := h (a0, i0) (by simp)
    simp only [Balances.add]
    by_cases h0 : a0 = p.account
    · simp only [h0, ↓reduceIte]
      intro q hq
      rcases List.mem_cons.mp hq with rfl | hq
      · exact uniq_addAmount i0 p.key p.num hi0
      · exact hrest q hq
    · simp only [h0, ↓reduceIte]
      intro q hq
      rcases List.mem_cons.mp hq with rfl | hq
      · exact hi0
      · exact ih hrest q hq

theorem accounts_add (b : Balances) (p : Posting) :
    accounts (b.add p) = if p.account ∈ accounts b then accounts b else accounts b ++ [p.account] := by
  induction b with
  | nil => simp [Balances.add, accounts]
  | cons x rest ih =>
    obtain ⟨a0, i0⟩ := x
    simp only [Balances.add]
    by_cases h0 : a0 = p.account
    · simp [h0, accounts]
    · have h0' : ¬ p.account = a0 := fun e => h0 e.symm
      simp only [h0, ↓reduceIte]
      simp only [accounts, List.map_cons, List.mem_cons, h0', false_or] at ih ⊢
      rw [ih]
      split <;> simp_all

theorem nodup_add (b : Balances) (p : Posting) (h : (accounts b).Nodup) : (accounts (b.add p)).Nodup := by
  rw [accounts_add]
  split
  · exact h
  · rename_i hn
    exact List.nodup_append.mpr ⟨h, by simp, by
      intro a ha c hc
      simp only [List.mem_singleton] at hc
      subst hc
      exact fun e => hn (e ▸ ha)⟩

theorem fold_add (ps : List Posting) (b : Balances) (hu : AllUniq b) (hn : (accounts b).Nodup) :
    AllUniq (ps.foldl Balances.add b) ∧ (accounts (ps.foldl Balances.add b)).Nodup ∧
    ∀ a k, ((ps.foldl Balances.add b).get a).get k = (b.get a).get k + psum a k ps := by
  induction ps generalizing b with
  | nil => exact ⟨hu, hn, by simp [psum]⟩
  | cons p rest ih =>
    simp only [List.foldl_cons]
    obtain ⟨h1, h2, h3⟩ := ih (b.add p) (allUniq_add b p hu) (nodup_add b p hn)
    refine ⟨h1, h2, ?_⟩
    intro a k
    rw [h3 a k, get_add b p hu a k, psum]
    omega

theorem allUniq_nil : AllUniq [] := fun _ h => by simp at h

/-- **balance_by_account** holds, per account and lot, the total of the postings before the date -/
theorem balanceByAccount_spec (d : Option Nat) (es : List Txn) :
    AllUniq (balanceByAccount d es) ∧ (accounts (balanceByAccount d es)).Nodup ∧
    ∀ a k, ((balanceByAccount d es).get a).get k = tsum a k (before d es) := by
  obtain ⟨h1, h2, h3⟩ := fold_add ((before d es).flatMap (·.postings)) [] allUniq_nil (by simp [accounts])
  refine ⟨h1, h2, ?_⟩
  intro a k
  have := h3 a k
  simpa [Balances.get, Inv.get, tsum, balanceByAccount] using this

/-! ### entries generated from balances -/

/-- sum over a balances list of the entries for account `a` -/
def bsum (a : String) (k : LotKey) : Balances → Int
  | [] => 0
  | (a', i) :: r => (if a' = a then i.get k else 0) + bsum a k r

theorem bsum_perm (a : String) (k : LotKey) (b1 b2 : Balances) (h : b1.Perm b2) : bsum a k b1 = bsum a k b2 := by
  induction h with
  | nil => rfl
  | cons x _ ih => obtain ⟨a0, i0⟩ := x; simp only [bsum, ih]
  | swap x y l => obtain ⟨a0, i0⟩ := x; obtain ⟨a1, i1⟩ := y; simp only [bsum]; omega
  | trans _ _ ih1 ih2 => exact ih1.trans ih2

theorem bsum_not_mem (a : String) (k : LotKey) (b : Balances) (h : a ∉ accounts b) : bsum a k b = 0 := by
  induction b with
  | nil => rfl
  | cons x rest ih =>
    obtain ⟨a0, i0⟩ := x
    simp only [accounts, List.map_cons, List.mem_cons, not_or] at h
    have h0 : ¬ a0 = a := fun e => h.1 e.symm
    simp only [bsum, h0, ↓reduceIte, Int.zero_add]
    exact ih h.2

theorem get_not_mem_acc (a : String) (b : Balances) (h : a ∉ accounts b) : b.get a = [] := by
  induction b with
  | nil => rfl
  | cons x rest ih =>
    obtain ⟨a0, i0⟩ := x
    simp only [accounts, List.map_cons, List.mem_cons, not_or] at h
    have h0 : ¬ a0 = a := fun e => h.1 e.symm
    simp only [Balances.get, h0, ↓reduceIte]
    exact ih h.2

theorem bsum_nodup (a : String) (k : LotKey) (b : Balances) (h : (accounts b).Nodup) : bsum a k b = (b.get a).get k := by
  induction b with
  | nil => rfl
  | cons x rest ih =>
    obtain ⟨a0, i0⟩ := x
    simp only [accounts, List.map_cons, List.nodup_cons] at h
    simp only [bsum, Balances.get]
    by_cases h0 : a0 = a
    · subst h0
      simp only [↓reduceIte]
      rw [bsum_not_mem a0 k rest h.1]; omega
    · simp only [h0, ↓reduceIte, Int.zero_add]
      exact ih h.2

theorem insertAcc_perm (x : String × Inv) (l : List (String × Inv)) : (insertAcc x l).Perm (x :: l) := by
  induction l with
  | nil => exact List.Perm.refl _
  | cons y ys ih =>
    simp only [insertAcc]
    split
    · exact List.Perm.refl _
    · exact (List.Perm.cons y ih).trans (List.Perm.swap x y ys)

theorem sortByAccount_perm (b : Balances) : (sortByAccount b).Perm b := by
  induction b with
  | nil => exact List.Perm.refl _
  | cons x rest ih =>
    simp only [sortByAccount, List.foldr_cons] at ih ⊢
    exact (insertAcc_perm x _).trans (List.Perm.cons x ih)

theorem bsum_filter_nonempty (a : String) (k : LotKey) (b : Balances) :
    bsum a k (b.filter (fun p => !p.2.isEmpty)) = bsum a k b := by
  induction b with
  | nil => rfl
  | cons x rest ih =>
    obtain ⟨a0, i0⟩ := x
    cases i0 with
    | nil => simp only [List.filter_cons, List.isEmpty_nil, Bool.not_true, Bool.false_eq_true, ↓reduceIte, bsum, Inv.get, ih]
             split <;> omega
    | cons q qs => simp only [List.filter_cons, List.isEmpty_cons, Bool.not_false, ↓reduceIte, bsum, ih]

/-- postings of one generated entry, seen from an account other than the source -/
theorem psum_entry_pairs (a : String) (k : LotKey) (source account : String) (inv : Inv) (hs : a ≠ source) :
    psum a k (inv.flatMap (fun p =>
      let posting : Posting := ⟨account, p.1, p.2⟩
      [posting, ⟨source, (weight posting).1, -(weight posting).2⟩])) = if account = a then sumKey k inv else 0 := by
  induction inv with
  | nil => simp [psum, sumKey_nil]
  | cons q qs ih =>
    have hs' : ¬ source = a := fun e => hs e.symm
    simp only [List.flatMap_cons, List.cons_append, List.nil_append, psum, hs', false_and, ↓reduceIte, Int.zero_add, sumKey_cons]
    simp only [] at ih
    rw [ih]
    by_cases hacc : account = a
    · simp [hacc]
    · simp [hacc]

theorem sumKey_neg (k : LotKey) (inv : Inv) : sumKey k (inv.map (fun p => (p.1, -p.2))) = - sumKey k inv := by
  induction inv with
  | nil => simp [sumKey_nil]
  | cons q qs ih =>
    simp only [List.map_cons, sumKey_cons, ih]
    split <;> omega

theorem psum_entryFromBalance (a : String) (k : LotKey) (date : Nat) (kind : TxnKind) (source : String) (direction : Bool)
    (account : String) (inv : Inv) (hs : a ≠ source) (hu : inv.Uniq) :
    psum a k (entryFromBalance date kind source direction account inv).postings =
      if account = a then (if direction then inv.get k else - inv.get k) else 0 := by
  unfold entryFromBalance
  simp only []
  rw [psum_entry_pairs a k source account _ hs]
  by_cases hacc : account = a
  · simp only [hacc, ↓reduceIte]
    cases direction
    · simp only [Bool.false_eq_true, ↓reduceIte, sumKey_neg, sumKey_uniq inv hu]
    · simp only [↓reduceIte, sumKey_uniq inv hu]
  · simp [hacc]

theorem tsum_entries_list (a : String) (k : LotKey) (date : Nat) (kind : TxnKind) (source : String) (direction : Bool)
    (hs : a ≠ source) (l : Balances) (hu : AllUniq l) :
    tsum a k (l.map (fun p => entryFromBalance date kind source direction p.1 p.2)) =
      if direction then bsum a k l else - bsum a k l := by
  induction l with
  | nil => cases direction <;> simp [tsum_nil, bsum]
  | cons x rest ih =>
    obtain ⟨a0, i0⟩ := x
    have hrest : AllUniq rest := fun q hq => hu q (List.mem_cons_of_mem _ hq)
    have hi0 : i0.Uniq := hu (a0, i0) (by simp)
    simp only [List.map_cons, tsum_cons, ih hrest, bsum]
    rw [psum_entryFromBalance a k date kind source direction a0 i0 hs hi0]
    cases direction <;> by_cases h0 : a0 = a <;> simp [h0] <;> omega

/-- **create_entries_from_balances**: seen from any account but the source, the generated entries
    carry exactly the balance (or its opposite) -/
theorem tsum_entriesFromBalances (a : String) (k : LotKey) (date : Nat) (kind : TxnKind) (source : String) (direction : Bool)
    (b : Balances) (hs : a ≠ source) (hu : AllUniq b) (hn : (accounts b).Nodup) :
    tsum a k (entriesFromBalances date kind source direction b) =
      if direction then (b.get a).get k else - (b.get a).get k := by
  unfold entriesFromBalances
  have hu' : AllUniq ((sortByAccount b).filter (fun p => !p.2.isEmpty)) := by
    intro q hq
    exact hu q ((sortByAccount_perm b).mem_iff.mp (List.mem_filter.mp hq).1)
  rw [tsum_entries_list a k date kind source direction hs _ hu', bsum_filter_nonempty,
    bsum_perm a k _ _ (sortByAccount_perm b), bsum_nodup a k b hn]

/-! ### filtered balances -/

theorem allUniq_filter (b : Balances) (f : String × Inv → Bool) (h : AllUniq b) : AllUniq (b.filter f) :=
  fun q hq => h q (List.mem_filter.mp hq).1

theorem nodup_filter (b : Balances) (f : String × Inv → Bool) (h : (accounts b).Nodup) : (accounts (b.filter f)).Nodup := by
  unfold accounts at *
  exact (List.Sublist.map _ List.filter_sublist).nodup h

theorem get_filter_pred (b : Balances) (pred : String → Bool) (a : String) :
    Balances.get (b.filter (fun p => pred p.1)) a = if pred a then Balances.get b a else [] := by
  induction b with
  | nil => simp [Balances.get]
  | cons x rest ih =>
    obtain ⟨a0, i0⟩ := x
    simp only [List.filter_cons]
    by_cases hp : pred a0 = true
    · simp only [hp, ↓reduceIte, Balances.get]
      by_cases h0 : a0 = a
      · subst h0; simp [hp]
      · simp only [h0, ↓reduceIte]; exact ih
    · simp only [hp, Bool.false_eq_true, ↓reduceIte, Balances.get]
      by_cases h0 : a0 = a
      · subst h0
        simp only [↓reduceIte] at ih ⊢
        rw [ih]; simp [hp]
      · simp only [h0, ↓reduceIte]; exact ih

/-! ### balanced entries -/

theorem residual_pairs (account source : String) (inv : Inv) :
    invSum ((inv.flatMap (fun p =>
      let posting : Posting := ⟨account, p.1, p.2⟩
      [posting, ⟨source, (weight posting).1, -(weight posting).2⟩])).map weight) = [] := by
  unfold invSum
  induction inv with
  | nil => rfl
  | cons q qs ih =>
    simp only [List.flatMap_cons, List.cons_append, List.nil_append, List.map_cons, List.foldl_cons]
    have hw : weight ⟨source, (weight ⟨account, q.1, q.2⟩).1, -(weight ⟨account, q.1, q.2⟩).2⟩ =
        ((weight ⟨account, q.1, q.2⟩).1, -(weight ⟨account, q.1, q.2⟩).2) := by
      unfold weight
      cases q.1.cost with
      | none => rfl
      | some c => obtain ⟨cn, cc, cd, cl⟩ := c; rfl
    rw [hw]
    generalize weight ⟨account, q.1, q.2⟩ = w
    have : (Inv.addAmount (Inv.addAmount [] w.1 w.2) w.1 (-w.2)) = [] := by
      by_cases h0 : w.2 = 0
      · simp [Inv.addAmount, h0]
      · simp [Inv.addAmount, h0]; omega
    rw [this]
    exact ih

theorem entryFromBalance_balanced (date : Nat) (kind : TxnKind) (source : String) (direction : Bool) (account : String) (inv : Inv) :
    (entryFromBalance date kind source direction account inv).balanced = true := by
  unfold Txn.balanced Txn.residual entryFromBalance
  simp only []
  rw [residual_pairs]
  rfl

/-! ### takeWhile / dropWhile -/

theorem takeWhile_append_of_all {α} (p : α → Bool) (x y : List α) (h : ∀ e ∈ x, p e = true) :
    (x ++ y).takeWhile p = x ++ y.takeWhile p := by
  induction x with
  | nil => rfl
  | cons e r ih =>
    have he := h e (by simp)
    simp only [List.cons_append, List.takeWhile_cons, he, ↓reduceIte]
    rw [ih (fun e' he' => h e' (List.mem_cons_of_mem _ he'))]

theorem dropWhile_append_of_all {α} (p : α → Bool) (x y : List α) (h : ∀ e ∈ x, p e = true) :
    (x ++ y).dropWhile p = y.dropWhile p := by
  induction x with
  | nil => rfl
  | cons e r ih =>
    have he := h e (by simp)
    simp only [List.cons_append, List.dropWhile_cons, he, ↓reduceIte]
    exact ih (fun e' he' => h e' (List.mem_cons_of_mem _ he'))

theorem takeWhile_dropWhile_self {α} (p : α → Bool) (x : List α) : (x.dropWhile p).takeWhile p = [] := by
  induction x with
  | nil => rfl
  | cons e r ih =>
    simp only [List.dropWhile_cons]
    split
    · exact ih
    · rename_i h; simp [List.takeWhile_cons, h]

theorem dropWhile_dropWhile_self {α} (p : α → Bool) (x : List α) : (x.dropWhile p).dropWhile p = x.dropWhile p := by
  induction x with
  | nil => rfl
  | cons e r ih =>
    simp only [List.dropWhile_cons]
    split
    · exact ih
    · rename_i h; simp [List.dropWhile_cons, h]

theorem mem_takeWhile_imp {α} (p : α → Bool) (x : List α) : ∀ e ∈ x.takeWhile p, p e = true := by
  induction x with
  | nil => simp
  | cons e r ih =>
    intro e' he'
    simp only [List.takeWhile_cons] at he'
    split at he'
    · rcases List.mem_cons.mp he' with rfl | h
      · assumption
      · exact ih e' h
    · simp at he'

theorem entries_date (date : Nat) (kind : TxnKind) (source : String) (direction : Bool) (b : Balances) :
    ∀ t ∈ entriesFromBalances date kind source direction b, t.date = date ∧ t.kind = kind ∧ t.balanced = true := by
  intro t ht
  unfold entriesFromBalances at ht
  obtain ⟨p, _, rfl⟩ := List.mem_map.mp ht
  exact ⟨rfl, rfl, entryFromBalance_balanced _ _ _ _ _ _⟩

end Bql.Summ
