/-
  The multi-pass ORDER BY loop equals one stable sort by the lexicographic comparator.
-/
import BqlVerif.Proofs.KeyOrder
set_option autoImplicit false
namespace Bql
open Bql.Sort

/-- the lexicographic strict comparator of an ORDER BY specification `(index, descending)` -/
def lexLt : List (Nat × Bool) → Row → Row → Bool
  | [], _, _ => false
  | (i, desc) :: rest, a, b =>
    if keyEqv (a.getD i .null) (b.getD i .null) then lexLt rest a b
    else if desc then keyLt (b.getD i .null) (a.getD i .null) else keyLt (a.getD i .null) (b.getD i .null)

/-- strict comparator of one pass: tuple comparison, converse when `reverse=True` -/
def segLt (d : Bool) (is : List Nat) (a b : Row) : Bool :=
  if d then tupleLt is b a else tupleLt is a b

def tupleEqv (is : List Nat) (a b : Row) : Bool := !tupleLt is a b && !tupleLt is b a

theorem sortPass_eq (is : List Nat) (d : Bool) (rows : List Row) :
    sortPass is d rows = ssort (leOf (segLt d is)) rows := by
  unfold sortPass segLt
  cases d <;> simp [stableSort_eq_ssort]

theorem segLe_totalPre (d : Bool) (is : List Nat) : TotalPre (leOf (segLt d is)) := by
  cases d
  · have : segLt false is = tupleLt is := by funext a b; simp [segLt]
    rw [this]; exact tupleLe_totalPre is
  · have : segLt true is = fun a b => tupleLt is b a := by funext a b; simp [segLt]
    rw [this]; exact tupleGe_totalPre is

theorem keyLt_of_not_eqv (x y : Value) (h : keyEqv x y = false) (h2 : keyLt x y = false) : keyLt y x = true := by
  simp [keyEqv, h2] at h
  exact h

theorem tupleEqv_cons (i : Nat) (is : List Nat) (a b : Row) :
    tupleEqv (i :: is) a b = (keyEqv (a.getD i .null) (b.getD i .null) && tupleEqv is a b) := by
  unfold tupleEqv
  rw [tupleLt_cons, tupleLt_cons, keyEqv_symm (b.getD i .null) (a.getD i .null)]
  cases he : keyEqv (a.getD i .null) (b.getD i .null) with
  | true => simp
  | false =>
    simp only [Bool.false_eq_true, ↓reduceIte, Bool.false_and]
    simpa [keyEqv] using he

theorem lexLt_cons (i : Nat) (d : Bool) (rest : List (Nat × Bool)) (a b : Row) :
    lexLt ((i, d) :: rest) a b =
      if keyEqv (a.getD i .null) (b.getD i .null) then lexLt rest a b
      else if d then keyLt (b.getD i .null) (a.getD i .null) else keyLt (a.getD i .null) (b.getD i .null) := rfl

/-- comparing on a segment of same-direction keys followed by `R` -/
theorem lexLt_seg (d : Bool) (is : List Nat) (R : List (Nat × Bool)) (a b : Row) :
    lexLt (is.map (fun i => (i, d)) ++ R) a b =
      if tupleEqv is a b then lexLt R a b else segLt d is a b := by
  induction is with
  | nil => simp [tupleEqv, tupleLt]
  | cons i is ih =>
    simp only [List.map_cons, List.cons_append]
    rw [lexLt_cons, ih, tupleEqv_cons]
    have hs := keyEqv_symm (b.getD i .null) (a.getD i .null)
    cases he : keyEqv (a.getD i .null) (b.getD i .null) with
    | true =>
      rw [he] at hs
      cases d <;> simp only [segLt, tupleLt_cons, he, hs, ↓reduceIte, Bool.false_eq_true, Bool.true_and]
    | false =>
      rw [he] at hs
      cases d <;> simp only [segLt, tupleLt_cons, he, hs, ↓reduceIte, Bool.false_eq_true, Bool.false_and]

theorem tupleEqv_symm (is : List Nat) (a b : Row) : tupleEqv is a b = tupleEqv is b a := by
  simp [tupleEqv, Bool.and_comm]

/-- Lemma A: the order of `segment ++ R` is the lexicographic combination of the segment's
    order (major) and `R`'s order (minor). -/
theorem leOf_lexLt_seg (d : Bool) (is : List Nat) (R : List (Nat × Bool)) (a b : Row) :
    leOf (lexLt (is.map (fun i => (i, d)) ++ R)) a b =
      lex (leOf (segLt d is)) (leOf (lexLt R)) a b := by
  unfold leOf lex
  rw [lexLt_seg, tupleEqv_symm]
  have heqv : (!segLt d is b a && !segLt d is a b) = tupleEqv is a b := by
    cases d <;> simp [segLt, tupleEqv, Bool.and_comm]
  rw [heqv]
  cases tupleEqv is a b <;> simp

theorem lexLe_totalPre (R : List (Nat × Bool)) : TotalPre (leOf (lexLt R)) := by
  induction R with
  | nil =>
    constructor
    · intro a b; left; simp [leOf, lexLt]
    · intro a b c _ _; simp [leOf, lexLt]
  | cons k R ih =>
    obtain ⟨i, d⟩ := k
    have h : leOf (lexLt ((i, d) :: R)) = lex (leOf (segLt d [i])) (leOf (lexLt R)) := by
      funext a b
      have := leOf_lexLt_seg d [i] R a b
      simpa using this
    rw [h]
    exact lex_total (segLe_totalPre d [i]) ih

/-- key list of processed segments, in ORDER BY order: the *last* processed segment is major -/
def specRev (P : List (Bool × List Nat)) : List (Nat × Bool) :=
  P.reverse.flatMap (fun p => p.2.reverse.map (fun i => (i, p.1)))

theorem specRev_cons (p : Bool × List Nat) (P : List (Bool × List Nat)) :
    specRev (p :: P) = specRev P ++ p.2.reverse.map (fun i => (i, p.1)) := by
  simp [specRev, List.flatMap_append]

/-- Lemma B: folding the passes over segments in processing order -/
theorem fold_passes (P : List (Bool × List Nat)) (R : List (Nat × Bool)) (rows : List Row) :
    P.foldl (fun rs run => sortPass run.2.reverse run.1 rs) (ssort (leOf (lexLt R)) rows) =
      ssort (leOf (lexLt (specRev P ++ R))) rows := by
  induction P generalizing R with
  | nil => simp [specRev]
  | cons p P ih =>
    simp only [List.foldl_cons]
    rw [sortPass_eq, two_pass (segLe_totalPre _ _) (lexLe_totalPre R)]
    have h : lex (leOf (segLt p.1 p.2.reverse)) (leOf (lexLt R))
           = leOf (lexLt (p.2.reverse.map (fun i => (i, p.1)) ++ R)) := by
      funext a b; exact (leOf_lexLt_seg p.1 p.2.reverse R a b).symm
    rw [h, ih, specRev_cons, List.append_assoc]

/-- Lemma C: `runs` only cuts the list into segments -/
theorem runs_flatten (l : List (Nat × Bool)) :
    (runs l).flatMap (fun p => p.2.map (fun i => (i, p.1))) = l := by
  induction l with
  | nil => rfl
  | cons k rest ih =>
    obtain ⟨i, d⟩ := k
    unfold runs
    cases hr : runs rest with
    | nil =>
      rw [hr] at ih
      simp at ih
      simp [← ih]
    | cons q more =>
      obtain ⟨d', is⟩ := q
      rw [hr] at ih
      simp only
      by_cases hd : d = d'
      · subst hd
        simp only [beq_self_eq_true, ↓reduceIte, List.flatMap_cons, List.map_cons, List.cons_append]
        rw [← ih]; simp
      · have : (d == d') = false := by simp [hd]
        simp only [this, Bool.false_eq_true, ↓reduceIte, List.flatMap_cons, List.map_cons, List.map_nil,
          List.cons_append, List.nil_append]
        rw [← ih]; simp

theorem specRev_runs_reverse (spec : List (Nat × Bool)) : specRev (runs spec.reverse) = spec := by
  have h := runs_flatten spec.reverse
  have h2 := congrArg List.reverse h
  rw [List.reverse_reverse, List.reverse_flatMap] at h2
  unfold specRev
  have hf : (fun p : Bool × List Nat => p.2.reverse.map (fun i => (i, p.1)))
      = (List.reverse ∘ fun p : Bool × List Nat => p.2.map (fun i => (i, p.1))) := by
    funext p; simp [Function.comp, List.map_reverse]
  rw [hf]; exact h2

/-- **multi-pass stable sort = one stable sort by the lexicographic comparator** -/
theorem orderBy_eq (spec : List (Nat × Bool)) (rows : List Row) :
    orderBy spec rows = stableSort (lexLt spec) rows := by
  unfold orderBy
  have h0 : rows = ssort (leOf (lexLt [])) rows := by
    have : leOf (lexLt []) = fun (_ _ : Row) => true := by funext a b; simp [leOf, lexLt]
    rw [this, ssort_trivial]
  conv => lhs; rw [h0]
  rw [fold_passes, List.append_nil, specRev_runs_reverse, stableSort_eq_ssort]

end Bql
