/-
  Range checker with logarithmic recursion depth (kernel friendly) and its soundness lemma;
  the predicates enumerated over 1900-01-01 .. 2100-12-31.
-/
import BqlVerif.Model.Calendar
namespace Bql.Cal

def checkRange (p : Nat → Bool) : Nat → Nat → Nat → Bool
  | 0, _, _ => false
  | fuel+1, lo, len =>
    if len = 0 then true
    else if len = 1 then p lo
    else checkRange p fuel lo (len/2) && checkRange p fuel (lo + len/2) (len - len/2)

theorem checkRange_sound (p : Nat → Bool) : ∀ fuel lo len, checkRange p fuel lo len = true →
    ∀ k, lo ≤ k → k < lo + len → p k = true := by
  intro fuel
  induction fuel with
  | zero => intro lo len h; simp [checkRange] at h
  | succ f ih =>
    intro lo len h k hlo hhi
    unfold checkRange at h
    split at h
    · omega
    · split at h
      · have : k = lo := by omega
        subst this; exact h
      · simp only [Bool.and_eq_true] at h
        by_cases hk : k < lo + len/2
        · exact ih _ _ h.1 k hlo hk
        · exact ih _ _ h.2 k (by omega) (by omega)

/-- ordinal round trip and validity of `fromOrd n` -/
def rtOk (n : Nat) : Bool := (Date.fromOrd n).toOrd == n && (Date.fromOrd n).valid

/-- the (year, month, day) triple number `k` of the range, days 1..31 -/
def tripleOf (k : Nat) : Date := ⟨1900 + k / 372, (k % 372) / 31 + 1, k % 31 + 1⟩

/-- a valid triple is reproduced by `fromOrd (toOrd d)` -/
def ymdOk (k : Nat) : Bool := !(tripleOf k).valid || Date.fromOrd (tripleOf k).toOrd == tripleOf k

/-- ISO calendar consistency of the date with ordinal `n` -/
def isoOk (n : Nat) : Bool :=
  let d := Date.fromOrd n
  let iso := d.isocalendar
  decide (1 ≤ iso.2.1) && decide (iso.2.1 ≤ 53) && iso.2.2 == d.weekday + 1 &&
    (isoWeek1Monday iso.1 + ((iso.2.1 : Int) - 1) * 7 + ((iso.2.2 : Int) - 1) == (n : Int))

end Bql.Cal
