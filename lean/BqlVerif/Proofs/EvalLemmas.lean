/-
  Helper lemmas about `eval` and the row loops (used by Properties/C01, C02).
-/
import BqlVerif.Model.Exec
namespace Bql

/-- result of a row under the specification: excluded (`none`) or its target values -/
def specRow (w : Option CExpr) (ts : List CExpr) (row : Row) : Except String (Option Row) :=
  match whereTrue w row with
  | .error x => .error x
  | .ok false => .ok none
  | .ok true => match evalTargets [] row ts with
    | .error x => .error x
    | .ok vs => .ok (some vs)

/-- map with early exit on the first error, in order -/
def mapE {α β} (f : α → Except String β) : List α → Except String (List β)
  | [] => .ok []
  | a :: as => match f a with
    | .error x => .error x
    | .ok b => match mapE f as with
      | .error x => .error x
      | .ok bs => .ok (b :: bs)

theorem foldlE_nonAgg (w : Option CExpr) (ts : List CExpr) (tbl : List Row) (acc : List Row) :
    foldlE (nonAggStep w ts) acc tbl =
      (match mapE (specRow w ts) tbl with
       | .error x => .error x
       | .ok rs => .ok (acc ++ rs.filterMap id)) := by
  induction tbl generalizing acc with
  | nil => simp [foldlE, mapE]
  | cons r rs ih =>
    simp only [foldlE, mapE, nonAggStep, specRow]
    cases hw : whereTrue w r with
    | error x => simp
    | ok b =>
      cases b with
      | false =>
        simp only [ih]
        cases mapE (specRow w ts) rs <;> simp
      | true =>
        cases ht : evalTargets [] r ts with
        | error x => simp
        | ok vs =>
          simp only [ih]
          cases mapE (specRow w ts) rs <;> simp

theorem mapE_ok_of_forall {α β} (f : α → Except String β) (g : α → β) (l : List α)
    (h : ∀ a ∈ l, f a = .ok (g a)) : mapE f l = .ok (l.map g) := by
  induction l with
  | nil => rfl
  | cons a as ih =>
    have ha := h a (List.mem_cons_self ..)
    have ih' := ih (fun x hx => h x (List.mem_cons_of_mem _ hx))
    simp [mapE, ha, ih']

end Bql
