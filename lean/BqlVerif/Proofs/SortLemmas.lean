/-
  Stable insertion sort; two stable passes = one lexicographic pass; folding passes over
  key segments = one pass by the lexicographic comparator of the concatenated keys.
-/
import BqlVerif.Model.Exec
set_option autoImplicit false
namespace Bql.Sort

variable {α : Type}

/-- insert `x` before the first `y` with `le x y` -/
def ins (le : α → α → Bool) (x : α) : List α → List α
  | [] => [x]
  | y :: ys => if le x y then x :: y :: ys else y :: ins le x ys

def ssort (le : α → α → Bool) (l : List α) : List α := l.foldr (ins le) []

/-- the non-strict order derived from a strict comparator -/
def leOf (lt : α → α → Bool) (a b : α) : Bool := !lt b a

theorem insSorted_eq_ins (lt : α → α → Bool) (x : α) (l : List α) :
    insSorted lt x l = ins (leOf lt) x l := by
  induction l with
  | nil => rfl
  | cons y ys ih => simp [insSorted, ins, leOf, ih]

theorem stableSort_eq_ssort (lt : α → α → Bool) (l : List α) :
    stableSort lt l = ssort (leOf lt) l := by
  unfold stableSort ssort
  induction l with
  | nil => rfl
  | cons x xs ih => simp [List.foldr_cons, ih, insSorted_eq_ins]

/-- lexicographic combination: major `le1`, minor `le2` -/
def lex (le1 le2 : α → α → Bool) (a b : α) : Bool :=
  if le1 a b && le1 b a then le2 a b else le1 a b

structure TotalPre (le : α → α → Bool) : Prop where
  total : ∀ a b, le a b = true ∨ le b a = true
  trans : ∀ a b c, le a b = true → le b c = true → le a c = true

def Sorted (le : α → α → Bool) : List α → Prop
  | [] => True
  | x :: xs => (∀ y ∈ xs, le x y = true) ∧ Sorted le xs

theorem mem_ins (le : α → α → Bool) (x : α) (l : List α) (z : α) :
    z ∈ ins le x l ↔ z = x ∨ z ∈ l := by
  induction l with
  | nil => simp [ins]
  | cons y ys ih =>
    unfold ins; split
    · simp
    · simp [ih]; constructor
      · rintro (h | h | h) <;> simp [h]
      · rintro (h | h | h) <;> simp [h]

theorem sorted_ins {le : α → α → Bool} (h : TotalPre le) (x : α) (l : List α)
    (hs : Sorted le l) : Sorted le (ins le x l) := by
  induction l with
  | nil => simp [ins, Sorted]
  | cons y ys ih =>
    unfold ins; split
    · rename_i hxy
      refine ⟨?_, hs⟩
      intro z hz
      rcases List.mem_cons.mp hz with rfl | hz
      · exact hxy
      · exact h.trans _ _ _ hxy (hs.1 z hz)
    · rename_i hxy
      have hyx : le y x = true := by
        rcases h.total x y with h1 | h1
        · exact absurd h1 hxy
        · exact h1
      refine ⟨?_, ih hs.2⟩
      intro z hz
      rcases (mem_ins le x ys z).mp hz with rfl | hz
      · exact hyx
      · exact hs.1 z hz

theorem ins_congr {le le' : α → α → Bool} (x : α) (l : List α)
    (h : ∀ z ∈ l, le x z = le' x z) : ins le x l = ins le' x l := by
  induction l with
  | nil => rfl
  | cons y ys ih =>
    have hy := h y (List.mem_cons_self ..)
    have ih' := ih (fun z hz => h z (List.mem_cons_of_mem _ hz))
    simp [ins, hy, ih']

theorem lex_eq_of_le2 {le1 le2 : α → α → Bool} {x z : α} (h : le2 x z = true) :
    lex le1 le2 x z = le1 x z := by
  unfold lex; split
  · rename_i h1; simp at h1; simp [h, h1.1]
  · rfl

theorem lex_total {le1 le2 : α → α → Bool} (h1 : TotalPre le1) (h2 : TotalPre le2) :
    TotalPre (lex le1 le2) := by
  constructor
  · intro a b
    unfold lex
    rcases h1.total a b with hab | hba
    · by_cases hba : le1 b a = true
      · simp [hab, hba]; exact h2.total a b
      · simp [hab, hba]
    · by_cases hab : le1 a b = true
      · simp [hab, hba]; exact h2.total a b
      · simp [hab, hba]
  · intro a b c
    unfold lex
    intro hab hbc
    by_cases ab : le1 a b = true <;> by_cases ba : le1 b a = true <;>
    by_cases bc : le1 b c = true <;> by_cases cb : le1 c b = true <;>
    simp [ab, ba, bc, cb] at hab hbc
    all_goals
      have ac : le1 a c = true := h1.trans _ _ _ ab bc
      by_cases ca : le1 c a = true
      · simp [ac, ca]
        first
          | exact h2.trans _ _ _ hab hbc
          | (exfalso; first
              | exact ba (h1.trans _ _ _ bc ca)
              | exact cb (h1.trans _ _ _ ca ab))
      · simp [ac, ca]

theorem ins_comm {R : α → α → Bool} (h : TotalPre R) (x y : α) (hne : ¬ (R x y = true ∧ R y x = true))
    (u : List α) : ins R y (ins R x u) = ins R x (ins R y u) := by
  induction u with
  | nil =>
    by_cases hyx : R y x = true
    · have hxy : ¬ R x y = true := fun hxy => hne ⟨hxy, hyx⟩
      simp [ins, hyx, hxy]
    · have hxy : R x y = true := by
        rcases h.total x y with h1 | h1
        · exact h1
        · exact absurd h1 hyx
      simp [ins, hyx, hxy]
  | cons z zs ih =>
    by_cases hxz : R x z = true <;> by_cases hyz : R y z = true
    · by_cases hyx : R y x = true
      · have hxy : ¬ R x y = true := fun hxy => hne ⟨hxy, hyx⟩
        simp [ins, hxz, hyz, hyx, hxy]
      · have hxy : R x y = true := by
          rcases h.total x y with h1 | h1
          · exact h1
          · exact absurd h1 hyx
        simp [ins, hxz, hyz, hyx, hxy]
    · have hyx : ¬ R y x = true := fun hyx => hyz (h.trans _ _ _ hyx hxz)
      simp [ins, hxz, hyz, hyx]
    · have hxy : ¬ R x y = true := fun hxy => hxz (h.trans _ _ _ hxy hyz)
      simp [ins, hxz, hyz, hxy]
    · simp [ins, hxz, hyz, ih]

theorem mem_ssort (le : α → α → Bool) (l : List α) (z : α) : z ∈ ssort le l ↔ z ∈ l := by
  induction l with
  | nil => simp [ssort]
  | cons y ys ih =>
    have : ssort le (y :: ys) = ins le y (ssort le ys) := rfl
    rw [this, mem_ins, ih]; simp

theorem ssort_cons (le : α → α → Bool) (x : α) (l : List α) :
    ssort le (x :: l) = ins le x (ssort le l) := rfl

theorem ins_cons_pos {le : α → α → Bool} {x y : α} (ys : List α) (h : le x y = true) :
    ins le x (y :: ys) = x :: y :: ys := by simp [ins, h]
theorem ins_cons_neg {le : α → α → Bool} {x y : α} (ys : List α) (h : ¬ le x y = true) :
    ins le x (y :: ys) = y :: ins le x ys := by simp [ins, h]

theorem ssort_ins {le1 le2 : α → α → Bool} (h1 : TotalPre le1) (h2 : TotalPre le2)
    (x : α) (s : List α) (hs : Sorted le2 s) :
    ssort le1 (ins le2 x s) = ins (lex le1 le2) x (ssort le1 s) := by
  induction s with
  | nil => rfl
  | cons y ys ih =>
    by_cases hxy : le2 x y = true
    · rw [ins_cons_pos ys hxy, ssort_cons]
      apply ins_congr
      intro z hz
      have hz' : z ∈ y :: ys := (mem_ssort le1 _ z).mp hz
      have hxz : le2 x z = true := by
        rcases List.mem_cons.mp hz' with rfl | hz''
        · exact hxy
        · exact h2.trans _ _ _ hxy (hs.1 z hz'')
      exact (lex_eq_of_le2 hxz).symm
    · have hyx : le2 y x = true := by
        rcases h2.total x y with h | h
        · exact absurd h hxy
        · exact h
      rw [ins_cons_neg ys hxy, ssort_cons, ih hs.2, ssort_cons]
      have e1 : ins le1 y (ins (lex le1 le2) x (ssort le1 ys))
              = ins (lex le1 le2) y (ins (lex le1 le2) x (ssort le1 ys)) := by
        apply ins_congr
        intro z hz
        rcases (mem_ins _ _ _ z).mp hz with rfl | hz'
        · exact (lex_eq_of_le2 hyx).symm
        · exact (lex_eq_of_le2 (hs.1 z ((mem_ssort le1 _ z).mp hz'))).symm
      have e2 : ins le1 y (ssort le1 ys) = ins (lex le1 le2) y (ssort le1 ys) := by
        apply ins_congr
        intro z hz
        exact (lex_eq_of_le2 (hs.1 z ((mem_ssort le1 _ z).mp hz))).symm
      rw [e1, e2]
      apply ins_comm (lex_total h1 h2)
      intro ⟨hl1, hl2⟩
      unfold lex at hl1 hl2
      by_cases a : le1 x y = true <;> by_cases b : le1 y x = true <;> simp [a, b] at hl1 hl2
      exact hxy hl1

theorem sorted_ssort {le : α → α → Bool} (h : TotalPre le) (l : List α) : Sorted le (ssort le l) := by
  induction l with
  | nil => simp [ssort, Sorted]
  | cons x xs ih => rw [ssort_cons]; exact sorted_ins h x _ ih

/-- Two stable passes (minor key first, then major key) = one stable pass by the lexicographic order. -/
theorem two_pass {le1 le2 : α → α → Bool} (h1 : TotalPre le1) (h2 : TotalPre le2) (l : List α) :
    ssort le1 (ssort le2 l) = ssort (lex le1 le2) l := by
  induction l with
  | nil => rfl
  | cons x xs ih =>
    rw [ssort_cons, ssort_ins h1 h2 x _ (sorted_ssort h2 xs), ih, ssort_cons]

theorem ssort_congr {le le' : α → α → Bool} (l : List α) (h : ∀ a b, le a b = le' a b) :
    ssort le l = ssort le' l := by
  have : le = le' := funext fun a => funext fun b => h a b
  rw [this]

/-- sorting by the trivial order leaves the list unchanged (stability) -/
theorem ssort_trivial (l : List α) : ssort (fun _ _ => true) l = l := by
  induction l with
  | nil => rfl
  | cons x xs ih =>
    rw [ssort_cons, ih]
    cases xs <;> simp [ins]

theorem perm_ins (le : α → α → Bool) (x : α) (l : List α) : (ins le x l).Perm (x :: l) := by
  induction l with
  | nil => simp [ins]
  | cons y ys ih =>
    unfold ins; split
    · exact List.Perm.refl _
    · exact (List.Perm.cons y ih).trans (List.Perm.swap x y ys)

theorem perm_ssort (le : α → α → Bool) (l : List α) : (ssort le l).Perm l := by
  induction l with
  | nil => exact List.Perm.refl _
  | cons x xs ih =>
    rw [ssort_cons]
    exact (perm_ins le x _).trans (List.Perm.cons x ih)

/-- stability: elements that the order cannot separate keep their input order.  Stated as:
    filtering the sorted list by any predicate `p` whose members are pairwise equivalent
    gives the input filtered by `p`. -/
theorem ins_filter_equiv {le : α → α → Bool} (p : α → Bool) (x : α) (l : List α)
    (hx : p x = true) (heq : ∀ z ∈ l, p z = true → le x z = true) :
    (ins le x l).filter p = x :: l.filter p := by
  induction l with
  | nil => simp [ins, hx]
  | cons y ys ih =>
    unfold ins; split
    · simp [List.filter_cons, hx]
    · rename_i hxy
      have hpy : p y = false := by
        cases hpy : p y with
        | false => rfl
        | true => exact absurd (heq y (List.mem_cons_self ..) hpy) hxy
      have := ih (fun z hz hp => heq z (List.mem_cons_of_mem _ hz) hp)
      simp [List.filter_cons, hpy, this]

theorem ins_filter_not {le : α → α → Bool} (p : α → Bool) (x : α) (l : List α)
    (hx : p x = false) : (ins le x l).filter p = l.filter p := by
  induction l with
  | nil => simp [ins, hx]
  | cons y ys ih =>
    unfold ins; split
    · simp [List.filter_cons, hx]
    · simp [List.filter_cons, ih]

theorem ssort_stable {le : α → α → Bool} (p : α → Bool) (l : List α)
    (heq : ∀ a ∈ l, ∀ b ∈ l, p a = true → p b = true → le a b = true) :
    (ssort le l).filter p = l.filter p := by
  induction l with
  | nil => rfl
  | cons x xs ih =>
    rw [ssort_cons]
    have ih' := ih (fun a ha b hb => heq a (List.mem_cons_of_mem _ ha) b (List.mem_cons_of_mem _ hb))
    cases hx : p x with
    | false => rw [ins_filter_not p x _ hx, ih']; simp [List.filter_cons, hx]
    | true =>
      rw [ins_filter_equiv p x _ hx, ih']
      · simp [List.filter_cons, hx]
      · intro z hz hpz
        exact heq x (List.mem_cons_self ..) z (List.mem_cons_of_mem _ ((mem_ssort le xs z).mp hz)) hx hpz

end Bql.Sort
