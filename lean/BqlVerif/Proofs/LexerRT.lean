/-
  The scanner reads back written tokens: for every sequence of written tokens (words in any letter
  case, integers with leading zeros, decimals in all three spellings, dates, strings in either
  quote, table names, symbols, placeholders), each followed by white space, `lex` returns exactly
  their tokens.
-/
import BqlVerif.Model.Lexer
set_option autoImplicit false
namespace Bql.Syn

/-! ### characters -/

theorem char_le_iff (a b : Char) : (a ≤ b) ↔ a.toNat ≤ b.toNat := Char.le_def

theorem idStart_range (c : Char) (h : isIdStart c = true) :
    (97 ≤ c.toNat ∧ c.toNat ≤ 122) ∨ (65 ≤ c.toNat ∧ c.toNat ≤ 90) ∨ c.toNat = 95 := by
  simp only [isIdStart, Bool.or_eq_true, Bool.and_eq_true, decide_eq_true_eq, beq_iff_eq] at h
  rcases h with (⟨h1, h2⟩ | ⟨h1, h2⟩) | h
  · left; exact ⟨(char_le_iff _ _).mp h1, (char_le_iff _ _).mp h2⟩
  · right; left; exact ⟨(char_le_iff _ _).mp h1, (char_le_iff _ _).mp h2⟩
  · right; right; subst h; rfl

theorem digit_range (c : Char) (h : isDigit c = true) : 48 ≤ c.toNat ∧ c.toNat ≤ 57 := by
  simp only [isDigit, Bool.and_eq_true, decide_eq_true_eq] at h
  exact ⟨(char_le_iff _ _).mp h.1, (char_le_iff _ _).mp h.2⟩

/-- a character whose code is outside the listed ones is none of them -/
theorem ne_of_toNat (c : Char) (d : Char) (h : c.toNat ≠ d.toNat) : (c == d) = false := by
  simp only [beq_eq_false_iff_ne, ne_eq]
  intro e; subst e; exact h rfl

theorem ws_false_of_range (c : Char) (h : 33 ≤ c.toNat ∧ c.toNat ≤ 126) : isWs c = false := by
  simp only [isWs, Bool.or_eq_false_iff, Bool.and_eq_false_iff, decide_eq_false_iff_not, beq_eq_false_iff_ne, ne_eq]
  refine ⟨⟨⟨⟨⟨⟨⟨⟨?_, ?_⟩, ?_⟩, ?_⟩, ?_⟩, ?_⟩, ?_⟩, ?_⟩, ?_⟩ <;> first
    | (intro e; subst e; revert h; decide)
    | omega

theorem idStart_facts (c : Char) (h : isIdStart c = true) :
    isWs c = false ∧ (c == '/') = false ∧ (c == ';') = false ∧ isDigit c = false ∧ (c == '.') = false := by
  have hr := idStart_range c h
  refine ⟨ws_false_of_range c (by omega), ne_of_toNat c '/' (by simp; omega), ne_of_toNat c ';' (by simp; omega), ?_,
    ne_of_toNat c '.' (by simp; omega)⟩
  cases hd : isDigit c with
  | false => rfl
  | true => have := digit_range c hd; omega

theorem digit_facts (c : Char) (h : isDigit c = true) :
    isWs c = false ∧ (c == '/') = false ∧ (c == ';') = false := by
  have hr := digit_range c h
  exact ⟨ws_false_of_range c (by omega), ne_of_toNat c '/' (by simp; omega), ne_of_toNat c ';' (by simp; omega)⟩

theorem space_not_digit : isDigit ' ' = false := by decide
theorem space_not_idChar : isIdChar ' ' = false := by decide
theorem space_ws : isWs ' ' = true := by decide

/-! ### list scanning -/

theorem takeWhile_append_stop {α : Type} (p : α → Bool) (xs : List α) (y : α) (rest : List α)
    (hx : ∀ x ∈ xs, p x = true) (hy : p y = false) :
    (xs ++ y :: rest).takeWhile p = xs ∧ (xs ++ y :: rest).dropWhile p = y :: rest := by
  induction xs with
  | nil => simp [List.takeWhile, List.dropWhile, hy]
  | cons x xs ih =>
    have hx0 := hx x (by simp)
    have := ih (fun z hz => hx z (List.mem_cons_of_mem _ hz))
    simp [List.takeWhile, List.dropWhile, hx0, this.1, this.2]

theorem scanString_print (q : Char) (body rest acc : List Char) (h : ∀ c ∈ body, (c == q) = false) :
    scanString q acc (body ++ q :: rest) = some (acc.reverse ++ body, rest) := by
  induction body generalizing acc with
  | nil => simp [scanString]
  | cons c cs ih =>
    have hc := h c (by simp)
    simp only [List.cons_append, scanString, hc, Bool.false_eq_true, ↓reduceIte]
    rw [ih (c :: acc) (fun z hz => h z (List.mem_cons_of_mem _ hz))]
    simp

/-! ### written tokens -/

def symText : Sym → List Char
  | .lparen => ['('] | .rparen => [')'] | .comma => [','] | .dot => ['.'] | .lbrack => ['['] | .rbrack => [']']
  | .star => ['*'] | .slash => ['/'] | .plus => ['+'] | .minus => ['-'] | .percent => ['%']
  | .lt => ['<'] | .le => ['<', '='] | .gt => ['>'] | .ge => ['>', '='] | .eq => ['='] | .ne => ['!', '=']
  | .tilde => ['~'] | .ntilde => ['!', '~']

inductive WTok
  | word (cs : List Char)
  | int (ds : List Char)
  | dec (d1 d2 : List Char)
  | date (a b c d e f g h : Char)
  | str (q : Char) (body : List Char)
  | table (name : List Char)
  | sym (s : Sym)
  | ph (c : Char)
  | phNamed (cs : List Char) (c : Char)

def WTok.text : WTok → List Char
  | .word cs => cs
  | .int ds => ds
  | .dec d1 d2 => d1 ++ '.' :: d2
  | .date a b c d e f g h => [a, b, c, d, '-', e, f, '-', g, h]
  | .str q body => q :: (body ++ [q])
  | .table name => '#' :: name
  | .sym s => symText s
  | .ph c => ['%', c]
  | .phNamed cs c => '%' :: '(' :: (cs ++ [')', c])

def lowerWord (cs : List Char) : String := String.ofList (cs.map lowerChar)

def WTok.toks : WTok → List Tok
  | .word cs => [.word (lowerWord cs)]
  | .int ds => [.int (natOfDigitChars ds)]
  | .dec d1 d2 => [.dec (natOfDigitChars (d1 ++ d2)) (-(d2.length : Int)) (!d1.isEmpty)]
  | .date a b c d e f g h => [.date (natOfDigitChars [a, b, c, d]) (natOfDigitChars [e, f]) (natOfDigitChars [g, h])]
  | .str _ body => [.str (String.ofList body)]
  | .table name => [.table (String.ofList name)]
  | .sym s => [.sym s]
  | .ph _ => [.ph]
  | .phNamed cs _ => [.phOpen, .word (lowerWord cs), .phClose]

def isWordChars (cs : List Char) : Prop := ∃ c rest, cs = c :: rest ∧ isIdStart c = true ∧ ∀ x ∈ rest, isIdChar x = true

def WTok.ok : WTok → Prop
  | .word cs => isWordChars cs
  | .int ds => ds ≠ [] ∧ ∀ x ∈ ds, isDigit x = true
  | .dec d1 d2 => (d1 ≠ [] ∨ d2 ≠ []) ∧ (∀ x ∈ d1, isDigit x = true) ∧ (∀ x ∈ d2, isDigit x = true)
  | .date a b c d e f g h => isDigit a = true ∧ isDigit b = true ∧ isDigit c = true ∧ isDigit d = true ∧ isDigit e = true ∧
      isDigit f = true ∧ isDigit g = true ∧ isDigit h = true
  | .str q body => (q = '\'' ∨ q = '"') ∧ ∀ c ∈ body, (c == q) = false
  | .table name => name = [] ∨ isWordChars name
  | .sym _ => True
  | .ph c => c = 's' ∨ c = 'S'
  | .phNamed cs c => isWordChars cs ∧ (c = 's' ∨ c = 'S')

def WTok.isPh : WTok → Bool
  | .ph _ | .phNamed _ _ => true
  | _ => false

def lastTok (w : WTok) : Tok := (w.toks.getLast?).getD .ph

/-- a placeholder is written only where an operand may start (after an operand `%` is the modulo operator) -/
def PhCtx : Option Tok → List WTok → Prop
  | _, [] => True
  | prev, w :: rest => (w.isPh = true → (prev.map endsOperand).getD false = false) ∧ PhCtx (some (lastTok w)) rest

def renderW (ws : List WTok) : List Char := ws.flatMap (fun w => w.text ++ [' '])

/-! ### one written token -/

theorem scanNum2_int (ds rest : List Char) (hne : ds ≠ []) (hd : ∀ x ∈ ds, isDigit x = true) :
    scanNum2 (ds ++ ' ' :: rest) = (.int (natOfDigitChars ds), ' ' :: rest) := by
  obtain ⟨h1, h2⟩ := takeWhile_append_stop isDigit ds ' ' rest hd space_not_digit
  simp [scanNum2, h1, h2]

theorem dateTail_space (rest : List Char) : dateTail (' ' :: rest) = none := by
  unfold dateTail
  split
  · rename_i c4 e f c7 g h r heq
    cases heq
    simp
  · rfl

theorem dateTail_dot (rest : List Char) : dateTail ('.' :: rest) = none := by
  unfold dateTail
  split
  · rename_i c4 e f c7 g h r heq
    cases heq
    simp
  · rfl

theorem scanNumber_int (ds rest : List Char) (hne : ds ≠ []) (hd : ∀ x ∈ ds, isDigit x = true) :
    scanNumber (ds ++ ' ' :: rest) = (.int (natOfDigitChars ds), ' ' :: rest) := by
  obtain ⟨h1, h2⟩ := takeWhile_append_stop isDigit ds ' ' rest hd space_not_digit
  unfold scanNumber
  simp only [h1, h2, dateTail_space]
  split <;> exact scanNum2_int ds rest hne hd

theorem dot_not_digit : isDigit '.' = false := by decide

theorem scanNum2_dec (d1 d2 rest : List Char) (hne : d1 ≠ [] ∨ d2 ≠ []) (h1 : ∀ x ∈ d1, isDigit x = true) (h2 : ∀ x ∈ d2, isDigit x = true) :
    scanNum2 (d1 ++ '.' :: (d2 ++ ' ' :: rest)) =
      (.dec (natOfDigitChars (d1 ++ d2)) (-(d2.length : Int)) (!d1.isEmpty), ' ' :: rest) := by
  obtain ⟨a1, a2⟩ := takeWhile_append_stop isDigit d1 '.' (d2 ++ ' ' :: rest) h1 dot_not_digit
  obtain ⟨b1, b2⟩ := takeWhile_append_stop isDigit d2 ' ' rest h2 space_not_digit
  have hemp : (d1.isEmpty && d2.isEmpty) = false := by
    cases d1 <;> cases d2 <;> simp_all
  simp [scanNum2, a1, a2, b1, b2, hemp]

theorem scanNumber_dec (d1 d2 rest : List Char) (hne : d1 ≠ [] ∨ d2 ≠ []) (h1 : ∀ x ∈ d1, isDigit x = true) (h2 : ∀ x ∈ d2, isDigit x = true) :
    scanNumber (d1 ++ '.' :: (d2 ++ ' ' :: rest)) =
      (.dec (natOfDigitChars (d1 ++ d2)) (-(d2.length : Int)) (!d1.isEmpty), ' ' :: rest) := by
  obtain ⟨a1, a2⟩ := takeWhile_append_stop isDigit d1 '.' (d2 ++ ' ' :: rest) h1 dot_not_digit
  unfold scanNumber
  simp only [a1, a2, dateTail_dot]
  split <;> exact scanNum2_dec d1 d2 rest hne h1 h2

theorem dash_not_digit : isDigit '-' = false := by decide

theorem scanNumber_date (a b c d e f g h : Char) (rest : List Char)
    (ha : isDigit a = true) (hb : isDigit b = true) (hc : isDigit c = true) (hd : isDigit d = true)
    (he : isDigit e = true) (hf : isDigit f = true) (hg : isDigit g = true) (hh : isDigit h = true) :
    scanNumber (a :: b :: c :: d :: '-' :: e :: f :: '-' :: g :: h :: rest) =
      (.date (natOfDigitChars [a, b, c, d]) (natOfDigitChars [e, f]) (natOfDigitChars [g, h]), rest) := by
  have := takeWhile_append_stop isDigit [a, b, c, d] '-' (e :: f :: '-' :: g :: h :: rest)
    (by intro x hx; simp at hx; rcases hx with rfl | rfl | rfl | rfl <;> assumption) dash_not_digit
  simp only [List.cons_append, List.nil_append] at this
  unfold scanNumber
  simp [this.1, this.2, dateTail, he, hf, hg, hh]

/-! ### steps of the scanner loop -/

theorem idStart_idChar (c : Char) (h : isIdStart c = true) : isIdChar c = true := by simp [isIdChar, h]

theorem lex_space (f : Nat) (inPh : Bool) (prev : Option Tok) (rest : List Char) (acc : List Tok) :
    lexLoop (f + 1) inPh prev (' ' :: rest) acc = lexLoop f inPh prev rest acc := by
  simp [lexLoop, space_ws]

theorem lex_word_gen (f : Nat) (inPh : Bool) (prev : Option Tok) (cs : List Char) (y : Char) (rest : List Char) (acc : List Tok)
    (h : isWordChars cs) (hy : isIdChar y = false) :
    lexLoop (f + 1) inPh prev (cs ++ y :: rest) acc =
      lexLoop f inPh (some (.word (lowerWord cs))) (y :: rest) (.word (lowerWord cs) :: acc) := by
  obtain ⟨c, r, rfl, hc, hr⟩ := h
  obtain ⟨f1, f2, f3, f4, f5⟩ := idStart_facts c hc
  have hall : ∀ x ∈ c :: r, isIdChar x = true := by
    intro x hx
    rcases List.mem_cons.mp hx with rfl | hx
    · exact idStart_idChar _ hc
    · exact hr x hx
  obtain ⟨t1, t2⟩ := takeWhile_append_stop isIdChar (c :: r) y rest hall hy
  simp only [List.cons_append] at t1 t2
  simp only [List.cons_append, lexLoop, f1, f2, f3, f4, f5, Bool.false_and, Bool.false_or, Bool.false_eq_true, ↓reduceIte, hc, t1, t2,
    lowerWord]

theorem lex_word (f : Nat) (inPh : Bool) (prev : Option Tok) (cs rest : List Char) (acc : List Tok) (h : isWordChars cs) :
    lexLoop (f + 1) inPh prev (cs ++ ' ' :: rest) acc =
      lexLoop f inPh (some (.word (lowerWord cs))) (' ' :: rest) (.word (lowerWord cs) :: acc) :=
  lex_word_gen f inPh prev cs ' ' rest acc h space_not_idChar

theorem lex_int (f : Nat) (inPh : Bool) (prev : Option Tok) (ds rest : List Char) (acc : List Tok)
    (hne : ds ≠ []) (hd : ∀ x ∈ ds, isDigit x = true) :
    lexLoop (f + 1) inPh prev (ds ++ ' ' :: rest) acc =
      lexLoop f inPh (some (.int (natOfDigitChars ds))) (' ' :: rest) (.int (natOfDigitChars ds) :: acc) := by
  have hs := scanNumber_int ds rest hne hd
  cases ds with
  | nil => exact absurd rfl hne
  | cons c r =>
    have hc := hd c (by simp)
    obtain ⟨f1, f2, f3⟩ := digit_facts c hc
    simp only [List.cons_append] at hs
    simp only [List.cons_append, lexLoop, f1, f2, f3, Bool.false_and, Bool.false_eq_true, ↓reduceIte, hc, Bool.true_or, hs]

theorem lex_dec (f : Nat) (inPh : Bool) (prev : Option Tok) (d1 d2 rest : List Char) (acc : List Tok)
    (hne : d1 ≠ [] ∨ d2 ≠ []) (h1 : ∀ x ∈ d1, isDigit x = true) (h2 : ∀ x ∈ d2, isDigit x = true) :
    lexLoop (f + 1) inPh prev (d1 ++ '.' :: (d2 ++ ' ' :: rest)) acc =
      lexLoop f inPh (some (.dec (natOfDigitChars (d1 ++ d2)) (-(d2.length : Int)) (!d1.isEmpty))) (' ' :: rest)
        (.dec (natOfDigitChars (d1 ++ d2)) (-(d2.length : Int)) (!d1.isEmpty) :: acc) := by
  have hs := scanNumber_dec d1 d2 rest hne h1 h2
  cases d1 with
  | cons c r =>
    have hc := h1 c (by simp)
    obtain ⟨f1, f2, f3⟩ := digit_facts c hc
    simp only [List.cons_append] at hs
    simp only [List.cons_append, lexLoop, f1, f2, f3, Bool.false_and, Bool.false_eq_true, ↓reduceIte, hc, Bool.true_or, hs]
  | nil =>
    cases d2 with
    | nil => simp at hne
    | cons c r =>
      have hc := h2 c (by simp)
      simp only [List.nil_append, List.cons_append] at hs
      have w1 : isWs '.' = false := by decide
      have w2 : isDigit '.' = false := by decide
      simp only [List.nil_append, List.cons_append, lexLoop, w1, w2, Bool.false_eq_true, ↓reduceIte, List.head?_cons, Option.map_some,
        hc, Option.getD_some, Bool.and_true, Bool.false_or, hs]
      simp [hs]

theorem lex_date (f : Nat) (inPh : Bool) (prev : Option Tok) (a b c d e g h i : Char) (rest : List Char) (acc : List Tok)
    (ha : isDigit a = true) (hb : isDigit b = true) (hc : isDigit c = true) (hd : isDigit d = true)
    (he : isDigit e = true) (hg : isDigit g = true) (hh : isDigit h = true) (hi : isDigit i = true) :
    lexLoop (f + 1) inPh prev ([a, b, c, d, '-', e, g, '-', h, i] ++ ' ' :: rest) acc =
      lexLoop f inPh (some (.date (natOfDigitChars [a, b, c, d]) (natOfDigitChars [e, g]) (natOfDigitChars [h, i]))) (' ' :: rest)
        (.date (natOfDigitChars [a, b, c, d]) (natOfDigitChars [e, g]) (natOfDigitChars [h, i]) :: acc) := by
  obtain ⟨f1, f2, f3⟩ := digit_facts a ha
  have hs := scanNumber_date a b c d e g h i (' ' :: rest) ha hb hc hd he hg hh hi
  simp only [List.cons_append, List.nil_append, lexLoop, f1, f2, f3, Bool.false_and, Bool.false_eq_true, ↓reduceIte, ha, Bool.true_or, hs]

theorem lex_str (f : Nat) (inPh : Bool) (prev : Option Tok) (q : Char) (body rest : List Char) (acc : List Tok)
    (hq : q = '\'' ∨ q = '"') (hb : ∀ c ∈ body, (c == q) = false) :
    lexLoop (f + 1) inPh prev (q :: (body ++ [q]) ++ ' ' :: rest) acc =
      lexLoop f inPh (some (.str (String.ofList body))) (' ' :: rest) (.str (String.ofList body) :: acc) := by
  have hs := scanString_print q body (' ' :: rest) [] hb
  simp only [List.reverse_nil, List.nil_append] at hs
  rcases hq with rfl | rfl
  · simp [lexLoop, isWs, isDigit, isIdStart, List.append_assoc, hs]
  · simp [lexLoop, isWs, isDigit, isIdStart, List.append_assoc, hs]

theorem lex_table (f : Nat) (inPh : Bool) (prev : Option Tok) (name rest : List Char) (acc : List Tok)
    (h : name = [] ∨ isWordChars name) :
    lexLoop (f + 1) inPh prev ('#' :: name ++ ' ' :: rest) acc =
      lexLoop f inPh (some (.table (String.ofList name))) (' ' :: rest) (.table (String.ofList name) :: acc) := by
  have w1 : isWs '#' = false := by decide
  have w2 : isDigit '#' = false := by decide
  have w3 : isIdStart '#' = false := by decide
  rcases h with rfl | ⟨c, r, rfl, hc, hr⟩
  · have w4 : isIdStart ' ' = false := by decide
    simp [lexLoop, w1, w2, w3, w4]
  · have hall : ∀ x ∈ c :: r, isIdChar x = true := by
      intro x hx
      rcases List.mem_cons.mp hx with rfl | hx
      · exact idStart_idChar _ hc
      · exact hr x hx
    obtain ⟨t1, t2⟩ := takeWhile_append_stop isIdChar (c :: r) ' ' rest hall space_not_idChar
    simp only [List.cons_append] at t1 t2
    simp [lexLoop, w1, w2, w3, hc, t1, t2]

theorem lex_sym (f : Nat) (prev : Option Tok) (s : Sym) (rest : List Char) (acc : List Tok) :
    lexLoop (f + 1) false prev (symText s ++ ' ' :: rest) acc = lexLoop f false (some (.sym s)) (' ' :: rest) (.sym s :: acc) := by
  cases s <;> simp [symText, lexLoop, isWs, isDigit, isIdStart]

theorem lex_ph (f : Nat) (prev : Option Tok) (c : Char) (rest : List Char) (acc : List Tok)
    (hc : c = 's' ∨ c = 'S') (hp : (prev.map endsOperand).getD false = false) :
    lexLoop (f + 1) false prev ('%' :: c :: ' ' :: rest) acc = lexLoop f false (some .ph) (' ' :: rest) (.ph :: acc) := by
  rcases hc with rfl | rfl <;> simp [lexLoop, isWs, isDigit, isIdStart, hp]

theorem lex_phNamed (f : Nat) (prev : Option Tok) (cs : List Char) (c : Char) (rest : List Char) (acc : List Tok)
    (hw : isWordChars cs) (hc : c = 's' ∨ c = 'S') (hp : (prev.map endsOperand).getD false = false) :
    lexLoop (f + 3) false prev ('%' :: '(' :: (cs ++ [')', c]) ++ ' ' :: rest) acc =
      lexLoop f false (some .phClose) (' ' :: rest) (.phClose :: .word (lowerWord cs) :: .phOpen :: acc) := by
  have h1 : lexLoop (f + 3) false prev ('%' :: '(' :: (cs ++ [')', c]) ++ ' ' :: rest) acc =
      lexLoop (f + 2) true (some .phOpen) (cs ++ ')' :: c :: ' ' :: rest) (.phOpen :: acc) := by
    simp [lexLoop, isWs, isDigit, isIdStart, hp, List.append_assoc]
  rw [h1]
  have hrp : isIdChar ')' = false := by decide
  rw [lex_word_gen (f + 1) true (some .phOpen) cs ')' (c :: ' ' :: rest) (.phOpen :: acc) hw hrp]
  rcases hc with rfl | rfl <;> simp [lexLoop, isWs, isDigit, isIdStart]

/-! ### the whole text -/

def fuelNeeded : List WTok → Nat
  | [] => 1
  | w :: rest => w.toks.length + 1 + fuelNeeded rest

theorem renderW_cons (w : WTok) (rest : List WTok) : renderW (w :: rest) = w.text ++ ' ' :: renderW rest := by
  simp [renderW]

theorem toks_le_text (w : WTok) (h : w.ok) : w.toks.length ≤ w.text.length := by
  cases w with
  | word cs => obtain ⟨c, r, rfl, _, _⟩ := h; simp [WTok.toks, WTok.text]
  | int ds => obtain ⟨hne, _⟩ := h; cases ds <;> simp_all [WTok.toks, WTok.text]
  | phNamed cs c => simp [WTok.toks, WTok.text]
  | dec d1 d2 => simp [WTok.toks, WTok.text]; omega
  | sym s => cases s <;> simp [WTok.toks, WTok.text, symText]
  | _ => simp [WTok.toks, WTok.text]

theorem fuelNeeded_le (ws : List WTok) (h : ∀ w ∈ ws, w.ok) : fuelNeeded ws ≤ (renderW ws).length + 1 := by
  induction ws with
  | nil => simp [fuelNeeded, renderW]
  | cons w rest ih =>
    have h1 := toks_le_text w (h w (by simp))
    have h2 := ih (fun x hx => h x (List.mem_cons_of_mem _ hx))
    simp only [fuelNeeded, renderW_cons, List.length_append, List.length_cons]
    omega

theorem lexLoop_render (ws : List WTok) : ∀ (prev : Option Tok) (acc : List Tok) (f : Nat),
    (∀ w ∈ ws, w.ok) → PhCtx prev ws → fuelNeeded ws ≤ f →
    lexLoop f false prev (renderW ws) acc = some (acc.reverse ++ ws.flatMap WTok.toks) := by
  induction ws with
  | nil =>
    intro prev acc f _ _ hf
    obtain ⟨k, rfl⟩ : ∃ k, f = k + 1 := ⟨f - 1, by simp [fuelNeeded] at hf; omega⟩
    simp [renderW, lexLoop]
  | cons w rest ih =>
    intro prev acc f hok hph hf
    have hw := hok w (by simp)
    have hrest : ∀ x ∈ rest, x.ok := fun x hx => hok x (List.mem_cons_of_mem _ hx)
    obtain ⟨hp1, hp2⟩ := hph
    rw [renderW_cons]
    simp only [fuelNeeded] at hf
    cases w with
    | word cs =>
      obtain ⟨k, rfl⟩ : ∃ k, f = k + 2 := ⟨f - 2, by simp [WTok.toks] at hf; omega⟩
      rw [show (WTok.word cs).text = cs from rfl, lex_word (k + 1) false prev cs _ acc hw, lex_space]
      have := fun a => ih _ a k hrest hp2 (by simp [WTok.toks] at hf; omega)
      simp only [lastTok, WTok.toks, List.getLast?_singleton, List.getLast?_cons_cons, Option.getD_some] at this
      rw [this]; simp [WTok.toks]
    | int ds =>
      obtain ⟨k, rfl⟩ : ∃ k, f = k + 2 := ⟨f - 2, by simp [WTok.toks] at hf; omega⟩
      rw [show (WTok.int ds).text = ds from rfl, lex_int (k + 1) false prev ds _ acc hw.1 hw.2, lex_space]
      have := fun a => ih _ a k hrest hp2 (by simp [WTok.toks] at hf; omega)
      simp only [lastTok, WTok.toks, List.getLast?_singleton, List.getLast?_cons_cons, Option.getD_some] at this
      rw [this]; simp [WTok.toks]
    | dec d1 d2 =>
      obtain ⟨k, rfl⟩ : ∃ k, f = k + 2 := ⟨f - 2, by simp [WTok.toks] at hf; omega⟩
      rw [show (WTok.dec d1 d2).text ++ ' ' :: renderW rest = d1 ++ '.' :: (d2 ++ ' ' :: renderW rest) by simp [WTok.text],
        lex_dec (k + 1) false prev d1 d2 _ acc hw.1 hw.2.1 hw.2.2, lex_space]
      have := fun a => ih _ a k hrest hp2 (by simp [WTok.toks] at hf; omega)
      simp only [lastTok, WTok.toks, List.getLast?_singleton, List.getLast?_cons_cons, Option.getD_some] at this
      rw [this]; simp [WTok.toks]
    | date a b c d e g h i =>
      obtain ⟨k, rfl⟩ : ∃ k, f = k + 2 := ⟨f - 2, by simp [WTok.toks] at hf; omega⟩
      obtain ⟨h1, h2, h3, h4, h5, h6, h7, h8⟩ := hw
      rw [show (WTok.date a b c d e g h i).text = [a, b, c, d, '-', e, g, '-', h, i] from rfl,
        lex_date (k + 1) false prev a b c d e g h i _ acc h1 h2 h3 h4 h5 h6 h7 h8, lex_space]
      have := fun a => ih _ a k hrest hp2 (by simp [WTok.toks] at hf; omega)
      simp only [lastTok, WTok.toks, List.getLast?_singleton, List.getLast?_cons_cons, Option.getD_some] at this
      rw [this]; simp [WTok.toks]
    | str q body =>
      obtain ⟨k, rfl⟩ : ∃ k, f = k + 2 := ⟨f - 2, by simp [WTok.toks] at hf; omega⟩
      rw [show (WTok.str q body).text = q :: (body ++ [q]) from rfl, lex_str (k + 1) false prev q body _ acc hw.1 hw.2, lex_space]
      have := fun a => ih _ a k hrest hp2 (by simp [WTok.toks] at hf; omega)
      simp only [lastTok, WTok.toks, List.getLast?_singleton, List.getLast?_cons_cons, Option.getD_some] at this
      rw [this]; simp [WTok.toks]
    | table name =>
      obtain ⟨k, rfl⟩ : ∃ k, f = k + 2 := ⟨f - 2, by simp [WTok.toks] at hf; omega⟩
      rw [show (WTok.table name).text = '#' :: name from rfl, lex_table (k + 1) false prev name _ acc hw, lex_space]
      have := fun a => ih _ a k hrest hp2 (by simp [WTok.toks] at hf; omega)
      simp only [lastTok, WTok.toks, List.getLast?_singleton, List.getLast?_cons_cons, Option.getD_some] at this
      rw [this]; simp [WTok.toks]
    | sym s =>
      obtain ⟨k, rfl⟩ : ∃ k, f = k + 2 := ⟨f - 2, by simp [WTok.toks] at hf; omega⟩
      rw [show (WTok.sym s).text = symText s from rfl, lex_sym (k + 1) prev s _ acc, lex_space]
      have := fun a => ih _ a k hrest hp2 (by simp [WTok.toks] at hf; omega)
      simp only [lastTok, WTok.toks, List.getLast?_singleton, List.getLast?_cons_cons, Option.getD_some] at this
      rw [this]; simp [WTok.toks]
    | ph c =>
      obtain ⟨k, rfl⟩ : ∃ k, f = k + 2 := ⟨f - 2, by simp [WTok.toks] at hf; omega⟩
      rw [show (WTok.ph c).text ++ ' ' :: renderW rest = '%' :: c :: ' ' :: renderW rest from rfl,
        lex_ph (k + 1) prev c _ acc hw (hp1 rfl), lex_space]
      have := fun a => ih _ a k hrest hp2 (by simp [WTok.toks] at hf; omega)
      simp only [lastTok, WTok.toks, List.getLast?_singleton, List.getLast?_cons_cons, Option.getD_some] at this
      rw [this]; simp [WTok.toks]
    | phNamed cs c =>
      obtain ⟨k, rfl⟩ : ∃ k, f = k + 4 := ⟨f - 4, by simp [WTok.toks] at hf; omega⟩
      rw [show (WTok.phNamed cs c).text = '%' :: '(' :: (cs ++ [')', c]) from rfl,
        lex_phNamed (k + 1) prev cs c _ acc hw.1 hw.2 (hp1 rfl), lex_space]
      have := fun a => ih _ a k hrest hp2 (by simp [WTok.toks] at hf; omega)
      simp only [lastTok, WTok.toks, List.getLast?_singleton, List.getLast?_cons_cons, Option.getD_some] at this
      rw [this]; simp [WTok.toks]

/-- **The scanner reads written tokens back.** -/
theorem lex_render (ws : List WTok) (hok : ∀ w ∈ ws, w.ok) (hph : PhCtx none ws) :
    lex (renderW ws) = some (ws.flatMap WTok.toks) := by
  have := lexLoop_render ws none [] ((renderW ws).length + 1) hok hph (fuelNeeded_le ws hok)
  simpa [lex] using this

end Bql.Syn
