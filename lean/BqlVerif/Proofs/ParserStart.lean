/-
  How the token sequence of a well-formed layered operand starts (used to resolve the parser's
  ordered choices): the first token can start an operand, and a leading literal is never directly
  followed by a comma (so a parenthesised expression is not mistaken for a list literal).
-/
import BqlVerif.Model.LayeredWF
import BqlVerif.Proofs.ParserBase
set_option autoImplicit false
namespace Bql.Syn

def startOK : Tok → Bool
  | .sym .lparen | .sym .minus | .sym .plus => true
  | .word w => !isKeyword w || w == "true" || w == "false"
  | .int _ | .dec _ _ _ | .date _ _ _ | .str _ | .ph | .phOpen => true
  | _ => false

def headOK : List Tok → Bool
  | t :: _ => startOK t
  | [] => false

def noLitComma : List Tok → Bool
  | t :: .sym .comma :: _ => !isLitTok t
  | _ => true

def GoodStart (ts : List Tok) : Prop := headOK ts = true ∧ noLitComma ts = true

/-- an inversion (hence a conjunction, an expression) may also start with NOT -/
def headOKE : List Tok → Bool
  | t :: _ => startOK t || isW "not" t
  | [] => false

def GoodStartE (ts : List Tok) : Prop := headOKE ts = true ∧ noLitComma ts = true

theorem GoodStart.toE {ts : List Tok} (h : GoodStart ts) : GoodStartE ts := by
  cases ts with
  | nil => exact absurd h.1 (by simp [headOK])
  | cons t r => exact ⟨by have := h.1; simp only [headOK] at this; simp [headOKE, this], h.2⟩

def NoComma : List Tok → Prop
  | .sym .comma :: _ => False
  | _ => True

/-- start of a printed primary: what `factorAct` sends to `parsePrimary` -/
def primStart : List Tok → Bool
  | .word w :: _ => !isKeyword w || w == "true" || w == "false"
  | .int _ :: _ | .dec _ _ _ :: _ | .date _ _ _ :: _ | .str _ :: _ | .ph :: _ | .phOpen :: _ => true
  | .sym .lparen :: t :: .sym .comma :: _ => isLitTok t
  | _ => false

theorem noComma_cons (t : Tok) (r : List Tok) (h : t ≠ .sym .comma) : NoComma (t :: r) := by
  cases t with
  | sym s => cases s <;> simp_all [NoComma]
  | _ => trivial

theorem noLitComma_single (t : Tok) (rest : List Tok) (h : NoComma rest) : noLitComma (t :: rest) = true := by
  cases rest with
  | nil => rfl
  | cons u r =>
    cases u with
    | sym s => cases s <;> simp_all [NoComma, noLitComma]
    | _ => rfl

theorem noLitComma_two (t u : Tok) (r : List Tok) (h : u ≠ .sym .comma) : noLitComma (t :: u :: r) = true := by
  cases u with
  | sym s => cases s <;> simp_all [noLitComma]
  | _ => rfl

theorem lit_tok_startOK (l : Lit) : startOK l.tok = true := by
  cases l with
  | bool b => cases b <;> decide
  | null => decide
  | _ => rfl

theorem lit_tok_isLit (l : Lit) : isLitTok l.tok = true := by
  cases l with
  | bool b => cases b <;> decide
  | null => decide
  | _ => rfl

theorem lit_tok_primStart (l : Lit) (rest : List Tok) : primStart (l.tok :: rest) = true := by
  cases l with
  | bool b => cases b <;> simp [Lit.tok, primStart]
  | null => simp [Lit.tok, primStart, isKeyword, keywords]
  | _ => rfl

theorem noLitComma_nonlit (t : Tok) (ts : List Tok) (h : isLitTok t = false) : noLitComma (t :: ts) = true := by
  cases ts with
  | nil => rfl
  | cons u r =>
    cases u with
    | sym s => cases s <;> simp_all [noLitComma]
    | _ => rfl

theorem ident_startOK (n : String) (h : identOK n = true) : startOK (.word n) = true := by
  simp only [identOK] at h
  simp [startOK, h]

theorem col_ident (n : String) (h : colOK n = true) : identOK n = true := by
  simp only [colOK, Bool.and_eq_true] at h
  exact h.1

/-! ### atoms and primaries -/

theorem good_atom (a : LAtom) (h : wfAtom a) (rest : List Tok) (hr : NoComma rest) :
    GoodStart (printAtom a ++ rest) ∧ primStart (printAtom a ++ rest) = true := by
  cases a with
  | col n =>
    have hi := col_ident n h
    refine ⟨⟨ident_startOK n hi, noLitComma_single _ _ hr⟩, ?_⟩
    simp only [identOK] at hi
    simp [printAtom, primStart, hi]
  | lit l => exact ⟨⟨lit_tok_startOK l, noLitComma_single _ _ hr⟩, lit_tok_primStart l rest⟩
  | list first items =>
    refine ⟨⟨rfl, ?_⟩, ?_⟩
    · simp only [printAtom, List.cons_append]
      exact noLitComma_two _ _ _ (by cases first <;> first | (intro h; cases h) | (rename_i b; cases b <;> (intro h; cases h)))
    · obtain ⟨_, _, hne⟩ := h
      cases items with
      | nil => exact absurd rfl hne
      | cons x xs =>
        cases x <;> simp [printAtom, printListItems, primStart, lit_tok_isLit]
  | func n args =>
    refine ⟨⟨ident_startOK n h.1, noLitComma_two _ _ _ (by intro h; cases h)⟩, ?_⟩
    have := h.1
    simp only [identOK] at this
    simp [printAtom, primStart, this]
  | funcStar n =>
    refine ⟨⟨ident_startOK n h, noLitComma_two _ _ _ (by intro h; cases h)⟩, ?_⟩
    have := h
    simp only [wfAtom, identOK] at this
    simp [printAtom, primStart, this]
  | ph n =>
    cases n with
    | none => exact ⟨⟨rfl, noLitComma_single _ _ hr⟩, rfl⟩
    | some w => exact ⟨⟨rfl, noLitComma_two _ _ _ (by intro h; cases h)⟩, rfl⟩

theorem good_prim : (p : LPrim) → wfPrim p → ∀ (rest : List Tok), NoComma rest →
    GoodStart (printPrim p ++ rest) ∧ primStart (printPrim p ++ rest) = true
  | .atom a, h, rest, hr => good_atom a h rest hr
  | .attr p n, h, rest, _ => by
    have := good_prim p h.1 (.sym .dot :: .word n :: rest) (noComma_cons _ _ (by intro h; cases h))
    simpa [printPrim, List.append_assoc] using this
  | .sub p k, h, rest, _ => by
    have := good_prim p h (.sym .lbrack :: .str k :: .sym .rbrack :: rest) (noComma_cons _ _ (by intro h; cases h))
    simpa [printPrim, List.append_assoc] using this

theorem good_of_primStart_head (ts : List Tok) (h : GoodStart ts) : headOK ts = true := h.1

/-! ### the levels above -/

theorem good_factor (f : LFactor) (h : wfFactor f) (rest : List Tok) (hr : NoComma rest) :
    GoodStart (printFactor f ++ rest) := by
  cases f with
  | paren e => exact ⟨rfl, noLitComma_nonlit _ _ rfl⟩
  | parenSel s => exact ⟨rfl, noLitComma_nonlit _ _ rfl⟩
  | neg g => exact ⟨rfl, noLitComma_nonlit _ _ rfl⟩
  | uplus a => exact ⟨rfl, noLitComma_nonlit _ _ rfl⟩
  | prim p => exact (good_prim p h rest hr).1

theorem good_term : (t : LTerm) → wfTerm t → ∀ (rest : List Tok), NoComma rest → GoodStart (printTerm t ++ rest)
  | .factor f, h, rest, hr => good_factor f h rest hr
  | .bin op t f, h, rest, _ => by
    have := good_term t h.1 (op.tok :: (printFactor f ++ rest)) (noComma_cons _ _ (by cases op <;> (intro h; cases h)))
    simpa [printTerm, List.append_assoc] using this

theorem good_sum : (s : LSum) → wfSum s → ∀ (rest : List Tok), NoComma rest → GoodStart (printSum s ++ rest)
  | .term t, h, rest, hr => good_term t h rest hr
  | .bin op s t, h, rest, _ => by
    have := good_sum s h.1 (op.tok :: (printTerm t ++ rest)) (noComma_cons _ _ (by cases op <;> (intro h; cases h)))
    simpa [printSum, List.append_assoc] using this

theorem noComma_toks_append (op : CmpOp) (r : List Tok) : NoComma (op.toks ++ r) := by
  cases op <;> exact noComma_cons _ _ (by intro h; cases h)

theorem good_cmp (c : LCmp) (h : wfCmp c) (rest : List Tok) (hr : NoComma rest) : GoodStart (printCmp c ++ rest) := by
  cases c with
  | sum s => exact good_sum s h rest hr
  | bin op l r =>
    have := good_sum l h.1 (op.toks ++ (printSum r ++ rest)) (noComma_toks_append op _)
    simpa [printCmp, List.append_assoc] using this
  | isnull s =>
    have := good_sum s h (.word "is" :: .word "null" :: rest) (noComma_cons _ _ (by intro h; cases h))
    simpa [printCmp, List.append_assoc] using this
  | isnotnull s =>
    have := good_sum s h (.word "is" :: .word "not" :: .word "null" :: rest) (noComma_cons _ _ (by intro h; cases h))
    simpa [printCmp, List.append_assoc] using this
  | between s lo hi =>
    have := good_sum s h.1 (.word "between" :: (printSum lo ++ .word "and" :: (printSum hi ++ rest))) (noComma_cons _ _ (by intro h; cases h))
    simpa [printCmp, List.append_assoc] using this

theorem good_inv (i : LInv) (h : wfInv i) (rest : List Tok) (hr : NoComma rest) : GoodStartE (printInv i ++ rest) := by
  cases i with
  | not j => exact ⟨by simp [printInv, headOKE, isW], noLitComma_nonlit _ _ (by decide)⟩
  | cmp c => exact (good_cmp c h rest hr).toE

theorem noComma_andTail (tl : List LInv) (rest : List Tok) (hr : NoComma rest) : NoComma (printAndTail tl ++ rest) := by
  cases tl with
  | nil => exact hr
  | cons c cs => exact noComma_cons _ _ (by intro h; cases h)

theorem noComma_orTail (tl : List LConj) (rest : List Tok) (hr : NoComma rest) : NoComma (printOrTail tl ++ rest) := by
  cases tl with
  | nil => exact hr
  | cons c cs => exact noComma_cons _ _ (by intro h; cases h)

/-- the only `not` a printed inversion can start with is the NOT operator; a comparison never starts with it -/
theorem good_conj (c : LConj) (h : wfConj c) (rest : List Tok) (hr : NoComma rest) : GoodStartE (printConj c ++ rest) := by
  cases c with
  | mk hd tl =>
    have := good_inv hd h.1 (printAndTail tl ++ rest) (noComma_andTail tl rest hr)
    simpa [printConj, List.append_assoc] using this

theorem good_expr (e : LExpr) (h : wfExpr e) (rest : List Tok) (hr : NoComma rest) : GoodStartE (printExpr e ++ rest) := by
  cases e with
  | mk hd tl =>
    have := good_conj hd h.1 (printOrTail tl ++ rest) (noComma_orTail tl rest hr)
    simpa [printExpr, List.append_assoc] using this

end Bql.Syn
