/-
  Grouping: the insertion-ordered store updated row by row equals "first-appearance keys,
  filter the group, fold it"; link to the implementation model's `aggStep` / `upsertGroup`.
-/
import BqlVerif.Model.Exec
set_option autoImplicit false
namespace Bql.Agg

variable {R K S : Type}

structure Eqv (e : K → K → Bool) : Prop where
  refl : ∀ a, e a a = true
  symm : ∀ a b, e a b = true → e b a = true
  trans : ∀ a b c, e a b = true → e b c = true → e a c = true

/-- `store = aggregates[key]; update(store)` on an insertion-ordered dict -/
def upsert (e : K → K → Bool) (k : K) (f : S → S) (init : S) : List (K × S) → List (K × S)
  | [] => [(k, f init)]
  | (k', s) :: rest => if e k' k then (k', f s) :: rest else (k', s) :: upsert e k f init rest

def aggImpl (e : K → K → Bool) (key : R → K) (upd : R → S → S) (init : S) (rows : List R) : List (K × S) :=
  rows.foldl (fun st r => upsert e (key r) (upd r) init st) []

/-- keys in order of first appearance -/
def dedup (e : K → K → Bool) : List K → List K
  | [] => []
  | k :: ks => k :: (dedup e ks).filter (fun k' => !e k k')

def groupOf (e : K → K → Bool) (key : R → K) (k : K) (rows : List R) : List R :=
  rows.filter (fun r => e k (key r))

/-- the specification: one entry per distinct key in first-appearance order, holding the fold
    of the update over the group's rows in source order -/
def aggSpec (e : K → K → Bool) (key : R → K) (upd : R → S → S) (init : S) (rows : List R) : List (K × S) :=
  (dedup e (rows.map key)).map (fun k => (k, (groupOf e key k rows).foldl (fun s r => upd r s) init))

theorem any_filter_eq (p q : K → Bool) (l : List K) (h : ∀ x, q x = true → p x = true) :
    (l.filter p).any q = l.any q := by
  induction l with
  | nil => rfl
  | cons x xs ih =>
    by_cases hp : p x = true
    · simp [hp, ih]
    · have hq : q x = false := by
        cases hqx : q x with
        | false => rfl
        | true => exact absurd (h x hqx) hp
      simp [hp, ih, hq]

theorem dedup_snoc (e : K → K → Bool) (he : Eqv e) (ks : List K) (k : K) :
    dedup e (ks ++ [k]) = if (dedup e ks).any (fun k' => e k' k) then dedup e ks else dedup e ks ++ [k] := by
  induction ks with
  | nil => simp [dedup]
  | cons a as ih =>
    simp only [List.cons_append, dedup, ih]
    by_cases hak : e a k = true
    · simp [hak]
      split
      · rfl
      · simp [List.filter_append, hak]
    · simp only [List.any_cons, hak, Bool.false_or]
      have hany : ((dedup e as).filter (fun k' => !e a k')).any (fun k' => e k' k)
                = (dedup e as).any (fun k' => e k' k) := by
        apply any_filter_eq
        intro x hxk
        cases hax : e a x with
        | false => rfl
        | true => exact absurd (he.trans _ _ _ hax hxk) hak
      rw [hany]
      split
      · rfl
      · simp [List.filter_append, hak]

theorem dedup_pairwise (e : K → K → Bool) (ks : List K) :
    (dedup e ks).Pairwise (fun a b => e a b = false) := by
  induction ks with
  | nil => exact List.Pairwise.nil
  | cons k ks ih =>
    simp only [dedup]
    refine List.Pairwise.cons ?_ (ih.sublist List.filter_sublist)
    intro b hb
    have := (List.mem_filter.mp hb).2
    simpa using this

theorem dedup_subset (e : K → K → Bool) (ks : List K) : ∀ k ∈ dedup e ks, k ∈ ks := by
  induction ks with
  | nil => simp [dedup]
  | cons a as ih =>
    intro k hk
    simp only [dedup] at hk
    rcases List.mem_cons.mp hk with rfl | hk'
    · exact List.mem_cons_self ..
    · exact List.mem_cons_of_mem _ (ih k (List.mem_filter.mp hk').1)

/-- every key has an equivalent representative among the first appearances -/
theorem dedup_covers (e : K → K → Bool) (he : Eqv e) (ks : List K) (k : K) (hk : k ∈ ks) :
    (dedup e ks).any (fun a => e a k) = true := by
  induction ks with
  | nil => cases hk
  | cons a as ih =>
    simp only [dedup, List.any_cons]
    by_cases hak : e a k = true
    · simp [hak]
    · rcases List.mem_cons.mp hk with rfl | hk'
      · exact absurd (he.refl _) hak
      · have h := ih hk'
        have : ((dedup e as).filter (fun k' => !e a k')).any (fun a => e a k) = (dedup e as).any (fun a => e a k) := by
          apply any_filter_eq
          intro x hxk
          cases hax : e a x with
          | false => rfl
          | true => exact absurd (he.trans _ _ _ hax hxk) hak
        simp [this, h]

theorem upsert_cons_hit (e : K → K → Bool) (k k' : K) (s : S) (f : S → S) (init : S) (rest : List (K × S))
    (h : e k' k = true) : upsert e k f init ((k', s) :: rest) = (k', f s) :: rest := by
  simp [upsert, h]
theorem upsert_cons_miss (e : K → K → Bool) (k k' : K) (s : S) (f : S → S) (init : S) (rest : List (K × S))
    (h : e k' k = false) : upsert e k f init ((k', s) :: rest) = (k', s) :: upsert e k f init rest := by
  simp [upsert, h]

theorem upsert_spec (e : K → K → Bool) (he : Eqv e) (k : K) (f : S → S) (init : S) (g : K → S) :
    ∀ (ks : List K), ks.Pairwise (fun a b => e a b = false) →
    upsert e k f init (ks.map (fun a => (a, g a)))
      = if ks.any (fun a => e a k) then ks.map (fun a => (a, if e a k then f (g a) else g a))
        else ks.map (fun a => (a, g a)) ++ [(k, f init)] := by
  intro ks hp
  induction ks with
  | nil => simp [upsert]
  | cons a as ih =>
    have hp' := List.pairwise_cons.mp hp
    cases hak : e a k with
    | true =>
      have hrest : ∀ b ∈ as, e b k = false := by
        intro b hb
        cases hbk : e b k with
        | false => rfl
        | true =>
          have h1 := hp'.1 b hb
          have h2 : e a b = true := he.trans _ _ _ hak (he.symm _ _ hbk)
          rw [h1] at h2; cases h2
      rw [List.map_cons, upsert_cons_hit e k a (g a) f init _ hak]
      simp only [List.any_cons, hak, Bool.true_or, if_true, List.map_cons]
      congr 1
      apply List.map_congr_left
      intro b hb
      simp [hrest b hb]
    | false =>
      rw [List.map_cons, upsert_cons_miss e k a (g a) f init _ hak, ih hp'.2]
      simp only [List.any_cons, hak, Bool.false_or, List.map_cons]
      split <;> simp [hak]

theorem rev_ind {α : Type} {P : List α → Prop} (hnil : P []) (hsnoc : ∀ l a, P l → P (l ++ [a])) :
    ∀ l, P l := by
  intro l
  have h : ∀ l : List α, P l.reverse := by
    intro l
    induction l with
    | nil => simpa using hnil
    | cons a l ih => simpa using hsnoc _ a ih
  simpa using h l.reverse

/-- the store-updating loop equals "first-appearance keys, filter the group, fold it" -/
theorem agg_refines (e : K → K → Bool) (he : Eqv e) (key : R → K) (upd : R → S → S) (init : S)
    (rows : List R) : aggImpl e key upd init rows = aggSpec e key upd init rows := by
  induction rows using rev_ind with
  | hnil => rfl
  | hsnoc rows r ih =>
    unfold aggImpl at ih ⊢
    rw [List.foldl_append, ih]
    simp only [List.foldl_cons, List.foldl_nil]
    unfold aggSpec
    rw [upsert_spec e he (key r) (upd r) init _ _ (dedup_pairwise e _)]
    simp only [List.map_append, List.map_cons, List.map_nil]
    rw [dedup_snoc e he]
    split
    · apply List.map_congr_left
      intro a _
      simp only [groupOf, List.filter_append, List.filter_cons, List.filter_nil]
      cases h : e a (key r) <;> simp [List.foldl_append]
    · rename_i hnone
      simp only [List.map_append, List.map_cons, List.map_nil]
      congr 1
      · apply List.map_congr_left
        intro a ha
        have hne : e a (key r) = false := by
          cases h : e a (key r) with
          | false => rfl
          | true => exact absurd (List.any_eq_true.mpr ⟨a, ha, h⟩) hnone
        simp [groupOf, List.filter_append, hne]
      · have hnoprev : ∀ x ∈ rows, e (key r) (key x) = false := by
          intro x hx
          cases h : e (key r) (key x) with
          | false => rfl
          | true =>
            exfalso
            have hc := dedup_covers e he (rows.map key) (key x) (List.mem_map_of_mem hx)
            obtain ⟨a, ha, hax⟩ := List.any_eq_true.mp hc
            exact hnone (List.any_eq_true.mpr ⟨a, ha, he.trans _ _ _ hax (he.symm _ _ h)⟩)
        have : groupOf e key (key r) (rows ++ [r]) = [r] := by
          simp only [groupOf, List.filter_append]
          rw [List.filter_eq_nil_iff.mpr (by intro x hx; simp [hnoprev x hx])]
          simp [he.refl]
        simp [this]

/-! ### additivity, proved on the implementation side -/

theorem upsert_sum (e : K → K → Bool) (k : K) (n : Int) (st : List (K × Int)) :
    ((upsert e k (· + n) 0 st).map (·.2)).sum = (st.map (·.2)).sum + n := by
  induction st with
  | nil => simp [upsert]
  | cons p rest ih =>
    obtain ⟨k', s⟩ := p
    unfold upsert
    split
    · simp; omega
    · simp [ih]; omega

theorem aggImpl_sum (e : K → K → Bool) (key : R → K) (f : R → Int) (rows : List R) :
    ((aggImpl e key (fun r s => s + f r) 0 rows).map (·.2)).sum = (rows.map f).sum := by
  induction rows using rev_ind with
  | hnil => rfl
  | hsnoc rows r ih =>
    unfold aggImpl at ih ⊢
    rw [List.foldl_append]
    simp only [List.foldl_cons, List.foldl_nil]
    rw [upsert_sum, ih]
    simp

theorem foldl_add (f : R → Int) (l : List R) (init : Int) :
    l.foldl (fun s r => s + f r) init = init + (l.map f).sum := by
  induction l generalizing init with
  | nil => simp
  | cons a as ih => simp [ih]; omega

/-- group-wise sums add up to the ungrouped total -/
theorem group_sums_add_up (e : K → K → Bool) (he : Eqv e) (key : R → K) (f : R → Int) (rows : List R) :
    (((dedup e (rows.map key)).map (fun k => ((groupOf e key k rows).map f).sum))).sum = (rows.map f).sum := by
  have h := aggImpl_sum e key f rows
  rw [agg_refines e he] at h
  unfold aggSpec at h
  simp only [List.map_map] at h
  rw [← h]
  congr 1
  apply List.map_congr_left
  intro k _
  simp [Function.comp, foldl_add]

/-! ### link to the implementation model (Except-valued steps) -/

/-- when an error-propagating fold returns, it computed the fold of the totalised step -/
theorem foldlE_ok {α β : Type} (f : β → α → Except String β) (l : List α) (b r : β)
    (h : foldlE f b l = .ok r) :
    r = l.foldl (fun b a => match f b a with | .ok b' => b' | .error _ => b) b := by
  induction l generalizing b with
  | nil => simp [foldlE] at h; simp [h]
  | cons a as ih =>
    simp only [foldlE] at h
    cases hf : f b a with
    | error x => simp [hf] at h
    | ok b' =>
      simp only [hf] at h
      simp only [List.foldl_cons, hf]
      exact ih b' h

end Bql.Agg

namespace Bql
open Bql.Agg

/-- totalised per-row update of a store -/
def updT (nodes : List CExpr) (row : Row) (s : Store) : Store :=
  match updateStore row nodes s with
  | .ok s' => s'
  | .error _ => s

theorem upsertGroup_ok (nodes : List CExpr) (row key : Row) (acc res : List (Row × Store))
    (h : upsertGroup nodes row key acc = .ok res) :
    res = upsert keyEq key (updT nodes row) (createStore nodes) acc := by
  induction acc generalizing res with
  | nil =>
    simp only [upsertGroup] at h
    cases hu : updateStore row nodes (createStore nodes) with
    | error x => simp [hu] at h
    | ok s => simp [hu] at h; simp [upsert, updT, hu, h]
  | cons p rest ih =>
    obtain ⟨k, s⟩ := p
    simp only [upsertGroup] at h
    by_cases hk : keyEq k key = true
    · simp only [hk, ↓reduceIte] at h
      cases hu : updateStore row nodes s with
      | error x => simp [hu] at h
      | ok s' => simp [hu] at h; simp [upsert, hk, updT, hu, h]
    · simp only [hk, Bool.false_eq_true, ↓reduceIte] at h
      cases hr : upsertGroup nodes row key rest with
      | error x => simp [hr] at h
      | ok rest' =>
        simp [hr] at h
        have := ih rest' hr
        simp [upsert, hk, ← this, h]

theorem keyEq_eqv : Eqv keyEq := by
  constructor
  · intro a; simp [keyEq, pyEqList]
  · intro a b h; simp [keyEq, pyEqList] at *; exact h.symm
  · intro a b c h1 h2; simp [keyEq, pyEqList] at *; exact h1.trans h2

end Bql
