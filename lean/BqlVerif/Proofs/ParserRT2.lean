/-
  The mutual round-trip induction over layered trees.
-/
import BqlVerif.Proofs.ParserStages
set_option autoImplicit false
set_option maxHeartbeats 400000
namespace Bql.Syn

/-- what may follow a nested SELECT: a closing parenthesis or the end -/
abbrev SelStop (rest : List Tok) : Prop := CFollow 7 rest

def targetToks : Option (List LTarget) → List Tok
  | none => [.sym .star]
  | some ts => printTargets ts
def groupToks : List LKey → List Tok
  | [] => []
  | k :: ks => .word "group" :: .word "by" :: printKeys (k :: ks)
def orderToks : List LOrder → List Tok
  | [] => []
  | o :: os => .word "order" :: .word "by" :: printOrders (o :: os)
theorem embedSelect_eq (d : Bool) (ts : Option (List LTarget)) (f : LFrom) (w : Option LExpr) (g : List LKey) (h : Option LExpr)
    (o : List LOrder) (p : Option (PKey × PKey)) (l : Option Nat) :
    embedSelect (.mk d ts f w g h o p l) = .mk (targetsEmbed ts) (embedFrom f) (optExprEmbed w) (embedKeys g) (optExprEmbed h)
      (embedOrders o) (pivotEmbed p) l d := by
  cases ts <;> cases w <;> cases h <;> cases p <;> first | rfl | (rename_i ab; obtain ⟨a, b⟩ := ab; rfl)

theorem printSelect_eq (d : Bool) (ts : Option (List LTarget)) (f : LFrom) (w : Option LExpr) (g : List LKey) (h : Option LExpr)
    (o : List LOrder) (p : Option (PKey × PKey)) (l : Option Nat) :
    printSelect (.mk d ts f w g h o p l) = .word "select" :: (distinctToks d ++ (targetToks ts ++ (printFrom f ++ (optExprToks "where" w ++
      (groupToks g ++ (optExprToks "having" h ++ (orderToks o ++ (pivotToks p ++ limitToks l)))))))) := by
  cases g <;> cases o <;> cases ts <;> cases w <;> cases h <;> rfl

theorem cfollow_limit (l : Option Nat) (rest : List Tok) (h : SelStop rest) : CFollow 6 (limitToks l ++ rest) := by
  cases l with
  | none => exact h.mono (by omega)
  | some n => simp [limitToks, CFollow, clauseLevel]

theorem cfollow_pivot (p : Option (PKey × PKey)) (tail : List Tok) (h : CFollow 6 tail) : CFollow 5 (pivotToks p ++ tail) := by
  cases p with
  | none => exact h.mono (by omega)
  | some ab => obtain ⟨a, b⟩ := ab; simp [pivotToks, CFollow, clauseLevel]

theorem cfollow_order (o : List LOrder) (tail : List Tok) (h : CFollow 5 tail) : CFollow 4 (orderToks o ++ tail) := by
  cases o with
  | nil => exact h.mono (by omega)
  | cons x xs => simp [orderToks, CFollow, clauseLevel]

theorem cfollow_having (hv : Option LExpr) (tail : List Tok) (h : CFollow 4 tail) : CFollow 3 (optExprToks "having" hv ++ tail) := by
  cases hv with
  | none => exact h.mono (by omega)
  | some e => simp [optExprToks, CFollow, clauseLevel]

theorem cfollow_group (g : List LKey) (tail : List Tok) (h : CFollow 3 tail) : CFollow 2 (groupToks g ++ tail) := by
  cases g with
  | nil => exact h.mono (by omega)
  | cons x xs => simp [groupToks, CFollow, clauseLevel]

theorem cfollow_where (w : Option LExpr) (tail : List Tok) (h : CFollow 2 tail) : CFollow 1 (optExprToks "where" w ++ tail) := by
  cases w with
  | none => exact h.mono (by omega)
  | some e => simp [optExprToks, CFollow, clauseLevel]

theorem cfollow_from (f : LFrom) (tail : List Tok) (h : CFollow 1 tail) : CFollow 0 (printFrom f ++ tail) := by
  cases f <;> first | exact h.mono (by omega) | simp [printFrom, CFollow, clauseLevel]

mutual

theorem rt_expr : (e : LExpr) → wfExpr e → ∀ (rest : List Tok), Follow 5 rest →
    Ev (fun m => parseExpr m (printExpr e ++ rest)) (embedExpr e, rest)
  | .mk h tl, hw, rest, hf => by
    obtain ⟨n1, h1⟩ := rt_conj h hw.1 (printOrTail tl ++ rest) (follow_orTail tl rest hf)
    obtain ⟨n2, h2⟩ := rt_orTail tl hw.2 rest [embedConj h] hf
    refine ev_intro (max n1 n2) (fun k hk => ?_)
    simp only [printExpr, List.append_assoc, parseExpr, h1 k (by omega), h2 k k (by omega) (by omega)]
    cases tl <;> simp [embedConjs, embedExpr]

theorem rt_orTail : (tl : List LConj) → wfConjs tl → ∀ (rest : List Tok) (acc : List Expr), Follow 5 rest →
    Ev2 (fun a b => sepLoop "or" (parseConj a) b acc (printOrTail tl ++ rest)) (acc ++ embedConjs tl, rest)
  | [], _, rest, acc, hf =>
    ⟨1, fun a b _ hb => by
      obtain ⟨k, rfl⟩ : ∃ k, b = k + 1 := ⟨b - 1, by omega⟩
      simp only [printOrTail, List.nil_append, embedConjs, List.append_nil]
      exact sepLoop_done "or" _ k acc rest (fun t r e => by subst e; exact isW_of_level "or" t 5 hf (by decide))⟩
  | c :: cs, hw, rest, acc, hf => by
    obtain ⟨n1, h1⟩ := rt_conj c hw.1 (printOrTail cs ++ rest) (follow_orTail cs rest hf)
    obtain ⟨n2, h2⟩ := rt_orTail cs hw.2 rest (acc ++ [embedConj c]) hf
    refine ⟨max n1 n2 + 1, fun a b ha hb => ?_⟩
    obtain ⟨k, rfl⟩ : ∃ k, b = k + 1 := ⟨b - 1, by omega⟩
    simp only [printOrTail, List.cons_append, List.append_assoc]
    have e2 := h2 a k (by omega) (by omega)
    dsimp only at e2
    rw [sepLoop_step "or" _ k acc _ _ _ (h1 a (by omega)), e2]
    simp [embedConjs]

theorem rt_conj : (c : LConj) → wfConj c → ∀ (rest : List Tok), Follow 4 rest →
    Ev (fun m => parseConj m (printConj c ++ rest)) (embedConj c, rest)
  | .mk h tl, hw, rest, hf => by
    obtain ⟨n1, h1⟩ := rt_inv h hw.1 (printAndTail tl ++ rest) (follow_andTail tl rest hf)
    obtain ⟨n2, h2⟩ := rt_andTail tl hw.2 rest [embedInv h] hf
    refine ev_intro (max n1 n2) (fun k hk => ?_)
    simp only [printConj, List.append_assoc, parseConj, h1 k (by omega), h2 k k (by omega) (by omega)]
    cases tl <;> simp [embedInvs, embedConj]

theorem rt_andTail : (tl : List LInv) → wfInvs tl → ∀ (rest : List Tok) (acc : List Expr), Follow 4 rest →
    Ev2 (fun a b => sepLoop "and" (parseInv a) b acc (printAndTail tl ++ rest)) (acc ++ embedInvs tl, rest)
  | [], _, rest, acc, hf =>
    ⟨1, fun a b _ hb => by
      obtain ⟨k, rfl⟩ : ∃ k, b = k + 1 := ⟨b - 1, by omega⟩
      simp only [printAndTail, List.nil_append, embedInvs, List.append_nil]
      exact sepLoop_done "and" _ k acc rest (fun t r e => by subst e; exact isW_of_level "and" t 4 hf (by decide))⟩
  | c :: cs, hw, rest, acc, hf => by
    obtain ⟨n1, h1⟩ := rt_inv c hw.1 (printAndTail cs ++ rest) (follow_andTail cs rest hf)
    obtain ⟨n2, h2⟩ := rt_andTail cs hw.2 rest (acc ++ [embedInv c]) hf
    refine ⟨max n1 n2 + 1, fun a b ha hb => ?_⟩
    obtain ⟨k, rfl⟩ : ∃ k, b = k + 1 := ⟨b - 1, by omega⟩
    simp only [printAndTail, List.cons_append, List.append_assoc]
    have e2 := h2 a k (by omega) (by omega)
    dsimp only at e2
    rw [sepLoop_step "and" _ k acc _ _ _ (h1 a (by omega)), e2]
    simp [embedInvs]

theorem rt_inv : (i : LInv) → wfInv i → ∀ (rest : List Tok), Follow 3 rest →
    Ev (fun m => parseInv m (printInv i ++ rest)) (embedInv i, rest)
  | .not j, hw, rest, hf => by
    obtain ⟨n1, h1⟩ := rt_inv j hw rest hf
    refine ev_intro n1 (fun k hk => ?_)
    simp only [printInv, List.cons_append, parseInv, stripWord_hit, h1 k hk, embedInv]
  | .cmp c, hw, rest, hf => by
    obtain ⟨n1, h1⟩ := rt_cmp c hw rest hf
    refine ev_intro n1 (fun k hk => ?_)
    have hs : stripWord "not" (printCmp c ++ rest) = none :=
      stripNot_miss _ (headOK_append _ _ (by simpa using (good_cmp c hw [] trivial).1))
    simp only [printInv, parseInv, hs, h1 k hk, embedInv]

theorem rt_cmp : (c : LCmp) → wfCmp c → ∀ (rest : List Tok), Follow 3 rest →
    Ev (fun m => parseCmp m (printCmp c ++ rest)) (embedCmp c, rest)
  | .sum s, hw, rest, hf => by
    obtain ⟨n1, h1⟩ := sumK s hw rest (embedSum s, rest) (hf.mono (by omega))
      (ev2_binLoop_done addOpOf parseTerm _ rest (fun t r e => by subst e; exact addOpOf_none t (Nat.lt_of_lt_of_le (by omega) hf)))
    refine ev_intro n1 (fun k hk => ?_)
    simp only [printCmp, parseCmp, h1 k hk, cmpAct_none rest hf, embedCmp]
  | .bin op l r, hw, rest, hf => by
    obtain ⟨n1, h1⟩ := sumK l hw.1 (op.toks ++ (printSum r ++ rest)) (embedSum l, op.toks ++ (printSum r ++ rest))
      ((follow_toks op _).mono (by omega))
      (ev2_binLoop_done addOpOf parseTerm _ _ (fun t r' e => addOpOf_none t (by have := follow_toks op (printSum r ++ rest); rw [e] at this; exact this)))
    obtain ⟨n2, h2⟩ := sumK r hw.2 rest (embedSum r, rest) (hf.mono (by omega))
      (ev2_binLoop_done addOpOf parseTerm _ rest (fun t r' e => by subst e; exact addOpOf_none t (Nat.lt_of_lt_of_le (by omega) hf)))
    refine ev_intro (max n1 n2) (fun k hk => ?_)
    simp only [printCmp, List.append_assoc, parseCmp, h1 k (by omega), cmpAct_op]
    cases op <;> simp [h2 k (by omega), embedCmp, CmpOp.op]
  | .isnull s, hw, rest, hf => by
    obtain ⟨n1, h1⟩ := sumK s hw (.word "is" :: .word "null" :: rest) (embedSum s, .word "is" :: .word "null" :: rest)
      (by simp [Follow, tokLevel, wordLevel])
      (ev2_binLoop_done addOpOf parseTerm _ _ (fun t r' e => by cases e; rfl))
    refine ev_intro n1 (fun k hk => ?_)
    simp only [printCmp, List.append_assoc, List.cons_append, List.nil_append, parseCmp, h1 k hk]
    simp [cmpAct, isW, embedCmp]
  | .isnotnull s, hw, rest, hf => by
    obtain ⟨n1, h1⟩ := sumK s hw (.word "is" :: .word "not" :: .word "null" :: rest)
      (embedSum s, .word "is" :: .word "not" :: .word "null" :: rest)
      (by simp [Follow, tokLevel, wordLevel])
      (ev2_binLoop_done addOpOf parseTerm _ _ (fun t r' e => by cases e; rfl))
    refine ev_intro n1 (fun k hk => ?_)
    simp only [printCmp, List.append_assoc, List.cons_append, List.nil_append, parseCmp, h1 k hk]
    simp [cmpAct, isW, embedCmp]
  | .between s lo hi, hw, rest, hf => by
    obtain ⟨n1, h1⟩ := sumK s hw.1 (.word "between" :: (printSum lo ++ .word "and" :: (printSum hi ++ rest)))
      (embedSum s, .word "between" :: (printSum lo ++ .word "and" :: (printSum hi ++ rest)))
      (by simp [Follow, tokLevel, wordLevel])
      (ev2_binLoop_done addOpOf parseTerm _ _ (fun t r' e => by cases e; rfl))
    obtain ⟨n2, h2⟩ := sumK lo hw.2.1 (.word "and" :: (printSum hi ++ rest)) (embedSum lo, .word "and" :: (printSum hi ++ rest))
      (by simp [Follow, tokLevel, wordLevel])
      (ev2_binLoop_done addOpOf parseTerm _ _ (fun t r' e => by cases e; rfl))
    obtain ⟨n3, h3⟩ := sumK hi hw.2.2 rest (embedSum hi, rest) (hf.mono (by omega))
      (ev2_binLoop_done addOpOf parseTerm _ rest (fun t r' e => by subst e; exact addOpOf_none t (Nat.lt_of_lt_of_le (by omega) hf)))
    refine ev_intro (max n1 (max n2 n3)) (fun k hk => ?_)
    simp only [printCmp, List.append_assoc, List.cons_append, parseCmp, h1 k (by omega)]
    simp [cmpAct, isW, h2 k (by omega), stripWord_hit, h3 k (by omega), embedCmp]

/-- continuation form for the left-recursive `sum` -/
theorem sumK : (s : LSum) → wfSum s → ∀ (rest : List Tok) (r : Expr × List Tok), Follow 1 rest →
    Ev2 (fun a b => binLoop addOpOf (parseTerm a) b (embedSum s) rest) r →
    Ev (fun m => parseSum m (printSum s ++ rest)) r
  | .term t, hw, rest, r, hf, ⟨n0, h0⟩ => by
    obtain ⟨n1, h1⟩ := termK t hw rest (embedTerm t, rest) (hf.mono (by omega))
      (ev2_binLoop_done mulOpOf parseFactor _ rest (fun t' r' e => by subst e; exact mulOpOf_none t' hf))
    refine ev_intro (max n0 n1) (fun k hk => ?_)
    simp only [printSum, parseSum, h1 k (by omega), embedSum] at *
    exact h0 k k (by omega) (by omega)
  | .bin op s t, hw, rest, r, hf, ⟨n0, h0⟩ => by
    obtain ⟨n1, h1⟩ := termK t hw.2 rest (embedTerm t, rest) (hf.mono (by omega))
      (ev2_binLoop_done mulOpOf parseFactor _ rest (fun t' r' e => by subst e; exact mulOpOf_none t' hf))
    have hloop : Ev2 (fun a b => binLoop addOpOf (parseTerm a) b (embedSum s) (op.tok :: (printTerm t ++ rest))) r := by
      refine ⟨max n0 n1 + 1, fun a b ha hb => ?_⟩
      obtain ⟨k, rfl⟩ : ∃ k, b = k + 1 := ⟨b - 1, by omega⟩
      dsimp only
      rw [binLoop_step addOpOf _ k _ _ _ _ _ _ (addOpOf_sumop op) (h1 a (by omega))]
      exact h0 a k (by omega) (by omega)
    have := sumK s hw.1 (op.tok :: (printTerm t ++ rest)) r (follow_sumop op _) hloop
    simpa [printSum, List.append_assoc] using this

/-- continuation form for the left-recursive `term` -/
theorem termK : (t : LTerm) → wfTerm t → ∀ (rest : List Tok) (r : Expr × List Tok), Follow 0 rest →
    Ev2 (fun a b => binLoop mulOpOf (parseFactor a) b (embedTerm t) rest) r →
    Ev (fun m => parseTerm m (printTerm t ++ rest)) r
  | .factor f, hw, rest, r, hf, ⟨n0, h0⟩ => by
    obtain ⟨n1, h1⟩ := rt_factor f hw rest hf
    refine ev_intro (max n0 n1) (fun k hk => ?_)
    simp only [printTerm, parseTerm, h1 k (by omega), embedTerm] at *
    exact h0 k k (by omega) (by omega)
  | .bin op t f, hw, rest, r, hf, ⟨n0, h0⟩ => by
    obtain ⟨n1, h1⟩ := rt_factor f hw.2 rest hf
    have hloop : Ev2 (fun a b => binLoop mulOpOf (parseFactor a) b (embedTerm t) (op.tok :: (printFactor f ++ rest))) r := by
      refine ⟨max n0 n1 + 1, fun a b ha hb => ?_⟩
      obtain ⟨k, rfl⟩ : ∃ k, b = k + 1 := ⟨b - 1, by omega⟩
      dsimp only
      rw [binLoop_step mulOpOf _ k _ _ _ _ _ _ (mulOpOf_termop op) (h1 a (by omega))]
      exact h0 a k (by omega) (by omega)
    have := termK t hw.1 (op.tok :: (printFactor f ++ rest)) r (follow_termop op _) hloop
    simpa [printTerm, List.append_assoc] using this

theorem rt_factor : (f : LFactor) → wfFactor f → ∀ (rest : List Tok), Follow 0 rest →
    Ev (fun m => parseFactor m (printFactor f ++ rest)) (embedFactor f, rest)
  | .paren e, hw, rest, _ => by
    obtain ⟨n1, h1⟩ := rt_expr e hw (.sym .rparen :: rest) (by simp [Follow, tokLevel])
    have hg := good_expr e hw (.sym .rparen :: rest) trivial
    refine ev_intro n1 (fun k hk => ?_)
    simp only [printFactor, List.cons_append, List.append_assoc, List.nil_append, parseFactor, factorAct_paren _ hg.2, h1 k hk, embedFactor]
  | .parenSel s, hw, rest, _ => by
    obtain ⟨n1, h1⟩ := rt_select s hw (.sym .rparen :: rest) (by simp [CFollow, clauseLevel])
    obtain ⟨r, hr⟩ : ∃ r, printSelect s = .word "select" :: r := by cases s; exact ⟨_, printSelect_eq ..⟩
    have hA : Ev (fun m => parseAtom m (.word "select" :: (r ++ .sym .rparen :: rest))) (.sub (embedSelect s), .sym .rparen :: rest) := by
      refine ev_intro n1 (fun k hk => ?_)
      have := h1 k hk
      simp only [hr, List.cons_append] at this
      simp [parseAtom, atomAct, this]
    obtain ⟨n2, h2⟩ := passthrough_select _ _ _ hA
    refine ev_intro n2 (fun k hk => ?_)
    have := h2 k hk
    simp only [printFactor, hr, List.cons_append, List.append_assoc, List.nil_append, parseFactor,
      factorAct_paren _ (noLitComma_nonlit (.word "select") _ (by decide)), this, embedFactor]
  | .neg g, hw, rest, hf => by
    obtain ⟨n1, h1⟩ := rt_factor g hw rest hf
    refine ev_intro n1 (fun k hk => ?_)
    simp only [printFactor, List.cons_append, parseFactor, factorAct, h1 k hk, embedFactor]
  | .uplus a, hw, rest, hf => by
    obtain ⟨n1, h1⟩ := rt_atom a hw rest (NoCall.of_follow hf)
    refine ev_intro n1 (fun k hk => ?_)
    simp only [printFactor, List.cons_append, parseFactor, factorAct, h1 k hk, embedFactor]
  | .prim p, hw, rest, hf => by
    obtain ⟨n1, h1⟩ := primK p hw rest (embedPrim p, rest) (NoCall.of_follow hf) (ev_postfix_done _ rest hf)
    have hp := primStart_append _ rest (by simpa using (good_prim p hw [] trivial).2)
    refine ev_intro n1 (fun k hk => ?_)
    simp only [printFactor, parseFactor, factorAct_prim _ hp, h1 k hk, embedFactor]

/-- continuation form for the left-recursive `primary` -/
theorem primK : (p : LPrim) → wfPrim p → ∀ (rest : List Tok) (r : Expr × List Tok), NoCall rest →
    Ev (fun m => postfixLoop m (embedPrim p) rest) r →
    Ev (fun m => parsePrimary m (printPrim p ++ rest)) r
  | .atom a, hw, rest, r, hc, ⟨n0, h0⟩ => by
    obtain ⟨n1, h1⟩ := rt_atom a hw rest hc
    refine ev_intro (max n0 n1) (fun k hk => ?_)
    simp only [printPrim, parsePrimary, h1 k (by omega), embedPrim] at *
    exact h0 k (by omega)
  | .attr p n, hw, rest, r, _, ⟨n0, h0⟩ => by
    have hloop : Ev (fun m => postfixLoop m (embedPrim p) (.sym .dot :: .word n :: rest)) r := by
      refine ev_intro n0 (fun k hk => ?_)
      have hk' : isKeyword n = false := by have := hw.2; simpa [identOK] using this
      simp only [postfixLoop, hk', Bool.false_eq_true, ↓reduceIte]
      exact h0 k hk
    have := primK p hw.1 (.sym .dot :: .word n :: rest) r (noCall_cons _ _ (by intro h; cases h)) hloop
    simpa [printPrim, List.append_assoc] using this
  | .sub p key, hw, rest, r, _, ⟨n0, h0⟩ => by
    have hloop : Ev (fun m => postfixLoop m (embedPrim p) (.sym .lbrack :: .str key :: .sym .rbrack :: rest)) r := by
      refine ev_intro n0 (fun k hk => ?_)
      simp only [postfixLoop]
      exact h0 k hk
    have := primK p hw (.sym .lbrack :: .str key :: .sym .rbrack :: rest) r (noCall_cons _ _ (by intro h; cases h)) hloop
    simpa [printPrim, List.append_assoc] using this

theorem rt_atom : (a : LAtom) → wfAtom a → ∀ (rest : List Tok), NoCall rest →
    Ev (fun m => parseAtom m (printAtom a ++ rest)) (embedAtom a, rest)
  | .col n, hw, rest, hc => by
    have hi := col_ident n hw
    have hk : isKeyword n = false := by simpa [identOK] using hi
    have hn : n ≠ "null" := by
      have := hw
      simp only [wfAtom, colOK, Bool.and_eq_true, bne_iff_ne, ne_eq] at this
      exact this.2
    refine ev_intro 0 (fun k _ => ?_)
    simp only [printAtom, List.cons_append, List.nil_append, parseAtom, atomAct_word n rest (ident_not_select n hi) hc,
      litOfTok_word_none n hk hn, hk, Bool.false_eq_true, ↓reduceIte, embedAtom]
  | .lit l, hw, rest, hc => by
    refine ev_intro 0 (fun k _ => ?_)
    cases l with
    | null => simp [printAtom, Lit.tok, parseAtom, atomAct_word "null" rest (by decide) hc, litOfTok, embedAtom, Lit.value]
    | bool b =>
      cases b
      · simp [printAtom, Lit.tok, parseAtom, atomAct_word "false" rest (by decide) hc, litOfTok, embedAtom, Lit.value]
      · simp [printAtom, Lit.tok, parseAtom, atomAct_word "true" rest (by decide) hc, litOfTok, embedAtom, Lit.value]
    | int n => simp [printAtom, Lit.tok, parseAtom, atomAct, isLitTok, litOfTok, embedAtom, Lit.value]
    | dec c e d => simp [printAtom, Lit.tok, parseAtom, atomAct, isLitTok, litOfTok, embedAtom, Lit.value]
    | str s => simp [printAtom, Lit.tok, parseAtom, atomAct, isLitTok, litOfTok, embedAtom, Lit.value]
    | date d =>
      have hv : d.valid = true := hw
      simp [printAtom, Lit.tok, parseAtom, atomAct, isLitTok, litOfTok, embedAtom, Lit.value, hv]
  | .list first items, hw, rest, _ => by
    obtain ⟨hf, hi, hne⟩ := hw
    cases items with
    | nil => exact absurd rfl hne
    | cons x xs =>
      refine ev_intro 0 (fun k _ => ?_)
      simp only [printAtom, printListItems_cons, List.cons_append, parseAtom, atomAct, lit_tok_isLit, ↓reduceIte, litOfTok_lit first hf]
      rw [List.append_assoc, listItems_print xs x [first.value] rest _ hi
        (by have := printListItems_length xs; simp only [List.length_append]; omega)]
      simp [embedAtom]
  | .func n args, hw, rest, _ => by
    have hk : isKeyword n = false := by simpa [identOK] using hw.1
    cases args with
    | nil =>
      refine ev_intro 0 (fun k _ => ?_)
      simp [printAtom, printArgs, parseAtom, atomAct, ident_not_select n hw.1, hk, embedAtom, embedArgs]
    | cons e es =>
      obtain ⟨n1, h1⟩ := rt_args (e :: es) (by simp) hw.2 rest
      have hh : headOKE (printArgs (e :: es) ++ rest) = true := by
        obtain ⟨tail, ht⟩ := printArgs_head e es
        rw [ht, List.append_assoc]
        exact headOKE_append _ _ (by simpa using (good_expr e hw.2.1 [] trivial).1)
      have hd : dropLeadComma (printArgs (e :: es) ++ rest) = printArgs (e :: es) ++ rest := by
        cases hx : printArgs (e :: es) ++ rest with
        | nil => rfl
        | cons t r =>
          rw [hx] at hh
          cases t with
          | sym sy => cases sy <;> first | rfl | (simp [headOKE, startOK, isW] at hh)
          | _ => rfl
      refine ev_intro n1 (fun k hk' => ?_)
      simp only [printAtom, List.cons_append, parseAtom, atomAct_func n _ (ident_not_select n hw.1) hh, hk, Bool.false_eq_true,
        ↓reduceIte, hd, h1 k hk', embedAtom]
  | .funcStar n, hw, rest, _ => by
    have hk : isKeyword n = false := by simpa [identOK, wfAtom] using hw
    refine ev_intro 0 (fun k _ => ?_)
    simp [printAtom, parseAtom, atomAct, ident_not_select n hw, hk, embedAtom]
  | .ph n, hw, rest, _ => by
    refine ev_intro 0 (fun k _ => ?_)
    cases n with
    | none => simp [printAtom, parseAtom, atomAct, embedAtom]
    | some w =>
      have hk : isKeyword w = false := by simpa [identOK, wfAtom, optIdentOK] using hw
      simp [printAtom, parseAtom, atomAct, hk, embedAtom]

theorem rt_args : (args : List LExpr) → args ≠ [] → wfArgs args → ∀ (rest : List Tok),
    Ev (fun m => parseArgs m (printArgs args ++ rest)) (embedArgs args, rest)
  | [], hne, _, _ => absurd rfl hne
  | [e], _, hw, rest => by
    obtain ⟨n1, h1⟩ := rt_expr e hw.1 (.sym .rparen :: rest) (by simp [Follow, tokLevel])
    refine ev_intro n1 (fun k hk => ?_)
    simp only [printArgs, List.append_assoc, List.cons_append, List.nil_append, parseArgs, h1 k hk, embedArgs]
  | e :: e2 :: es, _, hw, rest => by
    obtain ⟨n1, h1⟩ := rt_expr e hw.1 (.sym .comma :: (printArgs (e2 :: es) ++ rest)) (by simp [Follow, tokLevel])
    obtain ⟨n2, h2⟩ := rt_args (e2 :: es) (by simp) hw.2 rest
    refine ev_intro (max n1 n2) (fun k hk => ?_)
    simp only [printArgs, List.append_assoc, List.cons_append, parseArgs, h1 k (by omega), h2 k (by omega), embedArgs]

theorem rt_targets : (ts : List LTarget) → ts ≠ [] → wfTargets ts → ∀ (tail : List Tok), CFollow 0 tail →
    Ev (fun m => parseTargets m (printTargets ts ++ tail)) (embedTargets ts, tail)
  | [], hne, _, _, _ => absurd rfl hne
  | [.mk e a], _, hw, tail, hc => by
    obtain ⟨n1, h1⟩ := rt_expr e hw.1 (aliasToks a ++ tail) (follow_alias a tail hc.follow)
    have hal := parseAlias_print a hw.2.1 tail (stripWord_cf "as" 0 tail hc (by simp [clauseLevel]))
    refine ev_intro n1 (fun k hk => ?_)
    simp only [printTargets, printTarget, List.append_assoc, parseTargets, h1 k hk, hal, stripComma_miss tail hc.noComma, embedTargets]
  | .mk e a :: t2 :: ts, _, hw, tail, hc => by
    obtain ⟨n1, h1⟩ := rt_expr e hw.1 (aliasToks a ++ (.sym .comma :: (printTargets (t2 :: ts) ++ tail)))
      (follow_alias a _ (by simp [Follow, tokLevel]))
    obtain ⟨n2, h2⟩ := rt_targets (t2 :: ts) (by simp) hw.2.2 tail hc
    have hal := parseAlias_print a hw.2.1 (.sym .comma :: (printTargets (t2 :: ts) ++ tail)) (by simp [stripWord, isW])
    refine ev_intro (max n1 n2) (fun k hk => ?_)
    simp only [printTargets, printTarget, List.append_assoc, List.cons_append, parseTargets, h1 k (by omega), hal, stripComma,
      h2 k (by omega), embedTargets]

theorem rt_key : (k : LKey) → wfKey k → ∀ (tail : List Tok), Follow 5 tail →
    Ev (fun m => parseKey m (printKey k ++ tail)) (embedKey k, tail)
  | .idx n, _, tail, _ => ev_intro 0 (fun k _ => by simp [printKey, parseKey, keyAct, embedKey])
  | .expr e, hw, tail, hf => by
    obtain ⟨n1, h1⟩ := rt_expr e hw.1 tail hf
    have hh : headOKE (printExpr e) = true := by simpa using (good_expr e hw.1 [] trivial).1
    have hne : printExpr e ≠ [] := by intro h; rw [h] at hh; simp [headOKE] at hh
    have hk := keyAct_expr _ (keyStartOK_append _ tail hne hw.2)
    refine ev_intro n1 (fun k hk' => ?_)
    simp only [printKey, parseKey, hk, h1 k hk', embedKey]

theorem rt_keys : (ks : List LKey) → ks ≠ [] → wfKeys ks → ∀ (tail : List Tok), CFollow 3 tail →
    Ev (fun m => parseKeys m (printKeys ks ++ tail)) (embedKeys ks, tail)
  | [], hne, _, _, _ => absurd rfl hne
  | [k], _, hw, tail, hc => by
    obtain ⟨n1, h1⟩ := rt_key k hw.1 tail hc.follow
    refine ev_intro n1 (fun j hj => ?_)
    simp only [printKeys, parseKeys, h1 j hj, stripComma_miss tail hc.noComma, embedKeys]
  | k :: k2 :: ks, _, hw, tail, hc => by
    obtain ⟨n1, h1⟩ := rt_key k hw.1 (.sym .comma :: (printKeys (k2 :: ks) ++ tail)) (by simp [Follow, tokLevel])
    obtain ⟨n2, h2⟩ := rt_keys (k2 :: ks) (by simp) hw.2 tail hc
    refine ev_intro (max n1 n2) (fun j hj => ?_)
    simp only [printKeys, List.append_assoc, List.cons_append, parseKeys, h1 j (by omega), stripComma, h2 j (by omega), embedKeys]

theorem rt_orders : (os : List LOrder) → os ≠ [] → wfOrders os → ∀ (tail : List Tok), CFollow 5 tail →
    Ev (fun m => parseOrders m (printOrders os ++ tail)) (embedOrders os, tail)
  | [], hne, _, _, _ => absurd rfl hne
  | [.mk k desc asc], _, hw, tail, hc => by
    obtain ⟨n1, h1⟩ := rt_key k hw.1 (orderingToks desc asc ++ tail) (follow_ordering desc asc tail hc.follow)
    have ho := parseOrdering_print desc asc tail (stripWord_cf "desc" 5 tail hc (by simp [clauseLevel]))
      (stripWord_cf "asc" 5 tail hc (by simp [clauseLevel]))
    refine ev_intro n1 (fun j hj => ?_)
    simp only [printOrders, printOrder, List.append_assoc, parseOrders, h1 j hj, ho, stripComma_miss tail hc.noComma, embedOrders]
  | .mk k desc asc :: o2 :: os, _, hw, tail, hc => by
    obtain ⟨n1, h1⟩ := rt_key k hw.1 (orderingToks desc asc ++ (.sym .comma :: (printOrders (o2 :: os) ++ tail)))
      (follow_ordering desc asc _ (by simp [Follow, tokLevel]))
    obtain ⟨n2, h2⟩ := rt_orders (o2 :: os) (by simp) hw.2 tail hc
    have ho := parseOrdering_print desc asc (.sym .comma :: (printOrders (o2 :: os) ++ tail)) (by simp [stripWord, isW]) (by simp [stripWord, isW])
    refine ev_intro (max n1 n2) (fun j hj => ?_)
    simp only [printOrders, printOrder, List.append_assoc, List.cons_append, parseOrders, h1 j (by omega), ho, stripComma,
      h2 j (by omega), embedOrders]

theorem rt_from : (f : LFrom) → wfFrom f → ∀ (tail : List Tok), CFollow 1 tail →
    Ev (fun m => parseFromClause m (printFrom f ++ tail)) (embedFrom f, tail)
  | .none, _, tail, hc => by simpa [printFrom, embedFrom] using stage_from_none tail hc
  | .table n, _, tail, _ => by simpa [printFrom, embedFrom] using stage_from_table n tail
  | .sub s, hw, tail, _ => by
    obtain ⟨r, hr⟩ : ∃ r, printSelect s = .word "select" :: r := by cases s; exact ⟨_, printSelect_eq ..⟩
    have h1 := rt_select s hw (.sym .rparen :: tail) (by simp [CFollow, clauseLevel])
    simp only [hr, List.cons_append] at h1
    have := stage_from_sub r (embedSelect s) tail h1
    simpa [printFrom, hr, embedFrom, List.append_assoc] using this
  | .clauses o c cl, hw, tail, hc => by
    have := stage_from_clauses o c cl tail 1 hc hw.1 hw.2.1 hw.2.2
    simpa [printFrom, embedFrom] using this
  | .expr e o c cl, hw, tail, hc => by
    have hh : headOKE (printExpr e) = true := by simpa using (good_expr e hw.1 [] trivial).1
    have hE := rt_expr e hw.1 (printClauses o c cl ++ tail) (by rw [printClauses_eq, List.append_assoc, List.append_assoc]; exact follow_clauses o c cl tail hc.follow)
    have := stage_from_expr e o c cl tail 1 hc hw.2.2.1 hw.2.2.2 hw.2.1 hh hE
    simpa [printFrom, embedFrom, List.append_assoc] using this

theorem rt_select : (s : LSelect) → wfSelect s → ∀ (rest : List Tok), SelStop rest →
    Ev (fun m => parseSelect m (printSelect s ++ rest)) (embedSelect s, rest)
  | .mk d ts f w g hv o p l, hw, rest, hs => by
    obtain ⟨hwT, hwF, hwW, hwG, hwH, hwO, hwP⟩ := (wfSelect_def d ts f w g hv o p l).mp hw
    -- the tails after each clause
    have c7 : CFollow 6 (limitToks l ++ rest) := cfollow_limit l rest hs
    have c6 : CFollow 5 (pivotToks p ++ (limitToks l ++ rest)) := cfollow_pivot p _ c7
    have c5 : CFollow 4 (orderToks o ++ (pivotToks p ++ (limitToks l ++ rest))) := cfollow_order o _ c6
    have c4 : CFollow 3 (optExprToks "having" hv ++ (orderToks o ++ (pivotToks p ++ (limitToks l ++ rest)))) := cfollow_having hv _ c5
    have c3 : CFollow 2 (groupToks g ++ (optExprToks "having" hv ++ (orderToks o ++ (pivotToks p ++ (limitToks l ++ rest))))) := cfollow_group g _ c4
    have c2 : CFollow 1 (optExprToks "where" w ++ (groupToks g ++ (optExprToks "having" hv ++ (orderToks o ++ (pivotToks p ++ (limitToks l ++ rest)))))) :=
      cfollow_where w _ c3
    have c1 : CFollow 0 (printFrom f ++ (optExprToks "where" w ++ (groupToks g ++ (optExprToks "having" hv ++ (orderToks o ++ (pivotToks p ++ (limitToks l ++ rest))))))) :=
      cfollow_from f _ c2
    -- targets
    have sT : ∀ T1, CFollow 0 T1 → Ev (fun m => parseTargetList m (targetToks ts ++ T1)) (targetsEmbed ts, T1) :=
      fun T1 cT1 =>
      match ts, hwT with
      | none, _ => stage_targets_star T1
      | some tl, hwt => by
        have hT := rt_targets tl hwt.1 hwt.2 T1 cT1
        have hh : headOKE (printTargets tl ++ T1) = true := by
          cases tl with
          | nil => exact absurd rfl hwt.1
          | cons t tl' =>
            obtain ⟨e, a⟩ := t
            have he : headOKE (printExpr e) = true := by simpa using (good_expr e hwt.2.1 [] trivial).1
            cases tl' <;> simp only [printTargets, printTarget, List.append_assoc] <;> exact headOKE_append _ _ he
        exact stage_targets_list _ _ T1 hh hT
    -- where
    have sW : ∀ T3, CFollow 2 T3 → Ev (fun m => parseWhere m (optExprToks "where" w ++ T3)) (optExprEmbed w, T3) :=
      fun T3 cT3 =>
      match w, hwW with
      | none, _ => stage_where_none T3 cT3
      | some e, hwe => stage_where_some e T3 (rt_expr e hwe T3 cT3.follow)
    -- group / having
    have sG : ∀ T5, CFollow 4 T5 → Ev (fun m => parseGroup m (groupToks g ++ (optExprToks "having" hv ++ T5)))
        ((embedKeys g, optExprEmbed hv), T5) :=
      fun T5 cT5 =>
      match g, hv, hwG, hwH with
      | [], none, _, _ => by simpa [groupToks, optExprToks, embedKeys, optExprEmbed] using stage_group_nil T5 (cT5.mono (by omega))
      | [], some e, _, hh => absurd rfl hh.2
      | k :: ks, none, hwk, _ => by
        have hK := rt_keys (k :: ks) (by simp) hwk T5 (cT5.mono (by omega))
        simpa [groupToks, optExprToks, optExprEmbed] using stage_group_keys _ _ T5 cT5 hK
      | k :: ks, some e, hwk, hh => by
        have hK := rt_keys (k :: ks) (by simp) hwk (.word "having" :: (printExpr e ++ T5)) (by simp [CFollow, clauseLevel])
        have hE := rt_expr e hh.1 T5 cT5.follow
        simpa [groupToks, optExprToks, optExprEmbed] using stage_group_having _ _ e T5 hK hE
    -- order
    have sO : ∀ T6, CFollow 5 T6 → Ev (fun m => parseOrderBy m (orderToks o ++ T6)) (embedOrders o, T6) :=
      fun T6 cT6 =>
      match o, hwO with
      | [], _ => by simpa [orderToks, embedOrders] using stage_order_nil T6 cT6
      | x :: xs, hwo => by
        have hO := rt_orders (x :: xs) (by simp) hwo T6 cT6
        simpa [orderToks] using stage_order_some _ _ T6 hO
    have hd : stripDistinct (distinctToks d ++ (targetToks ts ++ (printFrom f ++ (optExprToks "where" w ++ (groupToks g ++
          (optExprToks "having" hv ++ (orderToks o ++ (pivotToks p ++ (limitToks l ++ rest))))))))) =
        (d, targetToks ts ++ (printFrom f ++ (optExprToks "where" w ++ (groupToks g ++
          (optExprToks "having" hv ++ (orderToks o ++ (pivotToks p ++ (limitToks l ++ rest)))))))) := by
      cases d with
      | true => simp [distinctToks, stripDistinct, stripWord_hit]
      | false =>
        have : ∀ T1, stripWord "distinct" (targetToks ts ++ T1) = none := by
          intro T1
          cases ts with
          | none => simp [targetToks, stripWord, isW]
          | some tl =>
            obtain ⟨n0, h0⟩ := hwT
            cases tl with
            | nil => exact absurd rfl n0
            | cons t tl' =>
              obtain ⟨e, a⟩ := t
              have he : headOKE (printExpr e) = true := by simpa using (good_expr e h0.1 [] trivial).1
              apply isW_kw_of_headOKE "distinct" (by decide) (by decide) (by decide) (by decide)
              cases tl' <;> simp only [targetToks, printTargets, printTarget, List.append_assoc] <;> exact headOKE_append _ _ he
        simp [distinctToks, stripDistinct, this]
    have := parseSelect_stages d _ _ _ _ _ _ _ _ rest _ _ _ _ _ _ _ _ hd (sT _ c1) (rt_from f hwF _ c2) (sW _ c3) (sG _ c5) (sO _ c6)
      (parsePivot_print p hwP _ c7) (parseLimit_print l rest hs)
    rw [printSelect_eq, embedSelect_eq]
    simpa [List.append_assoc] using this

end

end Bql.Syn
