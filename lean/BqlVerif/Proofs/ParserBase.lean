/-
  Base lemmas for the parser round trip: eventual results over fuel, follow sets, loop lemmas,
  dispatch lemmas.
-/
import BqlVerif.Model.Layered
set_option autoImplicit false
namespace Bql.Syn

/-- `p` yields `r` for every large enough fuel -/
def Ev {β : Type} (p : Nat → Option β) (r : β) : Prop := ∃ n, ∀ m, n ≤ m → p m = some r

theorem Ev.const {β : Type} (r : β) : Ev (fun _ => some r) r := ⟨0, fun _ _ => rfl⟩

/-- token classes by the lowest grammar level that continues with them:
    0 postfix / call, 1 `* / %`, 2 `+ -`, 3 comparison, 4 AND, 5 OR, 6 everything else -/
def wordLevel (w : String) : Nat :=
  if w = "in" ∨ w = "not" ∨ w = "is" ∨ w = "between" then 3 else if w = "and" then 4 else if w = "or" then 5 else 6

def tokLevel : Tok → Nat
  | .sym .dot | .sym .lbrack | .sym .lparen => 0
  | .sym .star | .sym .slash | .sym .percent => 1
  | .sym .plus | .sym .minus => 2
  | .sym .lt | .sym .le | .sym .gt | .sym .ge | .sym .eq | .sym .ne | .sym .tilde | .sym .ntilde => 3
  | .word w => wordLevel w
  | _ => 6

/-- the head of `rest` (if any) belongs to a level above `k` -/
def Follow (k : Nat) : List Tok → Prop
  | [] => True
  | t :: _ => k < tokLevel t

theorem Follow.mono {k j : Nat} {rest : List Tok} (h : Follow k rest) (hj : j ≤ k) : Follow j rest := by
  cases rest with
  | nil => trivial
  | cons t r => exact Nat.lt_of_le_of_lt hj h

theorem follow_cons (k : Nat) (t : Tok) (r : List Tok) : Follow k (t :: r) ↔ k < tokLevel t := Iff.rfl

/-! ### operator recognisers and levels -/

theorem mulOpOf_none (t : Tok) (h : 1 < tokLevel t) : mulOpOf t = none := by
  cases t with
  | sym s => cases s <;> simp_all [tokLevel, mulOpOf]
  | _ => rfl

theorem addOpOf_none (t : Tok) (h : 2 < tokLevel t) : addOpOf t = none := by
  cases t with
  | sym s => cases s <;> simp_all [tokLevel, addOpOf]
  | _ => rfl

theorem isW_word (w v : String) : isW w (.word v) = (v == w) := rfl

theorem isW_of_level (w : String) (t : Tok) (k : Nat) (h : k < tokLevel t) (hw : wordLevel w ≤ k) : isW w t = false := by
  cases t with
  | word v =>
    simp only [isW_word, beq_eq_false_iff_ne, ne_eq]
    intro e; subst e
    simp only [tokLevel] at h; omega
  | _ => rfl

theorem cmpOpOf_none (t : Tok) (h : 3 < tokLevel t) : cmpOpOf t = none := by
  cases t with
  | sym s => cases s <;> simp_all [tokLevel, cmpOpOf]
  | word w =>
    unfold cmpOpOf
    split
    · rename_i heq
      all_goals first | rfl | (simp_all [tokLevel, wordLevel])
    all_goals first | rfl | (simp_all [tokLevel, wordLevel])
  | _ => rfl

/-! ### loops -/

theorem binLoop_done (opOf : Tok → Option BinOp) (sub : List Tok → P Expr) (f : Nat) (acc : Expr) (rest : List Tok)
    (h : ∀ t r, rest = t :: r → opOf t = none) : binLoop opOf sub (f + 1) acc rest = some (acc, rest) := by
  cases rest with
  | nil => rfl
  | cons t r => simp [binLoop, h t r rfl]

theorem binLoop_step (opOf : Tok → Option BinOp) (sub : List Tok → P Expr) (f : Nat) (acc : Expr) (t : Tok) (ts : List Tok)
    (op : BinOp) (r : Expr) (rest : List Tok) (ho : opOf t = some op) (hs : sub ts = some (r, rest)) :
    binLoop opOf sub (f + 1) acc (t :: ts) = binLoop opOf sub f (.binop op acc r) rest := by
  simp [binLoop, ho, hs]

theorem sepLoop_done (kw : String) (sub : List Tok → P Expr) (f : Nat) (acc : List Expr) (rest : List Tok)
    (h : ∀ t r, rest = t :: r → isW kw t = false) : sepLoop kw sub (f + 1) acc rest = some (acc, rest) := by
  cases rest with
  | nil => rfl
  | cons t r =>
    cases t with
    | word w =>
      have := h (.word w) r rfl
      simp only [isW_word, beq_eq_false_iff_ne, ne_eq] at this
      simp [sepLoop, this]
    | _ => rfl

theorem sepLoop_step (kw : String) (sub : List Tok → P Expr) (f : Nat) (acc : List Expr) (ts : List Tok)
    (e : Expr) (rest : List Tok) (hs : sub ts = some (e, rest)) :
    sepLoop kw sub (f + 1) acc (.word kw :: ts) = sepLoop kw sub f (acc ++ [e]) rest := by
  simp [sepLoop, hs]

theorem postfixLoop_done (f : Nat) (acc : Expr) (rest : List Tok) (h : Follow 0 rest) :
    postfixLoop (f + 1) acc rest = some (acc, rest) := by
  cases rest with
  | nil => rfl
  | cons t r =>
    cases t with
    | sym s => cases s <;> simp_all [postfixLoop, Follow, tokLevel]
    | _ => rfl

/-! ### stripWord -/

theorem stripWord_hit (w : String) (ts : List Tok) : stripWord w (.word w :: ts) = some ts := by
  simp [stripWord, isW]

theorem stripWord_miss (w : String) (ts : List Tok) (h : ∀ t r, ts = t :: r → isW w t = false) : stripWord w ts = none := by
  cases ts with
  | nil => rfl
  | cons t r => simp [stripWord, h t r rfl]

end Bql.Syn
