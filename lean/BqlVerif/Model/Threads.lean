/-
  Concurrent query executions as interleavings of atomic steps.
-/
import BqlVerif.Model.Inventory
namespace Bql

/-- per-thread private states -/
abbrev Priv (P : Type) := Nat → P

def Priv.set {P : Type} (st : Priv P) (t : Nat) (v : P) : Priv P := fun u => if u = t then v else st u

/-- run a schedule (a list of thread ids): each entry lets that thread take one step, which
    reads and writes its private state only (shared state, if any, is immutable and is part of
    the step function) -/
def runSchedule {P : Type} (step : Nat → P → P) (st : Priv P) : List Nat → Priv P
  | [] => st
  | t :: ts => runSchedule step (st.set t (step t (st t))) ts

def iter {P : Type} (f : P → P) : Nat → P → P
  | 0, x => x
  | n + 1, x => iter f n (f x)

/-! ### the former design: a one-entry cache shared by all threads -/

structure SharedSys where
  cache : SharedCache := {}
  balances : Nat → Inv := fun _ => []

/-- thread `t` evaluates `balance` on its row `rowid` (posting `p`) through the shared cache -/
def sharedStep (s : SharedSys) (t rowid : Nat) (p : LotKey × Int) : SharedSys × Inv :=
  let (c, b, v) := evalBalanceShared s.cache t (s.balances t) rowid p
  ({ cache := c, balances := fun u => if u = t then b else s.balances u }, v)

end Bql
