/-
  The compiler (`beanquery/compiler.py`): name resolution, overload selection over the
  *generated* registry, implicit casts, constant folding, target naming, aggregate
  checks, GROUP BY / ORDER BY / PIVOT BY resolution.

  Subqueries are materialised while compiling (evaluation is pure, so when the
  implementation runs them lazily makes no observable difference).
-/
import BqlVerif.Model.Exec
import BqlVerif.Generated.Registry
namespace Bql

inductive Err
  | compile (msg : String)       -- CompilationError
  | programming (msg : String)   -- ProgrammingError raised directly (parameters)
  | py (exc : String)            -- any other Python exception class
  | fuel
  deriving Repr, Inhabited, DecidableEq

abbrev CM := Except Err

/-- a table as the compiler sees it: name → (accessor index, dtype), wildcard list, rows -/
structure TableDef where
  name : String
  cols : List (String × Nat × Ty)
  wildcard : List String
  rows : List Row
  /-- does the table implement `update(open=, close=, clear=)` (BeanTable only) -/
  updatable : Bool := false
  deriving Repr, Inhabited

inductive Params
  | none
  | seq (vs : List Value)
  | map (kvs : List (String × Value))
  deriving Repr, Inhabited

structure Ctx where
  db : List TableDef
  params : Params
  /-- source positions of the positional placeholders of the whole statement, ascending -/
  positional : List Nat
  deriving Repr, Inhabited

def mro (t : Ty) : List Ty :=
  match Gen.mroTable.find? (fun p => p.1 == t) with
  | some p => p.2
  | none => [t]

/-- `type(value)` of a constant -/
def Value.pyType : Value → Ty
  | .null => .none
  | .int _ => .int
  | .dec _ => .dec
  | .str _ => .str
  | .date _ => .date
  | .bool _ => .bool
  | .list _ => .list
  | .set _ => .set
  | .interval _ _ _ => .interval
  | .opaque t _ => Ty.ofName t

def aggKindOf (name : String) (sig : List Ty) : AggKind :=
  match name, sig with
  | "count", [.asterisk] => .countStar
  | "count", _ => .count
  | "sum", _ => .sum
  | "first", _ => .first
  | "last", _ => .last
  | "min", _ => .min
  | "max", _ => .max
  | _, _ => .unknown

/-- constant folding: `EvalConstant(function(None), function.dtype)` -/
def foldConst (e : CExpr) : CM CExpr :=
  match eval [] [] e with
  | .ok v => .ok (.const v e.ty)
  | .error x => .error (.py x)

def lookupColumn (t : TableDef) (name : String) : Option (Nat × Ty) :=
  (t.cols.find? (fun c => c.1 == name)).map (·.2)

/-- `SubqueryTable.columns`: dict assignment keeps the first position, last value -/
def upsertCol (cols : List (String × Nat × Ty)) (name : String) (i : Nat) (ty : Ty) : List (String × Nat × Ty) :=
  if cols.any (fun c => c.1 == name) then cols.map (fun c => if c.1 == name then (name, i, ty) else c)
  else cols ++ [(name, i, ty)]

def subqueryTable (desc : List (String × Ty)) (rows : List Row) : TableDef :=
  let cols := (desc.zipIdx).foldl (fun acc p => upsertCol acc p.1.1 p.2 p.1.2) []
  { name := "", cols := cols, wildcard := cols.map (·.1), rows := rows }

/-- cast inserted for an untyped (`object`) operand: `types.MAP` then `function_lookup` -/
def castTo (target : Ty) (e : CExpr) : Option CExpr :=
  let target := if target == .int then .dec else target
  match Gen.castMap.find? (fun p => p.1 == target) with
  | none => none
  | some (_, fname) =>
    match lookupMro Gen.functions mro fname [e.ty] with
    | some d => some (.func fname [e] (d.outTy [e.ty]))
    | none => none

def typeName (t : Ty) : String := t.name

/-- `_binaryop` for every operator but IN / NOT IN -/
def compileBinop (op : BinOp) (l r : CExpr) : CM CExpr :=
  let attempt (l r : CExpr) : Option (CM CExpr) :=
    match lookupExact Gen.operators op.className [l.ty, r.ty] with
    | some d =>
      let node := CExpr.binop op l r (d.outTy [l.ty, r.ty])
      some (if l.isConst && r.isConst then foldConst node else .ok node)
    | none => none
  match attempt l r with
  | some res => res
  | none =>
    let fail : CM CExpr := .error (.compile s!"operator {op.className} not supported")
    if l.ty == .obj && r.ty != .obj then
      match castTo r.ty l with
      | some l' => (attempt l' r).getD fail
      | none => fail
    else if r.ty == .obj && l.ty != .obj then
      match castTo l.ty r with
      | some r' => (attempt l r').getD fail
      | none => fail
    else fail

def compileUnop (op : UnOp) (e : CExpr) : CM CExpr :=
  match lookupMro Gen.operators mro op.className [e.ty] with
  | none => .error (.compile s!"operator {op.className} not supported")
  | some d =>
    let node := CExpr.unop op (d.kind == .unopSafe) e (d.outTy [e.ty])
    if e.isConst then foldConst node else .ok node

def compileBetween (e lo hi : CExpr) : CM CExpr :=
  match lookupExact Gen.operators "Between" [e.ty, lo.ty, hi.ty] with
  | some _ => .ok (.between e lo hi)
  | none => .error (.compile "operator BETWEEN not supported")

/-- `_function` after the operands are compiled -/
def compileCall (fname : String) (args : List CExpr) (handle : Nat) : CM (CExpr × Nat) :=
  if fname == "coalesce" then
    match args with
    | [] => .error (.compile "coalesce() function requires at least one argument")
    | a :: _ =>
      if args.all (fun x => x.ty == a.ty) then .ok (.coalesce args a.ty, handle)
      else .error (.compile "coalesce() function arguments must have uniform type")
  else
    let sig := args.map (·.ty)
    match lookupMro Gen.functions mro fname sig with
    | none => .error (.compile s!"no function matches {fname}")
    | some d =>
      if fname == "meta" || fname == "entry_meta" || fname == "any_meta" then .error (.py "unmodelled")
      else match d.kind with
      | .aggregate =>
        .ok (.agg (aggKindOf fname d.intypes) fname args (d.outTy sig) handle, handle + 1)
      | .func pure =>
        let node := CExpr.func fname args (d.outTy sig)
        if pure && args.all CExpr.isConst then
          match foldConst node with
          | .ok c => .ok (c, handle)
          | .error x => .error x
        else .ok (node, handle)
      | _ => .error (.py "unmodelled")

/-- value bound to a placeholder (`self.parameters[node.name]`) -/
def bindParam (ctx : Ctx) (name : Option String) (pos : Nat) : CM Value :=
  match name, ctx.params with
  | some n, .map kvs =>
    (match kvs.find? (fun p => p.1 == n) with
     | some p => .ok p.2
     | none => .error (.py "KeyError"))
  | none, .seq vs =>
    (match vs[ctx.positional.idxOf pos]? with
     | some v => .ok v
     | none => .error (.py "IndexError"))
  | _, _ => .error (.py "TypeError")

def hashableTy : Ty → Bool
  | .list | .set | .dict | .inventory => false
  | .other "Metadata" => false
  | _ => true

/-- right operands of IN / NOT IN: collections of values (`set`, `list`, `dict` and their subclasses: an inventory is a
    dict), untyped operands, and a string when the left operand is a string or untyped (substring test) -/
def inSupported (left right : Ty) : Bool :=
  match right with
  | .list | .obj | .none => true
  | .set | .dict | .inventory => hashableTy left          -- membership in sets and dictionaries hashes the left operand
  | .str => left == .str || left == .obj || left == .none
  | _ => false

/-- result of compiling a nested SELECT -/
inductive SubResult
  | query (q : CQuery)
  | pivot
  deriving Inhabited

mutual
/-- `Compiler._compile` on expressions.  `subq` compiles a nested SELECT against the
    current table; `h` is the running aggregate-handle counter. -/
def compileExpr (ctx : Ctx) (tbl : TableDef) (subq : Select → CM SubResult) :
    Expr → Nat → CM (CExpr × Nat)
  | .col name, h =>
    match lookupColumn tbl name with
    | some (i, ty) => .ok (.col i name ty, h)
    | none => .error (.compile s!"column \"{name}\" does not exist")
  | .const v, h => .ok (.const v v.pyType, h)
  | .placeholder name pos, h =>
    match bindParam ctx name pos with
    | .ok v => .ok (.const v v.pyType, h)
    | .error x => .error x
  | .star, h => .ok (.const .null .asterisk, h)
  | .func fname args, h =>
    match compileExprs ctx tbl subq args h with
    | .error x => .error x
    | .ok (cargs, h') => compileCall fname cargs h'
  | .attr e _, h =>
    match compileExpr ctx tbl subq e h with
    | .error x => .error x
    | .ok (ce, _) =>
      if ce.ty == .amount || ce.ty == .position then .error (.py "unmodelled")
      else match ce.ty with
        | .other _ => .error (.py "unmodelled")
        | _ => .error (.compile "column type is not structured")
  | .subscript e _, h =>
    match compileExpr ctx tbl subq e h with
    | .error x => .error x
    | .ok (ce, _) =>
      if ce.ty == .dict || ce.ty == .inventory then .error (.py "unmodelled")
      else match ce.ty with
        | .other _ => .error (.py "unmodelled")
        | _ => .error (.compile "column type is not subscriptable")
  | .unop op e, h =>
    match compileExpr ctx tbl subq e h with
    | .error x => .error x
    | .ok (ce, h') => match compileUnop op ce with
      | .error x => .error x
      | .ok n => .ok (n, h')
  | .binop op l r, h =>
    match compileExpr ctx tbl subq l h with
    | .error x => .error x
    | .ok (cl, h1) =>
      if op == .in || op == .notin then
        -- `_inop`: no overload check; a SELECT on the right is materialised
        match r with
        | .sub q =>
          match subq q with
          | .error x => .error x
          | .ok .pivot => .error (.py "unmodelled")
          | .ok (.query cq) =>
            if cq.description.length != 1 then .error (.compile "subquery has too many columns")
            else match execSelect cq with
              | .error x => .error (.py x)
              | .ok (_, rows) =>
                let vals := rows.map (fun r => r.headD .null)
                let c : CExpr := if vals.isEmpty then .const .null .list else .const (.list vals) .list
                .ok (.binop op cl c .bool, h1)
        | _ =>
          match compileExpr ctx tbl subq r h1 with
          | .error x => .error x
          | .ok (cr, h2) =>
            if inSupported cl.ty cr.ty then .ok (.binop op cl cr .bool, h2)
            else .error (.compile "operator in not supported")
      else
        match compileExpr ctx tbl subq r h1 with
        | .error x => .error x
        | .ok (cr, h2) => match compileBinop op cl cr with
          | .error x => .error x
          | .ok n => .ok (n, h2)
  | .between e lo hi, h =>
    match compileExpr ctx tbl subq e h with
    | .error x => .error x
    | .ok (ce, h1) => match compileExpr ctx tbl subq lo h1 with
      | .error x => .error x
      | .ok (cl, h2) => match compileExpr ctx tbl subq hi h2 with
        | .error x => .error x
        | .ok (ch, h3) => match compileBetween ce cl ch with
          | .error x => .error x
          | .ok n => .ok (n, h3)
  | .and es, h =>
    match compileExprs ctx tbl subq es h with
    | .error x => .error x
    | .ok (ces, h') => .ok (.and ces, h')
  | .or es, h =>
    match compileExprs ctx tbl subq es h with
    | .error x => .error x
    | .ok (ces, h') => .ok (.or ces, h')
  | .sub _, _ => .error (.py "AttributeError")
def compileExprs (ctx : Ctx) (tbl : TableDef) (subq : Select → CM SubResult) :
    List Expr → Nat → CM (List CExpr × Nat)
  | [], h => .ok ([], h)
  | e :: es, h =>
    match compileExpr ctx tbl subq e h with
    | .error x => .error x
    | .ok (ce, h1) => match compileExprs ctx tbl subq es h1 with
      | .error x => .error x
      | .ok (ces, h2) => .ok (ce :: ces, h2)
end

/-! ### targets -/

/-- `get_target_name` -/
def targetName : Target → CM String
  | .mk e alias text =>
    match alias with
    | some a => .ok a
    | none => match e with
      | .col n => .ok n
      | _ => if text == "" then .error (.py "AttributeError") else .ok text

/-- the two checks of `_compile_targets` on one compiled target -/
def checkTarget (ce : CExpr) : CM Unit :=
  if !ce.cols.isEmpty && !ce.aggs.isEmpty then
    .error (.compile "mixed aggregates and non-aggregates are not allowed")
  else if ce.aggs.any (fun a => a.children.any CExpr.isAggregate) then
    .error (.compile "aggregates of aggregates are not allowed")
  else .ok ()

def compileTargets (ctx : Ctx) (tbl : TableDef) (subq : Select → CM SubResult) :
    List Target → Nat → CM (List CTarget × Nat)
  | [], h => .ok ([], h)
  | t :: ts, h =>
    match compileExpr ctx tbl subq t.expr h with
    | .error x => .error x
    | .ok (ce, h1) =>
      match targetName t with
      | .error x => .error x
      | .ok name =>
        match checkTarget ce with
        | .error x => .error x
        | .ok () =>
          match compileTargets ctx tbl subq ts h1 with
          | .error x => .error x
          | .ok (cts, h2) => .ok (⟨ce, some name, ce.isAggregate⟩ :: cts, h2)

def wildcardTargets (tbl : TableDef) : List Target :=
  tbl.wildcard.map (fun n => Target.mk (.col n) none n)

/-! ### GROUP BY, ORDER BY, PIVOT BY resolution (non-recursive given compiled keys) -/

/-- a key after its expression (if any) has been compiled -/
inductive CKey
  | idx (n : Nat)                          -- 1-based position
  | name (n : String) (ce : Option CExpr)  -- bare column reference: name + compiled column if it resolves
  | expr (ce : CExpr)
  deriving Repr, Inhabited

/-- last index whose target has the given name -/
def lastIndexOfName (ts : List CTarget) (n : String) : Option Nat :=
  ((List.range ts.length).filter (fun i => match ts[i]? with
    | some t => t.name == some n | none => false)).getLast?

def indexOfExpr (ts : List CTarget) (ce : CExpr) : Option Nat :=
  let i := ts.findIdx (fun t => CExpr.eqv t.expr ce)
  if i < ts.length then some i else none


/-- resolution of one GROUP BY column against the targets so far (`compiler.py:360-408`).
    `nvis` is the number of SELECT-list targets; `ts` also holds hidden ones added so far. -/
def resolveGroupKey (nvis : Nat) (visible : List CTarget) (ts : List CTarget) (k : CKey) (unresolved : CM CExpr) :
    CM (List CTarget × Nat) :=
  let finish (ts : List CTarget) (index : Nat) : CM (List CTarget × Nat) :=
    match ts[index]? with
    | none => .error (.py "IndexError")
    | some t =>
      if t.expr.isAggregate then .error (.compile "GROUP-BY expressions may not reference aggregates")
      else if !hashableTy t.expr.ty then .error (.compile "GROUP-BY a non-hashable type is not supported")
      else .ok (ts, index)
  let byExpr (ce : CExpr) : CM (List CTarget × Nat) :=
    if ce.isAggregate then .error (.compile "GROUP-BY expressions may not be aggregates")
    else match indexOfExpr ts ce with
      | some i => finish ts i
      | none => finish (ts ++ [⟨ce, none, false⟩]) ts.length
  match k with
  | .idx n =>
    if 1 ≤ n && n ≤ nvis then finish ts (n - 1) else .error (.compile "invalid GROUP-BY column index")
  | .name n ce =>
    match lastIndexOfName visible n with
    | some i => finish ts i
    | none => match ce with
      | some ce => byExpr ce
      | none => match unresolved with
        | .error x => .error x
        | .ok ce => byExpr ce
  | .expr ce => byExpr ce

/-- resolution of one ORDER BY column (`compiler.py:242-278`) -/
def resolveOrderKey (ntargets : Nat) (named : List CTarget) (ts : List CTarget) (k : CKey) (unresolved : CM CExpr) :
    CM (List CTarget × Nat) :=
  let byExpr (ce : CExpr) : CM (List CTarget × Nat) :=
    if !ce.cols.isEmpty && !ce.aggs.isEmpty then
      .error (.compile "mixed aggregates and non-aggregates are not allowed")
    else match indexOfExpr ts ce with
    | some i => .ok (ts, i)
    | none => .ok (ts ++ [⟨ce, none, ce.isAggregate⟩], ts.length)
  match k with
  | .idx n =>
    if 1 ≤ n && n ≤ ntargets then .ok (ts, n - 1) else .error (.compile "invalid ORDER-BY column index")
  | .name n ce =>
    match lastIndexOfName named n with
    | some i => .ok (ts, i)
    | none => match ce with
      | some ce => byExpr ce
      | none => match unresolved with
        | .error x => .error x
        | .ok ce => byExpr ce
  | .expr ce => byExpr ce

/-- number of distinct non-`None` names (`len(targets_name_map)`) -/
def distinctNames (ts : List CTarget) : Nat :=
  ((ts.filterMap (·.name)).foldl (fun acc n => if acc.contains n then acc else acc ++ [n]) []).length

/-! ### SELECT -/

def compileKey (ctx : Ctx) (tbl : TableDef) (subq : Select → CM SubResult) (k : KeyRef) (h : Nat) :
    CM (CKey × CM CExpr × Nat) :=
  match k with
  | .idx n => .ok (.idx n, .error (.py "unreachable"), h)
  | .expr (.col n) =>
    -- resolved lazily: a name that matches a target is never compiled as a column
    match compileExpr ctx tbl subq (.col n) h with
    | .ok (ce, h') => .ok (.name n (some ce), .ok ce, h')
    | .error x => .ok (.name n none, .error x, h)
  | .expr e =>
    match compileExpr ctx tbl subq e h with
    | .error x => .error x
    | .ok (ce, h') => .ok (.expr ce, .ok ce, h')

def compileGroupKeys (ctx : Ctx) (tbl : TableDef) (subq : Select → CM SubResult) (nvis : Nat) (visible : List CTarget) :
    List KeyRef → List CTarget → Nat → CM (List CTarget × List Nat × Nat)
  | [], ts, h => .ok (ts, [], h)
  | k :: ks, ts, h =>
    match compileKey ctx tbl subq k h with
    | .error x => .error x
    | .ok (ck, unres, h1) =>
      match resolveGroupKey nvis visible ts ck unres with
      | .error x => .error x
      | .ok (ts', i) =>
        match compileGroupKeys ctx tbl subq nvis visible ks ts' h1 with
        | .error x => .error x
        | .ok (ts'', is, h2) => .ok (ts'', i :: is, h2)

def compileOrderKeys (ctx : Ctx) (tbl : TableDef) (subq : Select → CM SubResult) (ntargets : Nat) (named : List CTarget) :
    List (KeyRef × Bool) → List CTarget → Nat → CM (List CTarget × List (Nat × Bool) × Nat)
  | [], ts, h => .ok (ts, [], h)
  | (k, desc) :: ks, ts, h =>
    match compileKey ctx tbl subq k h with
    | .error x => .error x
    | .ok (ck, unres, h1) =>
      match resolveOrderKey ntargets named ts ck unres with
      | .error x => .error x
      | .ok (ts', i) =>
        match compileOrderKeys ctx tbl subq ntargets named ks ts' h1 with
        | .error x => .error x
        | .ok (ts'', spec, h2) => .ok (ts'', (i, desc) :: spec, h2)

/-- implicit GROUP BY / no grouping (`compiler.py:419-442`) -/
def implicitGroup (ts : List CTarget) : Option (List Nat) :=
  if ts.any (·.isAgg) then
    if ts.all (·.isAgg) then some []
    else some ((List.range ts.length).filter (fun i => match ts[i]? with | some t => !t.isAgg | none => false))
  else none

/-- the coverage check (`compiler.py:115-123`) -/
def coverageOk (ts : List CTarget) (g : List Nat) : Bool :=
  let nonAgg := (List.range ts.length).filter (fun i => match ts[i]? with | some t => !t.isAgg | none => false)
  nonAgg.all (fun i => g.contains i) && g.all (fun i => nonAgg.contains i)

/-- `_compile_pivot_by` -/
def compilePivot (ts : List CTarget) (g : Option (List Nat)) (pv : List KeyRef) : CM (Option (Nat × Nat)) :=
  match pv with
  | [] => .ok none
  | [a, b] =>
    let one (k : KeyRef) : CM Nat :=
      match k with
      | .idx n =>
        -- only SELECT-list targets (those with a name) can be referenced by position
        if 1 ≤ n && n ≤ (ts.filter (fun t => t.name.isSome)).length then .ok (n - 1)
        else .error (.compile "invalid PIVOT BY column index")
      | .expr (.col n) =>
        (match lastIndexOfName ts n with
         | some i => .ok i
         | none => .error (.compile "PIVOT BY column is not in the targets list"))
      | _ => .error (.py "RuntimeError")
    match one a with
    | .error x => .error x
    | .ok i => match one b with
      | .error x => .error x
      | .ok j =>
        if i == j then .error (.compile "the two PIVOT BY columns cannot be the same column")
        else match g with
          | none => .error (.compile "the second PIVOT BY column must be a GROUP BY column")
          | some g => if g.contains j then .ok (some (i, j))
                      else .error (.compile "the second PIVOT BY column must be a GROUP BY column")
  | _ => .error (.py "ValueError")

inductive Compiled
  | query (q : CQuery)
  | pivot (q : CQuery) (c1 c2 : Nat)
  deriving Inhabited

def andWhere (f w : Option CExpr) : Option CExpr :=
  match f, w with
  | none, w => w
  | some f, none => some f
  | some f, some w => some (.and [f, w])

/-- what an expression sees of a compiled nested SELECT -/
def subqOf (r : CM Compiled) : CM SubResult :=
  match r with
  | .error x => .error x
  | .ok (.query cq) => .ok (.query cq)
  | .ok (.pivot _ _ _) => .ok .pivot

/-- `Compiler._select` with the current table `outer` (what `self.table` is on entry). -/
def compileSelect (ctx : Ctx) : Nat → TableDef → Select → CM Compiled
  | 0, _, _ => .error .fuel
  | fuel + 1, outer, sel =>
    let subqFor (tbl : TableDef) : Select → CM SubResult := fun q => subqOf (compileSelect ctx fuel tbl q)
    -- FROM
    let fromRes : CM (TableDef × Option CExpr × Nat) :=
      match sel.from_ with
      | .none => .ok (outer, none, 0)
      | .table n =>
        (match ctx.db.find? (fun t => t.name == n) with
         | some t => .ok (t, none, 0)
         | none => .error (.compile s!"table \"{n}\" does not exist"))
      | .sub q =>
        (match compileSelect ctx fuel outer q with
         | .error x => .error x
         | .ok (.pivot _ _ _) => .error (.compile "PIVOT BY is not supported in subqueries")
         | .ok (.query cq) =>
           match execSelect cq with
           | .error x => .error (.py x)
           | .ok (desc, rows) => .ok (subqueryTable desc rows, none, 0))
      | .from e open_ close clear =>
        let ce : CM (Option CExpr × Nat) :=
          match e with
          | none => .ok (none, 0)
          | some e => match compileExpr ctx outer (subqFor outer) e 0 with
            | .error x => .error x
            | .ok (c, h) => .ok (some c, h)
        match ce with
        | .error x => .error x
        | .ok (c, h) =>
          if (match c with | some c => c.isAggregate | none => false) then
            .error (.compile "aggregates are not allowed in FROM clause")
          else
            let dateCheck : CM Unit :=
              match open_, close with
              | some o, .on d => if d.lt o then .error (.compile "CLOSE date must follow OPEN date") else .ok ()
              | _, _ => .ok ()
            match dateCheck with
            | .error x => .error x
            | .ok () =>
              if outer.updatable then
                if open_.isSome || close != .absent || clear then .error (.py "unmodelled")
                else .ok (outer, c, h)
              else .error (.py "AttributeError")
    match fromRes with
    | .error x => .error x
    | .ok (tbl, cfrom, h0) =>
    let subq := subqFor tbl
    -- targets
    let tlist := match sel.targets with | some ts => ts | none => wildcardTargets tbl
    match compileTargets ctx tbl subq tlist h0 with
    | .error x => .error x
    | .ok (cts, h1) =>
    -- WHERE
    let cw : CM (Option CExpr × Nat) :=
      match sel.where_ with
      | none => .ok (none, h1)
      | some w => match compileExpr ctx tbl subq w h1 with
        | .error x => .error x
        | .ok (c, h) => .ok (some c, h)
    match cw with
    | .error x => .error x
    | .ok (cwhere, h2) =>
    if (match cwhere with | some c => c.isAggregate | none => false) then
      .error (.compile "aggregates are not allowed in WHERE clause")
    else
    let cwhere := andWhere cfrom cwhere
    -- GROUP BY
    let grp : CM (List CTarget × Option (List Nat) × Option Nat × Nat) :=
      if sel.groupBy.isEmpty then
        (match sel.having with
         | some _ => .ok (cts, implicitGroup cts, none, h2)   -- unreachable from text: HAVING needs GROUP BY
         | none => .ok (cts, implicitGroup cts, none, h2))
      else
        match compileGroupKeys ctx tbl subq cts.length cts sel.groupBy cts h2 with
        | .error x => .error x
        | .ok (ts, gidx, h3) =>
          match sel.having with
          | none => .ok (ts, some gidx, none, h3)
          | some hv =>
            match compileExpr ctx tbl subq hv h3 with
            | .error x => .error x
            | .ok (ch, h4) =>
              if !ch.isAggregate then .error (.compile "the HAVING clause must be an aggregate expression")
              else if !ch.cols.isEmpty then .error (.compile "mixed aggregates and non-aggregates are not allowed")
              else .ok (ts ++ [⟨ch, none, true⟩], some gidx, some ts.length, h4)
    match grp with
    | .error x => .error x
    | .ok (ts1, gidx, hidx, h5) =>
    -- ORDER BY
    let ord : CM (List CTarget × Option (List (Nat × Bool)) × Nat) :=
      if sel.orderBy.isEmpty then .ok (ts1, none, h5)
      else match compileOrderKeys ctx tbl subq (ts1.filter (fun t => t.name.isSome)).length ts1 sel.orderBy ts1 h5 with
        | .error x => .error x
        | .ok (ts, spec, h) => .ok (ts, some spec, h)
    match ord with
    | .error x => .error x
    | .ok (ts2, spec, _) =>
    -- coverage
    if (match gidx with | some g => !coverageOk ts2 g | none => false) then
      .error (.compile "all non-aggregates must be covered by GROUP-BY clause in aggregate query")
    else
    let q : CQuery := { table := tbl.rows, targets := ts2, where_ := cwhere, groupIdx := gidx,
                        havingIdx := hidx, orderSpec := spec, limit := sel.limit, distinct := sel.distinct }
    match compilePivot ts2 gidx sel.pivotBy with
    | .error x => .error x
    | .ok none => .ok (.query q)
    | .ok (some (i, j)) => .ok (.pivot q i j)

/-! ### placeholders (`Compiler.compile`) -/

mutual
def Expr.placeholders : Expr → List (Option String × Nat)
  | .placeholder n p => [(n, p)]
  | .func _ as => Expr.placeholdersL as
  | .attr e _ => e.placeholders
  | .subscript e _ => e.placeholders
  | .unop _ e => e.placeholders
  | .binop _ l r => l.placeholders ++ r.placeholders
  | .between a b c => a.placeholders ++ b.placeholders ++ c.placeholders
  | .and es => Expr.placeholdersL es
  | .or es => Expr.placeholdersL es
  | .sub q => q.placeholders
  | _ => []
def Expr.placeholdersL : List Expr → List (Option String × Nat)
  | [] => []
  | e :: es => e.placeholders ++ Expr.placeholdersL es
def Target.placeholders : Target → List (Option String × Nat)
  | .mk e _ _ => e.placeholders
def Target.placeholdersL : List Target → List (Option String × Nat)
  | [] => []
  | t :: ts => t.placeholders ++ Target.placeholdersL ts
def KeyRef.placeholders : KeyRef → List (Option String × Nat)
  | .idx _ => []
  | .expr e => e.placeholders
def KeyRef.placeholdersL : List KeyRef → List (Option String × Nat)
  | [] => []
  | k :: ks => k.placeholders ++ KeyRef.placeholdersL ks
def OrderKeys.placeholdersL : List (KeyRef × Bool) → List (Option String × Nat)
  | [] => []
  | (k, _) :: ks => k.placeholders ++ OrderKeys.placeholdersL ks
def FromC.placeholders : FromC → List (Option String × Nat)
  | .none => []
  | .table _ => []
  | .sub q => q.placeholders
  | .from e _ _ _ => match e with | some e => e.placeholders | none => []
def Select.placeholders : Select → List (Option String × Nat)
  | .mk ts f w g hv o _ _ _ =>
    (match ts with | some ts => Target.placeholdersL ts | none => []) ++ f.placeholders ++
    (match w with | some e => e.placeholders | none => []) ++ KeyRef.placeholdersL g ++
    (match hv with | some e => e.placeholders | none => []) ++ OrderKeys.placeholdersL o
end

def insertNat (x : Nat) : List Nat → List Nat
  | [] => [x]
  | y :: ys => if x ≤ y then x :: y :: ys else y :: insertNat x ys
def sortNat (l : List Nat) : List Nat := l.foldr insertNat []

/-- the parameter validation of `Compiler.compile` (`compiler.py:52-70`) -/
def checkParams (phs : List (Option String × Nat)) (params : Params) : CM Unit :=
  if phs.isEmpty then .ok () else
  let named := phs.filter (fun p => p.1.isSome)
  if named.length == phs.length then
    match params with
    | .map kvs =>
      if named.all (fun p => match p.1 with | some n => kvs.any (fun kv => kv.1 == n) | none => true) then .ok ()
      else .error (.programming "query parameter missing")
    | _ => .error (.py "TypeError")
  else if named.isEmpty then
    match params with
    | .seq vs =>
      if vs.length == phs.length then .ok ()
      else .error (.programming "wrong number of parameters")
    | _ => .error (.py "TypeError")
  else .error (.programming "positional and named parameters cannot be mixed")

def defaultTable (db : List TableDef) : TableDef :=
  match db.find? (fun t => t.name == "postings") with
  | some t => t
  | none => { name := "<none>", cols := [], wildcard := [], rows := [] }

/-- `compiler.compile(context, statement, parameters)` for a SELECT statement -/
def compileStmt (db : List TableDef) (params : Params) (sel : Select) : CM Compiled :=
  let phs := sel.placeholders
  match checkParams phs params with
  | .error x => .error x
  | .ok () =>
    let ctx : Ctx := { db := db, params := params,
                       positional := sortNat ((phs.filter (fun p => p.1.isNone)).map (·.2)) }
    compileSelect ctx 64 (defaultTable db) sel

end Bql
