/-
  BALANCES / JOURNAL expansion (`compiler.py:640-698`) as syntax documents printed exactly like
  `ast.tosexp`, and PRINT as a filter (`query_execute.py:26-45`).
-/
namespace Bql

/-- the shape `tosexp` prints: a node with named fields, a list, or an atom (`repr` of a value) -/
inductive Doc
  | node (name : String) (fields : List (String × Doc))
  | list (items : List Doc)
  | atom (text : String)
  deriving Repr, Inhabited

mutual
/-- structural equality test (the nested type has no derived `DecidableEq`) -/
def Doc.beq : Doc → Doc → Bool
  | .atom a, .atom b => a == b
  | .node n fs, .node m gs => n == m && Doc.beqFields fs gs
  | .list xs, .list ys => Doc.beqList xs ys
  | _, _ => false
def Doc.beqFields : List (String × Doc) → List (String × Doc) → Bool
  | [], [] => true
  | (n, d) :: fs, (m, e) :: gs => n == m && Doc.beq d e && Doc.beqFields fs gs
  | _, _ => false
def Doc.beqList : List Doc → List Doc → Bool
  | [], [] => true
  | d :: ds, e :: es => Doc.beq d e && Doc.beqList ds es
  | _, _ => false
end

/-- `textwrap.indent(text, '  ')`: prefix every non-empty line -/
def indentLines (ls : List String) : List String := ls.map (fun l => if l == "" then l else "  " ++ l)

/-- append the closing parenthesis to the last line -/
def closeLast (ls : List String) : List String :=
  match ls.reverse with
  | [] => [")"]
  | l :: rev => ((l ++ ")") :: rev).reverse

mutual
/-- lines of `tosexp(doc)` -/
def Doc.lines : Doc → List String
  | .atom t => [t]
  | .node name fields =>
    let body := Doc.fieldLines fields
    match body with
    | [] => ["(" ++ name, ")"]   -- not produced by the templates
    | _ => ("(" ++ name) :: closeLast (indentLines body)
  | .list items =>
    let body := Doc.itemLines items
    "(" :: closeLast (indentLines body)
def Doc.fieldLines : List (String × Doc) → List String
  | [] => []
  | (n, d) :: rest =>
    (match d.lines with
     | [] => [n ++ ": "]
     | l :: ls => (n ++ ": " ++ l) :: ls) ++ Doc.fieldLines rest
def Doc.itemLines : List Doc → List String
  | [] => []
  | d :: rest => d.lines ++ Doc.itemLines rest
end

def Doc.render (d : Doc) : String := "\n".intercalate d.lines

def colDoc (name : String) : Doc := .node "column" [("name", .atom ("'" ++ name ++ "'"))]
def fnDoc (fname : String) (args : List Doc) : Doc := .node "function" [("fname", .atom ("'" ++ fname ++ "'")), ("operands", .list args)]
def targetDoc (e : Doc) : Doc := .node "target" [("expression", e)]
def intDoc (n : Nat) : Doc := .node "constant" [("value", .atom (toString n))]
def strDoc (s : String) : Doc := .node "constant" [("value", .atom ("'" ++ s ++ "'"))]

/-- `f(x)` for an optional summary function -/
def summaryDoc (f : Option String) (x : Doc) : Doc :=
  match f with
  | some g => fnDoc g [x]
  | none => x

/-- optional clause fields, in the order `tosexp` prints them -/
def optField (name : String) (d : Option Doc) : List (String × Doc) :=
  match d with
  | some d => [(name, d)]
  | none => []

/-- BALANCES [AT f] [FROM frm] [WHERE whr]:  SELECT account, sum(f(position)) [FROM frm] [WHERE whr]
    GROUP BY account, account_sortkey(account) ORDER BY account_sortkey(account) -/
def balancesDocFW (f : Option String) (frm whr : Option Doc) : Doc :=
  .node "select" ([
    ("targets", .list [targetDoc (colDoc "account"), targetDoc (fnDoc "sum" [summaryDoc f (colDoc "position")])])] ++
    optField "from-clause" frm ++ optField "where-clause" whr ++ [
    ("group-by", .node "groupby" [("columns", .list [colDoc "account", fnDoc "account_sortkey" [colDoc "account"]])]),
    ("order-by", .list [.node "orderby" [("column", fnDoc "account_sortkey" [colDoc "account"]), ("ordering", .atom "asc")]])])

def balancesDoc (f : Option String) : Doc := balancesDocFW f none none

/-- JOURNAL [account] [AT f] [FROM frm]:  SELECT date, flag, maxwidth(payee, 48), maxwidth(narration, 80), account,
    f(position), f(balance) [FROM frm] [WHERE account ~ "account"] -/
def journalDocF (account : Option String) (f : Option String) (frm : Option Doc) : Doc :=
  .node "select" ([
    ("targets", .list [targetDoc (colDoc "date"), targetDoc (colDoc "flag"),
                       targetDoc (fnDoc "maxwidth" [colDoc "payee", intDoc 48]),
                       targetDoc (fnDoc "maxwidth" [colDoc "narration", intDoc 80]),
                       targetDoc (colDoc "account"),
                       targetDoc (summaryDoc f (colDoc "position")), targetDoc (summaryDoc f (colDoc "balance"))])] ++
    optField "from-clause" frm ++
    (match account with
     | some a => [("where-clause", .node "match" [("left", colDoc "account"), ("right", strDoc a)])]
     | none => []))

def journalDoc (account : Option String) (f : Option String) : Doc := journalDocF account f none

/-- the sentinel clauses the translator hands to the live transforms -/
def sentinelFrom : Doc :=
  .node "from" [("expression", colDoc "vp_from"), ("close", .atom "True"), ("clear", .atom "True")]
def sentinelWhere : Doc := colDoc "vp_where"

/-- `execute_print`: the loop that collects the entries satisfying the FROM expression -/
def printLoop {E : Type} (p : E → Bool) (entries : List E) : List E :=
  entries.foldl (fun acc e => if p e then acc ++ [e] else acc) []

end Bql
