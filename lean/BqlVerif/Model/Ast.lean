/-
  BQL abstract syntax, one constructor per node class of `beanquery/parser/ast.py`.
-/
import BqlVerif.Model.Value
namespace Bql

inductive UnOp | not | neg | isnull | isnotnull
  deriving DecidableEq, Repr, Inhabited

inductive BinOp
  | eq | ne | gt | ge | lt | le | «match» | notmatch | «in» | notin | add | sub | mul | div | mod
  deriving DecidableEq, Repr, Inhabited

def UnOp.className : UnOp → String
  | .not => "Not" | .neg => "Neg" | .isnull => "IsNull" | .isnotnull => "IsNotNull"

def BinOp.className : BinOp → String
  | .eq => "Equal" | .ne => "NotEqual" | .gt => "Greater" | .ge => "GreaterEq" | .lt => "Less"
  | .le => "LessEq" | .match => "Match" | .notmatch => "NotMatch" | .in => "In" | .notin => "NotIn"
  | .add => "Add" | .sub => "Sub" | .mul => "Mul" | .div => "Div" | .mod => "Mod"

/-- CLOSE clause: absent, present without a date (`True`), or with a date. -/
inductive CloseSpec | absent | flag | on (d : Date)
  deriving DecidableEq, Repr, Inhabited

mutual
inductive Expr
  | col (name : String)
  | const (v : Value)
  | placeholder (name : Option String) (pos : Nat)
  | star
  | func (fname : String) (args : List Expr)
  | attr (e : Expr) (name : String)
  | subscript (e : Expr) (key : String)
  | unop (op : UnOp) (e : Expr)
  | binop (op : BinOp) (l r : Expr)
  | between (e lo hi : Expr)
  | and (es : List Expr)
  | or (es : List Expr)
  | sub (q : Select)
/-- a SELECT target: expression, AS alias, source text of the expression (for naming) -/
inductive Target
  | mk (e : Expr) (alias : Option String) (text : String)
/-- GROUP BY / ORDER BY key: 1-based position or expression -/
inductive KeyRef
  | idx (n : Nat)
  | expr (e : Expr)
inductive FromC
  | none
  | table (name : String)
  | sub (q : Select)
  | from (e : Option Expr) (open_ : Option Date) (close : CloseSpec) (clear : Bool)
inductive Select
  | mk (targets : Option (List Target))        -- none = `*`
       (from_ : FromC)
       (where_ : Option Expr)
       (groupBy : List KeyRef) (having : Option Expr)
       (orderBy : List (KeyRef × Bool))          -- (key, descending)
       (pivotBy : List KeyRef)                   -- [] or two entries (idx n | expr (col name))
       (limit : Option Nat)
       (distinct : Bool)
end

instance : Inhabited Expr := ⟨.star⟩
instance : Inhabited Select := ⟨.mk none .none none [] none [] [] none false⟩

def Target.expr : Target → Expr | .mk e _ _ => e
def Target.alias : Target → Option String | .mk _ a _ => a
def Target.text : Target → String | .mk _ _ t => t

def Select.targets : Select → Option (List Target) | .mk t _ _ _ _ _ _ _ _ => t
def Select.from_ : Select → FromC | .mk _ f _ _ _ _ _ _ _ => f
def Select.where_ : Select → Option Expr | .mk _ _ w _ _ _ _ _ _ => w
def Select.groupBy : Select → List KeyRef | .mk _ _ _ g _ _ _ _ _ => g
def Select.having : Select → Option Expr | .mk _ _ _ _ h _ _ _ _ => h
def Select.orderBy : Select → List (KeyRef × Bool) | .mk _ _ _ _ _ o _ _ _ => o
def Select.pivotBy : Select → List KeyRef | .mk _ _ _ _ _ _ p _ _ => p
def Select.limit : Select → Option Nat | .mk _ _ _ _ _ _ _ l _ => l
def Select.distinct : Select → Bool | .mk _ _ _ _ _ _ _ _ d => d

end Bql
