/-
  Shape of the generated registry facts (operator / function overload tables,
  MRO, cast map) and the two lookups the compiler performs on them.
  The *data* lives in `BqlVerif/Generated/Registry.lean`, regenerated from the
  live Python registries by `harness/gen_tables.py` on every run.
-/
import BqlVerif.Model.Value
namespace Bql

inductive DeclKind
  | unopSafe        -- EvalUnaryOpSafe: NULL operand gives NULL
  | unopRaw         -- EvalUnaryOp (nullsafe=True in the decorator): operand passed through
  | binop
  | between
  | func (pure : Bool)
  | aggregate
  deriving DecidableEq, Repr, Inhabited

/-- declared output type: a fixed type, or "the dtype of the first operand". -/
inductive OutTy
  | fixed (t : Ty)
  | arg0
  deriving DecidableEq, Repr, Inhabited

structure Decl where
  name : String            -- AST class name for operators ("Add"), BQL name for functions ("year")
  intypes : List Ty
  out : OutTy
  kind : DeclKind
  deriving DecidableEq, Repr, Inhabited

/-- `AnyType.__eq__`: `Any` compares equal to every object that is a `type`; the pseudo-type of `*` (a `typing.NewType`
    object) is not one, so no `Any` overload takes a `*` operand. -/
def tyMatch (declared actual : Ty) : Bool := (declared == .any && actual != .asterisk) || declared == actual

def sigMatch : List Ty → List Ty → Bool
  | [], [] => true
  | d :: ds, a :: as => tyMatch d a && sigMatch ds as
  | _, _ => false

/-- exact signature match in registration order (`_binaryop`, `_between`). -/
def lookupExact (decls : List Decl) (name : String) (sig : List Ty) : Option Decl :=
  decls.find? (fun d => d.name == name && sigMatch d.intypes sig)

/-- cartesian product in `itertools.product` order -/
def product : List (List Ty) → List (List Ty)
  | [] => [[]]
  | xs :: rest => xs.flatMap (fun x => (product rest).map (fun r => x :: r))

/-- `types.function_lookup`: first signature in MRO-product order with a matching overload. -/
def lookupMro (decls : List Decl) (mro : Ty → List Ty) (name : String) (sig : List Ty) : Option Decl :=
  (product (sig.map mro)).findSome? (fun s => lookupExact decls name s)

def Decl.outTy (d : Decl) (sig : List Ty) : Ty :=
  match d.out with
  | .fixed t => t
  | .arg0 => sig.headD .obj

end Bql
