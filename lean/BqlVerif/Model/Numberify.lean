/-
  `numberify_results` (`beanquery/numberify.py:70-252`): amount-like columns are replaced by one
  decimal column per currency.
-/
import BqlVerif.Model.Exec
namespace Bql

/-- a result cell as numberify sees it -/
inductive NCell
  | null
  | plain (v : Value)
  | amount (n : Dec) (cur : String)
  | position (n : Dec) (cur : String)            -- units of the position (cost is irrelevant here)
  | inventory (lots : List (Dec × String))       -- units of every lot
  deriving Repr, Inhabited

inductive NKind | plain | amount | position | inventory
  deriving DecidableEq, Repr, Inhabited

/-- `currency_map[cur] += 1` on an insertion-ordered dict -/
def bump (cur : String) : List (String × Nat) → List (String × Nat)
  | [] => [(cur, 1)]
  | (c, n) :: rest => if c == cur then (c, n + 1) :: rest else (c, n) :: bump cur rest

def dedupStr : List String → List String
  | [] => []
  | s :: ss => s :: (dedupStr ss).filter (· != s)

/-- currencies a cell contributes to the census of its column (each at most once per row) -/
def cellCurrencies (k : NKind) : NCell → List String
  | .amount _ c => if k == .amount && c != "" then [c] else []
  | .position _ c => if k == .position && c != "" then [c] else []
  | .inventory lots => if k == .inventory then dedupStr (lots.map (·.2)) else []
  | _ => []

def census (k : NKind) (cells : List NCell) : List (String × Nat) :=
  cells.foldl (fun m cell => (cellCurrencies k cell).foldl (fun m c => bump c m) m) []

/-- `(count, currency)` tuple order -/
def countCurLt (a b : String × Nat) : Bool := a.2 < b.2 || (a.2 == b.2 && a.1 < b.1)

/-- `sorted(currency_map.items(), key=lambda item: (item[1], item[0]), reverse=True)` -/
def orderCurrencies (m : List (String × Nat)) : List String :=
  (stableSort (fun a b => countCurLt b a) m).map (·.1)

/-- total units of one currency in an inventory: `get_currency_units(cur).number` -/
def inventoryUnits (lots : List (Dec × String)) (cur : String) : Dec :=
  lots.foldl (fun acc l => if l.2 == cur then Dec.add acc l.1 else acc) ⟨0, 0⟩

/-- optional quantisation to the currency's display precision -/
def applyQ (q : Option (Dec → String → Dec)) (n : Dec) (cur : String) : Dec :=
  match q with | some f => f n cur | none => n

/-- the converter of one (column, currency) applied to a cell; `q` = optional quantisation -/
def convertCell (k : NKind) (cur : String) (q : Option (Dec → String → Dec)) : NCell → Option Dec
  | .amount n c => if k == .amount && c == cur then some (applyQ q n cur) else none
  | .position n c => if k == .position && c == cur then some (applyQ q n cur) else none
  | .inventory lots =>
    if k == .inventory then
      let n := inventoryUnits lots cur
      -- `if number and dformat: number = quantize(number)`; `return number or None`
      if (applyQ q n cur).coef == 0 || n.coef == 0 then none
      else some (applyQ q n cur)
    else none
  | _ => none

inductive OutCell | keep (c : NCell) | num (d : Option Dec)
  deriving Repr, Inhabited

/-- one converter: identity on a plain column, or (column, currency) -/
inductive Conv | identity (idx : Nat) | cur (idx : Nat) (k : NKind) (c : String)
  deriving Repr, Inhabited

def column (rows : List (List NCell)) (i : Nat) : List NCell := rows.map (fun r => r.getD i .null)

def buildConverters (cols : List (String × NKind)) (rows : List (List NCell)) : List (String × Conv) :=
  (cols.zipIdx).flatMap (fun p =>
    let name := p.1.1; let k := p.1.2; let i := p.2
    if k == .plain then [(name, Conv.identity i)]
    else (orderCurrencies (census k (column rows i))).map (fun c => (name ++ " (" ++ c ++ ")", Conv.cur i k c)))

def applyConv (q : Option (Dec → String → Dec)) (row : List NCell) : Conv → OutCell
  | .identity i => .keep (row.getD i .null)
  | .cur i k c => .num (convertCell k c q (row.getD i .null))

def numberify (cols : List (String × NKind)) (rows : List (List NCell)) (q : Option (Dec → String → Dec)) :
    List String × List (List OutCell) :=
  let convs := buildConverters cols rows
  (convs.map (·.1), rows.map (fun r => convs.map (fun c => applyConv q r c.2)))

end Bql
