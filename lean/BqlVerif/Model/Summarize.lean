/-
  OPEN / CLOSE / CLEAR: `BeanTable.prepare` (`query_env.py:917-937`) over a Lean rendering of the
  Beancount 3.2.3 functions it calls (`beancount/ops/summarize.py`: open = clear(before d) then
  summarize; close = truncate; clear = transfer_balances), restricted to transactions and to
  ledgers without price conversions (the conversion entries are outside the model).

  Numbers are exact integers at scale `S`; the cost of `n` units at cost number `c` is `n * c / S`.
-/
import BqlVerif.Model.Inventory
namespace Bql.Summ

def S : Int := 1000000

structure Posting where
  account : String
  key : LotKey
  num : Int
  deriving DecidableEq, Repr, Inhabited

inductive TxnKind | original (idx : Nat) | summarize | transfer
  deriving DecidableEq, Repr, Inhabited

structure Txn where
  date : Nat            -- ordinal
  kind : TxnKind
  postings : List Posting
  deriving DecidableEq, Repr, Inhabited

/-- balancing weight of a posting: its cost when held at cost, else its units (`convert.get_cost`) -/
def weight (p : Posting) : LotKey × Int :=
  match p.key.cost with
  | some (cn, cc, _, _) => (⟨cc, none⟩, p.num * cn / S)
  | none => (⟨p.key.cur, none⟩, p.num)

/-- a transaction balances when its weights sum to nothing -/
def Txn.residual (t : Txn) : Inv := invSum (t.postings.map weight)
def Txn.balanced (t : Txn) : Bool := t.residual.isEmpty

/-- per-account inventories, insertion ordered -/
abbrev Balances := List (String × Inv)

def Balances.get (b : Balances) (a : String) : Inv :=
  match b with
  | [] => []
  | (a', i) :: rest => if a' = a then i else Balances.get rest a

def Balances.add (b : Balances) (p : Posting) : Balances :=
  match b with
  | [] => [(p.account, Inv.addAmount [] p.key p.num)]
  | (a, i) :: rest => if a = p.account then (a, i.addAmount p.key p.num) :: rest else (a, i) :: Balances.add rest p

/-- `balance_by_account(entries, date)`: balances of the entries strictly before `date` -/
def before (d : Option Nat) (es : List Txn) : List Txn :=
  match d with
  | some d => es.takeWhile (fun t => t.date < d)
  | none => es

def after (d : Option Nat) (es : List Txn) : List Txn :=
  match d with
  | some d => es.dropWhile (fun t => t.date < d)
  | none => []

def balanceByAccount (d : Option Nat) (es : List Txn) : Balances :=
  ((before d es).flatMap (·.postings)).foldl Balances.add []

def insertAcc (x : String × Inv) : List (String × Inv) → List (String × Inv)
  | [] => [x]
  | y :: ys => if x.1 ≤ y.1 then x :: y :: ys else y :: insertAcc x ys

def sortByAccount (b : Balances) : Balances := b.foldr insertAcc []

/-- `create_entries_from_balances`: one transaction per account with a non-empty balance; for every
    position a posting on the account and the opposite of its cost on `source` -/
def entryFromBalance (date : Nat) (kind : TxnKind) (source : String) (direction : Bool) (account : String) (bal : Inv) : Txn :=
  let signed : Inv := if direction then bal else bal.map (fun p => (p.1, -p.2))
  { date := date, kind := kind,
    postings := signed.flatMap (fun p =>
      let posting : Posting := ⟨account, p.1, p.2⟩
      [posting, ⟨source, (weight posting).1, -(weight posting).2⟩]) }

def entriesFromBalances (date : Nat) (kind : TxnKind) (source : String) (direction : Bool) (b : Balances) : List Txn :=
  ((sortByAccount b).filter (fun p => !p.2.isEmpty)).map (fun p => entryFromBalance date kind source direction p.1 p.2)

/-- `transfer_balances(entries, date, pred, account)` -/
def transferBalances (es : List Txn) (d : Option Nat) (pred : String → Bool) (account : String) : List Txn :=
  if es.isEmpty then es else
  let balances := (balanceByAccount d es).filter (fun p => pred p.1)
  let tdate := match d with
    | some d => d - 1
    | none => (es.getLast?.map (·.date)).getD 0
  before d es ++ entriesFromBalances tdate .transfer account false balances ++ after d es

/-- `summarize(entries, date, account_opening)` (open and price directives are not modelled) -/
def summarizeAt (es : List Txn) (d : Nat) (opening : String) : List Txn :=
  entriesFromBalances (d - 1) .summarize opening true (balanceByAccount (some d) es) ++ after (some d) es

structure Accounts where
  isIncomeStatement : String → Bool
  earningsPrevious : String
  earningsCurrent : String
  opening : String

/-- `summarize.open` without conversions: clear the income statement before `d`, then summarize -/
def openAt (acc : Accounts) (es : List Txn) (d : Nat) : List Txn :=
  summarizeAt (transferBalances es (some d) acc.isIncomeStatement acc.earningsPrevious) d acc.opening

/-- `summarize.close` without conversions: `truncate` -/
def closeAt (es : List Txn) (e : Option Nat) : List Txn := before e es

def clearAll (acc : Accounts) (es : List Txn) : List Txn :=
  transferBalances es none acc.isIncomeStatement acc.earningsCurrent

/-- `BeanTable.prepare`: OPEN, then CLOSE, then CLEAR — in that fixed order -/
def prepare (acc : Accounts) (es : List Txn) (open_ : Option Nat) (close : Option (Option Nat)) (clear : Bool) : List Txn :=
  let es := match open_ with | some d => openAt acc es d | none => es
  let es := match close with | some e => closeAt es e | none => es
  if clear then clearAll acc es else es

/-- inventory of one account over a list of transactions -/
def accountBalance (a : String) (es : List Txn) : Inv :=
  invSum ((es.flatMap (·.postings)).filter (fun p => p.account = a) |>.map (fun p => (p.key, p.num)))

end Bql.Summ
