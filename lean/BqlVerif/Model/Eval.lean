/-
  Compiled expressions (`EvalNode` tree) and their evaluation on one row.
  Mirrors `query_compile.py:89-505` and the function wrapper of `query_env.py:40-62`.
-/
import BqlVerif.Model.Sem
namespace Bql

inductive AggKind | countStar | count | sum | first | last | min | max | unknown
  deriving DecidableEq, Repr, Inhabited

inductive CExpr
  | const (v : Value) (ty : Ty)
  | col (idx : Nat) (name : String) (ty : Ty)
  | unop (op : UnOp) (safe : Bool) (e : CExpr) (ty : Ty)
  | binop (op : BinOp) (l r : CExpr) (ty : Ty)
  | between (e lo hi : CExpr)
  | and (es : List CExpr)
  | or (es : List CExpr)
  | coalesce (es : List CExpr) (ty : Ty)
  | func (name : String) (args : List CExpr) (ty : Ty)
  | agg (kind : AggKind) (name : String) (args : List CExpr) (ty : Ty) (handle : Nat)
  deriving Repr, Inhabited

def CExpr.ty : CExpr → Ty
  | .const _ t => t
  | .col _ _ t => t
  | .unop _ _ _ t => t
  | .binop _ _ _ t => t
  | .between _ _ _ => .bool
  | .and _ => .bool
  | .or _ => .bool
  | .coalesce _ t => t
  | .func _ _ t => t
  | .agg _ _ _ t _ => t

abbrev Row := List Value
/-- finalised aggregate values, by handle -/
abbrev AggEnv := List (Nat × Value)

def AggEnv.get (env : AggEnv) (h : Nat) : Value :=
  match env.find? (fun p => p.1 == h) with
  | some p => p.2
  | none => .null

mutual
/-- `EvalNode.__call__` -/
def eval (env : AggEnv) (row : Row) : CExpr → PyResult
  | .const v _ => .ok v
  | .col i _ _ => .ok (row.getD i .null)
  | .unop op safe e _ =>
    match eval env row e with
    | .error x => .error x
    | .ok v => if safe && v.isNull then .ok .null else semUn op v
  | .binop op l r _ =>
    match eval env row l with
    | .error x => .error x
    | .ok a =>
      if a.isNull then .ok .null else
      match eval env row r with
      | .error x => .error x
      | .ok b => if b.isNull then .ok .null else semBin op a b
  | .between e lo hi =>
    match eval env row e with
    | .error x => .error x
    | .ok a =>
      if a.isNull then .ok .null else
      match eval env row lo with
      | .error x => .error x
      | .ok b =>
        if b.isNull then .ok .null else
        match eval env row hi with
        | .error x => .error x
        | .ok c => if c.isNull then .ok .null else semBetween a b c
  | .and es => evalAnd env row es
  | .or es => evalOr env row (.bool false) es
  | .coalesce es _ => evalCoalesce env row es
  | .func name args _ =>
    match evalArgs env row args with
    | .error x => .error x
    | .ok vs => if vs.any Value.isNull then .ok .null else semFunc name vs
  | .agg _ _ _ _ h => .ok (env.get h)
/-- `EvalAnd.__call__`: stop at the first NULL (NULL) or falsy (FALSE) operand -/
def evalAnd (env : AggEnv) (row : Row) : List CExpr → PyResult
  | [] => .ok (.bool true)
  | e :: es =>
    match eval env row e with
    | .error x => .error x
    | .ok v => if v.isNull then .ok .null else if !v.truthy then .ok (.bool false) else evalAnd env row es
/-- `EvalOr.__call__`: TRUE at the first truthy operand, else NULL if any was NULL -/
def evalOr (env : AggEnv) (row : Row) (r : Value) : List CExpr → PyResult
  | [] => .ok r
  | e :: es =>
    match eval env row e with
    | .error x => .error x
    | .ok v => if v.truthy then .ok (.bool true) else evalOr env row (if v.isNull then .null else r) es
/-- `EvalCoalesce.__call__` -/
def evalCoalesce (env : AggEnv) (row : Row) : List CExpr → PyResult
  | [] => .ok .null
  | e :: es =>
    match eval env row e with
    | .error x => .error x
    | .ok v => if v.isNull then evalCoalesce env row es else .ok v
/-- all function operands are evaluated before the NULL check -/
def evalArgs (env : AggEnv) (row : Row) : List CExpr → Except String (List Value)
  | [] => .ok []
  | e :: es =>
    match eval env row e with
    | .error x => .error x
    | .ok v =>
      match evalArgs env row es with
      | .error x => .error x
      | .ok vs => .ok (v :: vs)
end

/-! ### structural equality of compiled nodes (`EvalNode.__eq__` over `__slots__`) -/

mutual
/-- `EvalNode.__eq__`: same class and equal slot attributes.  Column accessors are compared
    by identity of the accessor object, i.e. by column index here; the declared dtype is
    *not* a slot of most classes, but classes differ per overload, which `ty`/names capture. -/
def CExpr.eqv : CExpr → CExpr → Bool
  | .const v _, .const w _ => pyEq v w
  | .col i _ _, .col j _ _ => i == j
  | .unop o s e t, .unop o' s' e' t' => o == o' && s == s' && t == t' && CExpr.eqv e e'
  | .binop o l r t, .binop o' l' r' t' => o == o' && t == t' && CExpr.eqv l l' && CExpr.eqv r r'
  | .between a b c, .between a' b' c' => CExpr.eqv a a' && CExpr.eqv b b' && CExpr.eqv c c'
  | .and es, .and fs => CExpr.eqvList es fs
  | .or es, .or fs => CExpr.eqvList es fs
  | .coalesce es _, .coalesce fs _ => CExpr.eqvList es fs
  | .func n as t, .func m bs u => n == m && t == u && CExpr.eqvList as bs
  | .agg k n as _ _, .agg k' m bs _ _ => k == k' && n == m && CExpr.eqvList as bs
  | _, _ => false
def CExpr.eqvList : List CExpr → List CExpr → Bool
  | [], [] => true
  | a :: as, b :: bs => CExpr.eqv a b && CExpr.eqvList as bs
  | _, _ => false
end

mutual
/-- `get_columns_and_aggregates`: aggregate nodes not below another aggregate -/
def CExpr.aggs : CExpr → List CExpr
  | .const _ _ => []
  | .col _ _ _ => []
  | .unop _ _ e _ => e.aggs
  | .binop _ l r _ => l.aggs ++ r.aggs
  | .between a b c => a.aggs ++ b.aggs ++ c.aggs
  | .and es => CExpr.aggsList es
  | .or es => CExpr.aggsList es
  | .coalesce es _ => CExpr.aggsList es
  | .func _ as _ => CExpr.aggsList as
  | .agg k n as t h => [.agg k n as t h]
def CExpr.aggsList : List CExpr → List CExpr
  | [] => []
  | e :: es => e.aggs ++ CExpr.aggsList es
end

mutual
/-- columns accessed outside aggregate nodes -/
def CExpr.cols : CExpr → List Nat
  | .const _ _ => []
  | .col i _ _ => [i]
  | .unop _ _ e _ => e.cols
  | .binop _ l r _ => l.cols ++ r.cols
  | .between a b c => a.cols ++ b.cols ++ c.cols
  | .and es => CExpr.colsList es
  | .or es => CExpr.colsList es
  | .coalesce es _ => CExpr.colsList es
  | .func _ as _ => CExpr.colsList as
  | .agg _ _ _ _ _ => []
def CExpr.colsList : List CExpr → List Nat
  | [] => []
  | e :: es => e.cols ++ CExpr.colsList es
end

def CExpr.isAggregate (e : CExpr) : Bool := !e.aggs.isEmpty

def CExpr.isConst : CExpr → Bool
  | .const _ _ => true
  | _ => false

/-- direct children (`childnodes()`) -/
def CExpr.children : CExpr → List CExpr
  | .const _ _ => []
  | .col _ _ _ => []
  | .unop _ _ e _ => [e]
  | .binop _ l r _ => [l, r]
  | .between a b c => [a, b, c]
  | .and es => es
  | .or es => es
  | .coalesce es _ => es
  | .func _ as _ => as
  | .agg _ _ as _ _ => as

end Bql
