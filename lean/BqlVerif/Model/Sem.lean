/-
  Semantics of the operator and scalar-function overloads
  (`query_compile.py:200-352`, `query_env.py:111-345, 588-724`).

  `PyResult` distinguishes a returned value from a raised Python exception, so
  that "never raises" is a statement and not an artefact of totalisation.
-/
import BqlVerif.Model.Calendar
import BqlVerif.Model.Ast
namespace Bql

abbrev PyResult := Except String Value

def tyErr : PyResult := .error "TypeError"

/-! ### string helpers -/

def lowerAscii (s : String) : String := s.map Char.toLower
def upperAscii (s : String) : String := s.map Char.toUpper

def isPrefixL : List Char → List Char → Bool
  | [], _ => true
  | _ :: _, [] => false
  | a :: as, b :: bs => a == b && isPrefixL as bs

def containsL : List Char → List Char → Bool
  | pat, [] => pat.isEmpty
  | pat, c :: cs => isPrefixL pat (c :: cs) || containsL pat cs

/-- `re.search(pat, s, re.IGNORECASE)` for patterns without metacharacters. -/
def reSearchLiteralCI (pat s : String) : Bool :=
  containsL (lowerAscii pat).toList (lowerAscii s).toList

/-- value of a list of ASCII digits (kernel-reducible) -/
def natOfDigits (ds : List Char) : Nat := ds.foldl (fun acc c => acc * 10 + (c.toNat - 48)) 0

/-- `str.split(c)` for a one-character separator -/
def splitOnChar (sep : Char) : List Char → List (List Char)
  | [] => [[]]
  | c :: cs =>
    match splitOnChar sep cs with
    | [] => [[c]]          -- unreachable: the result is never empty
    | w :: ws => if c == sep then [] :: w :: ws else (c :: w) :: ws

def splitStr (sep : Char) (s : String) : List String := (splitOnChar sep s.toList).map String.ofList

/-- Python slice `s[start:end]` on a list -/
def pySlice {α} (xs : List α) (start stop : Int) : List α :=
  let n : Int := xs.length
  let norm (i : Int) : Nat := (if i < 0 then max (i + n) 0 else min i n).toNat
  let a := norm start
  let b := norm stop
  (xs.drop a).take (b - a)

/-- `str(Decimal)` (scientific notation rules of `Decimal.__str__`) -/
def Dec.toPyStr (d : Dec) : String :=
  let sign := if d.coef < 0 then "-" else ""
  let digits := toString d.coef.natAbs
  let len : Int := digits.length
  let leftdigits : Int := d.exp + len
  let dotplace : Int := if d.exp ≤ 0 && leftdigits > -6 then leftdigits else 1
  let (intpart, fracpart) :=
    if dotplace ≤ 0 then ("0", "." ++ "".pushn '0' (-dotplace).toNat ++ digits)
    else if dotplace ≥ len then (digits ++ "".pushn '0' (dotplace - len).toNat, "")
    else (String.ofList (digits.toList.take dotplace.toNat), "." ++ String.ofList (digits.toList.drop dotplace.toNat))
  let e := leftdigits - dotplace
  let exp := if e == 0 then "" else "E" ++ (if e > 0 then "+" else "") ++ toString e
  sign ++ intpart ++ fracpart ++ exp

/-- parse `[+-]?digits[.digits]` / `[+-]?.digits` into a decimal; anything else `none`.
    (`Decimal(str)` accepts more; the correspondence generator stays inside this form
    plus strings that are certainly rejected.) -/
def isPyWs (c : Char) : Bool := c == ' ' || c == '\t' || c == '\n' || c == '\r' || c == '\x0b' || c == '\x0c'

/-- `str.strip()` for ASCII whitespace (what `int()` and `Decimal()` tolerate around a numeral) -/
def stripWs (cs : List Char) : List Char :=
  ((cs.dropWhile isPyWs).reverse.dropWhile isPyWs).reverse

/-- exponent part `E[+-]?digits` (either case) of a decimal numeral; the empty rest is exponent 0 -/
def parseExpPart (cs : List Char) : Option Int :=
  match cs with
  | [] => some 0
  | c :: r =>
    if c == 'E' || c == 'e' then
      let (neg, ds) : Bool × List Char := match r with
        | '-' :: r' => (true, r')
        | '+' :: r' => (false, r')
        | _ => (false, r)
      if ds.isEmpty || !ds.all Char.isDigit then none
      else some (if neg then -(natOfDigits ds : Int) else natOfDigits ds)
    else none

def parseDecSimple (s : String) : Option Dec :=
  let cs := stripWs s.toList
  let (neg, cs) := match cs with
    | '-' :: r => (true, r)
    | '+' :: r => (false, r)
    | _ => (false, cs)
  let ip := cs.takeWhile Char.isDigit
  let rest := cs.dropWhile Char.isDigit
  let mk (ip fp : List Char) (tail : List Char) : Option Dec :=
    if ip.isEmpty && fp.isEmpty then none else
      match parseExpPart tail with
      | none => none
      | some e =>
        let n := natOfDigits (ip ++ fp)
        some ⟨if neg then -(n : Int) else n, e - (fp.length : Int)⟩
  match rest with
  | '.' :: r => mk ip (r.takeWhile Char.isDigit) (r.dropWhile Char.isDigit)
  | _ => if ip.isEmpty then none else mk ip [] rest

def parseIntSimple (s : String) : Option Int :=
  let cs := stripWs s.toList
  let (neg, ds) := match cs with
    | '-' :: r => (true, r)
    | '+' :: r => (false, r)
    | _ => (false, cs)
  if ds.isEmpty || !ds.all Char.isDigit then none
  else some (if neg then -(natOfDigits ds : Int) else natOfDigits ds)

/-- `datetime.strptime(x, '%Y-%m-%d')`: four-digit year, one- or two-digit month and day
    (the space-padded day form of `%d` is outside the model). -/
def parseDateISO (s : String) : Option Date :=
  match splitOnChar '-' s.toList with
  | [y, m, d] =>
    if y.length == 4 && (m.length == 1 || m.length == 2) && (d.length == 1 || d.length == 2) &&
        y.all Char.isDigit && m.all Char.isDigit && d.all Char.isDigit then
      let dt : Date := ⟨natOfDigits y, natOfDigits m, natOfDigits d⟩
      if dt.valid then some dt else none
    else none
  | _ => none

/-- truncation toward zero of a decimal (`int(Decimal)`) -/
def Dec.toInt (d : Dec) : Int :=
  if d.exp ≥ 0 then d.coef * pow10 d.exp
  else
    let q := d.coef.natAbs / (10 ^ (-d.exp).toNat)
    if d.coef < 0 then -(q : Int) else q

/-- `round(Decimal, n)` = quantize to exponent `-n`, half even; keeps exponent `-n`. -/
def Dec.roundTo (d : Dec) (n : Int) : Dec :=
  let target : Int := -n
  if d.exp ≥ target then ⟨d.coef * pow10 (d.exp - target), target⟩
  else
    let p := 10 ^ (target - d.exp).toNat
    let a := d.coef.natAbs
    let q := a / p
    let r := a % p
    let q := if 2 * r > p || (2 * r == p && q % 2 == 1) then q + 1 else q
    ⟨if d.coef < 0 then -(q : Int) else q, target⟩

/-- `round(Decimal)` without digits returns an int, half even. -/
def Dec.roundInt (d : Dec) : Int := (Dec.roundTo d 0).coef

/-- Python `round(int, n)`: for n ≥ 0 identity, for n < 0 half-even to 10^-n. -/
def intRound (x : Int) (n : Int) : Int :=
  if n ≥ 0 then x else
    let p : Nat := 10 ^ (-n).toNat
    let a := x.natAbs
    let q := a / p
    let r := a % p
    let q := if 2 * r > p || (2 * r == p && q % 2 == 1) then q + 1 else q
    let v : Int := q * p
    if x < 0 then -v else v

/-! ### binary operators -/

def numBin (op : BinOp) (a b : Value) : PyResult :=
  match a, b with
  | .int x, .int y =>
    match op with
    | .add => .ok (.int (x + y))
    | .sub => .ok (.int (x - y))
    | .mul => .ok (.int (x * y))
    | .div => if y == 0 then .ok .null else .ok (.dec (Dec.div (Dec.ofInt x) (Dec.ofInt y)))
    | .mod => if y == 0 then .ok .null else .ok (.int (intMod x y))
    | _ => tyErr
  | _, _ =>
    match a.num?, b.num? with
    | some x, some y =>
      match op with
      | .add => .ok (.dec (Dec.add x y))
      | .sub => .ok (.dec (Dec.sub x y))
      | .mul => .ok (.dec (Dec.mul x y))
      | .div => if y.isZero then .ok .null else .ok (.dec (Dec.div x y))
      | .mod => if y.isZero then .ok .null else .ok (.dec (Dec.mod x y))
      | _ => tyErr
    | _, _ => tyErr

def cmpBin (op : BinOp) (a b : Value) : PyResult :=
  match op with
  | .eq => .ok (.bool (pyEq a b))
  | .ne => .ok (.bool (!pyEq a b))
  | .lt => match pyLt? a b with | some r => .ok (.bool r) | none => tyErr
  | .gt => match pyLt? b a with | some r => .ok (.bool r) | none => tyErr
  | .le => match pyLt? b a with | some r => .ok (.bool (!r)) | none => tyErr
  | .ge => match pyLt? a b with | some r => .ok (.bool (!r)) | none => tyErr
  | _ => tyErr

def dateRes : Option Date → PyResult
  | some d => .ok (.date d)
  | none => .error "OverflowError"

def containsV (xs : List Value) (x : Value) : Bool := xs.any (fun y => pyEq y x)

/-- value of a binary operator node on two non-NULL operands -/
def semBin (op : BinOp) (a b : Value) : PyResult :=
  match op, a, b with
  | .add, .date d, .int k => dateRes (d.addDays k)
  | .add, .int k, .date d => dateRes (d.addDays k)
  | .sub, .date d, .int k => dateRes (d.addDays (-k))
  | .sub, .date x, .date y => .ok (.int (x.diffDays y))
  | .add, .date d, .interval y m k => dateRes (d.addInterval y m k)
  | .add, .interval y m k, .date d => dateRes (d.addInterval y m k)
  | .sub, .date d, .interval y m k => dateRes (d.addInterval (-y) (-m) (-k))
  | .sub, .interval _ _ _, .date _ => tyErr
  | .add, .interval a b c, .interval x y z =>
    let (p, q, r) := fixInterval (a + x) (b + y) (c + z); .ok (.interval p q r)
  | .sub, .interval a b c, .interval x y z =>
    let (p, q, r) := fixInterval (a - x) (b - y) (c - z); .ok (.interval p q r)
  | .match, .str x, .str pat => .ok (.bool (reSearchLiteralCI pat x))
  | .notmatch, .str x, .str pat => .ok (.bool (!reSearchLiteralCI pat x))
  | .in, x, .list ys => .ok (.bool (containsV ys x))
  | .in, x, .set ys => .ok (.bool (containsV ys x))
  | .notin, x, .list ys => .ok (.bool (!containsV ys x))
  | .notin, x, .set ys => .ok (.bool (!containsV ys x))
  | .in, .str x, .str y => .ok (.bool (containsL x.toList y.toList))
  | .notin, .str x, .str y => .ok (.bool (!containsL x.toList y.toList))
  | .in, _, _ => tyErr
  | .notin, _, _ => tyErr
  | .eq, a, b | .ne, a, b | .lt, a, b | .le, a, b | .gt, a, b | .ge, a, b => cmpBin op a b
  | op, a, b => numBin op a b

/-- `lower <= operand <= upper` -/
def semBetween (x lo hi : Value) : PyResult :=
  match pyLt? x lo, pyLt? hi x with
  | some a, some b => .ok (.bool (!a && !b))
  | _, _ => tyErr

/-! ### unary operators -/

def semUn (op : UnOp) (a : Value) : PyResult :=
  match op, a with
  | .not, v => .ok (.bool (!v.truthy))
  | .isnull, v => .ok (.bool v.isNull)
  | .isnotnull, v => .ok (.bool (!v.isNull))
  | .neg, .int i => .ok (.int (-i))
  | .neg, .bool b => .ok (.int (if b then -1 else 0))
  | .neg, .dec d => .ok (.dec (Dec.neg d))
  | .neg, _ => tyErr

/-! ### scalar functions (the ones the engine model evaluates) -/

def pyStr : Value → Option String
  | .str s => some s
  | .int i => some (toString i)
  | .bool b => some (if b then "TRUE" else "FALSE")
  | .dec d => some d.toPyStr
  | .date d => some d.show
  | _ => none

def quarterStr (d : Date) : String := pad4 d.y ++ "-Q" ++ toString ((d.m - 1) / 3 + 1)

/-- functions on non-NULL arguments; `.error "unmodelled"` when the model has no semantics. -/
def semFunc (name : String) (args : List Value) : PyResult :=
  match name, args with
  | "bool", [v] => .ok (.bool v.truthy)
  | "int", [.int i] => .ok (.int i)
  | "int", [.bool b] => .ok (.int (if b then 1 else 0))
  | "int", [.dec d] => .ok (.int d.toInt)
  | "int", [.str s] => .ok (match parseIntSimple s with | some i => .int i | none => .null)
  | "int", [_] => .ok .null
  | "decimal", [.dec d] => .ok (.dec d)
  | "decimal", [.int i] => .ok (.dec (Dec.ofInt i))
  | "decimal", [.bool b] => .ok (.dec (Dec.ofInt (if b then 1 else 0)))
  | "decimal", [.str s] => .ok (match parseDecSimple s with | some d => .dec d | none => .null)
  | "decimal", [_] => .ok .null
  | "str", [v] => (match pyStr v with | some s => .ok (.str s) | none => .error "unmodelled")
  | "date", [.date d] => .ok (.date d)
  | "date", [.str s] => .ok (match parseDateISO s with | some d => .date d | none => .null)
  | "date", [_] => .ok .null
  | "date", [.int y, .int m, .int d] =>
    -- parts outside the calendar (ValueError) and parts beyond a C int (OverflowError) both give NULL
    if y < 0 || m < 0 || d < 0 then .ok .null else
      let dt : Date := ⟨y.toNat, m.toNat, d.toNat⟩
      .ok (if dt.valid then .date dt else .null)
  | "neg", [.dec d] => .ok (.dec (Dec.neg d))
  | "abs", [.dec d] => .ok (.dec ⟨d.coef.natAbs, d.exp⟩)
  | "safediv", [.dec x, .dec y] => .ok (.dec (if y.isZero then ⟨0, 0⟩ else Dec.div x y))
  | "safediv", [.dec x, .int y] => .ok (.dec (if y == 0 then ⟨0, 0⟩ else Dec.div x (Dec.ofInt y)))
  | "round", [.dec d] => .ok (.dec (d.roundTo 0))
  | "round", [.dec d, .int n] => .ok (.dec (d.roundTo n))
  | "round", [.int i] => .ok (.int i)
  | "round", [.int i, .int n] => .ok (.int (intRound i n))
  | "length", [.str s] => .ok (.int s.length)
  | "length", [.list xs] => .ok (.int xs.length)
  | "length", [.set xs] => .ok (.int xs.length)
  | "substr", [.str s, .int a, .int b] => .ok (.str (String.ofList (pySlice s.toList a b)))
  | "upper", [.str s] => .ok (.str (upperAscii s))
  | "lower", [.str s] => .ok (.str (lowerAscii s))
  | "year", [.date d] => .ok (.int d.y)
  | "month", [.date d] => .ok (.int d.m)
  | "day", [.date d] => .ok (.int d.d)
  | "yearmonth", [.date d] => .ok (.date ⟨d.y, d.m, 1⟩)
  | "quarter", [.date d] => .ok (.str (quarterStr d))
  | "weekday", [.date d] => .ok (.str (weekdayName d.weekday))
  | "date_diff", [.date x, .date y] => .ok (.int (x.diffDays y))
  | "date_add", [.date d, .int k] => dateRes (d.addDays k)
  | _, _ => .error "unmodelled"

def modelledFunctions : List String :=
  ["bool", "int", "decimal", "str", "date", "neg", "abs", "safediv", "round", "length", "substr",
   "upper", "lower", "year", "month", "day", "yearmonth", "quarter", "weekday", "date_diff", "date_add"]

end Bql
