/-
  The shell's typed settings store, `.set`, and command dispatch (`beanquery/shell.py`).
-/
import BqlVerif.Model.Ast
namespace Bql

inductive SVal | b (v : Bool) | s (v : String)
  deriving DecidableEq, Repr, Inhabited

/-- settings in declaration order -/
abbrev Settings := List (String × SVal)

def defaultSettings : Settings :=
  [("boxed", .b false), ("expand", .b false), ("format", .s "text"), ("narrow", .b true), ("nullvalue", .s ""),
   ("numberify", .b false), ("pager", .b true), ("spaced", .b false), ("unicode", .b false)]

def formats : List String := ["csv", "text"]

def Settings.get? (st : Settings) (name : String) : Option SVal :=
  match st with
  | [] => none
  | (n, v) :: rest => if n = name then some v else Settings.get? rest name

def Settings.set (st : Settings) (name : String) (v : SVal) : Settings :=
  match st with
  | [] => []
  | (n, w) :: rest => if n = name then (n, v) :: rest else (n, w) :: Settings.set rest name v

def isBlank (c : Char) : Bool := c == ' ' || c == '\t' || c == '\n' || c == '\r' || c == '\x0b' || c == '\x0c'

/-- `str.strip()` on a character list (kernel-reducible) -/
def trimChars (cs : List Char) : List Char := ((cs.dropWhile isBlank).reverse.dropWhile isBlank).reverse

def lowerStrip (s : String) : String := String.ofList ((trimChars s.toList).map Char.toLower)

/-- `Settings._parse_bool` -/
def parseBool (value : String) : Option Bool :=
  let norm := lowerStrip value
  if ["1", "true", "t", "yes", "y", "on"].contains norm then some true
  else if ["0", "false", "f", "no", "n", "off"].contains norm then some false
  else none

/-- Python `repr(str)`: single quotes unless the string holds a single quote and no double quote; backslash, the chosen
    quote, newline, carriage return and tab are escaped (other control characters are outside the model) -/
def pyReprStr (s : String) : String :=
  let body := ((s.replace "\\" "\\\\").replace "\n" "\\n").replace "\r" "\\r" |>.replace "\t" "\\t"
  if s.contains '\'' && !s.contains '"' then "\"" ++ body ++ "\"" else "'" ++ body.replace "'" "\\'" ++ "'"

/-- `Settings.getstr` -/
def getstr : SVal → String
  | .b true => "true"
  | .b false => "false"
  | .s v => pyReprStr v

/-- `Settings.setstr`: parse by the type of the current value; `none` = ValueError -/
def parseFor (name : String) (cur : SVal) (value : String) : Option SVal :=
  match cur with
  | .b _ => (parseBool value).map .b
  | .s _ => if name = "format" then (if formats.contains value then some (.s value) else none) else some (.s value)

structure ShellOut where
  settings : Settings
  out : List String := []
  err : List String := []
  deriving Repr, Inhabited

/-- `do_set` after `shlex.split` -/
def doSet (st : Settings) (comps : List String) : ShellOut :=
  match comps with
  | [] => { settings := st, out := st.map (fun p => p.1 ++ ": " ++ getstr p.2) }
  | name :: rest =>
    match st.get? name with
    | none => { settings := st, err := ["variable \"" ++ name ++ "\" does not exist"] }
    | some cur =>
      match rest with
      | [] => { settings := st, out := [name ++ ": " ++ getstr cur] }
      | [value] =>
        (match parseFor name cur value with
         | some v => { settings := st.set name v }
         | none =>
           { settings := st,
             err := [if name = "format" then "\"" ++ value ++ "\" is not a valid format"
                     else "\"" ++ value ++ "\" is not a valid boolean"] })
      | _ => { settings := st, err := ["invalid number of arguments"] }

/-! ### dispatch (`parseline` / `onecmd`) -/

def isIdentChar (c : Char) : Bool := c.isAlphanum || c == '_' || c == '.'

def legacyCommands : List String := ["clear", "errors", "exit", "help", "history", "parse", "run", "set", "quit"]

inductive Dispatch
  | nothing                               -- empty line, or no command word
  | command (name : String) (arg : String)  -- handled by `do_<name>` (or "unknown command")
  | query (text : String)                 -- handed to the parser / compiler / executor
  deriving DecidableEq, Repr, Inhabited

/-- `onecmd(line)` up to the choice of handler (`?` and `!` prefixes are help / shell escapes of `cmd.Cmd`) -/
def dispatch (rawline : String) : Dispatch :=
  let line := trimChars rawline.toList
  match line with
  | [] => .nothing
  | '?' :: rest => .command "help" (String.ofList (trimChars rest))
  | '!' :: _ => .nothing
  | cs =>
    let cmd := cs.takeWhile isIdentChar
    let arg := String.ofList (trimChars (cs.dropWhile isIdentChar))
    if cmd.isEmpty then .nothing else
    if cs.head? == some '.' then
      -- `parseline` strips one leading dot; an empty command word does nothing
      (if (cmd.drop 1).isEmpty then .nothing else .command (String.ofList (cmd.drop 1)) arg)
    else
      let lc := String.ofList (cmd.map Char.toLower)
      if lc = "eof" then .command "EOF" arg
      else if legacyCommands.contains lc then .command lc arg else .query (String.ofList cs)

/-- `.run NAME`: the named query is executed with CLOSE ON defaulting to the query directive's
    date when the statement is a SELECT whose FROM clause is a FROM expression without CLOSE -/
def applyDefaultClose (d : Date) : Select → Select
  | .mk ts (.from e o .absent cl) w g h ob pv lim dist => .mk ts (.from e o (.on d) cl) w g h ob pv lim dist
  | s => s

end Bql
