/-
  Token-level model of the BQL parser (`beanquery/parser/bql.ebnf`, `parser/__init__.py`).

  The shipped parser is a scannerless PEG (TatSu).  Its tokens are modelled by `Tok`
  (Model/Lexer.lean produces them from characters); this file is the recursive-descent parser
  over tokens: one function per grammar level, left-recursive rules (`sum`, `term`, `primary`) and
  closures (`or`, `and`, joins) as loops, ordered choice resolved by the first token(s).  It
  builds the AST of Model/Ast.lean directly (semantic actions included: identifiers are lower
  case words, `+atom` is the atom, list items after the first drop NULL).

  Fuel: every function takes a fuel argument which decreases on every call; `none` also means
  "fuel exhausted".  The round-trip theorem (Properties/C06.lean) holds for all large enough fuel.
-/
import BqlVerif.Model.Ast
import BqlVerif.Model.Calendar
namespace Bql.Syn

inductive Sym
  | lparen | rparen | comma | dot | lbrack | rbrack | star | slash | plus | minus | percent
  | lt | le | gt | ge | eq | ne | tilde | ntilde
  deriving DecidableEq, Repr, Inhabited

inductive Tok
  | word (w : String)                           -- identifier-shaped word, lower case (keywords included)
  | int (n : Nat)
  | dec (coef : Nat) (exp : Int) (digitFirst : Bool)  -- decimal literal; `digitFirst`: the text starts with a digit
  | date (y m d : Nat)
  | str (s : String)
  | table (name : String)                       -- `#name`
  | sym (s : Sym)
  | ph                                          -- `%s`
  | phOpen                                      -- `%(`
  | phClose                                     -- `)s`
  deriving DecidableEq, Repr, Inhabited

/-- `@@keyword` of the grammar, lower case (checked against the generated registry in C06) -/
def keywords : List String :=
  ["and", "as", "asc", "by", "desc", "distinct", "false", "from", "group", "having", "in", "is", "limit", "not", "or",
   "order", "pivot", "select", "true", "where", "balances", "journal", "print"]

def isKeyword (w : String) : Bool := keywords.contains w

/-- statements -/
inductive Stmt
  | select (s : Select)
  | balances (summary : Option String) (from_ : FromC) (where_ : Option Expr)
  | journal (account : Option String) (summary : Option String) (from_ : FromC)
  | print (from_ : FromC)
  deriving Inhabited

abbrev P (α : Type) := Option (α × List Tok)

/-- a literal token (`literal` rule: date | decimal | integer | string | null | boolean) -/
def litOfTok : Tok → Option Value
  | .int n => some (.int n)
  | .dec c e _ => some (.dec ⟨c, e⟩)
  | .date y m d => if (Date.mk y m d).valid then some (.date ⟨y, m, d⟩) else none
  | .str s => some (.str s)
  | .word "null" => some .null
  | .word "true" => some (.bool true)
  | .word "false" => some (.bool false)
  | _ => none

/-- is the token shaped like a literal (used by the `&(literal ',')` look-ahead; an invalid date
    matches the pattern and then fails in the semantic action, which rejects the statement) -/
def isLitTok : Tok → Bool
  | .int _ | .dec _ _ _ | .date _ _ _ | .str _ => true
  | .word w => w == "null" || w == "true" || w == "false"
  | _ => false

inductive AddOp | add | sub deriving DecidableEq, Repr
inductive MulOp | mul | div | mod deriving DecidableEq, Repr

def addOpOf : Tok → Option BinOp
  | .sym .plus => some .add | .sym .minus => some .sub | _ => none
def mulOpOf : Tok → Option BinOp
  | .sym .star => some .mul | .sym .slash => some .div | .sym .percent => some .mod | _ => none
def cmpOpOf : Tok → Option BinOp
  | .sym .lt => some .lt | .sym .le => some .le | .sym .gt => some .gt | .sym .ge => some .ge
  | .sym .eq => some .eq | .sym .ne => some .ne | .sym .tilde => some .match | .sym .ntilde => some .notmatch
  | .word "in" => some .in | _ => none

/-- left-associative loop `acc (op operand)*` over the operators recognised by `opOf` -/
def binLoop (opOf : Tok → Option BinOp) (sub : List Tok → P Expr) : Nat → Expr → List Tok → P Expr
  | 0, _, _ => none
  | f + 1, acc, t :: ts =>
    match opOf t with
    | some op =>
      match sub ts with
      | none => none                                   -- the grammar cuts after the operator
      | some (r, rest) => binLoop opOf sub f (.binop op acc r) rest
    | none => some (acc, t :: ts)
  | _ + 1, acc, [] => some (acc, [])

/-- `item (kw item)*`: returns the items in order -/
def sepLoop (kw : String) (sub : List Tok → P Expr) : Nat → List Expr → List Tok → P (List Expr)
  | 0, _, _ => none
  | f + 1, acc, .word w :: ts =>
    if w = kw then
      match sub ts with
      | none => none
      | some (e, rest) => sepLoop kw sub f (acc ++ [e]) rest
    else some (acc, .word w :: ts)
  | _ + 1, acc, ts => some (acc, ts)

/-- postfix loop of `primary`: `.name` and `['key']` -/
def postfixLoop : Nat → Expr → List Tok → P Expr
  | 0, _, _ => none
  | f + 1, acc, .sym .dot :: .word w :: ts =>
    if isKeyword w then none else postfixLoop f (.attr acc w) ts
  | _ + 1, _, .sym .dot :: _ => none
  | f + 1, acc, .sym .lbrack :: .str k :: .sym .rbrack :: ts => postfixLoop f (.subscript acc k) ts
  | _ + 1, _, .sym .lbrack :: _ => none
  | _ + 1, acc, ts => some (acc, ts)

/-- one `(literal | ())` item: NULL and empty items are dropped -/
def takeItem (acc : List Value) : List Tok → Option (List Value × List Tok)
  | t :: rest =>
    if isLitTok t then
      match litOfTok t with
      | some .null => some (acc, rest)
      | some v => some (acc ++ [v], rest)
      | none => none
    else some (acc, t :: rest)
  | [] => some (acc, [])

/-- items of a list literal after the first comma: `(literal | ())` separated by commas, then `)` -/
def listItems : Nat → List Value → List Tok → P (List Value)
  | 0, _, _ => none
  | f + 1, acc, ts =>
    match takeItem acc ts with
    | none => none
    | some (acc', .sym .comma :: rest) => listItems f acc' rest
    | some (acc', .sym .rparen :: rest) => some (acc', rest)
    | some _ => none

def isW (w : String) : Tok → Bool
  | .word v => v == w
  | _ => false

/-- drop a leading word `w` -/
def stripWord (w : String) : List Tok → Option (List Tok)
  | t :: ts => if isW w t then some ts else none
  | [] => none

/-- the leading separator TatSu's zero-or-more gather lets through -/
def dropLeadComma : List Tok → List Tok
  | .sym .comma :: r => r
  | ts => ts

/-- drop a leading comma -/
def stripComma : List Tok → Option (List Tok)
  | .sym .comma :: ts => some ts
  | _ => none

/-- `['DISTINCT']` -/
def stripDistinct (ts : List Tok) : Bool × List Tok :=
  match stripWord "distinct" ts with
  | some r => (true, r)
  | none => (false, ts)

def stripStar : List Tok → Option (List Tok)
  | .sym .star :: ts => some ts
  | _ => none

def stripWords2 (w1 w2 : String) (ts : List Tok) : Option (List Tok) :=
  match stripWord w1 ts with
  | some r => stripWord w2 r
  | none => none

def optDate : List Tok → Option (Date × List Tok)
  | .date y m d :: ts => if (Date.mk y m d).valid then some (⟨y, m, d⟩, ts) else none
  | _ => none

/-- `['CLOSE' ('ON' date | {})]` -/
def parseClose (ts : List Tok) : Option (CloseSpec × List Tok) :=
  match stripWord "close" ts with
  | some r =>
    (match stripWord "on" r with
     | some r' =>
       (match optDate r' with
        | some (d, rest) => some (.on d, rest)
        | none => none)
     | none => some (.flag, r))
  | none => some (.absent, ts)

def parseClear (ts : List Tok) : Bool × List Tok :=
  match stripWord "clear" ts with
  | some r => (true, r)
  | none => (false, ts)

/-- `['OPEN' 'ON' date]` after a FROM expression -/
def parseOpenOpt (ts : List Tok) : Option (Option Date × List Tok) :=
  match stripWord "open" ts with
  | some r =>
    (match stripWord "on" r with
     | some r' =>
       (match optDate r' with
        | some (d, rest) => some (some d, rest)
        | none => none)
     | none => none)
  | none => some (none, ts)

/-- the clause tail `[CLOSE ..] [CLEAR]` -/
def parseCloseClear (ts : List Tok) : Option (CloseSpec × Bool × List Tok) :=
  match parseClose ts with
  | none => none
  | some (c, rest) => let (cl, rest') := parseClear rest; some (c, cl, rest')

def identOf : Tok → Option String
  | .word w => if isKeyword w then none else some w
  | _ => none

/-- `(integer | column)` of PIVOT BY -/
def pivotKey : List Tok → Option (KeyRef × List Tok)
  | .int n :: ts => some (.idx n, ts)
  | .word w :: ts => if isKeyword w then none else some (.expr (.col w), ts)
  | _ => none

def parseOrdering (ts : List Tok) : Bool × List Tok :=
  match stripWord "desc" ts with
  | some r => (true, r)
  | none =>
    match stripWord "asc" ts with
    | some r => (false, r)
    | none => (false, ts)

/-! ### dispatch on the next tokens (ordered choice resolved without recursion) -/

/-- what follows the left operand of a `comparison` -/
inductive CmpAct
  | notin (rest : List Tok) | isnull (rest : List Tok) | isnotnull (rest : List Tok) | between (rest : List Tok)
  | op (op : BinOp) (rest : List Tok) | none

def cmpAct : List Tok → CmpAct
  | t :: rest =>
    if isW "not" t then
      (match rest with
       | u :: rest' => if isW "in" u then .notin rest' else .none
       | [] => .none)
    else if isW "is" t then
      (match rest with
       | u :: rest' =>
         if isW "null" u then .isnull rest'
         else if isW "not" u then
           (match rest' with
            | v :: rest'' => if isW "null" v then .isnotnull rest'' else .none
            | [] => .none)
         else .none
       | [] => .none)
    else if isW "between" t then .between rest
    else match cmpOpOf t with
      | some op => .op op rest
      | none => .none
  | [] => .none

inductive FactorAct
  | plus (rest : List Tok) | minus (rest : List Tok) | paren (rest : List Tok) | prim

def factorAct : List Tok → FactorAct
  | .sym .plus :: ts => .plus ts
  | .sym .minus :: ts => .minus ts
  | .sym .lparen :: t :: .sym .comma :: ts => if isLitTok t then .prim else .paren (t :: .sym .comma :: ts)
  | .sym .lparen :: ts => .paren ts
  | _ => .prim

inductive AtomAct
  | select | funcStar (w : String) (rest : List Tok) | funcEmpty (w : String) (rest : List Tok) | func (w : String) (rest : List Tok)
  | list (t : Tok) (rest : List Tok) | ph (rest : List Tok) | phNamed (w : String) (rest : List Tok)
  | word (w : String) (rest : List Tok) | lit (t : Tok) (rest : List Tok) | bad

def atomAct : List Tok → AtomAct
  | .word w :: ts =>
    if w == "select" then .select
    else match ts with
      | .sym .lparen :: .sym .star :: .sym .rparen :: r => .funcStar w r
      | .sym .lparen :: .sym .rparen :: r => .funcEmpty w r
      | .sym .lparen :: r => .func w r
      | _ => .word w ts
  | .sym .lparen :: t :: .sym .comma :: ts => .list t ts
  | .ph :: ts => .ph ts
  | .phOpen :: .word w :: .phClose :: ts => .phNamed w ts
  | t :: ts => .lit t ts
  | [] => .bad

/-- the alternatives after FROM -/
inductive FromAct | table (n : String) (rest : List Tok) | subselect (rest : List Tok) | body (rest : List Tok)

def fromAct : List Tok → FromAct
  | .table n :: r => .table n r
  | .sym .lparen :: t :: r => if isW "select" t then .subselect (t :: r) else .body (.sym .lparen :: t :: r)
  | r => .body r

/-- the alternatives of the `from` rule -/
inductive BodyAct | open_ (rest : List Tok) | close (ts : List Tok) | clear (rest : List Tok) | expr

def bodyAct : List Tok → BodyAct
  | t :: ts => if isW "open" t then .open_ ts else if isW "close" t then .close (t :: ts) else if isW "clear" t then .clear ts else .expr
  | [] => .expr

/-- `(integer | expression)`: how the key starts -/
inductive KeyAct | idx (n : Nat) (rest : List Tok) | bad | expr

def keyAct : List Tok → KeyAct
  | .int n :: ts => .idx n ts
  | .dec _ _ true :: _ => .bad          -- the integer prefix of the text is taken, the rest cannot follow
  | .date _ _ _ :: _ => .bad
  | _ => .expr

/-- `['AS' identifier]` -/
def parseAlias (ts : List Tok) : Option (Option String × List Tok) :=
  match stripWord "as" ts with
  | some (t :: rest) => (identOf t).map (fun n => (some n, rest))
  | some [] => none
  | none => some (none, ts)

/-- PIVOT BY clause -/
def parsePivot (ts : List Tok) : Option (List KeyRef × List Tok) :=
  match stripWords2 "pivot" "by" ts with
  | some r =>
    (match pivotKey r with
     | some (k1, .sym .comma :: r') =>
       (match pivotKey r' with
        | some (k2, r'') => some ([k1, k2], r'')
        | none => none)
     | _ => none)
  | none => some ([], ts)

/-- LIMIT clause -/
def parseLimit (ts : List Tok) : Option (Option Nat × List Tok) :=
  match stripWord "limit" ts with
  | some (.int n :: r) => some (some n, r)
  | some _ => none
  | none => some (none, ts)

/-- `open … [CLOSE …] [CLEAR]` after the word OPEN (the grammar cuts there) -/
def parseOpenFirst (ts : List Tok) : Option (FromC × List Tok) :=
  match stripWord "on" ts with
  | none => none
  | some r =>
    match optDate r with
    | none => none
    | some (d, rest) =>
      match parseCloseClear rest with
      | none => none
      | some (c, cl, rest') => some (.from none (some d) c cl, rest')

mutual
/-- `expression` -/
def parseExpr : Nat → List Tok → P Expr
  | 0, _ => none
  | f + 1, ts =>
    match parseConj f ts with
    | none => none
    | some (c, rest) =>
      match sepLoop "or" (parseConj f) f [c] rest with
      | none => none
      | some ([e], rest') => some (e, rest')
      | some (es, rest') => some (.or es, rest')

/-- `conjunction` -/
def parseConj : Nat → List Tok → P Expr
  | 0, _ => none
  | f + 1, ts =>
    match parseInv f ts with
    | none => none
    | some (c, rest) =>
      match sepLoop "and" (parseInv f) f [c] rest with
      | none => none
      | some ([e], rest') => some (e, rest')
      | some (es, rest') => some (.and es, rest')

/-- `inversion` -/
def parseInv : Nat → List Tok → P Expr
  | 0, _ => none
  | f + 1, ts =>
    match stripWord "not" ts with
    | some rest =>
      (match parseInv f rest with
       | none => none
       | some (e, rest') => some (.unop .not e, rest'))
    | none => parseCmp f ts

/-- `comparison`: non-associative -/
def parseCmp : Nat → List Tok → P Expr
  | 0, _ => none
  | f + 1, ts =>
    match parseSum f ts with
    | none => none
    | some (l, rest) =>
      match cmpAct rest with
      | .notin rest' =>
        (match parseSum f rest' with
         | none => none
         | some (r, rest'') => some (.binop .notin l r, rest''))
      | .isnull rest' => some (.unop .isnull l, rest')
      | .isnotnull rest' => some (.unop .isnotnull l, rest')
      | .between rest' =>
        (match parseSum f rest' with
         | none => none
         | some (lo, rest'') =>
           match stripWord "and" rest'' with
           | none => none
           | some rest3 =>
             match parseSum f rest3 with
             | none => none
             | some (hi, rest4) => some (.between l lo hi, rest4))
      | .op op rest' =>
        (match parseSum f rest' with
         | none => none
         | some (r, rest'') => some (.binop op l r, rest''))
      | .none => some (l, rest)

/-- `sum` -/
def parseSum : Nat → List Tok → P Expr
  | 0, _ => none
  | f + 1, ts =>
    match parseTerm f ts with
    | none => none
    | some (t, rest) => binLoop addOpOf (parseTerm f) f t rest

/-- `term` -/
def parseTerm : Nat → List Tok → P Expr
  | 0, _ => none
  | f + 1, ts =>
    match parseFactor f ts with
    | none => none
    | some (t, rest) => binLoop mulOpOf (parseFactor f) f t rest

/-- `factor` / `unary` -/
def parseFactor : Nat → List Tok → P Expr
  | 0, _ => none
  | f + 1, ts =>
    match factorAct ts with
    | .plus rest => parseAtom f rest                                   -- `+atom` is the atom
    | .minus rest =>
      (match parseFactor f rest with
       | none => none
       | some (e, rest') => some (.unop .neg e, rest'))
    | .paren rest =>
      (match parseExpr f rest with
       | some (e, .sym .rparen :: rest') => some (e, rest')
       | _ => none)
    | .prim => parsePrimary f ts

/-- `primary`: atom followed by attribute / subscript accesses -/
def parsePrimary : Nat → List Tok → P Expr
  | 0, _ => none
  | f + 1, ts =>
    match parseAtom f ts with
    | none => none
    | some (a, rest) => postfixLoop f a rest

/-- `atom` -/
def parseAtom : Nat → List Tok → P Expr
  | 0, _ => none
  | f + 1, ts =>
    match atomAct ts with
    | .select =>
      (match parseSelect f ts with
       | none => none
       | some (s, rest) => some (.sub s, rest))
    | .funcStar w rest => if isKeyword w then none else some (.func w [.star], rest)
    | .funcEmpty w rest => if isKeyword w then none else some (.func w [], rest)
    | .func w rest =>
      if isKeyword w then none
      else
        -- TatSu's `','.{expression}`: when no expression stands first, the repetition still accepts `, expression`,
        -- so one leading comma is skipped (`f(, 1)` parses like `f(1)`)
        (match parseArgs f (dropLeadComma rest) with
         | none => none
         | some (args, rest') => some (.func w args, rest'))
    | .list t rest =>
      -- list literal: `'(' &(literal ',') ','.{(literal | ())}+ ')'`
      if isLitTok t then
        (match litOfTok t with
         | none => none
         | some v =>
           match listItems (rest.length + 2) [v] rest with
           | none => none
           | some (vs, rest') => some (.const (.list vs), rest'))
      else none
    | .ph rest => some (.placeholder none 0, rest)
    | .phNamed w rest => if isKeyword w then none else some (.placeholder (some w) 0, rest)
    | .word w rest =>
      (match litOfTok (.word w) with
       | some v => some (.const v, rest)
       | none => if isKeyword w then none else some (.col w, rest))
    | .lit t rest =>
      if isLitTok t then
        (match litOfTok t with
         | some v => some (.const v, rest)
         | none => none)
      else none
    | .bad => none

/-- function arguments: `expression (',' expression)* ')'` (the empty list and `*` are handled by the caller) -/
def parseArgs : Nat → List Tok → P (List Expr)
  | 0, _ => none
  | f + 1, ts =>
    match parseExpr f ts with
    | none => none
    | some (e, .sym .comma :: rest) =>
      (match parseArgs f rest with
       | none => none
       | some (es, rest') => some (e :: es, rest'))
    | some (e, .sym .rparen :: rest) => some ([e], rest)
    | some _ => none

/-- targets: `target (',' target)*` -/
def parseTargets : Nat → List Tok → P (List Target)
  | 0, _ => none
  | f + 1, ts =>
    match parseExpr f ts with
    | none => none
    | some (e, rest) =>
      match parseAlias rest with
      | none => none
      | some (alias, rest1) =>
        match stripComma rest1 with
        | some rest' =>
          (match parseTargets f rest' with
           | none => none
           | some (more, rest'') => some (.mk e alias "" :: more, rest''))
        | none => some ([.mk e alias ""], rest1)

/-- `(integer | expression)` -/
def parseKey : Nat → List Tok → P KeyRef
  | 0, _ => none
  | f + 1, ts =>
    match keyAct ts with
    | .idx n rest => some (.idx n, rest)
    | .bad => none
    | .expr =>
      match parseExpr f ts with
      | none => none
      | some (e, rest) => some (.expr e, rest)

/-- GROUP BY keys -/
def parseKeys : Nat → List Tok → P (List KeyRef)
  | 0, _ => none
  | f + 1, ts =>
    match parseKey f ts with
    | none => none
    | some (k, rest) =>
      match stripComma rest with
      | some rest' =>
        (match parseKeys f rest' with
         | none => none
         | some (ks, rest'') => some (k :: ks, rest''))
      | none => some ([k], rest)

/-- ORDER BY keys -/
def parseOrders : Nat → List Tok → P (List (KeyRef × Bool))
  | 0, _ => none
  | f + 1, ts =>
    match parseKey f ts with
    | none => none
    | some (k, rest) =>
      match parseOrdering rest with
      | (desc, rest1) =>
        match stripComma rest1 with
        | some rest2 =>
          (match parseOrders f rest2 with
           | none => none
           | some (ks, rest3) => some ((k, desc) :: ks, rest3))
        | none => some ([(k, desc)], rest1)

/-- the `from` rule (FROM expression with OPEN / CLOSE / CLEAR) -/
def parseFromBody : Nat → List Tok → P FromC
  | 0, _ => none
  | f + 1, ts =>
    match bodyAct ts with
    | .open_ rest => parseOpenFirst rest
    | .close ts' =>
      (match parseCloseClear ts' with
       | none => none
       | some (c, cl, rest') => some (.from none none c cl, rest'))
    | .clear rest => some (.from none none .absent true, rest)
    | .expr =>
      match parseExpr f ts with
      | none => none
      | some (e, rest) =>
        match parseOpenOpt rest with
        | none => none
        | some (o, rest1) =>
          match parseCloseClear rest1 with
          | none => none
          | some (c, cl, rest2) => some (.from (some e) o c cl, rest2)

/-- the FROM clause of SELECT -/
def parseFromClause : Nat → List Tok → P FromC
  | 0, _ => none
  | f + 1, ts =>
    match stripWord "from" ts with
    | none => some (.none, ts)
    | some r =>
      match fromAct r with
      | .table n r' => some (.table n, r')
      | .subselect r' =>
        (match parseSelect f r' with
         | some (s, .sym .rparen :: r'') => some (.sub s, r'')
         | _ => none)
      | .body r' => parseFromBody f r'

/-- the select list: `*` or targets -/
def parseTargetList : Nat → List Tok → P (Option (List Target))
  | 0, _ => none
  | f + 1, ts =>
    match stripStar ts with
    | some r => some (none, r)
    | none => (match parseTargets f ts with | none => none | some (tl, r') => some (some tl, r'))

/-- `['WHERE' expression]` -/
def parseWhere : Nat → List Tok → P (Option Expr)
  | 0, _ => none
  | f + 1, ts =>
    match stripWord "where" ts with
    | some r => (match parseExpr f r with | none => none | some (e, r') => some (some e, r'))
    | none => some (none, ts)

/-- `['GROUP' 'BY' groupby]` with its HAVING -/
def parseGroup : Nat → List Tok → P (List KeyRef × Option Expr)
  | 0, _ => none
  | f + 1, ts =>
    match stripWords2 "group" "by" ts with
    | some r =>
      (match parseKeys f r with
       | none => none
       | some (ks, r') =>
         match stripWord "having" r' with
         | some r'' => (match parseExpr f r'' with | none => none | some (e, r3) => some ((ks, some e), r3))
         | none => some ((ks, none), r'))
    | none => some (([], none), ts)

/-- `['ORDER' 'BY' orders]` -/
def parseOrderBy : Nat → List Tok → P (List (KeyRef × Bool))
  | 0, _ => none
  | f + 1, ts =>
    match stripWords2 "order" "by" ts with
    | some r => parseOrders f r
    | none => some ([], ts)

/-- `select` -/
def parseSelect : Nat → List Tok → P Select
  | 0, _ => none
  | f + 1, ts =>
    match stripWord "select" ts with
    | none => none
    | some ts0 =>
    match stripDistinct ts0 with
    | (distinct, ts1) =>
    match parseTargetList f ts1 with
    | none => none
    | some (tg, ts2) =>
    match parseFromClause f ts2 with
    | none => none
    | some (fr, ts3) =>
    match parseWhere f ts3 with
    | none => none
    | some (wh, ts4) =>
    match parseGroup f ts4 with
    | none => none
    | some ((gk, hv), ts5) =>
    match parseOrderBy f ts5 with
    | none => none
    | some (ob, ts6) =>
    match parsePivot ts6 with
    | none => none
    | some (pv, ts7) =>
    match parseLimit ts7 with
    | none => none
    | some (lim, ts8) => some (.mk tg fr wh gk hv ob pv lim distinct, ts8)
end

/-- `['AT' identifier]` -/
def parseAt (ts : List Tok) : Option (Option String × List Tok) :=
  match stripWord "at" ts with
  | some (t :: rest) => (identOf t).map (fun n => (some n, rest))
  | some [] => none
  | none => some (none, ts)

/-- `['FROM' from]` of BALANCES / JOURNAL / PRINT -/
def parseFromOpt (f : Nat) (ts : List Tok) : P FromC :=
  match stripWord "from" ts with
  | some r => parseFromBody f r
  | none => some (.none, ts)

/-- `statement` followed by the end of the text -/
def parseStmt (f : Nat) (ts : List Tok) : Option Stmt :=
  match ts with
  | [] => none
  | t :: rest =>
    if isW "select" t then
      match parseSelect f ts with
      | some (s, []) => some (.select s)
      | _ => none
    else if isW "balances" t then
      (match parseAt rest with
       | none => none
       | some (sf, ts1) =>
         match parseFromOpt f ts1 with
         | none => none
         | some (fr, ts2) =>
           match stripWord "where" ts2 with
           | some ts3 =>
             (match parseExpr f ts3 with
              | some (e, []) => some (.balances sf fr (some e))
              | _ => none)
           | none => (match ts2 with | [] => some (.balances sf fr none) | _ => none))
    else if isW "journal" t then
      let (acct, ts1) : Option String × List Tok :=
        match rest with
        | .str s :: r => (some s, r)
        | r => (none, r)
      (match parseAt ts1 with
       | none => none
       | some (sf, ts2) =>
         match parseFromOpt f ts2 with
         | some (fr, []) => some (.journal acct sf fr)
         | _ => none)
    else if isW "print" t then
      (match parseFromOpt f rest with
       | some (fr, []) => some (.print fr)
       | _ => none)
    else none

/-- the fuel the driver gives the parser -/
def parse (ts : List Tok) : Option Stmt := parseStmt (16 * ts.length + 64) ts

end Bql.Syn
