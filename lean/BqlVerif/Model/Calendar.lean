/-
  Proleptic Gregorian calendar after CPython's `datetime` (`_ymd2ord`, `_ord2ymd`,
  `weekday`, `isocalendar`) and `dateutil.relativedelta` addition.
-/
import BqlVerif.Model.Value
namespace Bql

def isLeap (y : Nat) : Bool := y % 4 == 0 && (y % 100 != 0 || y % 400 == 0)

def daysInMonth (y m : Nat) : Nat :=
  match m with
  | 1 => 31 | 2 => if isLeap y then 29 else 28 | 3 => 31 | 4 => 30 | 5 => 31 | 6 => 30
  | 7 => 31 | 8 => 31 | 9 => 30 | 10 => 31 | 11 => 30 | 12 => 31 | _ => 0

/-- `_DAYS_BEFORE_MONTH[m]` for a non-leap year -/
def daysBeforeMonthTbl (m : Nat) : Nat :=
  match m with
  | 1 => 0 | 2 => 31 | 3 => 59 | 4 => 90 | 5 => 120 | 6 => 151 | 7 => 181 | 8 => 212
  | 9 => 243 | 10 => 273 | 11 => 304 | 12 => 334 | _ => 365

def daysBeforeMonth (y m : Nat) : Nat :=
  daysBeforeMonthTbl m + (if m > 2 && isLeap y then 1 else 0)

def daysBeforeYear (y : Nat) : Nat :=
  let p := y - 1
  p * 365 + p / 4 - p / 100 + p / 400

def Date.valid (d : Date) : Bool :=
  1 ≤ d.y && d.y ≤ 9999 && 1 ≤ d.m && d.m ≤ 12 && 1 ≤ d.d && d.d ≤ daysInMonth d.y d.m

/-- `date.toordinal()` -/
def Date.toOrd (d : Date) : Nat := daysBeforeYear d.y + daysBeforeMonth d.y d.m + d.d

/-- `date.fromordinal(n)` (CPython `_ord2ymd`), for `n ≥ 1` -/
def Date.fromOrd (n : Nat) : Date :=
  let n := n - 1
  let n400 := n / 146097
  let n := n % 146097
  let n100 := n / 36524
  let n := n % 36524
  let n4 := n / 1461
  let n := n % 1461
  let n1 := n / 365
  let n := n % 365
  let year := n400 * 400 + 1 + n100 * 100 + n4 * 4 + n1
  if n1 == 4 || n100 == 4 then ⟨year - 1, 12, 31⟩ else
    let leap := n1 == 3 && (n4 != 24 || n100 == 3)
    let month := (n + 50) / 32
    let preceding := daysBeforeMonthTbl month + (if month > 2 && leap then 1 else 0)
    if preceding > n then
      let month := month - 1
      let dim := (match month with
        | 1 => 31 | 2 => 28 | 3 => 31 | 4 => 30 | 5 => 31 | 6 => 30
        | 7 => 31 | 8 => 31 | 9 => 30 | 10 => 31 | 11 => 30 | 12 => 31 | _ => 0)
      let preceding := preceding - (dim + (if month == 2 && leap then 1 else 0))
      ⟨year, month, n - preceding + 1⟩
    else ⟨year, month, n - preceding + 1⟩

def maxOrd : Nat := 3652059   -- date(9999, 12, 31).toordinal()

/-- `date + timedelta(days=k)`; `none` = OverflowError -/
def Date.addDays (d : Date) (k : Int) : Option Date :=
  let n : Int := (d.toOrd : Int) + k
  if 1 ≤ n && n ≤ (maxOrd : Int) then some (Date.fromOrd n.toNat) else none

def Date.diffDays (a b : Date) : Int := (a.toOrd : Int) - (b.toOrd : Int)

/-- Monday = 0 -/
def Date.weekday (d : Date) : Nat := (d.toOrd + 6) % 7

def isoWeek1Monday (y : Nat) : Int :=
  let firstday : Int := ((Date.toOrd ⟨y, 1, 1⟩ : Nat) : Int)
  let firstweekday := (firstday + 6) % 7
  let w := firstday - firstweekday
  if firstweekday > 3 then w + 7 else w

/-- `date.isocalendar()` = (iso year, iso week, iso weekday) -/
def Date.isocalendar (d : Date) : Nat × Nat × Nat :=
  let today : Int := (d.toOrd : Int)
  let w1 := isoWeek1Monday d.y
  let week := (today - w1).fdiv 7
  let day := (today - w1).fmod 7
  if week < 0 then
    let w1' := isoWeek1Monday (d.y - 1)
    (d.y - 1, ((today - w1').fdiv 7).toNat + 1, ((today - w1').fmod 7).toNat + 1)
  else if week ≥ 52 && today ≥ isoWeek1Monday (d.y + 1) then
    (d.y + 1, 1, day.toNat + 1)
  else (d.y, week.toNat + 1, day.toNat + 1)

/-- `relativedelta._fix` on (years, months): months normalised into [-11, 11]. -/
def fixInterval (years months days : Int) : Int × Int × Int :=
  if months.natAbs > 11 then
    let s : Int := if months < 0 then -1 else 1
    let q := (months * s) / 12
    let r := (months * s) % 12
    (years + q * s, r * s, days)
  else (years, months, days)

/-- `date + relativedelta(years, months, days)`; `none` = ValueError/OverflowError. -/
def Date.addInterval (d : Date) (years months days : Int) : Option Date :=
  let y : Int := (d.y : Int) + years
  let m : Int := (d.m : Int) + months
  let (y, m) := if months != 0 then (if m > 12 then (y + 1, m - 12) else if m < 1 then (y - 1, m + 12) else (y, m)) else (y, m)
  if y < 1 || y > 9999 then none else
    let yy := y.toNat
    let mm := m.toNat
    let dd := min (daysInMonth yy mm) d.d
    Date.addDays ⟨yy, mm, dd⟩ days

def weekdayName (w : Nat) : String :=
  match w with
  | 0 => "Mon" | 1 => "Tue" | 2 => "Wed" | 3 => "Thu" | 4 => "Fri" | 5 => "Sat" | _ => "Sun"

end Bql
