/-
  Values of the BQL engine model.

  Mirrors the Python value universe that beanquery manipulates:
  None, int, Decimal (coefficient, exponent), str, datetime.date, bool,
  list / set, relativedelta (years, months, days) and opaque objects.
  No Mathlib imports: this file is linked into the driver executable.
-/
namespace Bql

/-- A calendar date (proleptic Gregorian).  Validity is a separate predicate
    (`Date.valid` in `Calendar.lean`). -/
structure Date where
  y : Nat
  m : Nat
  d : Nat
  deriving DecidableEq, Repr, Inhabited

def Date.lt (a b : Date) : Bool :=
  a.y < b.y || (a.y == b.y && (a.m < b.m || (a.m == b.m && a.d < b.d)))
def Date.le (a b : Date) : Bool := a == b || a.lt b

/-- Python `decimal.Decimal` finite value: `coef * 10 ^ exp`. -/
structure Dec where
  coef : Int
  exp : Int
  deriving DecidableEq, Repr, Inhabited

inductive Value
  | null
  | int (i : Int)
  | dec (d : Dec)
  | str (s : String)
  | date (d : Date)
  | bool (b : Bool)
  | list (xs : List Value)
  | set (xs : List Value)          -- kept sorted and duplicate free by the producer
  | interval (years months days : Int)
  | opaque (ty : String) (id : Nat)
  deriving Repr, Inhabited

/-- Datatypes announced by compiled nodes (`EvalNode.dtype`). -/
inductive Ty
  | int | dec | str | date | bool | obj | none | list | set | dict | interval
  | amount | position | inventory | asterisk | any
  | other (name : String)
  deriving DecidableEq, Repr, Inhabited

def Ty.name : Ty → String
  | .int => "int" | .dec => "Decimal" | .str => "str" | .date => "date" | .bool => "bool"
  | .obj => "object" | .none => "NoneType" | .list => "list" | .set => "set" | .dict => "dict"
  | .interval => "relativedelta" | .amount => "Amount" | .position => "Position"
  | .inventory => "Inventory" | .asterisk => "*" | .any => "any" | .other n => n

def Ty.ofName : String → Ty
  | "int" => .int | "Decimal" => .dec | "str" => .str | "date" => .date | "bool" => .bool
  | "object" => .obj | "NoneType" => .none | "list" => .list | "set" => .set | "dict" => .dict
  | "relativedelta" => .interval | "Amount" => .amount | "Position" => .position
  | "Inventory" => .inventory | "*" => .asterisk | "any" => .any | n => .other n

/-! ## Decimal arithmetic (CPython `decimal`, precision 28, ROUND_HALF_EVEN) -/

def natDigits : Nat → Nat → Nat
  | 0, _ => 1
  | fuel+1, n => if n < 10 then 1 else 1 + natDigits fuel (n / 10)

/-- number of decimal digits of `|n|` (1 for 0). -/
def ndig (n : Int) : Nat := natDigits (n.natAbs + 1) n.natAbs

def PREC : Nat := 28

def Dec.ofInt (i : Int) : Dec := ⟨i, 0⟩

/-- `Decimal._fix`: round the coefficient to 28 significant digits, half even. -/
def Dec.fix (c e : Int) : Dec :=
  let d := ndig c
  if d ≤ PREC then ⟨c, e⟩ else
    let shift := d - PREC
    let p := 10 ^ shift
    let a := c.natAbs
    let q := a / p
    let r := a % p
    let half := p / 2
    let q := if r > half || (r == half && q % 2 == 1) then q + 1 else q
    let (q, shift) := if natDigits (q + 1) q > PREC then (q / 10, shift + 1) else (q, shift)
    ⟨if c ≥ 0 then (q : Int) else -(q : Int), e + shift⟩

def pow10 (n : Int) : Int := (10 : Int) ^ n.toNat

/-- Align two decimals to the smaller exponent. -/
def Dec.align (a b : Dec) : Int × Int × Int :=
  let e := min a.exp b.exp
  (a.coef * pow10 (a.exp - e), b.coef * pow10 (b.exp - e), e)

def Dec.add (a b : Dec) : Dec :=
  let (x, y, e) := Dec.align a b
  Dec.fix (x + y) e

def Dec.neg (a : Dec) : Dec := ⟨-a.coef, a.exp⟩
def Dec.sub (a b : Dec) : Dec := Dec.add a (Dec.neg b)
def Dec.mul (a b : Dec) : Dec := Dec.fix (a.coef * b.coef) (a.exp + b.exp)

def stripZeros : Nat → Nat → Int → Int → Nat × Int
  | 0, c, e, _ => (c, e)
  | fuel+1, c, e, ideal =>
    if e < ideal && c % 10 == 0 && c != 0 then stripZeros fuel (c / 10) (e + 1) ideal else (c, e)

/-- `Decimal.__truediv__` for a non-zero divisor. -/
def Dec.div (a b : Dec) : Dec :=
  let neg := (a.coef < 0) != (b.coef < 0)
  if a.coef == 0 then ⟨0, a.exp - b.exp⟩ else
    let n1 := a.coef.natAbs
    let n2 := b.coef.natAbs
    let shift : Int := (ndig b.coef : Int) - (ndig a.coef : Int) + (PREC : Int) + 1
    let exp := a.exp - b.exp - shift
    let (coeff, rem) :=
      if shift ≥ 0 then ((n1 * 10 ^ shift.toNat) / n2, (n1 * 10 ^ shift.toNat) % n2)
      else (n1 / (n2 * 10 ^ (-shift).toNat), n1 % (n2 * 10 ^ (-shift).toNat))
    let (coeff, exp) :=
      if rem != 0 then ((if coeff % 5 == 0 then coeff + 1 else coeff), exp)
      else stripZeros 64 coeff exp (a.exp - b.exp)
    Dec.fix (if neg then -(coeff : Int) else (coeff : Int)) exp

/-- `Decimal.__mod__` (sign of the dividend) for a non-zero divisor. -/
def Dec.mod (a b : Dec) : Dec :=
  let (x, y, e) := Dec.align a b
  let r := x.natAbs % y.natAbs
  Dec.fix (if x ≥ 0 then (r : Int) else -(r : Int)) e

/-- Python int `%` (sign of the divisor) for a non-zero divisor. -/
def intMod (x y : Int) : Int := Int.fmod x y

def Dec.isZero (a : Dec) : Bool := a.coef == 0

/-- numeric comparison by cross scaling -/
def Dec.cmp (a b : Dec) : Ordering :=
  let (x, y, _) := Dec.align a b
  compare x y

def Dec.eqv (a b : Dec) : Bool := Dec.cmp a b == .eq
def Dec.lt (a b : Dec) : Bool := Dec.cmp a b == .lt
def Dec.le (a b : Dec) : Bool := Dec.cmp a b != .gt

/-! ## Python-level notions on values -/

def Value.isNull : Value → Bool
  | .null => true
  | _ => false

/-- Python truthiness (`bool(x)`). -/
def Value.truthy : Value → Bool
  | .null => false
  | .int i => i != 0
  | .dec d => d.coef != 0
  | .str s => s != ""
  | .date _ => true
  | .bool b => b
  | .list xs => !xs.isEmpty
  | .set xs => !xs.isEmpty
  | .interval y m d => y != 0 || m != 0 || d != 0
  | .opaque _ _ => true

/-- view of a numeric value (int, bool, Decimal) as a decimal. -/
def Value.num? : Value → Option Dec
  | .int i => some (Dec.ofInt i)
  | .bool b => some (Dec.ofInt (if b then 1 else 0))
  | .dec d => some d
  | _ => none

/-- strip trailing zeros of a non-zero coefficient -/
def stripAll : Nat → Int → Int → Int × Int
  | 0, c, e => (c, e)
  | f+1, c, e => if c != 0 && c % 10 == 0 then stripAll f (c / 10) (e + 1) else (c, e)

/-- canonical (coefficient, exponent) of a decimal: equal exactly for numerically equal values -/
def Dec.norm (d : Dec) : Int × Int :=
  if d.coef == 0 then (0, 0) else stripAll (ndig d.coef) d.coef d.exp

def lenPrefixed (s : String) : String := toString s.length ++ ":" ++ s

mutual
/-- Equality key: two values are equal for Python's `==` (and hash alike) exactly when their
    keys are equal strings.  int, bool and Decimal share one numeric form (`1 == 1.0 == True`). -/
def eqKey : Value → String
  | .null => "N"
  | .int i => let n := Dec.norm (Dec.ofInt i); "n" ++ toString n.1 ++ "e" ++ toString n.2
  | .bool b => if b then "n1e0" else "n0e0"
  | .dec d => let n := Dec.norm d; "n" ++ toString n.1 ++ "e" ++ toString n.2
  | .str s => "s" ++ lenPrefixed s
  | .date d => "t" ++ toString d.y ++ "-" ++ toString d.m ++ "-" ++ toString d.d
  | .list xs => "l[" ++ eqKeyList xs ++ "]"
  | .set xs => "z[" ++ eqKeyList xs ++ "]"
  | .interval y m d => "r" ++ toString y ++ "," ++ toString m ++ "," ++ toString d
  | .opaque t i => "o" ++ lenPrefixed t ++ "#" ++ toString i
def eqKeyList : List Value → String
  | [] => ""
  | v :: vs => lenPrefixed (eqKey v) ++ eqKeyList vs
end

/-- Python `==` between values -/
def pyEq (a b : Value) : Bool := eqKey a == eqKey b

/-- Python tuple / list `==` -/
def pyEqList (a b : List Value) : Bool := eqKeyList a == eqKeyList b

/-- Python `<` inside one comparable class; `none` = TypeError. -/
def pyLt? : Value → Value → Option Bool
  | .str a, .str b => some (a < b)
  | .date a, .date b => some (a.lt b)
  | a, b =>
    match a.num?, b.num? with
    | some x, some y => some (Dec.lt x y)
    | _, _ => none

/-! ## Canonical printing (the wire format of results) -/

def escapeStr (s : String) : String :=
  s.foldl (fun acc c =>
    if c == '"' then acc ++ "\\\"" else if c == '\\' then acc ++ "\\\\"
    else if c == '\n' then acc ++ "\\n" else acc.push c) ""

def pad2 (n : Nat) : String := if n < 10 then "0" ++ toString n else toString n
def pad4 (n : Nat) : String :=
  let s := toString n
  "".pushn '0' (4 - s.length) ++ s

def Date.show (d : Date) : String := pad4 d.y ++ "-" ++ pad2 d.m ++ "-" ++ pad2 d.d

partial def Value.show : Value → String
  | .null => "N"
  | .int i => "I" ++ toString i
  | .dec d => "D" ++ toString d.coef ++ "e" ++ toString d.exp
  | .str s => "S\"" ++ escapeStr s ++ "\""
  | .date d => "T" ++ d.show
  | .bool b => if b then "B1" else "B0"
  | .list xs => "L[" ++ " ".intercalate (xs.map Value.show) ++ "]"
  | .set xs => "Z[" ++ " ".intercalate (xs.map Value.show) ++ "]"
  | .interval y m d => "R" ++ toString y ++ "," ++ toString m ++ "," ++ toString d
  | .opaque t i => "O" ++ t ++ "#" ++ toString i

def showRow (r : List Value) : String := "(" ++ " ".intercalate (r.map Value.show) ++ ")"

end Bql
