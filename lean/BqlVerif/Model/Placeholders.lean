/-
  Placeholder state on a parsed statement (`compiler.py:52-72`).
  `old*`: the numbering used to be *stored on the AST nodes* (`placeholder.name = i`);
  `new*`: the repaired compiler keeps the numbering in the compiler object.
-/
namespace Bql

/-- the `name` attribute of a Placeholder node -/
inductive PName | unset | idx (i : Nat) | named (s : String)
  deriving DecidableEq, Repr, Inhabited

/-- Python truthiness of the attribute: '' and 0 are falsy -/
def PName.truthy : PName → Bool
  | .unset => false
  | .idx i => i != 0
  | .named s => s != ""

inductive PKind | allNamed | allPositional | mixed
  deriving DecidableEq, Repr

/-- `all(names)` / `not any(names)` / else -/
def classify (names : List PName) : PKind :=
  if names.all PName.truthy then .allNamed
  else if names.all (fun n => !n.truthy) then .allPositional
  else .mixed

/-- one compilation with a parameter *sequence*, old behaviour: returns the new AST state
    and whether the compilation was accepted -/
def oldCompileSeq (names : List PName) (nparams : Nat) : List PName × Bool :=
  match classify names with
  | .allPositional =>
    if names.length == nparams then ((List.range names.length).map PName.idx, true) else (names, false)
  | _ => (names, false)

/-- repaired behaviour: the AST is left alone -/
def newCompileSeq (names : List PName) (nparams : Nat) : List PName × Bool :=
  match classify names with
  | .allPositional => (names, names.length == nparams)
  | _ => (names, false)

/-- run a history of executions of one parsed statement -/
def runHistory (step : List PName → Nat → List PName × Bool) : List PName → List Nat → List Bool
  | _, [] => []
  | st, n :: ns => let (st', ok) := step st n; ok :: runHistory step st' ns

end Bql
