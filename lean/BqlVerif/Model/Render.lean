/-
  Text / CSV rendering layout (`beanquery/query_render.py:423-563`): row expansion, NULL
  placeholder, spacing rows, column widths, header centring, padding, box styles; the bool / int /
  str / date / decimal / set cell renderers.  Text is modelled as `List Char`.
-/
import BqlVerif.Model.Sem
namespace Bql.Render

abbrev Str := List Char

def spaces (n : Nat) : Str := List.replicate n ' '

/-- `str.ljust(w)` / `str.rjust(w)` -/
def ljust (w : Nat) (s : Str) : Str := s ++ spaces (w - s.length)
def rjust (w : Nat) (s : Str) : Str := spaces (w - s.length) ++ s

/-- `str.center(w)` (CPython: the extra blank goes left when both the margin and the width are odd) -/
def center (w : Nat) (s : Str) : Str :=
  let marg := w - s.length
  let left := marg / 2 + (if marg % 2 == 1 && w % 2 == 1 then 1 else 0)
  spaces left ++ s ++ spaces (marg - left)

def joinSep (sep : Str) : List Str → Str
  | [] => []
  | [x] => x
  | x :: y :: rest => x ++ sep ++ joinSep sep (y :: rest)

/-- one rendered cell: a single string or (row expansion) a list of lines -/
inductive Cell | one (s : Str) | many (ss : List Str)
  deriving Repr, Inhabited

def Cell.lines : Cell → List Str
  | .one s => [s]
  | .many ss => ss

def Cell.isMany : Cell → Bool
  | .many _ => true
  | _ => false

/-- transpose the cells of one result row into physical lines, padding short cells with '' -/
def expandRow (cells : List Cell) : List (List Str) :=
  if cells.any Cell.isMany then
    let n := (cells.map (fun c => c.lines.length)).foldl max 0
    (List.range n).map (fun k => cells.map (fun c => c.lines.getD k []))
  else [cells.map (fun c => match c with | .one s => s | .many _ => [])]

/-- `render_rows`: NULL placeholder is applied by the caller; here spacing rows are added -/
def renderRows (rows : List (List Cell)) (spaced : Bool) (ncols : Nat) : List (List Str) :=
  rows.flatMap (fun cells => expandRow cells ++ (if spaced then [List.replicate ncols []] else []))

structure Style where
  pre : Str
  sep : Str
  post : Str
  top : Option (Str × Str × Str × Char)     -- (left, joint, right, fill) of the top rule
  hline : Str × Str × Str × Char
  bottom : Option (Str × Str × Str × Char)
  deriving Repr

def style (boxed unicode : Bool) : Style :=
  if boxed then
    if unicode then
      { pre := "│ ".toList, sep := " │ ".toList, post := " │".toList,
        top := some ("┌─".toList, "─┬─".toList, "─┐".toList, '─'),
        hline := ("├─".toList, "─┼─".toList, "─┤".toList, '─'),
        bottom := some ("└─".toList, "─┴─".toList, "─┘".toList, '─') }
    else
      { pre := "| ".toList, sep := " | ".toList, post := " |".toList,
        top := some ("+-".toList, "-+-".toList, "-+".toList, '-'),
        hline := ("+-".toList, "-+-".toList, "-+".toList, '-'),
        bottom := some ("+-".toList, "-+-".toList, "-+".toList, '-') }
  else
    { pre := [], sep := "  ".toList, post := [], top := none,
      hline := ([], "  ".toList, [], if unicode then '─' else '-'), bottom := none }

def rule (r : Str × Str × Str × Char) (widths : List Nat) : Str :=
  r.1 ++ joinSep r.2.1 (widths.map (fun w => List.replicate w r.2.2.2)) ++ r.2.2.1

def line (st : Style) (cells : List Str) : Str := st.pre ++ joinSep st.sep cells ++ st.post

def padCell (w : Nat) (right : Bool) (x : Str) : Str := if right then rjust w x else ljust w x

/-- column widths: `max(1, narrow or len(header), len(nullvalue), renderer width)` -/
def colWidth (narrow : Bool) (header nullvalue : Str) (w : Nat) : Nat :=
  max (max (max 1 (if narrow then 1 else header.length)) nullvalue.length) w

/-- `render_text` given the already formatted cells (NULL replaced by `nullvalue`) -/
def renderText (headers : List Str) (cellWidths : List Nat) (rightAlign : List Bool) (rows : List (List Cell))
    (boxed unicode spaced narrow : Bool) (nullvalue : Str) : List Str :=
  let st := style boxed unicode
  let widths := (headers.zip cellWidths).map (fun p => colWidth narrow p.1 nullvalue p.2)
  let head := line st ((headers.zip widths).map (fun p => center p.2 (p.1.take p.2)))
  let body := (renderRows rows spaced headers.length).map (fun cells =>
    line st ((cells.zip (widths.zip rightAlign)).map (fun p => padCell p.2.1 p.2.2 p.1)))
  (match st.top with | some r => [rule r widths] | none => []) ++ [head] ++ [rule st.hline widths] ++ body ++
    (match st.bottom with | some r => [rule r widths] | none => [])

/-- `render_csv` at record level: header + one record per expanded row -/
def renderCsv (headers : List Str) (rows : List (List Cell)) : List (List Str) :=
  headers :: renderRows rows false headers.length

/-! ### cell renderers for the plain datatypes -/

def fmtBool (b : Bool) : Str := (if b then "TRUE" else "FALSE").toList
def fmtInt (i : Int) : Str := (toString i).toList
def fmtDate (d : Date) : Str := d.show.toList
def fmtSet (sep : Str) (sortedItems : List Str) : Str := joinSep sep sortedItems

/-- decimal cell split at the point: (sign and integral digits, "." and fractional digits or "") -/
def splitDec (d : Dec) : Str × Str :=
  let s := d.toPyStr.toList
  (s.takeWhile (· != '.'), s.dropWhile (· != '.'))

/-- `DecimalRenderer`: `nintegral`, `nfractional` over the column; exponent <= 0 only -/
def decIntegral (ds : List Dec) : Nat := (ds.map (fun d => (splitDec d).1.length)).foldl max 0
def decFractional (ds : List Dec) : Nat := (ds.map (fun d => (splitDec d).2.length - 1)).foldl max 0
def decWidth (ds : List Dec) : Nat := decIntegral ds + decFractional ds + (if decFractional ds > 0 then 1 else 0)

/-- `DecimalRenderer.format`: left padding aligns the decimal point at offset `nintegral` -/
def fmtDecParts (nI width : Nat) (ip fp : Str) : Str :=
  spaces (nI - ip.length) ++ ljust (width - (nI - ip.length)) (ip ++ fp)

def fmtDec (ds : List Dec) (d : Dec) : Str := fmtDecParts (decIntegral ds) (decWidth ds) (splitDec d).1 (splitDec d).2

end Bql.Render
