/-
  The scalar function library of `query_env.py` that does not call into Beancount's price or
  metadata maps: date, account, string and numeric functions (the casts live in `Sem.lean`).
-/
import BqlVerif.Model.Sem
namespace Bql

/-! ### dates (`query_env.py:247-288, 588-724`) -/

/-- `date_trunc(field, x)`; `none` = NULL (unknown field) -/
def dateTrunc (field : String) (x : Date) : Option Date :=
  match field with
  | "week" => x.addDays (-(x.weekday : Int))
  | "month" => some ⟨x.y, x.m, 1⟩
  | "quarter" => some ⟨x.y, x.m - (x.m - 1) % 3, 1⟩
  | "year" => some ⟨x.y, 1, 1⟩
  | "decade" => some ⟨x.y - x.y % 10, 1, 1⟩
  | "century" => some ⟨x.y - (x.y - 1) % 100, 1, 1⟩
  | "millennium" => some ⟨x.y - (x.y - 1) % 1000, 1, 1⟩
  | _ => none

def epochOrd : Nat := 719163   -- date(1970, 1, 1).toordinal()

/-- `date_part(field, x)`; `none` = NULL -/
def datePart (field : String) (x : Date) : Option Int :=
  match field with
  | "weekday" | "dow" => some x.weekday
  | "isoweekday" | "isodow" => some (x.weekday + 1)
  | "week" => some x.isocalendar.2.1
  | "month" => some x.m
  | "quarter" => some ((x.m - 1) / 3 + 1)
  | "year" => some x.y
  | "isoyear" => some x.isocalendar.1
  | "decade" => some (x.y / 10)
  | "century" => some ((x.y - 1) / 100 + 1)
  | "millennium" => some ((x.y - 1) / 1000 + 1)
  | "epoch" => some (((x.toOrd : Int) - epochOrd) * 86400)
  | _ => none

def isWs (c : Char) : Bool := c == ' ' || c == '\t' || c == '\n' || c == '\r' || c == '\x0b' || c == '\x0c'

/-- `interval(x)`: `re.fullmatch(r'([-+]?[0-9]+)\s+(day|month|year)s?', x)`; (years, months, days) -/
def parseInterval (s : String) : Option (Int × Int × Int) :=
  let cs := s.toList
  let (sign, cs) : Int × List Char := match cs with
    | '-' :: r => (-1, r)
    | '+' :: r => (1, r)
    | _ => (1, cs)
  let ds := cs.takeWhile Char.isDigit
  let rest := cs.dropWhile Char.isDigit
  if ds.isEmpty then none else
  let ws := rest.takeWhile isWs
  let unit := rest.dropWhile isWs
  if ws.isEmpty then none else
  let n : Int := sign * (natOfDigits ds : Int)
  let u := String.ofList unit
  if u == "day" || u == "days" then some (fixInterval 0 0 n)
  else if u == "month" || u == "months" then some (fixInterval 0 n 0)
  else if u == "year" || u == "years" then some (fixInterval n 0 0)
  else none

/-- month/year branch of `date_bin`, forward: the loop `d = n = origin; n += stride; if n > source: return d` -/
def binForward (y m k : Int) (source : Date) : Nat → Date → Option Date
  | 0, _ => none
  | fuel + 1, d =>
    match d.addInterval y m k with
    | none => none
    | some n => if source.lt n then some d else binForward y m k source fuel n

/-- backward: `n = origin; n -= stride; if n <= source: return n` -/
def binBackward (y m k : Int) (source : Date) : Nat → Date → Option Date
  | 0, _ => none
  | fuel + 1, d =>
    match d.addInterval (-y) (-m) (-k) with
    | none => none
    | some n => if n.le source then some n else binBackward y m k source fuel n

/-- `date_bin(stride, source, origin)`; outer `none` = fuel/overflow, inner `none` = NULL -/
def dateBin (y m k : Int) (source origin : Date) : Option (Option Date) :=
  if m != 0 || y != 0 then
    match origin.addInterval y m k with
    | none => none
    | some o1 =>
      if o1.le origin then some none
      else if origin.le source then (binForward y m k source 40000 origin).map some
      else (binBackward y m k source 40000 origin).map some
  else
    if k ≤ 0 then some none
    else
      let diff : Int := source.diffDays origin
      let modulo := diff % k
      (origin.addDays (diff - modulo)).map some

/-! ### accounts (`beancount.core.account`, `account_types`) -/

def accountRoot (n : Int) (acc : String) : String :=
  ":".intercalate (pySlice (splitStr ':' acc) 0 n)

/-- `account.parent`; `none` = NULL for the empty name -/
def accountParent (acc : String) : Option String :=
  if acc == "" then none else some (":".intercalate (splitStr ':' acc).dropLast)

def accountLeaf (acc : String) : Option String :=
  if acc == "" then none else (splitStr ':' acc).getLast?

def defaultAccountTypes : List String := ["Assets", "Liabilities", "Equity", "Income", "Expenses"]

/-- `account_sortkey`: `'{index}-{name}'`; `none` = ValueError (unknown root) -/
def accountSortkey (types : List String) (acc : String) : Option String :=
  let root := (splitStr ':' acc).headD ""
  let i := types.idxOf root
  if i < types.length then some (toString i ++ "-" ++ acc) else none

/-- `get_account_sign`: +1 for Assets / Expenses, -1 otherwise -/
def accountSign (types : List String) (acc : String) : Int :=
  let root := (splitStr ':' acc).headD ""
  if some root == types[0]? || some root == types[4]? then 1 else -1

def possignDec (types : List String) (x : Dec) (acc : String) : Dec :=
  if accountSign types acc ≥ 0 then x else Dec.neg x

/-! ### strings -/

/-- `splitcomp(s, delim, i)` = `s.split(delim)[i]` for a one-character delimiter;
    outer `none` = outside the model, inner `none` = IndexError -/
def splitcomp (s delim : String) (i : Int) : Option (Option String) :=
  match delim.toList with
  | [c] =>
    let parts := splitStr c s
    let n : Int := parts.length
    let j := if i < 0 then i + n else i
    some (if 0 ≤ j ∧ j < n then parts[j.toNat]? else none)
  | _ => none

def joinstr (xs : List String) : String := ",".intercalate xs

/-- `findfirst(pattern, values)` for a literal pattern: `re.match` = prefix test over sorted values -/
def findfirstLiteral (pat : String) (sortedValues : List String) : Option String :=
  sortedValues.find? (fun v => isPrefixL pat.toList v.toList)

/-- `grep(pattern, string)` for a literal pattern: the matched portion is the pattern itself -/
def grepLiteral (pat s : String) : Option String :=
  if containsL pat.toList s.toList then some pat else none

/-! ### numbers -/

def decAbs (d : Dec) : Dec := ⟨d.coef.natAbs, d.exp⟩

def safediv (x y : Dec) : Dec := if y.isZero then ⟨0, 0⟩ else Dec.div x y

end Bql
