/-
  The scalar function library of `query_env.py` that does not call into Beancount's price or
  metadata maps: date, account, string and numeric functions (the casts live in `Sem.lean`).
-/
import BqlVerif.Model.Sem
namespace Bql

/-! ### dates (`query_env.py:247-288, 588-724`) -/

/-- `date_trunc(field, x)`; `none` = NULL (unknown field) -/
def dateTrunc (field : String) (x : Date) : Option Date :=
  match field with
  | "week" => x.addDays (-(x.weekday : Int))
  | "month" => some ⟨x.y, x.m, 1⟩
  | "quarter" => some ⟨x.y, x.m - (x.m - 1) % 3, 1⟩
  | "year" => some ⟨x.y, 1, 1⟩
  | "decade" => some ⟨x.y - x.y % 10, 1, 1⟩
  | "century" => some ⟨x.y - (x.y - 1) % 100, 1, 1⟩
  | "millennium" => some ⟨x.y - (x.y - 1) % 1000, 1, 1⟩
  | _ => none

def epochOrd : Nat := 719163   -- date(1970, 1, 1).toordinal()

/-- `date_part(field, x)`; `none` = NULL -/
def datePart (field : String) (x : Date) : Option Int :=
  match field with
  | "weekday" | "dow" => some x.weekday
  | "isoweekday" | "isodow" => some (x.weekday + 1)
  | "week" => some x.isocalendar.2.1
  | "month" => some x.m
  | "quarter" => some ((x.m - 1) / 3 + 1)
  | "year" => some x.y
  | "isoyear" => some x.isocalendar.1
  | "decade" => some (x.y / 10)
  | "century" => some ((x.y - 1) / 100 + 1)
  | "millennium" => some ((x.y - 1) / 1000 + 1)
  | "epoch" => some (((x.toOrd : Int) - epochOrd) * 86400)
  | _ => none

def isWs (c : Char) : Bool := c == ' ' || c == '\t' || c == '\n' || c == '\r' || c == '\x0b' || c == '\x0c'

/-- `interval(x)`: `re.fullmatch(r'([-+]?[0-9]+)\s+(day|month|year)s?', x)`; (years, months, days) -/
def parseInterval (s : String) : Option (Int × Int × Int) :=
  let cs := s.toList
  let (sign, cs) : Int × List Char := match cs with
    | '-' :: r => (-1, r)
    | '+' :: r => (1, r)
    | _ => (1, cs)
  let ds := cs.takeWhile Char.isDigit
  let rest := cs.dropWhile Char.isDigit
  if ds.isEmpty then none else
  let ws := rest.takeWhile isWs
  let unit := rest.dropWhile isWs
  if ws.isEmpty then none else
  let n : Int := sign * (natOfDigits ds : Int)
  let u := String.ofList unit
  if u == "day" || u == "days" then some (fixInterval 0 0 n)
  else if u == "month" || u == "months" then some (fixInterval 0 n 0)
  else if u == "year" || u == "years" then some (fixInterval n 0 0)
  else none

/-- month/year branch of `date_bin`, forward: the loop `d = n = origin; n += stride; if n > source: return d` -/
def binForward (y m k : Int) (source : Date) : Nat → Date → Option Date
  | 0, _ => none
  | fuel + 1, d =>
    match d.addInterval y m k with
    | none => none
    | some n => if source.lt n then some d else binForward y m k source fuel n

/-- backward: `n = origin; n -= stride; if n <= source: return n` -/
def binBackward (y m k : Int) (source : Date) : Nat → Date → Option Date
  | 0, _ => none
  | fuel + 1, d =>
    match d.addInterval (-y) (-m) (-k) with
    | none => none
    | some n => if n.le source then some n else binBackward y m k source fuel n

/-- `date_bin(stride, source, origin)`; outer `none` = fuel/overflow, inner `none` = NULL -/
def dateBin (y m k : Int) (source origin : Date) : Option (Option Date) :=
  if m != 0 || y != 0 then
    match origin.addInterval y m k with
    | none => none
    | some o1 =>
      if o1.le origin then some none
      else if origin.le source then (binForward y m k source 40000 origin).map some
      else (binBackward y m k source 40000 origin).map some
  else
    if k ≤ 0 then some none
    else
      let diff : Int := source.diffDays origin
      let modulo := diff % k
      (origin.addDays (diff - modulo)).map some

/-! ### accounts (`beancount.core.account`, `account_types`) -/

def accountRoot (n : Int) (acc : String) : String :=
  ":".intercalate (pySlice (splitStr ':' acc) 0 n)

/-- `account.parent`; `none` = NULL for the empty name -/
def accountParent (acc : String) : Option String :=
  if acc == "" then none else some (":".intercalate (splitStr ':' acc).dropLast)

def accountLeaf (acc : String) : Option String :=
  if acc == "" then none else (splitStr ':' acc).getLast?

def defaultAccountTypes : List String := ["Assets", "Liabilities", "Equity", "Income", "Expenses"]

/-- `account_sortkey`: `'{index}-{name}'`; `none` = ValueError (unknown root) -/
def accountSortkey (types : List String) (acc : String) : Option String :=
  let root := (splitStr ':' acc).headD ""
  let i := types.idxOf root
  if i < types.length then some (toString i ++ "-" ++ acc) else none

/-- `get_account_sign`: +1 for Assets / Expenses, -1 otherwise -/
def accountSign (types : List String) (acc : String) : Int :=
  let root := (splitStr ':' acc).headD ""
  if some root == types[0]? || some root == types[4]? then 1 else -1

def possignDec (types : List String) (x : Dec) (acc : String) : Dec :=
  if accountSign types acc ≥ 0 then x else Dec.neg x

/-! ### strings -/

/-- `splitcomp(s, delim, i)` = `s.split(delim)[i]` for a one-character delimiter;
    outer `none` = outside the model, inner `none` = IndexError -/
def splitcomp (s delim : String) (i : Int) : Option (Option String) :=
  match delim.toList with
  | [c] =>
    let parts := splitStr c s
    let n : Int := parts.length
    let j := if i < 0 then i + n else i
    some (if 0 ≤ j ∧ j < n then parts[j.toNat]? else none)
  | _ => none

def joinstr (xs : List String) : String := ",".intercalate xs

/-- `findfirst(pattern, values)` for a literal pattern: `re.match` = prefix test over sorted values -/
def findfirstLiteral (pat : String) (sortedValues : List String) : Option String :=
  sortedValues.find? (fun v => isPrefixL pat.toList v.toList)

/-- `grep(pattern, string)` for a literal pattern: the matched portion is the pattern itself -/
def grepLiteral (pat s : String) : Option String :=
  if containsL pat.toList s.toList then some pat else none

/-- `subst(pattern, repl, string)` = `re.sub(pattern, repl, string)` for a literal, non-empty pattern and a literal
    replacement: every leftmost non-overlapping occurrence, scanning left to right (`skip` counts the characters of
    an occurrence already replaced) -/
def substGo (p r : List Char) : Nat → List Char → List Char
  | _, [] => []
  | skip + 1, _ :: cs => substGo p r skip cs
  | 0, c :: cs => if isPrefixL p (c :: cs) then r ++ substGo p r (p.length - 1) cs else c :: substGo p r 0 cs

def substLiteral (pat repl s : String) : Option String :=
  if pat.isEmpty then none else some (String.ofList (substGo pat.toList repl.toList 0 s.toList))

/-- `grepn(pattern, string, n)` for a literal pattern: group 0 is the pattern itself, there is no other group
    (`none` = IndexError) -/
def grepnLiteral (pat s : String) (n : Int) : Option (Option String) :=
  if containsL pat.toList s.toList then (if n == 0 then some (some pat) else none) else some none

/-! ### `maxwidth(x, n)` = `textwrap.shorten(x, width=n)` (CPython `textwrap`), for texts without hyphens -/

/-- one character of `str.split()`: white space closes the current word -/
def splitStep (acc : List (List Char) × List Char) (c : Char) : List (List Char) × List Char :=
  if isWs c then (if acc.2.isEmpty then acc.1 else acc.1 ++ [acc.2], []) else (acc.1, acc.2 ++ [c])

/-- `str.split()`: the maximal runs of non-white-space characters -/
def splitWords (cs : List Char) : List (List Char) :=
  let r := cs.foldl splitStep ([], [])
  if r.2.isEmpty then r.1 else r.1 ++ [r.2]

/-- `TextWrapper._split` of `' '.join(words)`: the words with single blanks between them -/
def shortenChunks : List (List Char) → List (List Char)
  | [] => []
  | [w] => [w]
  | w :: ws => w :: [' '] :: shortenChunks ws

/-- the inner loop of `_wrap_chunks`: take chunks while they fit -/
def fitLoop (width : Nat) (cur : List (List Char)) (len : Nat) : List (List Char) → List (List Char) × Nat × List (List Char)
  | [] => (cur, len, [])
  | c :: rest =>
    if len + c.length ≤ width then fitLoop width (cur ++ [c]) (len + c.length) rest else (cur, len, c :: rest)

/-- `chunk.strip() == ''` -/
def isBlankChunk (c : List Char) : Bool := c.all isWs

def shortenPlaceholder : List Char := " [...]".toList

/-- the `while cur_line:` loop that makes room for the placeholder; `cur` is the line's chunks, last first -/
def placeholderLoop (width : Nat) : List (List Char) → Nat → List Char
  | [], _ => "[...]".toList
  | c :: rest, len =>
    if !isBlankChunk c && len + shortenPlaceholder.length ≤ width then
      (c :: rest).reverse.flatten ++ shortenPlaceholder
    else placeholderLoop width rest (len - c.length)

def totalLen (l : List (List Char)) : Nat := (l.map List.length).sum

/-- `_handle_long_word` (break_long_words): when the next chunk fits on no line, its head fills the line -/
def longWord (w : Nat) (cur : List (List Char)) (len : Nat) : List (List Char) → List (List Char) × List (List Char)
  | c :: rest => if c.length > w then (cur ++ [c.take (w - len)], c.drop (w - len) :: rest) else (cur, c :: rest)
  | [] => (cur, [])

/-- a trailing white-space chunk is dropped -/
def dropBlank (cur : List (List Char)) : List (List Char) :=
  match cur.getLast? with
  | some l => if isBlankChunk l then cur.dropLast else cur
  | none => cur

/-- the single line `_wrap_chunks` produces with `max_lines=1` -/
def shortenLine (w : Nat) (chunks : List (List Char)) : List Char :=
  let r := fitLoop w [] 0 chunks
  let lw := longWord w r.1 r.2.1 r.2.2
  let cur := dropBlank lw.1
  let rest := lw.2
  if cur.isEmpty then []
  else if (rest.isEmpty || (rest.length == 1 && rest.all isBlankChunk)) && totalLen cur ≤ w then cur.flatten
  else placeholderLoop w cur.reverse (totalLen cur)

/-- `textwrap.shorten(text, width)`; `none` = ValueError (width too small for the placeholder) -/
def shorten (text : List Char) (width : Int) : Option (List Char) :=
  if width < 5 then none else some (shortenLine width.toNat (shortenChunks (splitWords text)))

/-! ### numbers -/

def decAbs (d : Dec) : Dec := ⟨d.coef.natAbs, d.exp⟩

def safediv (x y : Dec) : Dec := if y.isZero then ⟨0, 0⟩ else Dec.div x y

end Bql
