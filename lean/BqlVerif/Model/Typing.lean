/-
  The model's own typing of operator semantics (written next to `Sem.lean`, independent of the
  registry) and the conformance relation between values and announced datatypes.
-/
import BqlVerif.Model.Eval
namespace Bql

/-- `isinstance(value, dtype)` by kind, NULL conforming to everything and `object` admitting
    anything.  Exact classes for the scalar types (a bool only conforms to bool). -/
def Value.hasTy : Value → Ty → Bool
  | .null, _ => true
  | _, .obj => true
  | _, .any => true
  | _, .other _ => true
  | .int _, .int => true
  | .bool _, .bool => true
  | .dec _, .dec => true
  | .str _, .str => true
  | .date _, .date => true
  | .list _, .list => true
  | .list _, .set => true
  | .set _, .set => true
  | .set _, .list => true
  | .interval _ _ _, .interval => true
  | _, _ => false

def isNumTy (t : Ty) : Bool := t == .int || t == .dec

/-- result type of a binary operator on non-NULL operands of the given static types,
    according to the *semantics* (`semBin`); `none` = not an operation of the model -/
def semOutTy (op : BinOp) (ta tb : Ty) : Option Ty :=
  match op, ta, tb with
  | .add, .int, .int | .sub, .int, .int | .mul, .int, .int | .mod, .int, .int => some .int
  | .add, .int, .dec | .add, .dec, .int | .add, .dec, .dec => some .dec
  | .sub, .int, .dec | .sub, .dec, .int | .sub, .dec, .dec => some .dec
  | .mul, .int, .dec | .mul, .dec, .int | .mul, .dec, .dec => some .dec
  | .div, .int, .int | .div, .int, .dec | .div, .dec, .int | .div, .dec, .dec => some .dec
  | .mod, .int, .dec | .mod, .dec, .int | .mod, .dec, .dec => some .dec
  | .add, .date, .int | .add, .int, .date | .sub, .date, .int => some .date
  | .sub, .date, .date => some .int
  | .add, .date, .interval | .add, .interval, .date | .sub, .date, .interval => some .date
  | .add, .interval, .interval | .sub, .interval, .interval => some .interval
  | .match, .str, .str | .notmatch, .str, .str => some .bool
  | .eq, .int, .int | .eq, .int, .dec | .eq, .dec, .int | .eq, .dec, .dec | .eq, .str, .str | .eq, .date, .date => some .bool
  | .ne, .int, .int | .ne, .int, .dec | .ne, .dec, .int | .ne, .dec, .dec | .ne, .str, .str | .ne, .date, .date => some .bool
  | .lt, .int, .int | .lt, .int, .dec | .lt, .dec, .int | .lt, .dec, .dec | .lt, .str, .str | .lt, .date, .date => some .bool
  | .le, .int, .int | .le, .int, .dec | .le, .dec, .int | .le, .dec, .dec | .le, .str, .str | .le, .date, .date => some .bool
  | .gt, .int, .int | .gt, .int, .dec | .gt, .dec, .int | .gt, .dec, .dec | .gt, .str, .str | .gt, .date, .date => some .bool
  | .ge, .int, .int | .ge, .int, .dec | .ge, .dec, .int | .ge, .dec, .dec | .ge, .str, .str | .ge, .date, .date => some .bool
  | _, _, _ => none

def semUnOutTy (op : UnOp) (t : Ty) : Option Ty :=
  match op, t with
  | .not, _ => some .bool
  | .isnull, _ => some .bool
  | .isnotnull, _ => some .bool
  | .neg, .int => some .int
  | .neg, .bool => some .int
  | .neg, .dec => some .dec
  | _, _ => none

def binOpOfClass : String → Option BinOp
  | "Equal" => some .eq | "NotEqual" => some .ne | "Greater" => some .gt | "GreaterEq" => some .ge
  | "Less" => some .lt | "LessEq" => some .le | "Match" => some .match | "NotMatch" => some .notmatch
  | "In" => some .in | "NotIn" => some .notin | "Add" => some .add | "Sub" => some .sub
  | "Mul" => some .mul | "Div" => some .div | "Mod" => some .mod | _ => none

def unOpOfClass : String → Option UnOp
  | "Not" => some .not | "Neg" => some .neg | "IsNull" => some .isnull | "IsNotNull" => some .isnotnull
  | _ => none

/-- a raised exception that is *not* a type error of the engine (value out of range) -/
def benignError (e : String) : Bool := e == "OverflowError"

end Bql
