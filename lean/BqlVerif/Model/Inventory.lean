/-
  Beancount `Inventory` with strict lot keys (`Inventory.add_amount`), `reduce`, and the
  running-balance column of the postings table (`query_env.py:867-887, 1231-1241`).

  Numbers are exact integers at a fixed scale (the "exact arithmetic" domain: coefficients of
  at most 28 digits, where `Decimal` addition and multiplication do not round).
-/
namespace Bql

/-- lot key: currency and (optional) cost (number, currency, date ordinal, label) -/
structure LotKey where
  cur : String
  cost : Option (Int × String × Nat × String)
  deriving DecidableEq, Repr, Inhabited

/-- insertion-ordered dict `key -> number`, without zero entries -/
abbrev Inv := List (LotKey × Int)

def Inv.get (i : Inv) (k : LotKey) : Int :=
  match i with
  | [] => 0
  | (k', n) :: rest => if k' = k then n else Inv.get rest k

/-- `Inventory.add_amount(units, cost)`: update, delete on zero, or insert (zero is ignored) -/
def Inv.addAmount (i : Inv) (k : LotKey) (n : Int) : Inv :=
  match i with
  | [] => if n = 0 then [] else [(k, n)]
  | (k', m) :: rest =>
    if k' = k then (if m + n = 0 then rest else (k', m + n) :: rest)
    else (k', m) :: Inv.addAmount rest k n

def Inv.keys (i : Inv) : List LotKey := i.map (·.1)

/-- the invariant of a dict: every key once -/
def Inv.Uniq (i : Inv) : Prop := i.keys.Nodup

/-- `sum()` aggregator over positions: fold of `add_position` from the empty inventory -/
def invSum (l : List (LotKey × Int)) : Inv := l.foldl (fun i p => i.addAmount p.1 p.2) []

/-- `Inventory.add_inventory` -/
def Inv.addInv (i j : Inv) : Inv := j.foldl (fun acc p => acc.addAmount p.1 p.2) i

/-- a reducer: where a lot goes (`kf`) and the factor its number is multiplied by (`gf`);
    units: (cur, none), 1;  cost: (cost currency, none), cost number;  value / convert: the
    target currency and the rate, which depend on the lot key (and the fixed date) only -/
structure Reducer where
  kf : LotKey → LotKey
  gf : LotKey → Int

/-- `Inventory.reduce(f)` -/
def Inv.reduce (f : Reducer) (i : Inv) : Inv := invSum (i.map (fun p => (f.kf p.1, p.2 * f.gf p.1)))

/-- the same reducer applied to one position -/
def Reducer.onPos (f : Reducer) (p : LotKey × Int) : LotKey × Int := (f.kf p.1, p.2 * f.gf p.1)

/-! ### running balance: state private to one table scan -/

structure ScanState where
  balance : Inv := []
  balanceRowid : Option Nat := none
  deriving Repr, Inhabited

/-- one evaluation of the `balance` column on row `rowid` holding posting `p` -/
def evalBalance (st : ScanState) (rowid : Nat) (p : LotKey × Int) : ScanState × Inv :=
  if st.balanceRowid = some rowid then (st, st.balance)
  else
    let b := st.balance.addAmount p.1 p.2
    ({ balance := b, balanceRowid := some rowid }, b)

/-- `refs` evaluations of `balance` while processing one row; returns the values seen -/
def evalBalanceN (st : ScanState) (rowid : Nat) (p : LotKey × Int) : Nat → ScanState × List Inv
  | 0 => (st, [])
  | n + 1 =>
    let (st1, v) := evalBalance st rowid p
    let (st2, vs) := evalBalanceN st1 rowid p n
    (st2, v :: vs)

/-- a scan over rows `(rowid, posting, number of balance references evaluated in that row)` -/
def scan (st : ScanState) : List (Nat × (LotKey × Int) × Nat) → ScanState × List (List Inv)
  | [] => (st, [])
  | (rid, p, refs) :: rest =>
    let (st1, vs) := evalBalanceN st rid p refs
    let (st2, more) := scan st1 rest
    (st2, vs :: more)

/-! ### the former process-wide one-entry cache (`functools.lru_cache(maxsize=1)`) -/

/-- cache entry: (identity of the scan's row context, rowid) -> value -/
structure SharedCache where
  entry : Option ((Nat × Nat) × Inv) := none
  deriving Repr, Inhabited

/-- old behaviour: the cache is shared by all scans; a miss evaluates the body (adds the posting) -/
def evalBalanceShared (cache : SharedCache) (scanId : Nat) (balance : Inv) (rowid : Nat) (p : LotKey × Int) :
    SharedCache × Inv × Inv :=     -- (cache, new balance of this scan, returned value)
  match cache.entry with
  | some (key, v) =>
    if key = (scanId, rowid) then (cache, balance, v)
    else let b := balance.addAmount p.1 p.2; ({ entry := some ((scanId, rowid), b) }, b, b)
  | none => let b := balance.addAmount p.1 p.2; ({ entry := some ((scanId, rowid), b) }, b, b)

end Bql
