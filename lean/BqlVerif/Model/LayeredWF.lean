/-
  Well-formedness of layered trees: the side conditions under which a tree is expressible as text
  (names not reserved, literals denoting values, the quirks of the grammar's ordered choices).
-/
import BqlVerif.Model.Layered
namespace Bql.Syn

/-- an identifier the `identifier` rule accepts -/
def identOK (n : String) : Bool := !isKeyword n
/-- a column name: not NULL either (`null` is read as the constant) -/
def colOK (n : String) : Bool := !isKeyword n && n != "null"

def optIdentOK : Option String → Bool
  | none => true
  | some n => identOK n

def optDateOK : Option Date → Bool
  | none => true
  | some d => d.valid

def closeOK : CloseSpec → Bool
  | .on d => d.valid
  | _ => true

def itemsOK : List (Option Lit) → Bool
  | [] => true
  | none :: rest => itemsOK rest
  | some l :: rest => l.wf && itemsOK rest

/-- a GROUP BY / ORDER BY key expression must not start with a numeral (it would be read as a position) -/
def keyStartOK : List Tok → Bool
  | .int _ :: _ => false
  | .dec _ _ true :: _ => false
  | .date _ _ _ :: _ => false
  | _ => true

/-- a FROM expression must not start with a clause word, nor look like a subquery table -/
def fromStartOK : List Tok → Bool
  | .word w :: _ => w != "open" && w != "close" && w != "clear"
  | .sym .lparen :: .word w :: _ => w != "select"
  | [.sym .lparen] => false
  | _ => true

def PKey.ok : PKey → Bool
  | .idx _ => true
  | .col w => identOK w

mutual
def wfExpr : LExpr → Prop
  | .mk h tl => wfConj h ∧ wfConjs tl
def wfConjs : List LConj → Prop
  | [] => True
  | c :: cs => wfConj c ∧ wfConjs cs
def wfConj : LConj → Prop
  | .mk h tl => wfInv h ∧ wfInvs tl
def wfInvs : List LInv → Prop
  | [] => True
  | c :: cs => wfInv c ∧ wfInvs cs
def wfInv : LInv → Prop
  | .not i => wfInv i
  | .cmp c => wfCmp c
def wfCmp : LCmp → Prop
  | .sum s => wfSum s
  | .bin _ l r => wfSum l ∧ wfSum r
  | .isnull s => wfSum s
  | .isnotnull s => wfSum s
  | .between s lo hi => wfSum s ∧ wfSum lo ∧ wfSum hi
def wfSum : LSum → Prop
  | .term t => wfTerm t
  | .bin _ s t => wfSum s ∧ wfTerm t
def wfTerm : LTerm → Prop
  | .factor f => wfFactor f
  | .bin _ t f => wfTerm t ∧ wfFactor f
def wfFactor : LFactor → Prop
  | .paren e => wfExpr e
  | .parenSel s => wfSelect s
  | .neg f => wfFactor f
  | .uplus a => wfAtom a
  | .prim p => wfPrim p
def wfPrim : LPrim → Prop
  | .atom a => wfAtom a
  | .attr p n => wfPrim p ∧ identOK n = true
  | .sub p _ => wfPrim p
def wfAtom : LAtom → Prop
  | .col n => colOK n = true
  | .lit l => l.wf = true
  | .list first rest => first.wf = true ∧ itemsOK rest = true ∧ rest ≠ []
  | .func n args => identOK n = true ∧ wfArgs args
  | .funcStar n => identOK n = true
  | .ph n => optIdentOK n = true
def wfArgs : List LExpr → Prop
  | [] => True
  | e :: es => wfExpr e ∧ wfArgs es
def wfTargets : List LTarget → Prop
  | [] => True
  | .mk e a :: ts => wfExpr e ∧ optIdentOK a = true ∧ wfTargets ts
def wfKey : LKey → Prop
  | .idx _ => True
  | .expr e => wfExpr e ∧ keyStartOK (printExpr e) = true
def wfKeys : List LKey → Prop
  | [] => True
  | k :: ks => wfKey k ∧ wfKeys ks
def wfOrders : List LOrder → Prop
  | [] => True
  | .mk k _ _ :: os => wfKey k ∧ wfOrders os
def wfFrom : LFrom → Prop
  | .none => True
  | .table _ => True
  | .sub s => wfSelect s
  | .clauses o c cl => (o.isSome = true ∨ c ≠ .absent ∨ cl = true) ∧ optDateOK o = true ∧ closeOK c = true
  | .expr e o c cl => wfExpr e ∧ fromStartOK (printExpr e) = true ∧ optDateOK o = true ∧ closeOK c = true
def wfSelect : LSelect → Prop
  | .mk _ targets from_ where_ group having order pivot _ =>
    (match targets with | none => True | some ts => ts ≠ [] ∧ wfTargets ts) ∧
    wfFrom from_ ∧
    (match where_ with | none => True | some e => wfExpr e) ∧
    wfKeys group ∧
    (match having with | none => True | some e => wfExpr e ∧ group ≠ []) ∧
    wfOrders order ∧
    (match pivot with | none => True | some (a, b) => a.ok = true ∧ b.ok = true)
end

/-- the FROM clause of BALANCES / JOURNAL / PRINT has no table / subquery alternative -/
def LFrom.plain : LFrom → Bool
  | .none | .clauses _ _ _ | .expr _ _ _ _ => true
  | _ => false

def wfStmt : LStmt → Prop
  | .select s => wfSelect s
  | .balances sf f w => optIdentOK sf = true ∧ wfFrom f ∧ f.plain = true ∧ (match w with | none => True | some e => wfExpr e)
  | .journal _ sf f => optIdentOK sf = true ∧ wfFrom f ∧ f.plain = true
  | .print f => wfFrom f ∧ f.plain = true

end Bql.Syn
