/-
  PIVOT BY execution (`query_execute.py:138-166`), implementation model.
-/
import BqlVerif.Model.Exec
namespace Bql

/-- Python `f'{value}'` for the value kinds that can be pivot keys -/
def pyFormat : Value → Option String
  | .null => some "None"
  | .str s => some s
  | .int i => some (toString i)
  | .bool b => some (if b then "True" else "False")
  | .dec d => some d.toPyStr
  | .date d => some d.show
  | _ => none

def dedupValues : List Value → List Value
  | [] => []
  | v :: vs => v :: (dedupValues vs).filter (fun w => !pyEq v w)

/-- `sorted(values)` / `list.sort(key=itemgetter(i))` without the NULL stand-in raise TypeError as
    soon as two values of different classes (or a None) are compared -/
def plainSortable (vs : List Value) : Bool :=
  vs.length ≤ 1 || (vs.all (fun v => classRank v != 0 && classRank v != 4 && classRank v == classRank (vs.headD .null)))

/-- `itertools.groupby` on adjacent equal keys -/
def groupAdjacent (key : Row → Value) : List Row → List (Value × List Row)
  | [] => []
  | r :: rs =>
    match groupAdjacent key rs with
    | (k, g) :: more => if pyEq (key r) k then (key r, r :: g) :: more else (key r, [r]) :: (k, g) :: more
    | [] => [(key r, [r])]

/-- `outrow[index:index+n] = vals` for `vals.length = n` inside bounds -/
def spliceAt (out : Row) (index : Nat) (vals : Row) : Row :=
  out.take index ++ vals ++ out.drop (index + vals.length)

def findIndex? (keys : List Value) (v : Value) : Option Nat :=
  let i := keys.findIdx (fun k => pyEq k v)
  if i < keys.length then some i else none

def otherVals (othercols : List Nat) (row : Row) : Row := othercols.map (fun i => row.getD i .null)

/-- the inner loop: `index = keys.index(row[col2]) * nother + 1; outrow[index:index+nother] = other(row)` -/
def placeRows (keys : List Value) (othercols : List Nat) (col2 : Nat) : Row → List Row → Except String Row
  | out, [] => .ok out
  | out, row :: rest =>
    match findIndex? keys (row.getD col2 .null) with
    | none => .error "ValueError"
    | some k => placeRows keys othercols col2 (spliceAt out (k * othercols.length + 1) (otherVals othercols row)) rest

def pivotRow (keys : List Value) (othercols : List Nat) (col2 : Nat) (width : Nat) (field1 : Value)
    (group : List Row) : Except String Row :=
  placeRows keys othercols col2 (field1 :: List.replicate (width - 1) .null) group

/-- the EvalPivot branch of `execute_query` applied to the SELECT's result -/
def execPivot (desc : List (String × Ty)) (rows : List Row) (col1 col2 : Nat) :
    Except String (List (String × Ty) × List Row) :=
  if col1 ≥ desc.length || col2 ≥ desc.length then .error "IndexError" else
  let othercols := (List.range desc.length).filter (fun i => i != col1 && i != col2)
  let nother := othercols.length
  let keyset := dedupValues (rows.map (fun r => r.getD col2 .null))
  if !(keyset.all hashable) then .error "TypeError" else
  if !plainSortable keyset then .error "TypeError" else
  let keys := stableSort keyLt keyset
  let n1 := (desc.getD col1 ("", .obj)).1
  let n2 := (desc.getD col2 ("", .obj)).1
  let others := othercols.map (fun i => desc.getD i ("", .obj))
  match keys.mapM pyFormat with
  | none => .error "unmodelled"
  | some keyNames =>
    let names : List String :=
      (n1 ++ "/" ++ n2) ::
        (if nother > 1 then keyNames.flatMap (fun k => others.map (fun c => k ++ "/" ++ c.1)) else keyNames)
    let dtypes : List Ty := (desc.getD col1 ("", .obj)).2 :: (List.replicate keys.length (others.map (·.2))).flatten
    let newDesc := names.zip dtypes
    let firsts := rows.map (fun r => r.getD col1 .null)
    if !plainSortable firsts then .error "TypeError" else
    let sorted := sortPass [col1] false rows
    let groups := groupAdjacent (fun r => r.getD col1 .null) sorted
    match groups.mapM (fun g => pivotRow keys othercols col2 newDesc.length g.1 g.2) with
    | .error x => .error x
    | .ok out => .ok (newDesc, out)

end Bql
