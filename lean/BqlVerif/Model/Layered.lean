/-
  Layered syntax trees: one inductive type per grammar level, left-recursive rules as left-recursive
  constructors, explicit parentheses.  A layered tree determines a token sequence (`print…`) — every
  way of writing a statement with minimal or redundant parentheses, optional unary plus, empty or
  NULL list items is the print of some layered tree — and an abstract syntax tree (`embed…`,
  which forgets the parentheses).  The round-trip theorem says the parser maps the former to the
  latter.
-/
import BqlVerif.Model.Parser
namespace Bql.Syn

inductive Lit
  | null | bool (b : Bool) | int (n : Nat) | dec (c : Nat) (e : Int) (digitFirst : Bool) | date (d : Date) | str (s : String)
  deriving DecidableEq, Repr, Inhabited

def Lit.tok : Lit → Tok
  | .null => .word "null"
  | .bool true => .word "true"
  | .bool false => .word "false"
  | .int n => .int n
  | .dec c e df => .dec c e df
  | .date d => .date d.y d.m d.d
  | .str s => .str s

def Lit.value : Lit → Value
  | .null => .null
  | .bool b => .bool b
  | .int n => .int n
  | .dec c e _ => .dec ⟨c, e⟩
  | .date d => .date d
  | .str s => .str s

def Lit.wf : Lit → Bool
  | .date d => d.valid
  | _ => true

inductive CmpOp | lt | le | gt | ge | eq | ne | «match» | notmatch | «in» | notin
  deriving DecidableEq, Repr, Inhabited
inductive SumOp | add | sub deriving DecidableEq, Repr, Inhabited
inductive TermOp | mul | div | mod deriving DecidableEq, Repr, Inhabited

def CmpOp.toks : CmpOp → List Tok
  | .lt => [.sym .lt] | .le => [.sym .le] | .gt => [.sym .gt] | .ge => [.sym .ge] | .eq => [.sym .eq] | .ne => [.sym .ne]
  | .match => [.sym .tilde] | .notmatch => [.sym .ntilde] | .in => [.word "in"] | .notin => [.word "not", .word "in"]
def CmpOp.op : CmpOp → BinOp
  | .lt => .lt | .le => .le | .gt => .gt | .ge => .ge | .eq => .eq | .ne => .ne
  | .match => .match | .notmatch => .notmatch | .in => .in | .notin => .notin
def SumOp.tok : SumOp → Tok | .add => .sym .plus | .sub => .sym .minus
def SumOp.op : SumOp → BinOp | .add => .add | .sub => .sub
def TermOp.tok : TermOp → Tok | .mul => .sym .star | .div => .sym .slash | .mod => .sym .percent
def TermOp.op : TermOp → BinOp | .mul => .mul | .div => .div | .mod => .mod

/-- PIVOT BY key -/
inductive PKey | idx (n : Nat) | col (name : String)
  deriving DecidableEq, Repr, Inhabited

mutual
inductive LExpr | mk (head : LConj) (tail : List LConj)
inductive LConj | mk (head : LInv) (tail : List LInv)
inductive LInv | not (i : LInv) | cmp (c : LCmp)
inductive LCmp
  | sum (s : LSum)
  | bin (op : CmpOp) (l r : LSum)
  | isnull (s : LSum)
  | isnotnull (s : LSum)
  | between (s lo hi : LSum)
inductive LSum | term (t : LTerm) | bin (op : SumOp) (s : LSum) (t : LTerm)
inductive LTerm | factor (f : LFactor) | bin (op : TermOp) (t : LTerm) (f : LFactor)
inductive LFactor
  | paren (e : LExpr)
  | parenSel (s : LSelect)
  | neg (f : LFactor)
  | uplus (a : LAtom)
  | prim (p : LPrim)
inductive LPrim | atom (a : LAtom) | attr (p : LPrim) (name : String) | sub (p : LPrim) (key : String)
inductive LAtom
  | col (name : String)
  | lit (l : Lit)
  | list (first : Lit) (rest : List (Option Lit))
  | func (name : String) (args : List LExpr)
  | funcStar (name : String)
  | ph (name : Option String)
inductive LTarget | mk (e : LExpr) (alias : Option String)
inductive LKey | idx (n : Nat) | expr (e : LExpr)
inductive LOrder | mk (k : LKey) (desc : Bool) (explicitAsc : Bool)
inductive LFrom
  | none
  | table (name : String)
  | sub (s : LSelect)
  | clauses (open_ : Option Date) (close : CloseSpec) (clear : Bool)
  | expr (e : LExpr) (open_ : Option Date) (close : CloseSpec) (clear : Bool)
inductive LSelect
  | mk (distinct : Bool) (targets : Option (List LTarget)) (from_ : LFrom) (where_ : Option LExpr)
       (group : List LKey) (having : Option LExpr) (order : List LOrder) (pivot : Option (PKey × PKey)) (limit : Option Nat)
end

inductive LStmt
  | select (s : LSelect)
  | balances (summary : Option String) (from_ : LFrom) (where_ : Option LExpr)
  | journal (account : Option String) (summary : Option String) (from_ : LFrom)
  | print (from_ : LFrom)

/-! ### printing to tokens -/

def printClauses (open_ : Option Date) (close : CloseSpec) (clear : Bool) : List Tok :=
  (match open_ with | some d => [.word "open", .word "on", .date d.y d.m d.d] | none => []) ++
  (match close with | .absent => [] | .flag => [.word "close"] | .on d => [.word "close", .word "on", .date d.y d.m d.d]) ++
  (if clear then [.word "clear"] else [])

def PKey.tok : PKey → Tok | .idx n => .int n | .col w => .word w

def distinctToks (d : Bool) : List Tok := if d then [.word "distinct"] else []
def pivotToks : Option (PKey × PKey) → List Tok
  | none => []
  | some (a, b) => [.word "pivot", .word "by", a.tok, .sym .comma, b.tok]
def limitToks : Option Nat → List Tok
  | none => []
  | some n => [.word "limit", .int n]
def aliasToks : Option String → List Tok
  | none => []
  | some a => [.word "as", .word a]
def orderingToks (desc asc : Bool) : List Tok := if desc then [.word "desc"] else if asc then [.word "asc"] else []

def printListItems : List (Option Lit) → List Tok
  | [] => [.sym .rparen]
  | none :: rest => .sym .comma :: printListItems rest
  | some l :: rest => .sym .comma :: l.tok :: printListItems rest

mutual
def printExpr : LExpr → List Tok
  | .mk h tl => printConj h ++ printOrTail tl
def printOrTail : List LConj → List Tok
  | [] => []
  | c :: cs => .word "or" :: (printConj c ++ printOrTail cs)
def printConj : LConj → List Tok
  | .mk h tl => printInv h ++ printAndTail tl
def printAndTail : List LInv → List Tok
  | [] => []
  | c :: cs => .word "and" :: (printInv c ++ printAndTail cs)
def printInv : LInv → List Tok
  | .not i => .word "not" :: printInv i
  | .cmp c => printCmp c
def printCmp : LCmp → List Tok
  | .sum s => printSum s
  | .bin op l r => printSum l ++ op.toks ++ printSum r
  | .isnull s => printSum s ++ [.word "is", .word "null"]
  | .isnotnull s => printSum s ++ [.word "is", .word "not", .word "null"]
  | .between s lo hi => printSum s ++ .word "between" :: (printSum lo ++ .word "and" :: printSum hi)
def printSum : LSum → List Tok
  | .term t => printTerm t
  | .bin op s t => printSum s ++ op.tok :: printTerm t
def printTerm : LTerm → List Tok
  | .factor f => printFactor f
  | .bin op t f => printTerm t ++ op.tok :: printFactor f
def printFactor : LFactor → List Tok
  | .paren e => .sym .lparen :: (printExpr e ++ [.sym .rparen])
  | .parenSel s => .sym .lparen :: (printSelect s ++ [.sym .rparen])
  | .neg f => .sym .minus :: printFactor f
  | .uplus a => .sym .plus :: printAtom a
  | .prim p => printPrim p
def printPrim : LPrim → List Tok
  | .atom a => printAtom a
  | .attr p n => printPrim p ++ [.sym .dot, .word n]
  | .sub p k => printPrim p ++ [.sym .lbrack, .str k, .sym .rbrack]
def printAtom : LAtom → List Tok
  | .col n => [.word n]
  | .lit l => [l.tok]
  | .list first rest => .sym .lparen :: first.tok :: printListItems rest
  | .func n args => .word n :: .sym .lparen :: printArgs args
  | .funcStar n => [.word n, .sym .lparen, .sym .star, .sym .rparen]
  | .ph none => [.ph]
  | .ph (some n) => [.phOpen, .word n, .phClose]
/-- arguments and the closing parenthesis -/
def printArgs : List LExpr → List Tok
  | [] => [.sym .rparen]
  | [e] => printExpr e ++ [.sym .rparen]
  | e :: es => printExpr e ++ .sym .comma :: printArgs es
def printTarget : LTarget → List Tok
  | .mk e a => printExpr e ++ aliasToks a
def printTargets : List LTarget → List Tok
  | [] => []
  | [t] => printTarget t
  | t :: ts => printTarget t ++ .sym .comma :: printTargets ts
def printKey : LKey → List Tok
  | .idx n => [.int n]
  | .expr e => printExpr e
def printKeys : List LKey → List Tok
  | [] => []
  | [k] => printKey k
  | k :: ks => printKey k ++ .sym .comma :: printKeys ks
def printOrder : LOrder → List Tok
  | .mk k desc asc => printKey k ++ orderingToks desc asc
def printOrders : List LOrder → List Tok
  | [] => []
  | [o] => printOrder o
  | o :: os => printOrder o ++ .sym .comma :: printOrders os
def printFrom : LFrom → List Tok
  | .none => []
  | .table n => [.word "from", .table n]
  | .sub s => .word "from" :: .sym .lparen :: (printSelect s ++ [.sym .rparen])
  | .clauses o c cl => .word "from" :: printClauses o c cl
  | .expr e o c cl => .word "from" :: (printExpr e ++ printClauses o c cl)
def printSelect : LSelect → List Tok
  | .mk distinct targets from_ where_ group having order pivot limit =>
    .word "select" :: (distinctToks distinct ++
      ((match targets with | none => [.sym .star] | some ts => printTargets ts) ++
      (printFrom from_ ++
      ((match where_ with | none => [] | some e => .word "where" :: printExpr e) ++
      ((match group with | [] => [] | k :: ks => .word "group" :: .word "by" :: printKeys (k :: ks)) ++
      ((match having with | none => [] | some e => .word "having" :: printExpr e) ++
      ((match order with | [] => [] | o :: os => .word "order" :: .word "by" :: printOrders (o :: os)) ++
      (pivotToks pivot ++ limitToks limit))))))))
end

def optExprToks (kw : String) : Option LExpr → List Tok
  | none => []
  | some e => .word kw :: printExpr e

def atToks : Option String → List Tok
  | some n => [.word "at", .word n]
  | none => []

def acctToks : Option String → List Tok
  | some s => [.str s]
  | none => []

def printStmt : LStmt → List Tok
  | .select s => printSelect s
  | .balances sf f w => .word "balances" :: (atToks sf ++ (printFrom f ++ optExprToks "where" w))
  | .journal a sf f => .word "journal" :: (acctToks a ++ (atToks sf ++ printFrom f))
  | .print f => .word "print" :: printFrom f

/-! ### the abstract syntax tree of a layered tree -/

def PKey.key : PKey → KeyRef | .idx n => .idx n | .col w => .expr (.col w)

/-- list items after the first: empty and NULL items are dropped -/
def listValues : List (Option Lit) → List Value
  | [] => []
  | none :: rest => listValues rest
  | some .null :: rest => listValues rest
  | some l :: rest => l.value :: listValues rest

mutual
def embedExpr : LExpr → Expr
  | .mk h [] => embedConj h
  | .mk h (c :: cs) => .or (embedConj h :: embedConjs (c :: cs))
def embedConjs : List LConj → List Expr
  | [] => []
  | c :: cs => embedConj c :: embedConjs cs
def embedConj : LConj → Expr
  | .mk h [] => embedInv h
  | .mk h (c :: cs) => .and (embedInv h :: embedInvs (c :: cs))
def embedInvs : List LInv → List Expr
  | [] => []
  | c :: cs => embedInv c :: embedInvs cs
def embedInv : LInv → Expr
  | .not i => .unop .not (embedInv i)
  | .cmp c => embedCmp c
def embedCmp : LCmp → Expr
  | .sum s => embedSum s
  | .bin op l r => .binop op.op (embedSum l) (embedSum r)
  | .isnull s => .unop .isnull (embedSum s)
  | .isnotnull s => .unop .isnotnull (embedSum s)
  | .between s lo hi => .between (embedSum s) (embedSum lo) (embedSum hi)
def embedSum : LSum → Expr
  | .term t => embedTerm t
  | .bin op s t => .binop op.op (embedSum s) (embedTerm t)
def embedTerm : LTerm → Expr
  | .factor f => embedFactor f
  | .bin op t f => .binop op.op (embedTerm t) (embedFactor f)
def embedFactor : LFactor → Expr
  | .paren e => embedExpr e
  | .parenSel s => .sub (embedSelect s)
  | .neg f => .unop .neg (embedFactor f)
  | .uplus a => embedAtom a
  | .prim p => embedPrim p
def embedPrim : LPrim → Expr
  | .atom a => embedAtom a
  | .attr p n => .attr (embedPrim p) n
  | .sub p k => .subscript (embedPrim p) k
def embedAtom : LAtom → Expr
  | .col n => .col n
  | .lit l => .const l.value
  | .list first rest => .const (.list (first.value :: listValues rest))
  | .func n args => .func n (embedArgs args)
  | .funcStar n => .func n [.star]
  | .ph n => .placeholder n 0
def embedArgs : List LExpr → List Expr
  | [] => []
  | e :: es => embedExpr e :: embedArgs es
def embedTargets : List LTarget → List Target
  | [] => []
  | .mk e a :: ts => .mk (embedExpr e) a "" :: embedTargets ts
def embedKey : LKey → KeyRef
  | .idx n => .idx n
  | .expr e => .expr (embedExpr e)
def embedKeys : List LKey → List KeyRef
  | [] => []
  | k :: ks => embedKey k :: embedKeys ks
def embedOrders : List LOrder → List (KeyRef × Bool)
  | [] => []
  | .mk k desc _ :: os => (embedKey k, desc) :: embedOrders os
def embedFrom : LFrom → FromC
  | .none => .none
  | .table n => .table n
  | .sub s => .sub (embedSelect s)
  | .clauses o c cl => .from none o c cl
  | .expr e o c cl => .from (some (embedExpr e)) o c cl
def embedSelect : LSelect → Select
  | .mk distinct targets from_ where_ group having order pivot limit =>
    .mk (match targets with | none => none | some ts => some (embedTargets ts))
        (embedFrom from_)
        (match where_ with | none => none | some e => some (embedExpr e))
        (embedKeys group)
        (match having with | none => none | some e => some (embedExpr e))
        (embedOrders order)
        (match pivot with | none => [] | some (a, b) => [a.key, b.key])
        limit distinct
end

def embedStmt : LStmt → Stmt
  | .select s => .select (embedSelect s)
  | .balances sf f w => .balances sf (embedFrom f) (match w with | none => none | some e => some (embedExpr e))
  | .journal a sf f => .journal a sf (embedFrom f)
  | .print f => .print (embedFrom f)

end Bql.Syn
