/-
  The DB-API cursor (`beanquery/cursor.py:77-157`) and the `Column` description item
  (`cursor.py:10-74`) as state machines.
-/
import BqlVerif.Model.Value
namespace Bql

abbrev CRow := List Value

structure Cursor where
  rows : Option (List CRow) := none     -- `_rows`: the rows not yet delivered
  rowcount : Int := -1                  -- `_rowcount`
  pos : Nat := 0                        -- `_pos`
  desc : Option (List (String × String)) := none   -- (name, datatype name)
  arraysize : Nat := 1
  deriving Repr, Inhabited

inductive CursorOp
  | execute (desc : List (String × String)) (result : List CRow)
  | fetchone
  | fetchmany (size : Option Nat)
  | fetchall
  | iterNext (n : Nat)            -- `next()` called n times on `iter(cursor)`
  | setArraysize (n : Nat)
  deriving Repr, Inhabited

inductive CursorOut
  | none                          -- fetchone at exhaustion / no return value
  | row (r : CRow)
  | rows (rs : List CRow)
  deriving Repr, Inhabited

def Cursor.fetchone (c : Cursor) : Cursor × CursorOut :=
  match c.rows with
  | none => (c, .none)
  | some [] => (c, .none)
  | some (r :: rest) => ({ c with rows := some rest, pos := c.pos + 1 }, .row r)

def Cursor.fetchmany (c : Cursor) (size : Option Nat) : Cursor × CursorOut :=
  match c.rows with
  | none => (c, .rows [])
  | some rs =>
    let n := size.getD c.arraysize
    ({ c with rows := some (rs.drop n), pos := c.pos + (rs.take n).length }, .rows (rs.take n))

def Cursor.fetchall (c : Cursor) : Cursor × CursorOut :=
  match c.rows with
  | none => (c, .rows [])
  | some rs => ({ c with rows := some [], pos := c.pos + rs.length }, .rows rs)

/-- `iter(cursor)` is `iter(self.fetchone, None)`: n calls of `next` deliver rows until the
    first `None`, which ends the iteration. -/
def Cursor.iterNext : Nat → Cursor → Cursor × List CRow
  | 0, c => (c, [])
  | n + 1, c =>
    match c.fetchone with
    | (c', .row r) => let (c'', rs) := Cursor.iterNext n c'; (c'', r :: rs)
    | (c', _) => (c', [])

/-- `next()` on an iterator obtained from `iter(cursor)` some calls ago and kept since: `iter(self.fetchone, None)`
    calls `fetchone` on the cursor as it is NOW; once `fetchone` has answered `None` the iterator has ended and
    stays ended, whatever is executed on the cursor afterwards (`ended` is the iterator's only state) -/
def Cursor.heldNext (ended : Bool) (c : Cursor) : Cursor × Bool × List CRow :=
  if ended then (c, true, [])
  else match c.fetchone with
    | (c', .row r) => (c', false, [r])
    | (c', _) => (c', true, [])

def Cursor.step (c : Cursor) : CursorOp → Cursor × CursorOut
  | .execute d res => ({ c with rows := some res, rowcount := res.length, pos := 0, desc := some d }, .none)
  | .fetchone => c.fetchone
  | .fetchmany size => c.fetchmany size
  | .fetchall => c.fetchall
  | .iterNext n => let (c', rs) := c.iterNext n; (c', .rows rs)
  | .setArraysize n => ({ c with arraysize := n }, .none)

def Cursor.run (c : Cursor) : List CursorOp → Cursor × List CursorOut
  | [] => (c, [])
  | op :: ops =>
    let (c', o) := c.step op
    let (c'', os) := Cursor.run c' ops
    (c'', o :: os)

/-- `executemany(statement, parameter sets)`: `execute` for each parameter set in turn (`cursor.py`) -/
def Cursor.executemany (c : Cursor) (results : List (List (String × String) × List CRow)) : Cursor :=
  results.foldl (fun c r => (c.step (.execute r.1 r.2)).1) c

/-- several cursors of one connection: each call addresses one of them -/
def stepAt (cs : List Cursor) (i : Nat) (op : CursorOp) : List Cursor :=
  match cs[i]? with
  | some c => cs.set i (c.step op).1
  | none => cs

def runMulti : List Cursor → List (Nat × CursorOp) → List Cursor
  | cs, [] => cs
  | cs, (i, op) :: rest => runMulti (stepAt cs i op) rest

/-- rows handed to the caller by one call -/
def CursorOut.delivered : CursorOut → List CRow
  | .none => []
  | .row r => [r]
  | .rows rs => rs

/-! ### `Column`: a read-only 7-item sequence (name, type_code, None × 5) -/

inductive Item | name (s : String) | typeCode (t : String) | nothing
  deriving Repr, DecidableEq, Inhabited

def columnItems (name ty : String) : List Item :=
  [.name name, .typeCode ty, .nothing, .nothing, .nothing, .nothing, .nothing]

/-- Python index normalisation for a sequence of length 7; `none` = IndexError -/
def columnGet (name ty : String) (i : Int) : Option Item :=
  let j := if i < 0 then i + 7 else i
  if 0 ≤ j ∧ j < 7 then (columnItems name ty)[j.toNat]? else none

/-- `column[a:b]` with optional bounds (step 1) -/
def columnSlice (name ty : String) (a b : Option Int) : List Item :=
  let n : Int := 7
  let norm (i : Int) : Nat := (if i < 0 then max (i + n) 0 else min i n).toNat
  let lo := norm (a.getD 0)
  let hi := norm (b.getD n)
  ((columnItems name ty).drop lo).take (hi - lo)

end Bql
