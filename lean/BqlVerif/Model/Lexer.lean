/-
  Character-level scanner for the token model of Model/Parser.lean.

  TatSu parsers are scannerless: before every token they skip whitespace and comments
  (`/* ... */` and `; ...` to the end of the line), keyword-like tokens must not be followed by a
  name character, patterns (identifier, integer, decimal, date, string, table) are greedy.  This
  scanner produces the same tokens by maximal munch; the two places where the grammar context
  decides how characters are read are handled explicitly:
    * `%` is the modulo operator after an operand and starts a placeholder (`%s`, `%(`) elsewhere;
    * `)s` closes a named placeholder only after `%(`.
-/
import BqlVerif.Model.Parser
namespace Bql.Syn

def isWs (c : Char) : Bool :=
  c == ' ' || c == '\t' || c == '\n' || c == '\r' || c.toNat == 0x0b || c.toNat == 0x0c ||
  (0x1c ≤ c.toNat && c.toNat ≤ 0x1f) || c.toNat == 0x85 || c.toNat == 0xa0

def isDigit (c : Char) : Bool := '0' ≤ c && c ≤ '9'
def isIdStart (c : Char) : Bool := ('a' ≤ c && c ≤ 'z') || ('A' ≤ c && c ≤ 'Z') || c == '_'
def isIdChar (c : Char) : Bool := isIdStart c || isDigit c

def lowerChar (c : Char) : Char := if 'A' ≤ c && c ≤ 'Z' then Char.ofNat (c.toNat + 32) else c

def digitVal (c : Char) : Nat := c.toNat - '0'.toNat

def natOfDigitChars (cs : List Char) : Nat := cs.foldl (fun acc c => acc * 10 + digitVal c) 0

/-- drop a `/* ... */` comment body (after the opening); `none` when it is not terminated -/
def skipBlock : List Char → Option (List Char)
  | '*' :: '/' :: rest => some rest
  | _ :: rest => skipBlock rest
  | [] => none

/-- drop the rest of the line (the newline stays) -/
def skipLine : List Char → List Char
  | '\n' :: rest => '\n' :: rest
  | _ :: rest => skipLine rest
  | [] => []

/-- the text of a string literal after its opening quote: (content, rest after the closing quote) -/
def scanString (q : Char) : List Char → List Char → Option (List Char × List Char)
  | acc, c :: rest => if c == q then some (acc.reverse, rest) else scanString q (c :: acc) rest
  | _, [] => none

/-- words after which `%` cannot be the modulo operator although they are not reserved -/
def nonOperandWords : List String := ["between"]

/-- does the token end an operand (so that a following `%` is the modulo operator)? -/
def endsOperand : Tok → Bool
  | .word w => !(isKeyword w) && !(nonOperandWords.contains w)
  | .int _ | .dec _ _ _ | .date _ _ _ | .str _ | .table _ | .ph | .phClose => true
  | .sym .rparen | .sym .rbrack => true
  | _ => false

/-- decimal or integer: `[0-9]+\.[0-9]*`, `[0-9]*\.[0-9]+`, `\d+` (in this order) -/
def scanNum2 (cs : List Char) : Tok × List Char :=
  let d1 := cs.takeWhile isDigit
  let r1 := cs.dropWhile isDigit
  match r1 with
  | '.' :: r2 =>
    let d2 := r2.takeWhile isDigit
    let r3 := r2.dropWhile isDigit
    if d1.isEmpty && d2.isEmpty then (.sym .dot, r2)      -- not reached: callers check
    else (.dec (natOfDigitChars (d1 ++ d2)) (-(d2.length : Int)) (!d1.isEmpty), r3)
  | _ => (.int (natOfDigitChars d1), r1)

/-- what follows four digits when the text is a date: `-dd-dd` -/
def dateTail : List Char → Option (Char × Char × Char × Char × List Char)
  | c4 :: e :: f :: c7 :: g :: h :: rest =>
    if c4 == '-' && c7 == '-' && isDigit e && isDigit f && isDigit g && isDigit h then some (e, f, g, h, rest) else none
  | _ => none

/-- number-like token at a digit or at `.digit`: a date `\d{4}-\d{2}-\d{2}` is tried first
    (the digit run must be exactly four long: a fifth digit is not a `-`) -/
def scanNumber (cs : List Char) : Tok × List Char :=
  let d1 := cs.takeWhile isDigit
  if d1.length == 4 then
    match dateTail (cs.dropWhile isDigit) with
    | some (e, f, g, h, rest) => (.date (natOfDigitChars d1) (natOfDigitChars [e, f]) (natOfDigitChars [g, h]), rest)
    | none => scanNum2 cs
  else scanNum2 cs

/-- `inPh`: a `%(` has been read and its `)s` not yet -/
def lexLoop : Nat → Bool → Option Tok → List Char → List Tok → Option (List Tok)
  | 0, _, _, _, _ => none
  | _ + 1, _, _, [], acc => some acc.reverse
  | f + 1, inPh, prev, c :: cs, acc =>
    let emit (t : Tok) (rest : List Char) (inPh' : Bool := inPh) := lexLoop f inPh' (some t) rest (t :: acc)
    if isWs c then lexLoop f inPh prev cs acc
    else if c == '/' && cs.head? == some '*' then
      match skipBlock cs.tail with
      | some rest => lexLoop f inPh prev rest acc
      | none => none
    else if c == ';' then lexLoop f inPh prev (skipLine cs) acc
    else if isDigit c || (c == '.' && (cs.head?.map isDigit).getD false) then
      let (t, rest) := scanNumber (c :: cs)
      emit t rest
    else if isIdStart c then
      let w := (c :: cs).takeWhile isIdChar
      emit (.word (String.ofList (w.map lowerChar))) ((c :: cs).dropWhile isIdChar)
    else if c == '#' then
      match cs with
      | d :: _ =>
        if isIdStart d then emit (.table (String.ofList (cs.takeWhile isIdChar))) (cs.dropWhile isIdChar)
        else emit (.table "") cs
      | [] => emit (.table "") []
    else if c == '\'' || c == '"' then
      match scanString c [] cs with
      | some (s, rest) => emit (.str (String.ofList s)) rest
      | none => none
    else if c == '%' then
      if (prev.map endsOperand).getD false then emit (.sym .percent) cs
      else match cs with
        | 's' :: rest => emit .ph rest
        | 'S' :: rest => emit .ph rest
        | '(' :: rest => emit .phOpen rest true
        | _ => emit (.sym .percent) cs
    else if c == ')' then
      if inPh then
        match cs with
        | 's' :: rest => emit .phClose rest false
        | 'S' :: rest => emit .phClose rest false
        | _ => emit (.sym .rparen) cs
      else emit (.sym .rparen) cs
    else if c == '(' then emit (.sym .lparen) cs
    else if c == ',' then emit (.sym .comma) cs
    else if c == '.' then emit (.sym .dot) cs
    else if c == '[' then emit (.sym .lbrack) cs
    else if c == ']' then emit (.sym .rbrack) cs
    else if c == '*' then emit (.sym .star) cs
    else if c == '/' then emit (.sym .slash) cs
    else if c == '+' then emit (.sym .plus) cs
    else if c == '-' then emit (.sym .minus) cs
    else if c == '~' then emit (.sym .tilde) cs
    else if c == '=' then emit (.sym .eq) cs
    else if c == '<' then
      match cs with
      | '=' :: rest => emit (.sym .le) rest
      | _ => emit (.sym .lt) cs
    else if c == '>' then
      match cs with
      | '=' :: rest => emit (.sym .ge) rest
      | _ => emit (.sym .gt) cs
    else if c == '!' then
      match cs with
      | '=' :: rest => emit (.sym .ne) rest
      | '~' :: rest => emit (.sym .ntilde) rest
      | _ => none
    else none

def lex (cs : List Char) : Option (List Tok) := lexLoop (cs.length + 1) false none cs []

/-- the model of `beanquery.parser.parse` -/
def parseText (s : String) : Option Stmt :=
  match lex s.toList with
  | none => none
  | some ts => parse ts

end Bql.Syn
