/-
  Ledger tables (`query_env.py:867-950, 1057-1071`, `sources/beancount.py:100-214`): which rows
  each table yields, in which order; sibling accounts; metadata lookups.
-/
import BqlVerif.Model.Value
namespace Bql

inductive DirKind | transaction | open_ | close | price | balance | note | event | document | commodity | pad | query | custom
  deriving DecidableEq, Repr, Inhabited

/-- a directive: its kind and, for transactions, the accounts of its postings in order -/
structure Directive where
  kind : DirKind
  postings : List String := []
  deriving DecidableEq, Repr, Inhabited

abbrev Ledger := List Directive

/-- `EntriesTable.__iter__`: every directive, in ledger order (index = position) -/
def entriesRows (l : Ledger) : List Nat := List.range l.length

/-- `PostingsTable.__iter__`: for every transaction, every posting, in order: (entry index, posting index) -/
def postingsRowsFrom : Nat → Ledger → List (Nat × Nat)
  | _, [] => []
  | i, d :: rest =>
    (if d.kind = .transaction then (List.range d.postings.length).map (fun j => (i, j)) else []) ++
      postingsRowsFrom (i + 1) rest

def postingsRows (l : Ledger) : List (Nat × Nat) := postingsRowsFrom 0 l

/-- typed directive tables (`Table.__iter__`): the directives of that kind, in ledger order -/
def typedRowsFrom (k : DirKind) : Nat → Ledger → List Nat
  | _, [] => []
  | i, d :: rest => (if d.kind = k then [i] else []) ++ typedRowsFrom k (i + 1) rest

def typedRows (k : DirKind) (l : Ledger) : List Nat := typedRowsFrom k 0 l

def insertSorted (x : String) : List String → List String
  | [] => [x]
  | y :: ys => if x < y then x :: y :: ys else if x = y then y :: ys else y :: insertSorted x ys

/-- `other_accounts`: `sorted({p.account for p in entry.postings if p is not this posting})` -/
def otherAccounts (accounts : List String) (k : Nat) : List String :=
  ((accounts.zipIdx.filter (fun p => p.2 != k)).map (·.1)).foldr insertSorted []

/-- a metadata dict; `none` = the posting has no metadata at all (`meta is None`) -/
abbrev Meta := Option (List (String × Value))

def dictGet (d : List (String × Value)) (key : String) : Value :=
  match d.find? (fun p => p.1 == key) with
  | some p => p.2
  | none => .null

/-- `meta(key)` = `meta[key]` on the posting; `entry_meta(key)` = `entry.meta[key]` -/
def metaLookup (m : Meta) (key : String) : Value :=
  match m with
  | none => .null
  | some d => dictGet d key

/-- `any_meta(key)` = `getitem(meta, key, entry.meta[key])`: the posting's value, else the
    transaction's; NULL when the posting has no metadata dict -/
def anyMeta (posting : Meta) (entry : Meta) (key : String) : Value :=
  match posting with
  | none => .null
  | some d =>
    match d.find? (fun p => p.1 == key) with
    | some p => p.2
    | none => metaLookup entry key

end Bql
