/-
  Execution of a compiled SELECT (`query_execute.py:172-307`) — the *implementation model*:
  loops are folds that follow the Python statement by statement.
-/
import BqlVerif.Model.Eval
namespace Bql

structure CTarget where
  expr : CExpr
  name : Option String
  isAgg : Bool
  deriving Repr, Inhabited

structure CQuery where
  table : List Row
  targets : List CTarget
  where_ : Option CExpr
  groupIdx : Option (List Nat)
  havingIdx : Option Nat
  orderSpec : Option (List (Nat × Bool))
  limit : Option Nat
  distinct : Bool
  deriving Repr, Inhabited

/-- `(name, dtype)` of the visible targets: the cursor description -/
def CQuery.description (q : CQuery) : List (String × Ty) :=
  q.targets.filterMap (fun t => t.name.map (fun n => (n, t.expr.ty)))

/-- indexes of targets with a non-empty name (`if c_target.name`), counting from `i` -/
def visibleIdx : List CTarget → Nat → List Nat
  | [], _ => []
  | t :: ts, i =>
    if (match t.name with | some n => n != "" | none => false) then i :: visibleIdx ts (i + 1)
    else visibleIdx ts (i + 1)

def resultIndexes (ts : List CTarget) : List Nat := visibleIdx ts 0

/-! ### WHERE and the non-aggregate row loop -/

/-- `c_where is None or c_where(context)` -/
def whereTrue (w : Option CExpr) (row : Row) : Except String Bool :=
  match w with
  | none => .ok true
  | some e => match eval [] row e with
    | .error x => .error x
    | .ok v => .ok v.truthy

def evalTargets (env : AggEnv) (row : Row) : List CExpr → Except String Row
  | [] => .ok []
  | e :: es =>
    match eval env row e with
    | .error x => .error x
    | .ok v => match evalTargets env row es with
      | .error x => .error x
      | .ok vs => .ok (v :: vs)

/-- one iteration of the loop at `query_execute.py:212-215` -/
def nonAggStep (w : Option CExpr) (ts : List CExpr) (acc : List Row) (row : Row) : Except String (List Row) :=
  match whereTrue w row with
  | .error x => .error x
  | .ok false => .ok acc
  | .ok true => match evalTargets [] row ts with
    | .error x => .error x
    | .ok vs => .ok (acc ++ [vs])

def foldlE {α β} (f : β → α → Except String β) : β → List α → Except String β
  | b, [] => .ok b
  | b, a :: as => match f b a with
    | .error x => .error x
    | .ok b' => foldlE f b' as

def selectNonAgg (q : CQuery) : Except String (List Row) :=
  foldlE (nonAggStep q.where_ (q.targets.map (·.expr))) [] q.table

/-! ### aggregation -/

def pyAdd (a b : Value) : PyResult :=
  match a, b with
  | .int x, .int y => .ok (.int (x + y))
  | .int x, .bool y => .ok (.int (x + (if y then 1 else 0)))
  | .bool x, .int y => .ok (.int ((if x then 1 else 0) + y))
  | .bool x, .bool y => .ok (.int ((if x then 1 else 0) + (if y then 1 else 0)))
  | _, _ => match a.num?, b.num? with
    | some x, some y => .ok (.dec (Dec.add x y))
    | _, _ => tyErr

/-- `dtype()` : the zero of the aggregate's declared type -/
def zeroOf : Ty → Value
  | .int => .int 0
  | .dec => .dec ⟨0, 0⟩
  | .bool => .bool false
  | .str => .str ""
  | _ => .null

/-- `initialize(store)` -/
def aggInit (k : AggKind) (ty : Ty) : Value :=
  match k with
  | .countStar | .count | .sum => zeroOf ty
  | _ => .null

/-- `update(store, context)` given the current slot value and the evaluated operand -/
def aggUpdate (k : AggKind) (cur : Value) (arg : Value) : PyResult :=
  match k with
  | .countStar => pyAdd cur (.int 1)
  | .count => if arg.isNull then .ok cur else pyAdd cur (.int 1)
  | .sum => if arg.isNull then .ok cur else pyAdd cur arg
  | .first => if cur.isNull then .ok arg else .ok cur
  | .last => .ok arg
  | .min => if arg.isNull then .ok cur else if cur.isNull then .ok arg else
      (match pyLt? arg cur with | some true => .ok arg | some false => .ok cur | none => tyErr)
  | .max => if arg.isNull then .ok cur else if cur.isNull then .ok arg else
      (match pyLt? cur arg with | some true => .ok arg | some false => .ok cur | none => tyErr)
  | .unknown => .error "unmodelled"

/-- the aggregate nodes to compute: those under targets outside the group indexes -/
def aggNodes (ts : List CTarget) (groupIdx : List Nat) : List CExpr :=
  ((List.range ts.length).filter (fun i => !groupIdx.contains i)).flatMap
    (fun i => match ts[i]? with | some t => t.expr.aggs | none => [])

def nonAggExprs (ts : List CTarget) (groupIdx : List Nat) : List CExpr :=
  ((List.range ts.length).filter (fun i => groupIdx.contains i)).filterMap
    (fun i => (ts[i]?).map (·.expr))

/-- a per-group store: one slot per aggregate node, in `aggNodes` order -/
abbrev Store := List Value

def createStore (nodes : List CExpr) : Store :=
  nodes.map (fun n => match n with | .agg k _ _ ty _ => aggInit k ty | _ => .null)

/-- update every slot with the current row -/
def updateStore (row : Row) : List CExpr → Store → Except String Store
  | [], _ => .ok []
  | _, [] => .ok []
  | n :: ns, s :: ss =>
    match n with
    | .agg k _ args _ _ =>
      (match (match args with | a :: _ => eval [] row a | [] => .ok .null) with
       | .error x => .error x
       | .ok v => match aggUpdate k s v with
         | .error x => .error x
         | .ok s' => match updateStore row ns ss with
           | .error x => .error x
           | .ok rest => .ok (s' :: rest))
    | _ => match updateStore row ns ss with
      | .error x => .error x
      | .ok rest => .ok (s :: rest)

def hashable : Value → Bool
  | .list _ => false
  | _ => true

/-- Python tuple equality of group keys -/
def keyEq (a b : Row) : Bool := pyEqList a b

/-- `store = aggregates[key]; update` on an insertion-ordered dict keyed by tuples -/
def upsertGroup (nodes : List CExpr) (row : Row) (key : Row) :
    List (Row × Store) → Except String (List (Row × Store))
  | [] => match updateStore row nodes (createStore nodes) with
    | .error x => .error x
    | .ok s => .ok [(key, s)]
  | (k, s) :: rest =>
    if keyEq k key then
      match updateStore row nodes s with
      | .error x => .error x
      | .ok s' => .ok ((k, s') :: rest)
    else match upsertGroup nodes row key rest with
      | .error x => .error x
      | .ok rest' => .ok ((k, s) :: rest')

/-- one iteration of the loop at `query_execute.py:250-261` -/
def aggStep (w : Option CExpr) (keyExprs : List CExpr) (nodes : List CExpr)
    (acc : List (Row × Store)) (row : Row) : Except String (List (Row × Store)) :=
  match whereTrue w row with
  | .error x => .error x
  | .ok false => .ok acc
  | .ok true => match evalTargets [] row keyExprs with
    | .error x => .error x
    | .ok key => if key.all hashable then upsertGroup nodes row key acc else .error "TypeError"

/-- finalised values by handle -/
def finalize (nodes : List CExpr) (s : Store) : AggEnv :=
  (nodes.zip s).filterMap (fun p => match p.1 with | .agg _ _ _ _ h => some (h, p.2) | _ => none)

/-- build an output row: group targets consume the key in order, others are evaluated
    on the last scanned row with the finalised aggregates -/
def buildRow (env : AggEnv) (last : Row) (groupIdx : List Nat) : List CTarget → Nat → Row → Except String Row
  | [], _, _ => .ok []
  | t :: ts, i, key =>
    if groupIdx.contains i then
      match buildRow env last groupIdx ts (i + 1) key.tail with
      | .error x => .error x
      | .ok vs => .ok (key.headD .null :: vs)
    else match eval env last t.expr with
      | .error x => .error x
      | .ok v => match buildRow env last groupIdx ts (i + 1) key with
        | .error x => .error x
        | .ok vs => .ok (v :: vs)

def emitGroups (q : CQuery) (groupIdx : List Nat) (nodes : List CExpr) (last : Row) :
    List (Row × Store) → Except String (List Row)
  | [] => .ok []
  | (key, s) :: rest =>
    match buildRow (finalize nodes s) last groupIdx q.targets 0 key with
    | .error x => .error x
    | .ok vs =>
      match emitGroups q groupIdx nodes last rest with
      | .error x => .error x
      | .ok more =>
        match q.havingIdx with
        | some h => if (vs.getD h .null).truthy then .ok (vs :: more) else .ok more
        | none => .ok (vs :: more)

def selectAgg (q : CQuery) (groupIdx : List Nat) : Except String (List Row) :=
  let nodes := aggNodes q.targets groupIdx
  let keyExprs := nonAggExprs q.targets groupIdx
  match foldlE (aggStep q.where_ keyExprs nodes) [] q.table with
  | .error x => .error x
  | .ok groups => emitGroups q groupIdx nodes (q.table.getLastD []) groups

/-! ### ORDER BY: multi-pass stable sort -/

/-- sort-key view of a value: the comparable classes of Python values that beanquery sorts.
    NULL (the `NullType` stand-in) sorts before everything. -/
inductive SortKey
  | null | num (d : Dec) | str (s : String) | date (d : Date) | other
  deriving Repr, Inhabited

def sortKey : Value → SortKey
  | .null => .null
  | .int i => .num (Dec.ofInt i)
  | .bool b => .num (Dec.ofInt (if b then 1 else 0))
  | .dec d => .num d
  | .str s => .str s
  | .date d => .date d
  | _ => .other

def SortKey.rank : SortKey → Nat
  | .null => 0 | .num _ => 1 | .str _ => 2 | .date _ => 3 | .other => 4

/-- Inside one class this is Python's `<`; *across* classes Python raises TypeError (see
    `sortable`), and the model orders by class only to stay a total preorder. -/
def SortKey.lt : SortKey → SortKey → Bool
  | .num a, .num b => Dec.lt a b
  | .str a, .str b => decide (a < b)
  | .date a, .date b => a.lt b
  | a, b => decide (a.rank < b.rank)

def classRank (v : Value) : Nat := (sortKey v).rank

/-- `<` on sort keys -/
def keyLt (a b : Value) : Bool := (sortKey a).lt (sortKey b)

/-- `==` on sort keys (used by tuple comparison to find the first differing position) -/
def keyEqv (a b : Value) : Bool := !keyLt a b && !keyLt b a

/-- Python tuple `<` on `nullitemgetter(*indexes)` keys -/
def tupleLt (idxs : List Nat) (a b : Row) : Bool :=
  match idxs with
  | [] => false
  | i :: is =>
    let x := a.getD i .null
    let y := b.getD i .null
    if keyEqv x y then tupleLt is a b else keyLt x y

/-- insert `x` (which preceded every element of the list in the input) before the first `y`
    that is not strictly smaller: stable insertion (equal keys keep their input order). -/
def insSorted {α} (lt : α → α → Bool) (x : α) : List α → List α
  | [] => [x]
  | y :: ys => if !lt y x then x :: y :: ys else y :: insSorted lt x ys

/-- stable sort: `list.sort(key=…)` (ascending) -/
def stableSort {α} (lt : α → α → Bool) (l : List α) : List α := l.foldr (insSorted lt) []

/-- `rows.sort(key=nullitemgetter(*indexes), reverse=reverse)`;
    `reverse=True` is the stable sort by the converse order. -/
def sortPass (idxs : List Nat) (reverse : Bool) (rows : List Row) : List Row :=
  if reverse then stableSort (fun a b => tupleLt idxs b a) rows
  else stableSort (fun a b => tupleLt idxs a b) rows

/-- `itertools.groupby(…, key=itemgetter(1))`: maximal runs of equal direction -/
def runs : List (Nat × Bool) → List (Bool × List Nat)
  | [] => []
  | (i, d) :: rest =>
    match runs rest with
    | (d', is) :: more => if d == d' then (d, i :: is) :: more else (d, [i]) :: (d', is) :: more
    | [] => [(d, [i])]

/-- the loop at `query_execute.py:289-294` -/
def orderBy (spec : List (Nat × Bool)) (rows : List Row) : List Row :=
  (runs spec.reverse).foldl (fun rs run => sortPass run.2.reverse run.1 rs) rows

/-! ### projection, DISTINCT, LIMIT -/

def project (idxs : List Nat) (row : Row) : Row := idxs.map (fun i => row.getD i .null)

/-- `uniquify`: keep first occurrences (set membership = tuple equality) -/
def uniquifyAux : List Row → List Row → List Row
  | _, [] => []
  | seen, r :: rs => if seen.any (fun s => keyEq s r) then uniquifyAux seen rs else r :: uniquifyAux (r :: seen) rs

def uniquify (rows : List Row) : List Row := uniquifyAux [] rows

/-- every ORDER BY key column holds values of one comparable class (plus NULLs); otherwise
    `list.sort` raises TypeError as soon as it compares two of them -/
def sortable (spec : List (Nat × Bool)) (rows : List Row) : Bool :=
  spec.all (fun k =>
    let classes := (rows.map (fun r => classRank (r.getD k.1 .null))).filter (· != 0)
    rows.length ≤ 1 || (classes.all (fun c => c != 4 && c == classes.headD c)))

/-- ORDER BY applied to the full rows (hidden keys included) -/
def orderedRows (q : CQuery) (rows : List Row) : List Row :=
  match q.orderSpec with | some spec => orderBy spec rows | none => rows

/-- then the projection to the visible columns -/
def projectedRows (q : CQuery) (rows : List Row) : List Row :=
  (orderedRows q rows).map (project (resultIndexes q.targets))

/-- then DISTINCT, then LIMIT -/
def finishRows (q : CQuery) (rows : List Row) : List Row :=
  let d := if q.distinct then uniquify (projectedRows q rows) else projectedRows q rows
  match q.limit with | some n => d.take n | none => d

/-- ORDER BY would compare values of different classes -/
def unsortable (q : CQuery) (rows : List Row) : Bool :=
  match q.orderSpec with | some spec => !sortable spec rows | none => false

/-- DISTINCT would hash an unhashable value -/
def unhashableDistinct (q : CQuery) (rows : List Row) : Bool :=
  q.distinct && !((projectedRows q rows).all (fun r => r.all hashable))

def postProcess (q : CQuery) (rows : List Row) : Except String (List Row) :=
  if unsortable q rows then .error "TypeError"
  else if unhashableDistinct q rows then .error "TypeError"
  else .ok (finishRows q rows)

/-- `execute_select` -/
def execSelect (q : CQuery) : Except String (List (String × Ty) × List Row) :=
  match (match q.groupIdx with
         | none => selectNonAgg q
         | some g => selectAgg q g) with
  | .error x => .error x
  | .ok rows => match postProcess q rows with
    | .error x => .error x
    | .ok rows => .ok (q.description, rows)

end Bql
