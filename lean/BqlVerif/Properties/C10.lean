/-
  C10 — Cursor fetch protocol and description conform to the DB-API.
  The concrete cursor refines the abstract cursor `(result, delivered)`.
-/
import BqlVerif.Model.Cursor
set_option autoImplicit false
namespace Bql.C10

/-- Invariant linking the cursor to the result of the last execute: what has been delivered
    so far followed by what remains is the result; `pos` counts the delivered rows;
    `rowcount` is the size of the result. -/
def Inv (result : List CRow) (c : Cursor) : Prop :=
  c.rows = some (result.drop c.pos) ∧ c.pos ≤ result.length ∧ c.rowcount = result.length

theorem execute_inv (c : Cursor) (d : List (String × String)) (res : List CRow) :
    Inv res (c.step (.execute d res)).1 := by
  simp [Cursor.step, Inv]

/-- one fetch step: the rows returned are exactly the next rows of the result, the invariant
    is kept, and the position advances by the number of rows returned -/
def FetchOk (result : List CRow) (c c' : Cursor) (out : List CRow) : Prop :=
  Inv result c' ∧ out = (result.drop c.pos).take out.length ∧ c'.pos = c.pos + out.length

theorem take_drop_facts {α : Type} (l : List α) (p n : Nat) (hp : p ≤ l.length) :
    (l.drop p).drop n = l.drop (p + ((l.drop p).take n).length) ∧
    p + ((l.drop p).take n).length ≤ l.length ∧
    (l.drop p).take n = (l.drop p).take ((l.drop p).take n).length := by
  have hlen : ((l.drop p).take n).length = min n (l.length - p) := by simp
  by_cases hn : n ≤ l.length - p
  · have : min n (l.length - p) = n := Nat.min_eq_left hn
    rw [hlen, this]
    refine ⟨by rw [List.drop_drop], by omega, rfl⟩
  · have hmin : min n (l.length - p) = l.length - p := Nat.min_eq_right (by omega)
    rw [hlen, hmin]
    refine ⟨?_, by omega, ?_⟩
    · have h1 : (l.drop p).drop n = [] := List.drop_eq_nil_of_le (by simp; omega)
      have h2 : l.drop (p + (l.length - p)) = [] := List.drop_eq_nil_of_le (by omega)
      rw [h1, h2]
    · have h1 : (l.drop p).take n = l.drop p := List.take_of_length_le (by simp; omega)
      have h2 : (l.drop p).take (l.length - p) = l.drop p := List.take_of_length_le (by simp)
      rw [h1, h2]

theorem fetchone_ok (result : List CRow) (c : Cursor) (h : Inv result c) :
    FetchOk result c c.fetchone.1 c.fetchone.2.delivered := by
  obtain ⟨hr, hp, hc⟩ := h
  unfold Cursor.fetchone
  rw [hr]
  cases hd : result.drop c.pos with
  | nil => simp [FetchOk, Inv, hr, hp, hc, CursorOut.delivered, hd]
  | cons r rest =>
    have hlt : c.pos < result.length := by
      by_cases h : c.pos < result.length
      · exact h
      · have : result.drop c.pos = [] := List.drop_eq_nil_of_le (by omega)
        rw [this] at hd; cases hd
    have hrest : rest = result.drop (c.pos + 1) := by
      have := List.drop_add_one_eq_tail_drop (l := result) (i := c.pos)
      rw [this, hd]; rfl
    refine ⟨⟨?_, ?_, hc⟩, ?_, ?_⟩
    · show some rest = some (result.drop (c.pos + 1)); rw [hrest]
    · show c.pos + 1 ≤ result.length; omega
    · show [r] = (result.drop c.pos).take 1; rw [hd]; rfl
    · rfl

theorem fetchmany_ok (result : List CRow) (c : Cursor) (size : Option Nat) (h : Inv result c) :
    FetchOk result c (c.fetchmany size).1 (c.fetchmany size).2.delivered := by
  obtain ⟨hr, hp, hc⟩ := h
  unfold Cursor.fetchmany
  rw [hr]
  obtain ⟨f1, f2, f3⟩ := take_drop_facts result c.pos (size.getD c.arraysize) hp
  refine ⟨⟨?_, f2, hc⟩, f3, rfl⟩
  show some ((result.drop c.pos).drop (size.getD c.arraysize)) = _
  rw [f1]

theorem fetchall_ok (result : List CRow) (c : Cursor) (h : Inv result c) :
    FetchOk result c c.fetchall.1 c.fetchall.2.delivered := by
  obtain ⟨hr, hp, hc⟩ := h
  unfold Cursor.fetchall
  rw [hr]
  refine ⟨⟨?_, ?_, hc⟩, ?_, rfl⟩
  · show some [] = some (result.drop (c.pos + (result.drop c.pos).length))
    have : result.drop (c.pos + (result.drop c.pos).length) = [] := List.drop_eq_nil_of_le (by simp; omega)
    rw [this]
  · show c.pos + (result.drop c.pos).length ≤ result.length
    simp; omega
  · show result.drop c.pos = (result.drop c.pos).take (result.drop c.pos).length
    rw [List.take_length]

theorem iterNext_ok (result : List CRow) (n : Nat) (c : Cursor) (h : Inv result c) :
    FetchOk result c (c.iterNext n).1 (c.iterNext n).2 := by
  induction n generalizing c with
  | zero => simp [Cursor.iterNext, FetchOk, h]
  | succ n ih =>
    have h1 := fetchone_ok result c h
    unfold Cursor.iterNext
    cases hf : c.fetchone with
    | mk c' o =>
      rw [hf] at h1
      cases o with
      | row r =>
        simp only
        have h2 := ih c' h1.1
        obtain ⟨hinv, hout, hpos⟩ := h2
        obtain ⟨_, hout1, hpos1⟩ := h1
        simp only [CursorOut.delivered, List.length_cons, List.length_nil, Nat.zero_add] at hout1 hpos1
        refine ⟨hinv, ?_, by simp only [List.length_cons]; omega⟩
        simp only [List.length_cons]
        rw [hpos1] at hout
        have hd : result.drop c.pos = r :: result.drop (c.pos + 1) := by
          have hne : result.drop c.pos ≠ [] := by
            intro hnil; rw [hnil] at hout1; simp at hout1
          cases hdd : result.drop c.pos with
          | nil => exact absurd hdd hne
          | cons x xs =>
            rw [hdd] at hout1
            simp at hout1
            have := List.drop_add_one_eq_tail_drop (l := result) (i := c.pos)
            rw [this, hdd, hout1]; rfl
        rw [hd, List.take_succ_cons, ← hout]
      | none => simpa [CursorOut.delivered] using h1
      | rows rs =>
        -- fetchone never returns a list
        unfold Cursor.fetchone at hf
        split at hf <;> simp at hf

/-- every fetch operation delivers exactly the next undelivered rows, in order -/
theorem C10_step (result : List CRow) (c : Cursor) (op : CursorOp) (h : Inv result c)
    (hop : ∀ d r, op ≠ .execute d r) :
    FetchOk result c (c.step op).1 (c.step op).2.delivered := by
  cases op with
  | execute d r => exact absurd rfl (hop d r)
  | fetchone => exact fetchone_ok result c h
  | fetchmany size => exact fetchmany_ok result c size h
  | fetchall => exact fetchall_ok result c h
  | iterNext n => exact iterNext_ok result n c h
  | setArraysize n => simpa [Cursor.step, FetchOk, Inv, CursorOut.delivered] using h

def isExecute : CursorOp → Bool | .execute _ _ => true | _ => false

theorem step_prefix (result : List CRow) (c c' : Cursor) (out : List CRow) (h : FetchOk result c c' out) :
    result.take c.pos ++ out = result.take c'.pos := by
  obtain ⟨_, hout, hpos⟩ := h
  rw [hpos, List.take_add, ← hout]

/-- **Refinement over every call sequence after an execute**: what had been delivered before,
    followed by everything the calls deliver, is the prefix of the result of length `rownumber`
    — rows come in order, none twice, none skipped — and `rowcount` stays the result size. -/
theorem C10_refines (result : List CRow) (ops : List CursorOp) (c : Cursor) (h : Inv result c)
    (hops : ∀ op ∈ ops, isExecute op = false) :
    Inv result (c.run ops).1 ∧
    result.take c.pos ++ (c.run ops).2.flatMap CursorOut.delivered = result.take (c.run ops).1.pos := by
  induction ops generalizing c with
  | nil => simp [Cursor.run, h]
  | cons op ops ih =>
    have hne : ∀ d r, op ≠ .execute d r := by
      intro d r heq
      have := hops op (List.mem_cons_self ..)
      rw [heq] at this; simp [isExecute] at this
    have h1 := C10_step result c op h hne
    have h2 := ih (c.step op).1 h1.1 (fun x hx => hops x (List.mem_cons_of_mem _ hx))
    have hp := step_prefix result c _ _ h1
    simp only [Cursor.run, List.flatMap_cons]
    refine ⟨h2.1, ?_⟩
    rw [← List.append_assoc, hp]
    exact h2.2

/-- from a fresh execute: delivered rows = the first `rownumber` rows of the result -/
theorem C10_after_execute (c0 : Cursor) (d : List (String × String)) (result : List CRow) (ops : List CursorOp)
    (hops : ∀ op ∈ ops, isExecute op = false) :
    let c' := ((c0.step (.execute d result)).1.run ops).1
    let outs := ((c0.step (.execute d result)).1.run ops).2
    outs.flatMap CursorOut.delivered = result.take c'.pos ∧ c'.rowcount = result.length ∧ c'.pos ≤ result.length := by
  have h := C10_refines result ops (c0.step (.execute d result)).1 (execute_inv c0 d result) hops
  have hp0 : (c0.step (.execute d result)).1.pos = 0 := by simp [Cursor.step]
  rw [hp0] at h
  simp only [List.take_zero, List.nil_append] at h
  exact ⟨h.2, h.1.2.2, h.1.2.1⟩

/-- exhaustion: `fetchone` returns None and the others an empty list exactly when every row
    has been delivered -/
theorem C10_exhaustion (result : List CRow) (c : Cursor) (h : Inv result c) :
    (c.fetchone.2 = .none ↔ c.pos = result.length) ∧
    (c.fetchall.2 = .rows [] ↔ c.pos = result.length) ∧
    (∀ n, 0 < n → ((c.fetchmany (some n)).2 = .rows [] ↔ c.pos = result.length)) := by
  obtain ⟨hr, hp, _⟩ := h
  refine ⟨?_, ?_, ?_⟩
  · unfold Cursor.fetchone; rw [hr]
    cases hd : result.drop c.pos with
    | nil => simp; have := List.drop_eq_nil_iff.mp hd; omega
    | cons r rest =>
      simp
      intro heq; rw [heq, List.drop_length] at hd; cases hd
  · unfold Cursor.fetchall; rw [hr]
    simp [List.drop_eq_nil_iff]; omega
  · intro n hn
    unfold Cursor.fetchmany; rw [hr]
    simp [List.take_eq_nil_iff, List.drop_eq_nil_iff]
    omega

/-- an iterator kept open across other calls: while it is live, `next()` delivers exactly the next row of the result
    of the LAST execute at the cursor's current position (whatever was fetched or executed since the iterator was
    obtained) and keeps the invariant; at the end of the result it delivers nothing and ends -/
theorem C10_held_iterator (result : List CRow) (c : Cursor) (h : Inv result c) :
    FetchOk result c (c.heldNext false).1 (c.heldNext false).2.2 ∧
    ((c.heldNext false).2.1 = true ↔ c.pos = result.length) ∧
    ((c.heldNext false).2.2 = [] ↔ c.pos = result.length) := by
  have hf := fetchone_ok result c h
  have hx := (C10_exhaustion result c h).1
  unfold Cursor.heldNext
  simp only [Bool.false_eq_true, if_false]
  cases hfo : c.fetchone with
  | mk c' o =>
    rw [hfo] at hf hx
    cases o with
    | none => simp only [CursorOut.delivered] at hf; exact ⟨hf, by simpa using hx, by simpa using hx⟩
    | row r =>
      simp only [CursorOut.delivered] at hf
      refine ⟨hf, ?_, ?_⟩ <;> simp at hx ⊢ <;> exact hx
    | rows rs =>
      -- fetchone never answers with a list
      exfalso
      unfold Cursor.fetchone at hfo
      split at hfo <;> simp at hfo

/-- an iterator that has ended stays ended: it delivers nothing and does not touch the cursor, also after another
    execute has given the cursor new rows -/
theorem C10_held_iterator_ended (c : Cursor) : c.heldNext true = (c, true, []) := rfl

/-- a live kept iterator behaves like the first step of a fresh iteration -/
theorem C10_held_iterator_fresh (c : Cursor) :
    ((c.heldNext false).1, (c.heldNext false).2.2) = c.iterNext 1 := by
  unfold Cursor.heldNext Cursor.iterNext
  simp only [Bool.false_eq_true, if_false]
  cases hfo : c.fetchone with
  | mk c' o => cases o <;> simp [Cursor.iterNext]

/-- before any execute: fetchone is None, the others are empty, rowcount is -1, no description -/
theorem C10_before_execute :
    let c : Cursor := {}
    c.fetchone.2 = .none ∧ (c.fetchmany none).2 = .rows [] ∧ c.fetchall.2 = .rows [] ∧
    c.rowcount = -1 ∧ c.desc = none ∧ (c.iterNext 3).2 = [] := by
  simp [Cursor.fetchone, Cursor.fetchmany, Cursor.fetchall, Cursor.iterNext]

/-- a new execute resets position, row count and description -/
theorem C10_execute_resets (c : Cursor) (d : List (String × String)) (res : List CRow) :
    let c' := (c.step (.execute d res)).1
    c'.pos = 0 ∧ c'.rowcount = res.length ∧ c'.desc = some d ∧ c'.rows = some res := by
  simp [Cursor.step]

/-! ### description items -/

theorem C10_column_len (n t : String) : (columnItems n t).length = 7 := rfl

theorem C10_column_index (n t : String) :
    columnGet n t 0 = some (.name n) ∧ columnGet n t 1 = some (.typeCode t) ∧
    (∀ i : Int, 2 ≤ i → i < 7 → columnGet n t i = some .nothing) ∧
    columnGet n t (-7) = some (.name n) ∧ columnGet n t 7 = none ∧ columnGet n t (-8) = none := by
  refine ⟨rfl, rfl, ?_, rfl, rfl, rfl⟩
  intro i h1 h2
  have : i = 2 ∨ i = 3 ∨ i = 4 ∨ i = 5 ∨ i = 6 := by omega
  rcases this with rfl | rfl | rfl | rfl | rfl <;> rfl

/-- slicing agrees with indexing: `column[a:b]` is the list of items at a..b-1 -/
theorem C10_column_slice_full (n t : String) : columnSlice n t none none = columnItems n t := rfl

theorem C10_column_slice_prefix (n t : String) : columnSlice n t (some 0) (some 2) = [.name n, .typeCode t] := rfl

theorem C10_column_slice_len (n t : String) (a b : Int) (ha : 0 ≤ a) (hab : a ≤ b) (hb : b ≤ 7) :
    (columnSlice n t (some a) (some b)).length = (b - a).toNat := by
  simp only [columnSlice, Option.getD_some, List.length_take, List.length_drop, C10_column_len]
  have h1 : (if a < 0 then max (a + 7) 0 else min a 7) = a := by
    rw [if_neg (by omega)]; omega
  have h2 : (if b < 0 then max (b + 7) 0 else min b 7) = b := by
    rw [if_neg (by omega)]; omega
  rw [h1, h2]
  omega

/-! ### several cursors on one connection -/

theorem run_fst_cons (c : Cursor) (op : CursorOp) (ops : List CursorOp) : (c.run (op :: ops)).1 = ((c.step op).1.run ops).1 := rfl

/-- **Frame**: whatever is called on the other cursors of the connection, and in whatever
    interleaving, cursor `j` ends in the state its own calls alone lead to (hence delivers the
    same rows): cursors created before or after others do not influence each other. -/
theorem C10_frame (ops : List (Nat × CursorOp)) (cs : List Cursor) (j : Nat) (c : Cursor) (hj : cs[j]? = some c) :
    (runMulti cs ops)[j]? = some (c.run ((ops.filter (fun p => p.1 == j)).map (·.2))).1 := by
  induction ops generalizing cs c with
  | nil => simpa [runMulti, Cursor.run] using hj
  | cons p rest ih =>
    obtain ⟨i, op⟩ := p
    simp only [runMulti, List.filter_cons]
    by_cases hij : i = j
    · subst hij
      have : (stepAt cs i op)[i]? = some (c.step op).1 := by
        have hlt : i < cs.length := by
          rcases Nat.lt_or_ge i cs.length with h | h
          · exact h
          · rw [List.getElem?_eq_none h] at hj; cases hj
        have hc : cs[i] = c := by
          have := List.getElem?_eq_getElem hlt
          rw [this] at hj; exact Option.some.inj hj
        simp [stepAt, hlt, hc]
      rw [ih _ _ this]
      simp [run_fst_cons]
    · have : (stepAt cs i op)[j]? = some c := by
        unfold stepAt
        cases hci : cs[i]? with
        | none => simpa using hj
        | some ci => simp only []; rw [List.getElem?_set_ne hij]; exact hj
      rw [ih _ _ this]
      have hne : (i == j) = false := by simpa using hij
      simp [hne]

/-- **executemany** leaves the cursor as the execute of the LAST parameter set leaves it - rowcount, rownumber,
    description and the rows still to be fetched are those of that result alone - and changes nothing when there is no
    parameter set -/
theorem C10_executemany (c : Cursor) (results : List (List (String × String) × List CRow)) :
    c.executemany results =
      match results.getLast? with
      | none => c
      | some r => { c with rows := some r.2, rowcount := r.2.length, pos := 0, desc := some r.1 } := by
  unfold Cursor.executemany
  induction results generalizing c with
  | nil => rfl
  | cons r rest ih =>
    simp only [List.foldl_cons]
    rw [ih]
    cases rest with
    | nil => simp [Cursor.step]
    | cons r2 rest2 =>
      simp only [List.getLast?_cons_cons]
      cases h : (r2 :: rest2).getLast? with
      | none => simp at h
      | some l => simp [Cursor.step]

/-! ### non-vacuity -/
example : Inv [[.int 1], [.int 2], [.int 3]] (({} : Cursor).step (.execute [("x", "int")] [[.int 1], [.int 2], [.int 3]])).1 :=
  execute_inv _ _ _

end Bql.C10
